(* C16 - model of the network recording path of uftrace:
     utils/utils.c   read_all, write_all, writev_all           (full read/write loops)
     cmds/recv.c     send_trace_* (sender framing), handle_client_sock + recv_trace_*
                     (receiver framing), write_client_file (append per file), client list
     cmds/record.c   write_buffer / write_buffer_file and the send_*_file sequence
                     (what the recorder writes locally vs what it sends)

   Bytes are [N]; a transport is what successive read() calls on the socket see
   (arbitrary segmentation, EINTR); a write schedule is what successive write()/writev()
   calls return (short counts, EINTR, errors).  NO proofs in this file.               *)
From Coq Require Import String Ascii.
From Coq Require Import NArith ZArith List Bool Arith.
Import ListNotations.
Require Import UV.Gen.Consts.
Local Open Scope N_scope.

Definition bytes := list N.

Fixpoint list_eqb (a b : bytes) : bool :=
  match a, b with
  | [], [] => true
  | x :: a', y :: b' => (x =? y) && list_eqb a' b'
  | _, _ => false
  end.

Definition str (s : string) : bytes := map N_of_ascii (list_ascii_of_string s).


(* ------------------------------------------------------------------ read side *)
(* one element per read() call that the kernel answers *)
Inductive rev :=
| RData (c : bytes)     (* bytes available at that moment (read returns min(size, |c|));
                           an empty chunk is read() = 0, i.e. end of file *)
| RIntr                 (* -1 / EINTR *)
| RErr.                 (* -1 / other errno *)
Definition transport := list rev.

Fixpoint bytes_of (t : transport) : bytes :=
  match t with
  | [] => []
  | RData c :: t' => c ++ bytes_of t'
  | _ :: t' => bytes_of t'
  end.

(* utils/utils.c:37 read_all(fd, buf, size): None = return -1 *)
Fixpoint read_all (t : transport) (n : nat) {struct t} : option (bytes * transport) :=
  match n with
  | O => Some ([], t)
  | S _ =>
    match t with
    | [] => None                                  (* read() = 0 *)
    | RIntr :: t' => read_all t' n                (* continue *)
    | RErr :: _ => None
    | RData [] :: _ => None                       (* read() = 0 *)
    | RData c :: t' =>
        if (length c <=? n)%nat
        then match read_all t' (n - length c) with
             | Some (r, t'') => Some (c ++ r, t'')
             | None => None
             end
        else Some (firstn n c, RData (skipn n c) :: t')
    end
  end.

(* a transport without errors / end-of-file marks *)
Definition good_ev (e : rev) : bool :=
  match e with RData [] => false | RErr => false | _ => true end.
Definition good (t : transport) : bool := forallb good_ev t.

(* ------------------------------------------------------------------ write side *)
Inductive wev :=
| WAccept (k : nat)     (* the kernel takes at most k bytes of this call *)
| WIntr                 (* -1 / EINTR *)
| WErr.                 (* -1 / other errno *)

Inductive wstatus := WDone | WFail | WBlocked | WCrash.
(* fragments: the bytes each successful write()/writev() call put on the wire, in order *)
Record wres := { w_status : wstatus; w_frags : list bytes; w_rest : list wev }.

Definition total (iov : list bytes) : nat := length (concat iov).

(* the iovec adjustment after a short count [ret] (utils/utils.c:126-137):
     while (ret > (int)iov->iov_len) { ret -= iov->iov_len; count--; iov++; }
     iov->iov_base += ret; iov->iov_len -= ret;
   None = the loop walks past the array ("invalid iovec count?") *)
Fixpoint advance (ret : nat) (iov : list bytes) : option (list bytes) :=
  match iov with
  | [] => None
  | v :: rest => if (length v <? ret)%nat then advance (ret - length v) rest
                 else Some (skipn ret v :: rest)
  end.

(* utils/utils.c:107 writev_all; [size] is the C variable of the same name *)
Fixpoint writev_loop (sched : list wev) (iov : list bytes) (size : nat) (frags : list bytes) : wres :=
  match size with
  | O => {| w_status := WDone; w_frags := frags; w_rest := sched |}
  | S _ =>
    match sched with
    | [] => {| w_status := WBlocked; w_frags := frags; w_rest := [] |}
    | WIntr :: s => writev_loop s iov size frags
    | WErr :: s => {| w_status := WFail; w_frags := frags; w_rest := s |}
    | WAccept k :: s =>
        let ret := Nat.min k (total iov) in
        let frags' := frags ++ [firstn ret (concat iov)] in
        if (size - ret =? 0)%nat then {| w_status := WDone; w_frags := frags'; w_rest := s |}
        else match advance ret iov with
             | None => {| w_status := WCrash; w_frags := frags'; w_rest := s |}
             | Some iov' => writev_loop s iov' (size - ret) frags'
             end
    end
  end.
Definition writev_all (sched : list wev) (iov : list bytes) : wres :=
  writev_loop sched iov (total iov) [].

(* utils/utils.c:90 write_all *)
Fixpoint write_loop (sched : list wev) (buf : bytes) (frags : list bytes) : wres :=
  match buf with
  | [] => {| w_status := WDone; w_frags := frags; w_rest := sched |}
  | _ :: _ =>
    match sched with
    | [] => {| w_status := WBlocked; w_frags := frags; w_rest := [] |}
    | WIntr :: s => write_loop s buf frags
    | WErr :: s => {| w_status := WFail; w_frags := frags; w_rest := s |}
    | WAccept k :: s =>
        let ret := Nat.min k (length buf) in
        write_loop s (skipn ret buf) (frags ++ [firstn ret buf])
    end
  end.
Definition write_all (sched : list wev) (buf : bytes) : wres := write_loop sched buf [].

(* ------------------------------------------------------------------ numbers on the wire *)
Definition be16 (n : N) : bytes := [(n / 256) mod 256; n mod 256].
Definition be32 (n : N) : bytes :=
  [(n / 16777216) mod 256; (n / 65536) mod 256; (n / 256) mod 256; n mod 256].
(* memory image read from the socket, then ntohs/ntohl: big-endian value of the bytes *)
Definition dec_be (l : bytes) : N := fold_left (fun a b => a * 256 + b) l 0.

(* struct uftrace_file_header: send_trace_info/recv_trace_info byte-swap five fields in place.
   On the (little-endian) memory image a swap is the reversal of the field's bytes. *)
Definition rev_range (off len : N) (l : bytes) : bytes :=
  let o := N.to_nat off in let n := N.to_nat len in
  firstn o l ++ List.rev (firstn n (skipn o l)) ++ skipn (o + n) l.
Definition swap_hdr (h : bytes) : bytes :=
  rev_range offsetof_uftrace_file_header_max_stack 2
  (rev_range offsetof_uftrace_file_header_info_mask 8
  (rev_range offsetof_uftrace_file_header_feat_mask 8
  (rev_range offsetof_uftrace_file_header_header_size 2
  (rev_range offsetof_uftrace_file_header_version 4 h)))).
Definition HDR : nat := N.to_nat sizeof_uftrace_file_header.

(* ------------------------------------------------------------------ messages (sender) *)
Inductive msg :=
| MDir (name : bytes)                       (* send_trace_dir_name *)
| MData (tid : N) (d : bytes)               (* send_trace_data *)
| MKernel (cpu : N) (d : bytes)             (* send_trace_kernel_data *)
| MPerf (cpu : N) (d : bytes)               (* send_trace_perf_data *)
| MMeta (fname : bytes) (d : bytes)         (* send_trace_metadata: d = content of the local file *)
| MInfo (hdr : bytes) (info : bytes)        (* send_trace_info: hdr = first 40 bytes of local `info` *)
| MEnd.                                     (* send_trace_end *)

Definition len_of (b : bytes) : N := N.of_nat (length b).
Definition msg_hdr (ty len : N) : bytes := be16 UFTRACE_MSG_MAGIC ++ be16 ty ++ be32 len.

(* the iovec array each send_trace_* hands to writev_all *)
Definition iov_of (m : msg) : list bytes :=
  match m with
  | MDir name => [msg_hdr UFTRACE_MSG_SEND_DIR_NAME (len_of name); name]
  | MData tid d => [msg_hdr UFTRACE_MSG_SEND_DATA (4 + len_of d); be32 tid; d]
  | MKernel cpu d => [msg_hdr UFTRACE_MSG_SEND_KERNEL_DATA (4 + len_of d); be32 cpu; d]
  | MPerf cpu d => [msg_hdr UFTRACE_MSG_SEND_PERF_DATA (4 + len_of d); be32 cpu; d]
  | MMeta f d => [msg_hdr UFTRACE_MSG_SEND_META_DATA (4 + len_of f + len_of d); be32 (len_of f); f; d]
  | MInfo h i => [msg_hdr UFTRACE_MSG_SEND_INFO (sizeof_uftrace_file_header + len_of i); swap_hdr h; i]
  | MEnd => [msg_hdr UFTRACE_MSG_SEND_END 0]
  end.
Definition enc (m : msg) : bytes := concat (iov_of m).

(* one send_trace_* call under a write schedule (send_trace_end uses write_all) *)
Definition send_msg (sched : list wev) (m : msg) : wres :=
  match m with
  | MEnd => write_all sched (enc m)
  | _ => writev_all sched (iov_of m)
  end.
(* a writer sending messages one after the other; stops at the first failure (pr_err) *)
Fixpoint send_all (sched : list wev) (ms : list msg) : wstatus * list bytes :=
  match ms with
  | [] => (WDone, [])
  | m :: r =>
      let w := send_msg sched m in
      match w_status w with
      | WDone => let '(st, fr) := send_all (w_rest w) r in (st, w_frags w ++ fr)
      | st => (st, w_frags w)
      end
  end.

(* ------------------------------------------------------------------ receiver *)
Inductive action :=
| AMkdir (d : bytes)                 (* recv_trace_dir_name: register client, create_directory *)
| AAppend (f : bytes) (data : bytes) (* write_client_file(client, f, ...) *)
| AEnd                               (* recv_trace_end *)
| ANone.                             (* unknown type: header consumed, nothing else *)
Inductive hres := Died | Handled (a : action) (t : transport).

Fixpoint cstr (b : bytes) : bytes :=           (* C string semantics of a received name *)
  match b with
  | [] => []
  | x :: r => if x =? 0 then [] else x :: cstr r
  end.

Fixpoint dec_digits (fuel : nat) (n : N) (acc : bytes) : bytes :=
  match fuel with
  | O => acc
  | S f => let acc' := (48 + n mod 10) :: acc in
           if n / 10 =? 0 then acc' else dec_digits f (n / 10) acc'
  end.
Definition dec (n : N) : bytes := dec_digits 20 n [].
(* "%d" of an int32_t given as its unsigned 32-bit image *)
Definition int32_str (u : N) : bytes :=
  let u := u mod 4294967296 in
  if u <? 2147483648 then dec u else 45 :: dec (4294967296 - u).
Definition dat_name (tid : N) : bytes := int32_str tid ++ str ".dat".
Definition kernel_name (cpu : N) : bytes := str "kernel-cpu" ++ int32_str cpu ++ str ".dat".
Definition perf_name (cpu : N) : bytes := str "perf-cpu" ++ int32_str cpu ++ str ".dat".
Definition n_info : bytes := str "info".
Definition n_default_opts : bytes := str "default.opts".

Definition INT_LIMIT : N := 2147483648.       (* msg.len is passed as `int len` *)

(* the connection ends inside the message (read_all fails): the code as found exits ("recv ... failed"); since
   fix e00936f only this client is dropped: recv_trace_end(), the rest of its stream is never read *)
Definition lost (fx : bool) : hres := if fx then Handled AEnd [] else Died.

(* recv_trace_data / _kernel_data / _perf_data *)
Definition recv_numbered (fx : bool) (mk : N -> bytes) (len : N) (t1 : transport) : hres :=
  match read_all t1 4 with
  | None => lost fx
  | Some (x, t2) =>
      if (INT_LIMIT <=? len) || (len <? 4) then Died      (* xmalloc of a negative size *)
      else match read_all t2 (N.to_nat (len - 4)) with
           | None => lost fx
           | Some (d, t3) => Handled (AAppend (mk (dec_be x)) d) t3
           end
  end.

(* a file name that names a file IN the client's directory: not empty, no '/', not "." or ".." - everything else
   (leading dots, several dots, blanks ...) is a good name.  Since fix (recv: do not follow a path in the name of a
   metadata file) a metadata message with another name is read and ignored; the code as found opened the path. *)
Definition valid_name (f : bytes) : bool :=
  negb (list_eqb f []) && negb (existsb (N.eqb 47) f) && negb (list_eqb f [46]) && negb (list_eqb f [46; 46]).

Definition recv_metadata (fx : bool) (len : N) (t1 : transport) : hres :=
  match read_all t1 4 with
  | None => lost fx
  | Some (x, t2) =>
      let namelen := dec_be x in
      if (INT_LIMIT <=? len) || (INT_LIMIT <=? namelen) || (len <? namelen) then Died
      else match read_all t2 (N.to_nat namelen) with
           | None => lost fx
           | Some (f, t3) =>
               if len <? 4 + namelen then Died
               else match read_all t3 (N.to_nat (len - 4 - namelen)) with
                    | None => lost fx
                    | Some (d, t4) => if fx && negb (valid_name (cstr f)) then Handled ANone t4
                                      else Handled (AAppend (cstr f) d) t4
                    end
           end
  end.

Definition recv_info (fx : bool) (len : N) (t1 : transport) : hres :=
  match read_all t1 HDR with
  | None => lost fx
  | Some (h, t2) =>
      if (INT_LIMIT <=? len) || (len <? sizeof_uftrace_file_header) then Died
      else match read_all t2 (N.to_nat (len - sizeof_uftrace_file_header)) with
           | None => lost fx
           | Some (i, t3) => Handled (AAppend n_info (swap_hdr h ++ i)) t3
           end
  end.

Definition recv_dir_name (fx : bool) (len : N) (t1 : transport) : hres :=
  if INT_LIMIT <=? len then Died
  else match read_all t1 (N.to_nat len) with
       | None => lost fx
       | Some (name, t2) => Handled (AMkdir (cstr name)) t2
       end.

Inductive kind := KDir | KData | KKernel | KPerf | KInfo | KMeta | KEnd | KOther.
Definition classify (ty : N) : kind :=
  if ty =? UFTRACE_MSG_SEND_DIR_NAME then KDir
  else if ty =? UFTRACE_MSG_SEND_DATA then KData
  else if ty =? UFTRACE_MSG_SEND_KERNEL_DATA then KKernel
  else if ty =? UFTRACE_MSG_SEND_PERF_DATA then KPerf
  else if ty =? UFTRACE_MSG_SEND_INFO then KInfo
  else if ty =? UFTRACE_MSG_SEND_META_DATA then KMeta
  else if ty =? UFTRACE_MSG_SEND_END then KEnd
  else KOther.

Definition MSGHDR : nat := N.to_nat sizeof_uftrace_msg.

(* cmds/recv.c:626 handle_client_sock for an EPOLLIN event: exactly one message.
   (find_client() == NULL is the [None] case of [apply] below: the server dies either way.) *)
Definition handle_client_sock (fx : bool) (t : transport) : hres :=
  match read_all t MSGHDR with
  | None => lost fx                                            (* "message recv failed" *)
  | Some (h, t1) =>
      let magic := dec_be (firstn 2 h) in
      let ty := dec_be (firstn 2 (skipn 2 h)) in
      let len := dec_be (skipn 4 h) in
      if negb (magic =? UFTRACE_MSG_MAGIC) then Died        (* "invalid message" *)
      else match classify ty with
           | KDir => recv_dir_name fx len t1
           | KData => recv_numbered fx dat_name len t1
           | KKernel => recv_numbered fx kernel_name len t1
           | KPerf => recv_numbered fx perf_name len t1
           | KInfo => recv_info fx len t1
           | KMeta => recv_metadata fx len t1
           | KEnd => Handled AEnd t1
           | KOther => Handled ANone t1
           end
  end.

(* ------------------------------------------------------------------ server state *)
Definition dirent := list (bytes * bytes).            (* file name -> content, in creation order *)
Definition fsys := bytes -> option dirent.            (* the server's working directory *)
Definition fs_empty : fsys := fun _ => None.
Definition fs_set (d : bytes) (v : option dirent) (fs : fsys) : fsys :=
  fun x => if list_eqb x d then v else fs x.

Fixpoint flookup (f : bytes) (es : dirent) : option bytes :=
  match es with
  | [] => None
  | (g, c) :: r => if list_eqb f g then Some c else flookup f r
  end.
(* open(O_WRONLY|O_APPEND|O_CREAT) ; writev_all ; close *)
Fixpoint dappend (f data : bytes) (es : dirent) : dirent :=
  match es with
  | [] => [(f, data)]
  | (g, c) :: r => if list_eqb f g then (g, c ++ data) :: r else (g, c) :: dappend f data r
  end.

(* utils/utils.c is_uftrace_directory / can_remove_directory on a flat directory *)
Definition magic8 : bytes := UFTRACE_MAGIC_STR ++ [0].
Definition sig_of (c : bytes) : bytes :=
  firstn (N.to_nat UFTRACE_MAGIC_LEN) (c ++ repeat 0 (N.to_nat UFTRACE_MAGIC_LEN)).
Definition can_remove (es : dirent) : bool :=
  match es with
  | [] => true
  | _ => match flookup n_info es with
         | Some c => list_eqb (sig_of c) magic8
         | None => match flookup n_default_opts es with Some _ => true | None => false end
         end
  end.
Definition old_of (d : bytes) : bytes := d ++ str ".old".
Definition fresh_dir : dirent := [(n_default_opts, [])].     (* recv has no default options *)

(* utils/utils.c:292 create_directory(dirname) (return value ignored by recv) *)
Definition create_directory (d : bytes) (fs : fsys) : fsys :=
  match fs d with
  | None => fs_set d (Some fresh_dir) fs
  | Some files =>
      if can_remove files then
        match fs (old_of d) with
        | None => fs_set d (Some fresh_dir) (fs_set (old_of d) (Some files) fs)
        | Some ofiles =>
            if can_remove ofiles
            then fs_set d (Some fresh_dir) (fs_set (old_of d) (Some files) fs)
            else fs                                   (* rename: ENOTEMPTY *)
        end
      else fs                                         (* mkdir: EEXIST *)
  end.

Record server := { clients : list (N * bytes); fs : fsys }.

Fixpoint find_client (k : N) (cl : list (N * bytes)) : option bytes :=
  match cl with
  | [] => None
  | (s, d) :: r => if s =? k then Some d else find_client k r
  end.
Fixpoint del_client (k : N) (cl : list (N * bytes)) : list (N * bytes) :=
  match cl with
  | [] => []
  | (s, d) :: r => if s =? k then r else (s, d) :: del_client k r
  end.

(* cmds/recv.c recv_trace_dir_name: the directory name is chosen by the client; a name that a connected client is
   writing to - or whose rotation (create_directory renames NAME to NAME.old after removing NAME.old) would remove
   a connected client's directory - is replaced by NAME.1, NAME.2, ... (fix: commit; [fx = false] is the code as
   found, which used the name as given). *)
(* normalize_dirname (fix 0e27370): lexical normalisation of the announced name - empty and "." components go,
   ".." removes the component before it (never a leading ".." or the root), "" becomes "." *)
Fixpoint comps (b cur : bytes) : list bytes :=
  match b with
  | [] => [cur]
  | x :: r => if x =? 47 then cur :: comps r [] else comps r (cur ++ [x])
  end.
Definition is_dotdot (c : bytes) : bool := list_eqb c [46; 46].
Fixpoint clean (cs stack : list bytes) : list bytes :=           (* stack: last component first *)
  match cs with
  | [] => stack
  | c :: r =>
      if list_eqb c [] || list_eqb c [46] then clean r stack
      else if is_dotdot c then
        match stack with
        | top :: st => if is_dotdot top then clean r (c :: stack) else clean r st
        | [] => clean r (c :: stack)
        end
      else clean r (c :: stack)
  end.
Fixpoint join_slash (cs : list bytes) : bytes :=
  match cs with
  | [] => []
  | [c] => c
  | c :: r => c ++ 47 :: join_slash r
  end.
Definition norm (d : bytes) : bytes :=
  let absolute := match d with 47 :: _ => true | _ => false end in
  let body := join_slash (List.rev (clean (comps d []) [])) in
  if absolute then 47 :: body else match body with [] => [46] | _ => body end.

Definition in_use (cand : bytes) (cl : list (N * bytes)) : bool :=
  existsb (fun e => list_eqb (snd e) cand || list_eqb (snd e) (old_of cand)) cl.
Definition cand_name (d : bytes) (i : N) : bytes := if i =? 0 then d else d ++ str "." ++ dec i.
(* the C loop has no bound; every client blocks at most two candidates, so 2n+2 tries are enough - the model
   gives up (None) beyond that, which no run can reach *)
Fixpoint pick_name (fuel : nat) (d : bytes) (i : N) (cl : list (N * bytes)) : option bytes :=
  match fuel with
  | O => None
  | S f => if in_use (cand_name d i) cl then pick_name f d (i + 1) cl else Some (cand_name d i)
  end.
Definition mkdir_name (fx : bool) (d : bytes) (cl : list (N * bytes)) : option bytes :=
  if fx then pick_name (2 * length cl + 2) (norm d) 0 cl else Some d.

(* effect of one handled message of socket k; None = pr_err (the server exits) *)
Definition apply (fx : bool) (k : N) (a : action) (s : server) : option server :=
  match a with
  | AMkdir d =>
      match mkdir_name fx d (clients s) with
      | None => None
      | Some c => Some {| clients := (k, c) :: clients s; fs := create_directory c (fs s) |}
      end
  | AAppend f data =>
      match find_client k (clients s) with
      | None => None                                   (* "no client on this socket" *)
      | Some d =>
          match fs s d with
          | None => None                               (* "file open failed" *)
          | Some files => Some {| clients := clients s; fs := fs_set d (Some (dappend f data files)) (fs s) |}
          end
      end
  | AEnd => Some {| clients := del_client k (clients s); fs := fs s |}
  | ANone => Some s
  end.

(* what a well-formed message makes the server do *)
Definition action_of (m : msg) : action :=
  match m with
  | MDir name => AMkdir name
  | MData tid d => AAppend (dat_name tid) d
  | MKernel cpu d => AAppend (kernel_name cpu) d
  | MPerf cpu d => AAppend (perf_name cpu) d
  | MMeta f d => AAppend f d
  | MInfo h i => AAppend n_info (h ++ i)
  | MEnd => AEnd
  end.

(* abstract run: events (socket, message) in the order the server handles them *)
Fixpoint run (fx : bool) (evs : list (N * msg)) (s : server) : option server :=
  match evs with
  | [] => Some s
  | (k, m) :: r => match apply fx k (action_of m) s with
                   | None => None
                   | Some s' => run fx r s'
                   end
  end.

(* concrete run: [order] = the socket epoll reports at each step; every socket has its transport *)
Definition tmap := N -> transport.
Definition tm_set (k : N) (t : transport) (tm : tmap) : tmap := fun x => if x =? k then t else tm x.
Fixpoint serve (fx : bool) (order : list N) (tm : tmap) (s : server) : option (server * tmap) :=
  match order with
  | [] => Some (s, tm)
  | k :: r =>
      match handle_client_sock fx (tm k) with
      | Died => None
      | Handled a t' => match apply fx k a s with
                        | None => None
                        | Some s' => serve fx r (tm_set k t' tm) s'
                        end
      end
  end.

(* the events of the epoll loop including connection reset and accept():
     WIn k     EPOLLIN on socket k: one message (handle_client_sock)
     WHup k    EPOLLERR|EPOLLHUP on socket k (cmds/recv.c:631): recv_trace_end() - the client entry of
               k is removed and the socket closed, nothing is read
     WNew k t  accept() returned k (the lowest free descriptor - possibly the number of a socket closed
               before) for a new connection whose stream is t *)
Inductive wake := WIn (k : N) | WHup (k : N) | WNew (k : N) (t : transport).
Fixpoint serve_w (fx : bool) (ws : list wake) (tm : tmap) (s : server) : option (server * tmap) :=
  match ws with
  | [] => Some (s, tm)
  | WIn k :: r =>
      match handle_client_sock fx (tm k) with
      | Died => None
      | Handled a t' => match apply fx k a s with
                        | None => None
                        | Some s' => serve_w fx r (tm_set k t' tm) s'
                        end
      end
  | WHup k :: r => match apply fx k AEnd s with
                   | None => None
                   | Some s' => serve_w fx r (tm_set k [] tm) s'
                   end
  | WNew k t :: r => serve_w fx r (tm_set k t tm) s
  end.

(* ------------------------------------------------------------------ local recording *)
(* what cmds/record.c writes into its own directory for the same run *)
Definition local_write (m : msg) (es : dirent) : dirent :=
  match m with
  | MDir _ => es
  | MData tid d => dappend (dat_name tid) d es            (* write_buffer_file *)
  | MKernel cpu d => dappend (kernel_name cpu) d es
  | MPerf cpu d => dappend (perf_name cpu) d es
  | MMeta f d => dappend f d es                           (* the file the sender read *)
  | MInfo h i => dappend n_info (h ++ i) es
  | MEnd => es
  end.
Definition local_dir (body : list msg) : dirent := fold_left (fun es m => local_write m es) body fresh_dir.

(* ------------------------------------------------------------------ what `record --host` sends at the end *)
(* cmds/record.c write_symbol_files(), `if (opts->host)`: send_task_file, send_map_files, send_sym_files,
   send_dbg_files, send_info_file - the file list is a FUNCTION OF THE LOCAL DIRECTORY (scandir with the
   filters filter_map / filter_sym / filter_dbg, alphasort), not of the options.
   (kernel_header/kallsyms with -k, events.txt if present with -E, the log file: not modelled here.) *)
Definition n_task : bytes := str "task.txt".
Definition last4 (n : bytes) : bytes := skipn (length n - 4) n.
(* !strncmp(suf, name + len - 4, 4); names shorter than 4 bytes never match (the C reads before the name) *)
Definition has_suffix4 (suf n : bytes) : bool := (4 <=? length n)%nat && list_eqb (last4 n) suf.
Definition is_map_name (n : bytes) : bool := list_eqb (firstn 4 n) (str "sid-") && has_suffix4 (str ".map") n.
Definition is_sym_name (n : bytes) : bool := has_suffix4 (str ".sym") n.
Definition is_dbg_name (n : bytes) : bool := has_suffix4 (str ".dbg") n.
Definition sel (p : bytes -> bool) (L : dirent) : dirent := filter (fun e => p (fst e)) L.
Definition msg_of_file (e : bytes * bytes) : msg := MMeta (fst e) (snd e).
Definition msg_of_info (e : bytes * bytes) : msg := MInfo (firstn HDR (snd e)) (skipn HDR (snd e)).
(* L: the metadata files of the local directory (name -> content), in alphasort order *)
Definition meta_msgs (L : dirent) : list msg :=
  map msg_of_file (sel (list_eqb n_task) L) ++
  map msg_of_file (sel is_map_name L) ++
  map msg_of_file (sel is_sym_name L) ++
  map msg_of_file (sel is_dbg_name L) ++
  map msg_of_info (sel (list_eqb n_info) L).
(* the same with a file sent in several pieces (the receiver appends every piece to the file of that name):
   [chunk c] = the payloads of the messages for a file with content c.  The code sends one message per file. *)
Definition msgs_of_file (chunk : bytes -> list bytes) (e : bytes * bytes) : list msg := map (MMeta (fst e)) (chunk (snd e)).
Definition meta_msgs_c (chunk : bytes -> list bytes) (L : dirent) : list msg :=
  flat_map (msgs_of_file chunk) (sel (list_eqb n_task) L) ++
  flat_map (msgs_of_file chunk) (sel is_map_name L) ++
  flat_map (msgs_of_file chunk) (sel is_sym_name L) ++
  flat_map (msgs_of_file chunk) (sel is_dbg_name L) ++
  map msg_of_info (sel (list_eqb n_info) L).
Definition whole (c : bytes) : list bytes := [c].          (* cmds/recv.c send_trace_metadata: iov[3] = the whole file *)
(* pieces of at most n bytes, at least one piece (an example of another chunking) *)
Fixpoint pieces (fuel n : nat) (c : bytes) : list bytes :=
  match fuel with
  | O => [c]
  | S f => if (length c <=? n)%nat then [c] else firstn n c :: pieces f n (skipn n c)
  end.

(* the names the sequence above covers *)
Definition sent_name (n : bytes) : bool :=
  list_eqb n_task n || is_map_name n || is_sym_name n || is_dbg_name n || list_eqb n_info n.
Definition is_data (m : msg) : bool := match m with MData _ _ | MKernel _ _ | MPerf _ _ => true | _ => false end.

(* ------------------------------------------------------------------ well-formedness *)
Definition nonul (b : bytes) : bool := forallb (fun x => negb (x =? 0)) b.
Definition wf_msg (m : msg) : bool :=
  match m with
  | MDir name => nonul name && (len_of name <? INT_LIMIT)
  | MData x d | MKernel x d | MPerf x d => (x <? 4294967296) && (4 + len_of d <? INT_LIMIT)
  | MMeta f d => nonul f && valid_name f && (4 + len_of f + len_of d <? INT_LIMIT)
  | MInfo h i => (length h =? HDR)%nat && (sizeof_uftrace_file_header + len_of i <? INT_LIMIT)
  | MEnd => true
  end.
Definition is_dir_msg (m : msg) : bool := match m with MDir _ => true | _ => false end.

(* ------------------------------------------------------------------ executable checkers *)
Fixpoint sub_dir (a b : dirent) : bool :=         (* every file of a except default.opts is in b, equal *)
  match a with
  | [] => true
  | (f, c) :: r =>
      (if list_eqb f n_default_opts then true
       else match flookup f b with Some c' => list_eqb c c' | None => false end) && sub_dir r b
  end.
(* PROPERTY CHECKER: received directory == local directory (default.opts aside) *)
Definition same_dir (loc rcv : dirent) : bool := sub_dir loc rcv && sub_dir rcv loc.
Definition same_dir_opt (loc : dirent) (rcv : option dirent) : bool :=
  match rcv with Some r => same_dir loc r | None => false end.
Definition dir_eqb (a b : dirent) : bool :=
  (length a =? length b)%nat &&
  forallb (fun e => match flookup (fst e) b with Some c => list_eqb (snd e) c | None => false end) a.
Definition odir_eqb (a b : option dirent) : bool :=
  match a, b with
  | None, None => true
  | Some x, Some y => dir_eqb x y
  | _, _ => false
  end.

(* cut a byte stream into a transport: chunk sizes from [sched] (cyclic), 0 = EINTR *)
Fixpoint cut (fuel : nat) (sched cur : list nat) (b : bytes) : transport :=
  match fuel with
  | O => match b with [] => [] | _ => [RData b] end
  | S f =>
    match b with
    | [] => []
    | _ => match cur with
           | [] => match sched with [] => [RData b] | _ => cut f sched sched b end
           | O :: c => RIntr :: cut f sched c b
           | k :: c => RData (firstn k b) :: cut f sched c (skipn k b)
           end
    end
  end.
Definition segment (sched : list nat) (b : bytes) : transport := cut (2 * length b + 2 * length sched + 2) sched sched b.

Definition wsched_of (l : list Z) : list wev :=
  map (fun z => match z with Zneg xH => WIntr | Zneg _ => WErr | _ => WAccept (Z.to_nat z) end) l.

(* one client of an in-process case, with the IMPLEMENTATION's observations *)
Record client_case := {
  cc_sock : N;
  cc_dir : bytes;
  cc_where : bytes;                (* directory that holds this client's data when the case is over
                                      (cc_dir, or cc_dir.old when a later client re-used the name) *)
  cc_body : list msg;              (* messages after MDir, before MEnd *)
  cc_ndata : nat;                  (* the first cc_ndata messages of cc_body are trace data ... *)
  cc_files : option dirent;        (* ... and the rest is what the real send_task_file/send_map_files/send_sym_files/
                                      send_dbg_files/send_info_file made of the local metadata files (Some L) *)
  cc_abort : bool;                 (* true: no MEnd; the connection is reset once the server has read all *)
  cc_eof : bool;                   (* no MEnd: the client closes its connection cleanly after its messages (EOF arrives as EPOLLIN) *)
  cc_threads : bool;               (* the data messages were sent by several writer threads at the same time: their order on
                                      the wire is any merge of the threads' sequences (cc_body lists them thread by thread) *)
  cc_split : nat;                  (* the server handles the first cc_split messages before the later clients of the
                                      case connect and the rest after them (>= all messages: strictly one after the other) *)
  cc_wsched : list Z;              (* short-write schedule given to the interposed write/writev *)
  cc_rsched : list nat;            (* chunk sizes given to the interposed read of the server *)
  cc_wire : bytes;                 (* IMPL: bytes the sender put on the socket *)
  cc_local : dirent;               (* IMPL: local directory written by write_buffer(host = NULL) *)
  cc_recv : option dirent          (* IMPL: directory written by the receiver *)
}.
Definition cc_msgs (c : client_case) : list msg :=
  MDir (cc_dir c) :: cc_body c ++ (if cc_abort c || cc_eof c then [] else [MEnd]).

(* model of the sender under the same schedule == captured wire bytes *)
Definition agree_send (c : client_case) : bool :=
  if cc_threads c then (length (cc_wire c) =? length (concat (map enc (cc_msgs c))))%nat   (* same messages, some merge *)
  else
  let '(st, fr) := send_all (wsched_of (cc_wsched c)) (cc_msgs c) in
  match st with WDone => list_eqb (concat fr) (cc_wire c) | _ => false end.
(* model of the receiver on the captured bytes.  Order of the wake-ups: every client in turn is accepted
   (on cc_sock - the same number again when an earlier connection was reset) and has its first cc_split messages
   handled (all of them, then the hang-up of an aborted connection, when cc_split covers everything); then, in
   turn again, the remaining messages.  The harness enforces exactly this partial order. *)
Definition wakes1 (c : client_case) : list wake :=
  let n := length (cc_msgs c) in
  WNew (cc_sock c) (segment (cc_rsched c) (cc_wire c)) ::
  map WIn (repeat (cc_sock c) (Nat.min (cc_split c) n)) ++
  (if (n <=? cc_split c)%nat then (if cc_abort c then [WHup (cc_sock c)] else if cc_eof c then [WIn (cc_sock c)] else []) else []).
Definition wakes2 (c : client_case) : list wake :=
  let n := length (cc_msgs c) in
  if (n <=? cc_split c)%nat then []
  else map WIn (repeat (cc_sock c) (n - cc_split c)) ++
       (if cc_abort c then [WHup (cc_sock c)] else if cc_eof c then [WIn (cc_sock c)] else []).
Definition serve_case (cs : list client_case) (s : server) : option server :=
  match serve_w true (flat_map wakes1 cs ++ flat_map wakes2 cs) (fun _ => []) s with
  | None => None
  | Some (s', _) => Some s'
  end.
Definition agree_recv (cs : list client_case) : bool :=
  match serve_case cs {| clients := []; fs := fs_empty |} with
  | None => false
  | Some s => forallb (fun c => odir_eqb (fs s (cc_where c)) (cc_recv c)) cs
  end.
(* model of the local recorder == local directory of the implementation *)
(* (the harness's local directory is made by the harness, not by create_directory: no default.opts) *)
Definition agree_local (c : client_case) : bool := dir_eqb (local_dir (cc_body c)) (fresh_dir ++ cc_local c).
(* the metadata part of what was sent (already compared with the wire by agree_send) is the model's function of
   the local directory: every .sym/.dbg/map/task/info file, in the model's order *)
Definition agree_meta (c : client_case) : bool :=
  match cc_files c with
  | None => true
  | Some L => list_eqb (concat (map enc (skipn (cc_ndata c) (cc_body c)))) (concat (map enc (meta_msgs L)))
  end.
Definition agrees (cs : list client_case) : bool :=
  forallb agree_send cs && forallb agree_local cs && forallb agree_meta cs && agree_recv cs.
(* PROPERTY on implementation outputs only *)
Definition ok_case (cs : list client_case) : bool :=
  forallb (fun c => same_dir_opt (cc_local c) (cc_recv c)) cs.

(* one socket served until SEND_END, death, or end of stream (then read() = 0: death) *)
Fixpoint serve_stream (fx : bool) (fuel : nat) (k : N) (t : transport) (s : server) : option server :=
  match fuel with
  | O => None
  | S f =>
      match handle_client_sock fx t with
      | Died => None
      | Handled a t' =>
          match apply fx k a s with
          | None => None
          | Some s' => match a with AEnd => Some s' | _ => serve_stream fx f k t' s' end
          end
      end
  end.
(* arbitrary (possibly malformed) byte stream of one client: does the server die, and what is in
   directory [d] afterwards?  compared with the implementation's (died, directory) *)
Definition agree_raw (c : bytes * list nat * bytes * (bool * option dirent)) : bool :=
  let '(wire, rsched, d, (died, got)) := c in
  match serve_stream true (S (length wire)) 1 (segment rsched wire) {| clients := []; fs := fs_empty |} with
  | None => died
  | Some s => negb died && odir_eqb (fs s d) got
  end.

Fixpoint bad_indices {A} (f : A -> bool) (l : list A) (i : nat) : list nat :=
  match l with
  | [] => []
  | x :: r => if f x then bad_indices f r (S i) else i :: bad_indices f r (S i)
  end.

(* an aborted connection may leave less than it meant to send, but only its OWN data: every file of [got]
   (default.opts aside) is a prefix of the same file of [own] *)
Fixpoint is_prefix (p x : bytes) : bool :=
  match p, x with
  | [], _ => true
  | a :: p', b :: x' => (a =? b) && is_prefix p' x'
  | _, _ => false
  end.
Fixpoint prefix_dir (got own : dirent) : bool :=
  match got with
  | [] => true
  | (f, c) :: r =>
      (if list_eqb f n_default_opts then true
       else match flookup f own with Some c' => is_prefix c c' | None => false end) && prefix_dir r own
  end.

(* digest-level checker for big / end-to-end cases: (name, length, digest) lists *)
Definition dig_eqb (a b : N * bytes) : bool := (fst a =? fst b) && list_eqb (snd a) (snd b).
Fixpoint dlookup (f : bytes) (es : list (bytes * (N * bytes))) : option (N * bytes) :=
  match es with
  | [] => None
  | (g, c) :: r => if list_eqb f g then Some c else dlookup f r
  end.
Fixpoint sub_dig (a b : list (bytes * (N * bytes))) : bool :=
  match a with
  | [] => true
  | (f, c) :: r =>
      (if list_eqb f n_default_opts then true
       else match dlookup f b with Some c' => dig_eqb c c' | None => false end) && sub_dig r b
  end.
Definition same_dig (loc rcv : list (bytes * (N * bytes))) : bool := sub_dig loc rcv && sub_dig rcv loc.
