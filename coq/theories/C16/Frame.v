(* C16 - the frame round trip: what handle_client_sock decodes from ANY segmentation of the byte
   stream a sender produced is the action of the message; whole runs; network == local. *)
From Coq Require Import String Ascii.
From Coq Require Import NArith ZArith List Bool Arith Lia.
From Coq Require Import ZifyBool ZifyN ZifyNat.
Import ListNotations.
Require Import UV.Gen.Consts UV.C16.Model UV.C16.Proofs.
Local Open Scope N_scope.
Ltac Zify.zify_post_hook ::= Z.div_mod_to_equations.

Definition ty_of (m : msg) : N :=
  match m with
  | MDir _ => UFTRACE_MSG_SEND_DIR_NAME
  | MData _ _ => UFTRACE_MSG_SEND_DATA
  | MKernel _ _ => UFTRACE_MSG_SEND_KERNEL_DATA
  | MPerf _ _ => UFTRACE_MSG_SEND_PERF_DATA
  | MMeta _ _ => UFTRACE_MSG_SEND_META_DATA
  | MInfo _ _ => UFTRACE_MSG_SEND_INFO
  | MEnd => UFTRACE_MSG_SEND_END
  end.
Definition lenf (m : msg) : N :=
  match m with
  | MDir name => len_of name
  | MData _ d | MKernel _ d | MPerf _ d => 4 + len_of d
  | MMeta f d => 4 + len_of f + len_of d
  | MInfo _ i => sizeof_uftrace_file_header + len_of i
  | MEnd => 0
  end.
Definition body (m : msg) : bytes :=
  match m with
  | MDir name => name
  | MData x d | MKernel x d | MPerf x d => be32 x ++ d
  | MMeta f d => be32 (len_of f) ++ f ++ d
  | MInfo h i => swap_hdr h ++ i
  | MEnd => []
  end.
Definition kind_of (m : msg) : kind :=
  match m with
  | MDir _ => KDir | MData _ _ => KData | MKernel _ _ => KKernel | MPerf _ _ => KPerf
  | MMeta _ _ => KMeta | MInfo _ _ => KInfo | MEnd => KEnd
  end.

Lemma enc_split m : enc m = msg_hdr (ty_of m) (lenf m) ++ body m.
Proof.
  destruct m; unfold enc, iov_of; cbn [concat ty_of lenf body]; rewrite ?app_nil_r, <- ?app_assoc; reflexivity.
Qed.
Lemma classify_ty m : classify (ty_of m) = kind_of m.
Proof. destruct m; reflexivity. Qed.
Lemma msg_hdr_length ty len : length (msg_hdr ty len) = MSGHDR.
Proof. reflexivity. Qed.

Lemma hdr_fields ty len : ty < 65536 -> len < 4294967296 ->
  dec_be (firstn 2 (msg_hdr ty len)) = UFTRACE_MSG_MAGIC /\
  dec_be (firstn 2 (skipn 2 (msg_hdr ty len))) = ty /\
  dec_be (skipn 4 (msg_hdr ty len)) = len.
Proof.
  intros Ht Hl. split; [|split].
  - change (dec_be (be16 UFTRACE_MSG_MAGIC) = UFTRACE_MSG_MAGIC). rewrite dec_be16. reflexivity.
  - change (dec_be (be16 ty) = ty). rewrite dec_be16. apply N.mod_small. exact Ht.
  - change (dec_be (be32 len) = len). rewrite dec_be32. apply N.mod_small. exact Hl.
Qed.

Lemma cstr_nonul b : nonul b = true -> cstr b = b.
Proof.
  induction b as [|x r IH]; [reflexivity|]. cbn. intros H. apply andb_true_iff in H. destruct H as [Hx Hr].
  destruct (x =? 0); [discriminate|]. rewrite IH by exact Hr. reflexivity.
Qed.

Ltac kill_cond E := exfalso; unfold INT_LIMIT, len_of in *; lia.

Lemma recv_numbered_ok fx mk x d t rest : x < 4294967296 -> 4 + len_of d < INT_LIMIT -> good t = true ->
  bytes_of t = (be32 x ++ d) ++ rest ->
  exists t', recv_numbered fx mk (4 + len_of d) t = Handled (AAppend (mk x) d) t' /\
             good t' = true /\ bytes_of t' = rest.
Proof.
  intros Hx Hl G B. rewrite <- app_assoc in B. unfold recv_numbered.
  destruct (read_all_app t (be32 x) (d ++ rest) G B) as [t2 [R [B2 G2]]].
  change (length (be32 x)) with 4%nat in R. rewrite R.
  destruct ((INT_LIMIT <=? 4 + len_of d) || (4 + len_of d <? 4)) eqn:E; [kill_cond E|].
  destruct (read_all_app t2 d rest G2 B2) as [t3 [R3 [B3 G3]]].
  replace (N.to_nat (4 + len_of d - 4)) with (length d) by (unfold len_of; lia).
  rewrite R3. exists t3. rewrite dec_be32, N.mod_small by exact Hx. auto.
Qed.

Lemma recv_metadata_ok fx f d t rest : nonul f = true -> valid_name f = true -> 4 + len_of f + len_of d < INT_LIMIT -> good t = true ->
  bytes_of t = (be32 (len_of f) ++ f ++ d) ++ rest ->
  exists t', recv_metadata fx (4 + len_of f + len_of d) t = Handled (AAppend f d) t' /\
             good t' = true /\ bytes_of t' = rest.
Proof.
  intros Hf Hv Hl G B. rewrite <- !app_assoc in B. unfold recv_metadata.
  destruct (read_all_app t (be32 (len_of f)) _ G B) as [t2 [R [B2 G2]]].
  change (length (be32 (len_of f))) with 4%nat in R. rewrite R.
  rewrite dec_be32, N.mod_small by (unfold INT_LIMIT, len_of in *; lia).
  destruct ((INT_LIMIT <=? 4 + len_of f + len_of d) || (INT_LIMIT <=? len_of f) ||
            (4 + len_of f + len_of d <? len_of f)) eqn:E; [kill_cond E|].
  destruct (read_all_app t2 f _ G2 B2) as [t3 [R3 [B3 G3]]].
  replace (N.to_nat (len_of f)) with (length f) by (unfold len_of; lia). rewrite R3.
  destruct (4 + len_of f + len_of d <? 4 + len_of f) eqn:E2; [kill_cond E2|].
  destruct (read_all_app t3 d rest G3 B3) as [t4 [R4 [B4 G4]]].
  replace (N.to_nat (4 + len_of f + len_of d - 4 - len_of f)) with (length d) by (unfold len_of; lia).
  rewrite R4. exists t4. rewrite cstr_nonul by exact Hf. rewrite Hv, andb_false_r. auto.
Qed.

Lemma recv_info_ok fx h i t rest : length h = HDR -> sizeof_uftrace_file_header + len_of i < INT_LIMIT ->
  good t = true -> bytes_of t = (swap_hdr h ++ i) ++ rest ->
  exists t', recv_info fx (sizeof_uftrace_file_header + len_of i) t = Handled (AAppend n_info (h ++ i)) t' /\
             good t' = true /\ bytes_of t' = rest.
Proof.
  intros Hh Hl G B. rewrite <- app_assoc in B. unfold recv_info.
  destruct (read_all_app t (swap_hdr h) _ G B) as [t2 [R [B2 G2]]].
  rewrite swap_hdr_length, Hh in R. rewrite R.
  destruct ((INT_LIMIT <=? sizeof_uftrace_file_header + len_of i) ||
            (sizeof_uftrace_file_header + len_of i <? sizeof_uftrace_file_header)) eqn:E; [kill_cond E|].
  destruct (read_all_app t2 i rest G2 B2) as [t3 [R3 [B3 G3]]].
  replace (N.to_nat (sizeof_uftrace_file_header + len_of i - sizeof_uftrace_file_header)) with (length i)
    by (unfold len_of; lia).
  rewrite R3. exists t3. rewrite swap_hdr_invol by exact Hh. auto.
Qed.

Lemma recv_dir_name_ok fx name t rest : nonul name = true -> len_of name < INT_LIMIT -> good t = true ->
  bytes_of t = name ++ rest ->
  exists t', recv_dir_name fx (len_of name) t = Handled (AMkdir name) t' /\ good t' = true /\ bytes_of t' = rest.
Proof.
  intros Hn Hl G B. unfold recv_dir_name.
  destruct (INT_LIMIT <=? len_of name) eqn:E; [kill_cond E|].
  destruct (read_all_app t name rest G B) as [t2 [R [B2 G2]]].
  replace (N.to_nat (len_of name)) with (length name) by (unfold len_of; lia).
  rewrite R. exists t2. rewrite cstr_nonul by exact Hn. auto.
Qed.

Lemma lenf_bound m : wf_msg m = true -> lenf m < 4294967296.
Proof.
  destruct m; cbn [wf_msg lenf]; intros W; unfold INT_LIMIT in *; try lia.
Qed.

(* ONE MESSAGE: whatever the segmentation of the stream (and EINTRs), the receiver decodes exactly
   the action of the message the sender encoded and leaves exactly the rest of the stream *)
Lemma handle_msg fx m t rest : wf_msg m = true -> good t = true -> bytes_of t = enc m ++ rest ->
  exists t', handle_client_sock fx t = Handled (action_of m) t' /\ good t' = true /\ bytes_of t' = rest.
Proof.
  intros W G B. rewrite enc_split, <- app_assoc in B.
  destruct (read_all_app t _ _ G B) as [t1 [R [B1 G1]]].
  rewrite msg_hdr_length in R. unfold handle_client_sock. rewrite R.
  destruct (hdr_fields (ty_of m) (lenf m)) as [Hm [Ht Hl]].
  { destruct m; reflexivity. }
  { apply lenf_bound. exact W. }
  rewrite Hm, Ht, Hl, N.eqb_refl, classify_ty. cbn [negb].
  destruct m; cbn [kind_of lenf body action_of wf_msg] in *.
  - apply andb_true_iff in W. destruct W as [W1 W2]. apply recv_dir_name_ok; auto. lia.
  - apply andb_true_iff in W. destruct W as [W1 W2]. apply recv_numbered_ok; auto; lia.
  - apply andb_true_iff in W. destruct W as [W1 W2]. apply recv_numbered_ok; auto; lia.
  - apply andb_true_iff in W. destruct W as [W1 W2]. apply recv_numbered_ok; auto; lia.
  - apply andb_true_iff in W. destruct W as [W1 W2]. apply andb_true_iff in W1. destruct W1 as [W0 W1].
    apply recv_metadata_ok; auto; lia.
  - apply andb_true_iff in W. destruct W as [W1 W2]. apply recv_info_ok; auto; [apply Nat.eqb_eq; exact W1 | lia].
  - exists t1. cbn [app] in B1. auto.
Qed.

(* a stream that stops inside a message kills the server ("message recv failed" / "recv ... failed") *)
Lemma handle_truncated_header fx t : (length (bytes_of t) < MSGHDR)%nat -> handle_client_sock fx t = lost fx.
Proof. intros L. unfold handle_client_sock. rewrite read_all_short by exact L. reflexivity. Qed.

(* ------------------------------------------------------------------ whole runs, many sockets *)
Definition stream_of (k : N) (evs : list (N * msg)) : bytes :=
  concat (map (fun e => enc (snd e)) (filter (fun e => fst e =? k) evs)).

Lemma stream_of_cons_same k m r : stream_of k ((k, m) :: r) = enc m ++ stream_of k r.
Proof. unfold stream_of. cbn [filter fst]. rewrite N.eqb_refl. reflexivity. Qed.
Lemma stream_of_cons_other k k' m r : k' <> k -> stream_of k' ((k, m) :: r) = stream_of k' r.
Proof.
  intros H. unfold stream_of. cbn [filter fst]. destruct (k =? k') eqn:E; [apply N.eqb_eq in E; congruence|reflexivity].
Qed.

(* SEGMENTATION INDEPENDENCE: the server, woken once per message in the order [map fst evs], on
   transports that carry (in any segmentation, with EINTRs) each socket's messages followed by
   [rest k], does exactly what the abstract run over the messages does *)
Theorem serve_roundtrip : forall fx evs tm s (rest : N -> bytes),
  forallb (fun e => wf_msg (snd e)) evs = true ->
  (forall k, good (tm k) = true) ->
  (forall k, bytes_of (tm k) = stream_of k evs ++ rest k) ->
  match run fx evs s with
  | Some s' => exists tm', serve fx (map fst evs) tm s = Some (s', tm') /\
                           forall k, good (tm' k) = true /\ bytes_of (tm' k) = rest k
  | None => serve fx (map fst evs) tm s = None
  end.
Proof.
  induction evs as [|[k m] r IH]; intros tm s rest W G B.
  - cbn. exists tm. split; [reflexivity|]. intros k. split; [apply G|]. rewrite B. reflexivity.
  - cbn [forallb snd] in W. apply andb_true_iff in W. destruct W as [Wm Wr].
    assert (Bk := B k). rewrite stream_of_cons_same, <- app_assoc in Bk.
    destruct (handle_msg fx m (tm k) _ Wm (G k) Bk) as [t' [H [G' B']]].
    cbn [run map fst serve]. rewrite H.
    destruct (apply fx k (action_of m) s) as [s1|]; [|reflexivity].
    apply IH; auto.
    + intros k'. unfold tm_set. destruct (k' =? k); auto.
    + intros k'. unfold tm_set. destruct (k' =? k) eqn:E.
      * apply N.eqb_eq in E. subst k'. exact B'.
      * apply N.eqb_neq in E. rewrite B. rewrite stream_of_cons_other by exact E. reflexivity.
Qed.

(* the segmentation used by the harness is one of those *)
Lemma cut_ok : forall fuel sched cur b, bytes_of (cut fuel sched cur b) = b /\ good (cut fuel sched cur b) = true.
Proof.
  induction fuel as [|f IH]; intros sched cur b.
  - destruct b; cbn; auto. rewrite app_nil_r. auto.
  - destruct b as [|x b]; [cbn; auto|]. remember (x :: b) as bb eqn:Ebb.
    assert (Hbb : bb <> []) by (subst; discriminate).
    destruct cur as [|[|k] c].
    + destruct sched as [|s0 sched].
      * subst bb. cbn. rewrite app_nil_r. auto.
      * assert (E : cut (S f) (s0 :: sched) [] bb = cut f (s0 :: sched) (s0 :: sched) bb) by (subst bb; reflexivity).
        rewrite E. apply IH.
    + assert (E : cut (S f) sched (0%nat :: c) bb = RIntr :: cut f sched c bb) by (subst bb; reflexivity).
      rewrite E. cbn [bytes_of good forallb good_ev]. apply IH.
    + assert (E : cut (S f) sched (S k :: c) bb = RData (firstn (S k) bb) :: cut f sched c (skipn (S k) bb))
        by (subst bb; reflexivity).
      rewrite E. cbn [bytes_of]. destruct (IH sched c (skipn (S k) bb)) as [I1 I2]. rewrite I1.
      split; [apply firstn_skipn|].
      change (good_ev (RData (firstn (S k) bb)) && good (cut f sched c (skipn (S k) bb)) = true).
      rewrite I2, andb_true_r. subst bb. reflexivity.
Qed.
Lemma segment_ok sched b : bytes_of (segment sched b) = b /\ good (segment sched b) = true.
Proof. apply cut_ok. Qed.

(* ------------------------------------------------------------------ "whatever the sizes involved": the limit *)
(* msg.len is unsigned on the wire but the receiver passes it on as `int len`: a message that announces 2^31 bytes
   or more (a trace buffer or metadata file of 2 GiB) makes `uftrace recv` exit, whatever follows on the stream *)
Lemma length_limit fx t ty len rest : good t = true -> bytes_of t = msg_hdr ty len ++ rest ->
  ty < 65536 -> INT_LIMIT <= len -> len < 4294967296 ->
  match classify ty with KEnd | KOther => True | _ => handle_client_sock fx t = Died \/ handle_client_sock fx t = lost fx end.
Proof.
  intros G B Ht L1 L2.
  destruct (read_all_app t _ _ G B) as [t1 [R [B1 G1]]]. rewrite msg_hdr_length in R.
  destruct (hdr_fields ty len Ht L2) as [Hm [Hty Hl]].
  assert (Big : (INT_LIMIT <=? len) = true) by (apply N.leb_le; exact L1).
  unfold handle_client_sock. rewrite R, Hm, Hty, Hl, N.eqb_refl. cbn [negb].
  destruct (classify ty); try exact I.
  - unfold recv_dir_name. rewrite Big. left. reflexivity.
  - unfold recv_numbered. destruct (read_all t1 4) as [[x t2]|]; [rewrite Big; left|right]; reflexivity.
  - unfold recv_numbered. destruct (read_all t1 4) as [[x t2]|]; [rewrite Big; left|right]; reflexivity.
  - unfold recv_numbered. destruct (read_all t1 4) as [[x t2]|]; [rewrite Big; left|right]; reflexivity.
  - unfold recv_info. destruct (read_all t1 HDR) as [[x t2]|]; [rewrite Big; left|right]; reflexivity.
  - unfold recv_metadata. destruct (read_all t1 4) as [[x t2]|]; [rewrite Big; left|right]; reflexivity.
Qed.

(* ------------------------------------------------------------------ a connection that ends inside a data message *)
Lemma truncated_data fx t ty len p : good t = true -> bytes_of t = msg_hdr ty len ++ p ->
  ty < 65536 -> len < INT_LIMIT -> 4 <= len -> (length p < N.to_nat len)%nat ->
  match classify ty with KData | KKernel | KPerf => handle_client_sock fx t = lost fx | _ => True end.
Proof.
  intros G B Ht L1 L4 Lp.
  destruct (read_all_app t _ _ G B) as [t1 [R [B1 G1]]]. rewrite msg_hdr_length in R.
  destruct (hdr_fields ty len Ht) as [Hm [Hty Hl]]; [unfold INT_LIMIT in L1; lia|].
  assert (Num : forall mk, recv_numbered fx mk len t1 = lost fx).
  { intros mk. unfold recv_numbered.
    destruct (Nat.lt_ge_cases (length p) 4) as [Sh|Ge].
    - rewrite read_all_short by (rewrite B1; exact Sh). reflexivity.
    - destruct (read_all_spec t1 4 G1) as [t2 [R2 [B2 G2]]]; [rewrite B1; exact Ge|]. rewrite R2.
      destruct ((INT_LIMIT <=? len) || (len <? 4)) eqn:E; [exfalso; unfold INT_LIMIT in *; lia|].
      rewrite read_all_short; [reflexivity|]. rewrite B2, B1, skipn_length. lia. }
  unfold handle_client_sock. rewrite R, Hm, Hty, Hl, N.eqb_refl. cbn [negb].
  destruct (classify ty); try exact I; apply Num.
Qed.

(* ------------------------------------------------------------------ a metadata file whose name is a path *)
Lemma recv_metadata_invalid fx f d t rest : nonul f = true -> valid_name f = false ->
  4 + len_of f + len_of d < INT_LIMIT -> good t = true ->
  bytes_of t = (be32 (len_of f) ++ f ++ d) ++ rest ->
  exists t', recv_metadata fx (4 + len_of f + len_of d) t = Handled (if fx then ANone else AAppend f d) t' /\
             good t' = true /\ bytes_of t' = rest.
Proof.
  intros Hf Hv Hl G B. rewrite <- !app_assoc in B. unfold recv_metadata.
  destruct (read_all_app t (be32 (len_of f)) _ G B) as [t2 [R [B2 G2]]].
  change (length (be32 (len_of f))) with 4%nat in R. rewrite R.
  rewrite dec_be32, N.mod_small by (unfold INT_LIMIT, len_of in *; lia).
  destruct ((INT_LIMIT <=? 4 + len_of f + len_of d) || (INT_LIMIT <=? len_of f) ||
            (4 + len_of f + len_of d <? len_of f)) eqn:E; [kill_cond E|].
  destruct (read_all_app t2 f _ G2 B2) as [t3 [R3 [B3 G3]]].
  replace (N.to_nat (len_of f)) with (length f) by (unfold len_of; lia). rewrite R3.
  destruct (4 + len_of f + len_of d <? 4 + len_of f) eqn:E2; [kill_cond E2|].
  destruct (read_all_app t3 d rest G3 B3) as [t4 [R4 [B4 G4]]].
  replace (N.to_nat (4 + len_of f + len_of d - 4 - len_of f)) with (length d) by (unfold len_of; lia).
  rewrite R4. exists t4. rewrite cstr_nonul by exact Hf. rewrite Hv. destruct fx; cbn [andb negb]; auto.
Qed.

(* since the fix a SEND_META_DATA whose file name is empty, ".", ".." or contains '/' is read whole (the framing stays
   intact) and ignored; the code as found appended to that PATH (outside the client's directory, or exited) *)
Lemma invalid_name_ignored fx f d t rest : nonul f = true -> valid_name f = false ->
  4 + len_of f + len_of d < INT_LIMIT -> good t = true -> bytes_of t = enc (MMeta f d) ++ rest ->
  exists t', handle_client_sock fx t = Handled (if fx then ANone else AAppend f d) t' /\ good t' = true /\ bytes_of t' = rest.
Proof.
  intros Hf Hv Hl G B. rewrite (enc_split (MMeta f d)), <- app_assoc in B.
  destruct (read_all_app t _ _ G B) as [t1 [R [B1 G1]]].
  rewrite msg_hdr_length in R. unfold handle_client_sock. rewrite R.
  destruct (hdr_fields (ty_of (MMeta f d)) (lenf (MMeta f d))) as [Hm [Ht Hl']]; [reflexivity|cbn [lenf]; unfold INT_LIMIT in Hl; lia|].
  rewrite Hm, Ht, Hl', N.eqb_refl, classify_ty. cbn [negb kind_of lenf body] in *.
  apply recv_metadata_invalid; auto.
Qed.
