(* Property C16 - only statements, each closed by [exact]. *)
From Coq Require Import NArith List Bool.
Import ListNotations.
Require Import UV.Gen.Consts UV.C16.Model UV.C16.Proofs UV.C16.Frame UV.C16.Dirs UV.C16.Files UV.C16.Pick UV.C16.NoMix UV.C16.Merge UV.C16.Split.
Local Open Scope N_scope.

(* read_all: for EVERY segmentation of the stream (chunks of any size, EINTRs in between) a request of
   n bytes returns exactly the first n bytes and leaves exactly the rest. *)
Theorem C16_read_all_segmentation : forall t n, good t = true -> (n <= length (bytes_of t))%nat ->
  exists t', read_all t n = Some (firstn n (bytes_of t), t') /\
             bytes_of t' = skipn n (bytes_of t) /\ good t' = true.
Proof. exact read_all_spec. Qed.
Print Assumptions C16_read_all_segmentation.

(* ... and fails (the caller exits) when the stream ends inside the request. *)
Theorem C16_read_all_short_stream : forall t n, (length (bytes_of t) < n)%nat -> read_all t n = None.
Proof. exact read_all_short. Qed.
Print Assumptions C16_read_all_short_stream.

(* writev_all: for EVERY sequence of short counts / EINTR / errors the bytes written are a prefix of the
   concatenation of the iovecs, the iovec walk never leaves the array, and a return of 0 means exactly
   the concatenation was written. *)
Theorem C16_writev_all_short_writes : forall sched iov,
  let w := writev_all sched iov in
  prefix_of (concat (w_frags w)) (concat iov) /\
  (w_status w = WDone -> concat (w_frags w) = concat iov) /\ w_status w <> WCrash.
Proof. exact writev_all_spec. Qed.
Print Assumptions C16_writev_all_short_writes.

(* ... and it does complete when no error occurs and the kernel accepts enough bytes in total. *)
Theorem C16_writev_all_progress : forall sched iov frags, no_werr sched = true ->
  (total iov <= capacity sched)%nat -> w_status (writev_loop sched iov (total iov) frags) = WDone.
Proof. exact writev_loop_progress. Qed.
Print Assumptions C16_writev_all_progress.

(* a writer sending messages one after the other (writev_all / write_all under any schedule) puts a
   prefix of the concatenated encodings on the wire, all of it when every call succeeded. *)
Theorem C16_sender_stream : forall ms sched,
  let '(st, fr) := send_all sched ms in
  prefix_of (concat fr) (concat (map enc ms)) /\
  (st = WDone -> concat fr = concat (map enc ms)) /\ st <> WCrash.
Proof. exact send_all_spec. Qed.
Print Assumptions C16_sender_stream.

(* the receiver's ntoh* undo the sender's hton* on the file header, field by field. *)
Theorem C16_header_swap_involutive : forall h, length h = HDR -> swap_hdr (swap_hdr h) = h.
Proof. exact swap_hdr_invol. Qed.
Print Assumptions C16_header_swap_involutive.

(* one message: any segmentation of [enc m ++ rest] is decoded to the action of m, leaving rest;
   payload sizes up to the int limit of the receiver (length field < 2^31). *)
Theorem C16_frame_one_message : forall fx m t rest, wf_msg m = true -> good t = true ->
  bytes_of t = enc m ++ rest ->
  exists t', handle_client_sock fx t = Handled (action_of m) t' /\ good t' = true /\ bytes_of t' = rest.
Proof. exact handle_msg. Qed.
Print Assumptions C16_frame_one_message.

(* whole runs, any number of sockets, any order of wake-ups, any segmentation per socket:
   the concrete server = the abstract run over the messages (including when it dies). *)
Theorem C16_frame_roundtrip : forall fx evs tm s (rest : N -> bytes),
  forallb (fun e => wf_msg (snd e)) evs = true ->
  (forall k, good (tm k) = true) ->
  (forall k, bytes_of (tm k) = stream_of k evs ++ rest k) ->
  match run fx evs s with
  | Some s' => exists tm', serve fx (map fst evs) tm s = Some (s', tm') /\
                           forall k, good (tm' k) = true /\ bytes_of (tm' k) = rest k
  | None => serve fx (map fst evs) tm s = None
  end.
Proof. exact serve_roundtrip. Qed.
Print Assumptions C16_frame_roundtrip.

(* the segmentations the harness uses satisfy the hypotheses above (non-vacuity). *)
Theorem C16_segment_is_a_segmentation : forall sched b,
  bytes_of (segment sched b) = b /\ good (segment sched b) = true.
Proof. exact segment_ok. Qed.
Print Assumptions C16_segment_is_a_segmentation.

(* network == local, message level: the session MDir d; body; MEnd leaves in d exactly the directory the
   recorder writes locally for the same buffers and files (.dat, task, map, sym, dbg, info; the info header
   goes through both byte swaps), restores the client list, and touches no other directory beyond the
   rotation of create_directory. *)
Theorem C16_same_as_local : forall fx k d body s,
  forallb is_body body = true -> mkdir_name fx d (clients s) = Some d ->
  create_directory d (fs s) d = Some fresh_dir ->
  exists s', run fx (map (pair k) (MDir d :: body ++ [MEnd])) s = Some s' /\
             fs s' d = Some (local_dir body) /\ clients s' = clients s /\
             (forall x, x <> d -> fs s' x = create_directory d (fs s) x).
Proof. exact same_as_local. Qed.
Print Assumptions C16_same_as_local.

(* network == local, end to end in the model: ANY schedule of short writes/EINTR on the sender (all calls
   succeeding), ANY segmentation/EINTRs on the receiver: directory d on the server = local directory. *)
Theorem C16_network_equals_local : forall fx k d body sched fr t s,
  forallb wf_msg (MDir d :: body ++ [MEnd]) = true -> forallb is_body body = true ->
  fs s d = None -> mkdir_name fx d (clients s) = Some d ->
  send_all sched (MDir d :: body ++ [MEnd]) = (WDone, fr) ->
  good t = true -> bytes_of t = concat fr ->
  exists s' tm', serve fx (repeat k (length body + 2)) (tm_set k t (fun _ => [])) s = Some (s', tm') /\
                 fs s' d = Some (local_dir body) /\ (forall x, x <> d -> fs s' x = fs s x).
Proof. exact network_equals_local. Qed.
Print Assumptions C16_network_equals_local.

(* isolation, under the EXACT guard: every other connection announces a directory name that is independent
   of k's (different, and neither is the other's NAME.old).  For every interleaving (message granularity -
   the server reads one whole message per wake-up) what is in k's directory and in its .old after the whole
   run is what k's own messages alone produce. *)
Theorem C16_clients_isolated_legacy : forall dirs k evs s',
  Forall (ev_ok dirs k) evs -> run false evs server0 = Some s' ->
  exists s'', run false (own k evs) server0 = Some s'' /\
              fs s' (dirs k) = fs s'' (dirs k) /\ fs s' (old_of (dirs k)) = fs s'' (old_of (dirs k)).
Proof. exact clients_isolated. Qed.
Print Assumptions C16_clients_isolated_legacy.

Theorem C16_clients_isolated_legacy_nonvacuous : Forall (ev_ok dirs2 1) evs2 /\ run false evs2 server0 <> None.
Proof. exact isolation_nonvacuous. Qed.
Print Assumptions C16_clients_isolated_legacy_nonvacuous.

(* without the guard the statement is FALSE of the code as it is: two clients connected at once with the same
   directory name (the default uftrace.data) get their files mixed, the first one's recording is torn. *)
Theorem C16_same_dirname_legacy_refuted :
  forallb (fun e => wf_msg (snd e)) evs_same = true /\
  dir_after (own 2 evs_same) ud = Some [(n_default_opts, []); (dat_name 22, [67]); (n_task, [98])] /\
  dir_after evs_same ud = Some [(n_default_opts, []); (dat_name 11, [66]); (dat_name 22, [67]); (n_task, [97; 98])] /\
  dir_after evs_same (old_of ud) = Some [(n_default_opts, []); (dat_name 11, [65])].
Proof. exact same_dirname_mixes. Qed.
Print Assumptions C16_same_dirname_legacy_refuted.

(* all theorems above take ONE writer per connection (messages of a connection are sent one after the other).
   The recorder's writer threads share the socket without a lock: a short writev count in one thread lets the
   other thread's message in between and the receiver dies on the next header. *)
Theorem C16_shared_socket_refuted :
  wf_msg m_t1 = true /\ wf_msg m_t2 = true /\
  w_status (send_msg [WAccept 8; WAccept 100] m_t1) = WDone /\ w_status (send_msg [WAccept 100] m_t2) = WDone /\
  after_stream (enc (MDir ud) ++ enc m_t1 ++ enc m_t2 ++ enc MEnd)
    = Some (Some [(n_default_opts, []); (dat_name 11, [1; 2; 3; 4]); (dat_name 22, [9])]) /\
  after_stream (enc (MDir ud) ++ concat (interleave [true; false] frags_t1 frags_t2) ++ enc MEnd) = None.
Proof. exact shared_socket_breaks_framing. Qed.
Print Assumptions C16_shared_socket_refuted.

(* many tasks: the content of every file depends only on the pieces written to THAT file, in their order -
   buffers of different tasks and the metadata files may be sent (and written locally) in any relative order. *)
Theorem C16_files_independent_of_cross_file_order : forall body1 body2,
  (forall f, written f body1 = written f body2) ->
  forall f, flookup f (local_dir body1) = flookup f (local_dir body2).
Proof. exact files_independent. Qed.
Print Assumptions C16_files_independent_of_cross_file_order.

(* connections that follow the protocol (own SEND_DIR_NAME first, then data/metadata, SEND_END last) with
   pairwise independent directory names never make the server exit, for every interleaving: together with
   C16_clients_isolated every such client gets exactly its own directory. *)
Theorem C16_sessions_survive_legacy : forall dirs evs,
  (forall i j, In i (map fst evs) -> In j (map fst evs) -> i <> j -> indep (dirs i) (dirs j)) ->
  sessions dirs [] evs = true -> run false evs server0 <> None.
Proof. exact sessions_survive. Qed.
Print Assumptions C16_sessions_survive_legacy.

Theorem C16_sessions_nonvacuous : sessions dirs2 [] evs2 = true.
Proof. exact sessions_nonvacuous. Qed.
Print Assumptions C16_sessions_nonvacuous.

(* connection reset and descriptor re-use (cmds/recv.c:631 EPOLLERR|EPOLLHUP -> recv_trace_end; accept() returns
   the lowest free descriptor): a client announces d1, sends body1 (plus possibly the beginning of more) and is
   RESET; the hang-up removes its entry from the client table, so the next connection - accepted on the SAME
   descriptor number k - records into its own directory d2.  For every segmentation: d2 is the local recording
   of the second client, d1 holds exactly what the first one had completely sent, the client table is as before. *)
Theorem C16_reset_then_descriptor_reuse : forall fx k d1 body1 junk d2 body2 t1 t2 s,
  forallb wf_msg (MDir d1 :: body1) = true -> forallb wf_msg (MDir d2 :: body2 ++ [MEnd]) = true ->
  forallb is_body body1 = true -> forallb is_body body2 = true ->
  fs s d1 = None -> fs s d2 = None -> d1 <> d2 -> d1 <> old_of d2 ->
  mkdir_name fx d1 (clients s) = Some d1 -> mkdir_name fx d2 (clients s) = Some d2 ->
  good t1 = true -> bytes_of t1 = concat (map enc (MDir d1 :: body1)) ++ junk ->
  good t2 = true -> bytes_of t2 = concat (map enc (MDir d2 :: body2 ++ [MEnd])) ->
  exists s' tm',
    serve_w fx (map WIn (repeat k (S (length body1))) ++ [WHup k; WNew k t2] ++ map WIn (repeat k (length body2 + 2)))
            (tm_set k t1 (fun _ => [])) s = Some (s', tm') /\
    fs s' d1 = Some (local_dir body1) /\ fs s' d2 = Some (local_dir body2) /\ clients s' = clients s.
Proof. exact reset_then_reuse. Qed.
Print Assumptions C16_reset_then_descriptor_reuse.

(* the metadata `record --host` sends is a function of the recorder's directory (cmds/record.c: send_task_file,
   send_map_files, send_sym_files, send_dbg_files, send_info_file scan the directory): every file of a kind
   task.txt / sid-*.map / *.sym / *.dbg / info is sent exactly once and whole. *)
Theorem C16_metadata_sent_exactly_once : forall f L, NoDup (map fst L) -> sent_name f = true ->
  written f (meta_msgs L) = match flookup f L with Some c => [c] | None => [] end.
Proof. exact written_meta. Qed.
Print Assumptions C16_metadata_sent_exactly_once.

(* SAME FILE SET: after  MDir d; trace data; metadata of the local directory L; MEnd  the receiver's directory
   d has, for EVERY file name, exactly the local directory's file - the file of L if there is one (symbol, debug,
   map, task, info: whatever the options of the run produced), otherwise what the trace data made.  Nothing is
   lost, duplicated or invented. *)
Theorem C16_same_file_set : forall fx k d L data s,
  NoDup (map fst L) -> (forall e, In e L -> sent_name (fst e) = true) -> forallb is_data data = true ->
  mkdir_name fx d (clients s) = Some d -> create_directory d (fs s) d = Some fresh_dir ->
  exists s' R, run fx (map (pair k) (MDir d :: (data ++ meta_msgs L) ++ [MEnd])) s = Some s' /\ fs s' d = Some R /\
    forall f, flookup f R = match flookup f L with Some c => Some c | None => flookup f (local_dir data) end.
Proof. exact same_file_set. Qed.
Print Assumptions C16_same_file_set.

Theorem C16_same_file_set_nonvacuous :
  NoDup (map fst L_ex) /\ forallb (fun e => sent_name (fst e)) L_ex = true /\
  map target (meta_msgs L_ex) =
    [Some (n_task, [9]); Some (str_sid_map, [8]); Some (str_libc_sym, [5]); Some (str_p_sym, [7]);
     Some (str_libc_dbg, [4]); Some (str_p_dbg, [6]); Some (n_info, [1; 2; 3])].
Proof. exact same_file_set_ex. Qed.
Print Assumptions C16_same_file_set_nonvacuous.

(* NO MIXING, for the code with the directory-name rule (fix: recv_trace_dir_name gives a client NAME.1, NAME.2, ...
   when a connected client is writing to NAME or NAME is that client's rotation target): for ANY sequence of
   events - any names, any interleaving, clients that do or do not follow the protocol - every open session's
   directory is what create_directory left there plus EXACTLY the session's own data and metadata, in order. *)
Theorem C16_no_mixing : forall evs s g, grun evs server0 ghost0 = Some (s, g) ->
  forall k c b body, g k = Some (c, b, body) ->
    find_client k (clients s) = Some c /\ fs s c = Some (fold_left (fun es m => local_write m es) body b).
Proof. exact no_mixing. Qed.
Print Assumptions C16_no_mixing.

(* the events that mixed two clients in the code as found (C16_same_dirname_legacy_refuted) now give two
   complete directories (regression example, also the non-vacuity of C16_no_mixing). *)
Theorem C16_same_dirname_separated :
  match grun evs_same server0 ghost0 with
  | Some (s, _) =>
      fs s ud = Some [(n_default_opts, []); (dat_name 11, [65; 66]); (n_task, [97])] /\
      fs s (cand_name ud 1) = Some [(n_default_opts, []); (dat_name 22, [67]); (n_task, [98])] /\
      fs s (old_of ud) = None
  | None => False
  end.
Proof. exact same_dirname_separated. Qed.
Print Assumptions C16_same_dirname_separated.

(* "whatever the sizes involved" holds up to the receiver's `int len`: a message whose length field is 2^31 or
   more (a single trace buffer or metadata file of 2 GiB) makes `uftrace recv` exit, whatever the segmentation.
   C16_frame_one_message is stated under exactly this guard (wf_msg: length field < 2^31). *)
Theorem C16_sizes_from_2GiB_refuted : forall fx t ty len rest, good t = true -> bytes_of t = msg_hdr ty len ++ rest ->
  ty < 65536 -> INT_LIMIT <= len -> len < 4294967296 ->
  match classify ty with KEnd | KOther => True | _ => handle_client_sock fx t = Died \/ handle_client_sock fx t = lost fx end.
Proof. exact length_limit. Qed.
Print Assumptions C16_sizes_from_2GiB_refuted.

(* the directory-name search of recv_trace_dir_name always finds a free name (pigeonhole: every connected client
   blocks at most two of the candidates NAME, NAME.1, NAME.2, ...; "%d" is injective). *)
Theorem C16_directory_name_always_found : forall d cl, N.of_nat (length cl) < 1000000 -> mkdir_name true d cl <> None.
Proof. exact mkdir_name_total. Qed.
Print Assumptions C16_directory_name_always_found.

(* for the code with the directory-name rule: connections that follow the protocol (SEND_DIR_NAME with ANY name -
   the same ones included - first, then data/metadata, SEND_END last) never make `uftrace recv` exit, for every
   interleaving.  With C16_no_mixing: every such client gets a directory of its own with exactly its own data. *)
Theorem C16_sessions_survive : forall evs, N.of_nat (length evs) < 1000000 -> proto [] evs = true ->
  run true evs server0 <> None.
Proof. exact sessions_survive_fixed. Qed.
Print Assumptions C16_sessions_survive.

Theorem C16_sessions_survive_nonvacuous : proto [] evs_same = true /\ run true evs_same server0 <> None.
Proof. exact proto_nonvacuous. Qed.
Print Assumptions C16_sessions_survive_nonvacuous.

(* SENDER SIDE, any chunking: however the recorder cuts a metadata file into SEND_META_DATA messages - as long as
   every file gets at least one message and the payloads of its messages, in order, add up to the file - the
   receiver's directory has, for every name, exactly the local file.  (The code sends one message per file:
   [whole]; fixed-size pieces qualify too; a sender that drops the last piece does not satisfy the hypothesis.) *)
Theorem C16_same_file_set_any_chunking : forall chunk : bytes -> list bytes,
  (forall c, chunk c <> []) -> (forall c, concat (chunk c) = c) ->
  forall fx k d L data s,
  NoDup (map fst L) -> (forall e, In e L -> sent_name (fst e) = true) -> forallb is_data data = true ->
  mkdir_name fx d (clients s) = Some d -> create_directory d (fs s) d = Some fresh_dir ->
  exists s' R, run fx (map (pair k) (MDir d :: (data ++ meta_msgs_c chunk L) ++ [MEnd])) s = Some s' /\ fs s' d = Some R /\
    forall f, flookup f R = match flookup f L with Some c => Some c | None => flookup f (local_dir data) end.
Proof. exact same_file_set_c. Qed.
Print Assumptions C16_same_file_set_any_chunking.

Theorem C16_chunkings_nonvacuous :
  ((forall c, whole c <> []) /\ (forall c, concat (whole c) = c)) /\
  (forall fuel n, (forall c, pieces fuel n c <> []) /\ (forall c, concat (pieces fuel n c) = c)) /\
  (forall L, meta_msgs_c whole L = meta_msgs L).
Proof. exact (conj whole_ok (conj pieces_ok meta_msgs_whole)). Qed.
Print Assumptions C16_chunkings_nonvacuous.

(* a sender that cuts into n-byte pieces but computes the last piece as (length mod n) loses the last piece of a
   file whose size is an exact multiple of n - and only then *)
Theorem C16_last_piece_mod_refuted :
  concat (bad_pieces 4 [1; 2; 3; 4; 5; 6; 7]) = [1; 2; 3; 4; 5; 6; 7] /\
  concat (bad_pieces 4 [1; 2; 3; 4; 5; 6; 7; 8]) = [1; 2; 3; 4] /\ concat (bad_pieces 4 [1; 2; 3; 4]) = [].
Proof. exact bad_pieces_loses_data. Qed.
Print Assumptions C16_last_piece_mod_refuted.

(* SEVERAL WRITER THREADS, ONE SOCKET: when messages are atomic on the wire (send_iov holds send_lock around
   writev_all - fix c9aa763), ANY interleaving of the senders' whole messages stores the same content in every file,
   provided every file is written by one sender (a task's buffers are handed to one writer at a time, in order).
   With same_as_local the receiver's directory is the same for all of them.  The refuted variant - interleaving
   inside a message - is C16_shared_socket_refuted. *)
Theorem C16_writer_threads_any_interleaving : forall owner s m1 m2, owned_by owner s -> merge s m1 -> merge s m2 ->
  forall f, flookup f (local_dir m1) = flookup f (local_dir m2).
Proof. exact merges_same_files. Qed.
Print Assumptions C16_writer_threads_any_interleaving.

Theorem C16_writer_threads_nonvacuous :
  owned_by owner_ex s_ex /\
  merge s_ex [MData 11 [1]; MData 22 [3]; MData 22 [4]; MData 11 [2]] /\
  merge s_ex [MData 22 [3]; MData 11 [1]; MData 11 [2]; MData 22 [4]].
Proof. exact merge_ex. Qed.
Print Assumptions C16_writer_threads_nonvacuous.

(* A CLIENT THAT DISAPPEARS (record killed, network down, a port scan): the connection ends before a whole header, or
   inside a data message.  [lost true] = Handled AEnd []: since fix e00936f only that client's table entry goes (as
   for a hang-up), the server lives and - by C16_no_mixing / C16_frame_roundtrip - every other client's directory is
   unaffected.  [lost false] = Died: the code as found exited ("message recv failed") and took all transfers along. *)
Theorem C16_lost_connection_header : forall fx t, (length (bytes_of t) < MSGHDR)%nat -> handle_client_sock fx t = lost fx.
Proof. exact handle_truncated_header. Qed.
Print Assumptions C16_lost_connection_header.

Theorem C16_lost_connection_in_data : forall fx t ty len p, good t = true -> bytes_of t = msg_hdr ty len ++ p ->
  ty < 65536 -> len < INT_LIMIT -> 4 <= len -> (length p < N.to_nat len)%nat ->
  match classify ty with KData | KKernel | KPerf => handle_client_sock fx t = lost fx | _ => True end.
Proof. exact truncated_data. Qed.
Print Assumptions C16_lost_connection_in_data.

Theorem C16_lost_connection_legacy_refuted : lost false = Died /\ lost true = Handled AEnd [].
Proof. exact (conj eq_refl eq_refl). Qed.
Print Assumptions C16_lost_connection_legacy_refuted.

(* RAW NAMES: two live clients never share a directory, whatever names they announce; the table is keyed by the
   lexically normalised name (fix 0e27370), so all spellings of one directory have one key. *)
Theorem C16_live_directories_distinct : forall evs s g, grun evs server0 ghost0 = Some (s, g) -> NoDup (map snd (clients s)).
Proof. exact live_dirs_distinct. Qed.
Print Assumptions C16_live_directories_distinct.

Theorem C16_aliases_one_key :
  map norm [str_sess; str_dot_sess; str_sess_slash; str_a_up_sess; str_dd_sess; str_x_up_sess] =
  [n_sess; n_sess; n_sess; n_sess; n_sess; n_sess] /\
  norm [] = [46] /\ norm str_up_x = str_up_x /\ norm str_abs_up = str_abs_up_norm.
Proof. exact aliases_one_key. Qed.
Print Assumptions C16_aliases_one_key.

Theorem C16_aliases_separated :
  match grun evs_alias server0 ghost0 with
  | Some (s, _) => fs s n_sess = Some [(n_default_opts, []); (dat_name 11, [65; 66])] /\
                   fs s (cand_name n_sess 1) = Some [(n_default_opts, []); (dat_name 22, [67])]
  | None => False
  end.
Proof. exact aliases_separated. Qed.
Print Assumptions C16_aliases_separated.

(* the receiver is NAME-AGNOSTIC: for every list of metadata files with pairwise different names of ANY shape (leading
   dots as in `.prog-wrapped.sym`, several dots, `..x`, long names ...) the received directory holds exactly those
   names with those contents, beside default.opts.  (On the wire: C16_frame_one_message for every name without NUL.) *)
Theorem C16_metadata_names_agnostic : forall fx k d L s,
  NoDup (map fst L) -> (forall e, In e L -> fst e <> n_default_opts) ->
  mkdir_name fx d (clients s) = Some d -> create_directory d (fs s) d = Some fresh_dir ->
  exists s' R, run fx (map (pair k) (MDir d :: map msg_of_file L ++ [MEnd])) s = Some s' /\ fs s' d = Some R /\
    forall f, flookup f R = if list_eqb f n_default_opts then Some [] else flookup f L.
Proof. exact metadata_any_names. Qed.
Print Assumptions C16_metadata_names_agnostic.

Theorem C16_metadata_names_agnostic_nonvacuous :
  NoDup (map fst L_dots) /\ forallb (fun e => negb (list_eqb (fst e) n_default_opts)) L_dots = true /\
  forallb (fun e => wf_msg (msg_of_file e)) L_dots = true.
Proof. exact metadata_any_names_ex. Qed.
Print Assumptions C16_metadata_names_agnostic_nonvacuous.

(* a metadata file whose NAME IS A PATH (empty, ".", "..", or with a '/'): since the fix it is read whole - the framing
   stays intact - and ignored (fx = true: ANone); the code as found (fx = false) appended to that path: outside the
   client's directory ("../other.data/info": another client's file) or, when the path cannot be opened, exit. *)
Theorem C16_invalid_metadata_name_ignored : forall fx f d t rest, nonul f = true -> valid_name f = false ->
  4 + len_of f + len_of d < INT_LIMIT -> good t = true -> bytes_of t = enc (MMeta f d) ++ rest ->
  exists t', handle_client_sock fx t = Handled (if fx then ANone else AAppend f d) t' /\ good t' = true /\ bytes_of t' = rest.
Proof. exact invalid_name_ignored. Qed.
Print Assumptions C16_invalid_metadata_name_ignored.

(* read_all composes, for EVERY segmentation of the stream: a request of n1 bytes followed by a request of n2 bytes
   delivers, together, exactly the bytes one request of n1 + n2 bytes delivers and leaves the same rest - how the
   receiver splits a message into header and payload reads does not change what it sees. *)
Theorem C16_read_all_composes : forall t n1 n2, good t = true -> (n1 + n2 <= length (bytes_of t))%nat ->
  exists b1 t1 b2 t2 t12,
    read_all t n1 = Some (b1, t1) /\ read_all t1 n2 = Some (b2, t2) /\
    read_all t (n1 + n2) = Some (b1 ++ b2, t12) /\ bytes_of t2 = bytes_of t12.
Proof. exact read_all_composes. Qed.
Print Assumptions C16_read_all_composes.
