(* Property C16 - only statements, each closed by [exact]. *)
From Coq Require Import NArith List Bool.
Import ListNotations.
Require Import UV.Gen.Consts UV.C16.Model UV.C16.Proofs UV.C16.Frame.

(* read_all: for EVERY segmentation of the stream (chunks of any size, EINTRs in between) a request of
   n bytes returns exactly the first n bytes and leaves exactly the rest. *)
Theorem C16_read_all_segmentation : forall t n, good t = true -> (n <= length (bytes_of t))%nat ->
  exists t', read_all t n = Some (firstn n (bytes_of t), t') /\
             bytes_of t' = skipn n (bytes_of t) /\ good t' = true.
Proof. exact read_all_spec. Qed.
Print Assumptions C16_read_all_segmentation.

(* ... and fails (the caller exits) when the stream ends inside the request. *)
Theorem C16_read_all_short_stream : forall t n, (length (bytes_of t) < n)%nat -> read_all t n = None.
Proof. exact read_all_short. Qed.
Print Assumptions C16_read_all_short_stream.

(* writev_all: for EVERY sequence of short counts / EINTR / errors the bytes written are a prefix of the
   concatenation of the iovecs, the iovec walk never leaves the array, and a return of 0 means exactly
   the concatenation was written. *)
Theorem C16_writev_all_short_writes : forall sched iov,
  let w := writev_all sched iov in
  prefix_of (concat (w_frags w)) (concat iov) /\
  (w_status w = WDone -> concat (w_frags w) = concat iov) /\ w_status w <> WCrash.
Proof. exact writev_all_spec. Qed.
Print Assumptions C16_writev_all_short_writes.

(* ... and it does complete when no error occurs and the kernel accepts enough bytes in total. *)
Theorem C16_writev_all_progress : forall sched iov frags, no_werr sched = true ->
  (total iov <= capacity sched)%nat -> w_status (writev_loop sched iov (total iov) frags) = WDone.
Proof. exact writev_loop_progress. Qed.
Print Assumptions C16_writev_all_progress.

(* a writer sending messages one after the other (writev_all / write_all under any schedule) puts a
   prefix of the concatenated encodings on the wire, all of it when every call succeeded. *)
Theorem C16_sender_stream : forall ms sched,
  let '(st, fr) := send_all sched ms in
  prefix_of (concat fr) (concat (map enc ms)) /\
  (st = WDone -> concat fr = concat (map enc ms)) /\ st <> WCrash.
Proof. exact send_all_spec. Qed.
Print Assumptions C16_sender_stream.

(* the receiver's ntoh* undo the sender's hton* on the file header, field by field. *)
Theorem C16_header_swap_involutive : forall h, length h = HDR -> swap_hdr (swap_hdr h) = h.
Proof. exact swap_hdr_invol. Qed.
Print Assumptions C16_header_swap_involutive.

(* one message: any segmentation of [enc m ++ rest] is decoded to the action of m, leaving rest;
   payload sizes up to the int limit of the receiver (length field < 2^31). *)
Theorem C16_frame_one_message : forall m t rest, wf_msg m = true -> good t = true ->
  bytes_of t = enc m ++ rest ->
  exists t', handle_client_sock t = Handled (action_of m) t' /\ good t' = true /\ bytes_of t' = rest.
Proof. exact handle_msg. Qed.
Print Assumptions C16_frame_one_message.

(* whole runs, any number of sockets, any order of wake-ups, any segmentation per socket:
   the concrete server = the abstract run over the messages (including when it dies). *)
Theorem C16_frame_roundtrip : forall evs tm s (rest : N -> bytes),
  forallb (fun e => wf_msg (snd e)) evs = true ->
  (forall k, good (tm k) = true) ->
  (forall k, bytes_of (tm k) = stream_of k evs ++ rest k) ->
  match run evs s with
  | Some s' => exists tm', serve (map fst evs) tm s = Some (s', tm') /\
                           forall k, good (tm' k) = true /\ bytes_of (tm' k) = rest k
  | None => serve (map fst evs) tm s = None
  end.
Proof. exact serve_roundtrip. Qed.
Print Assumptions C16_frame_roundtrip.

(* the segmentations the harness uses satisfy the hypotheses above (non-vacuity). *)
Theorem C16_segment_is_a_segmentation : forall sched b,
  bytes_of (segment sched b) = b /\ good (segment sched b) = true.
Proof. exact segment_ok. Qed.
Print Assumptions C16_segment_is_a_segmentation.
