(* Property C06 - Replay shows all tasks in time order with correct nesting and durations.
   Only statements, each closed by [exact].  Model: UV.C06.Model (merge = read_user_stack,
   run = command_replay/print_graph_rstack over func_stack[], srun = reference semantics). *)
From Coq Require Import NArith List Bool Sorting.Sorted.
Import ListNotations.
Require Import UV.C06.Model UV.C06.MergeProofs UV.C06.Proofs UV.C06.FmtProofs UV.C06.TidView.
Require Import UV.C06.Sched UV.C06.SchedProofs.
Local Open Scope N_scope.

(* ---- the k-way merge ---- *)
(* every task's own records come out in their own order, none lost, none invented *)
Theorem C06_merge_preserves_task_order : forall qs i, proj i (merge qs) = nth i qs [].
Proof. exact merge_preserves_task_order. Qed.
Print Assumptions C06_merge_preserves_task_order.

Theorem C06_merge_complete : forall qs,
  length (merge qs) = total_len qs /\ Forall (fun p => (fst p < length qs)%nat) (merge qs).
Proof. exact (fun qs => conj (merge_complete qs) (merge_tags_valid qs)). Qed.
Print Assumptions C06_merge_complete.

(* if every task's timestamps are non-decreasing the merged stream is sorted by
   (timestamp, task index): oldest first, equal timestamps in task-index order *)
Theorem C06_merge_sorted_stable : forall qs, Forall time_sorted qs -> StronglySorted lex_le (merge qs).
Proof. exact merge_strongly_sorted. Qed.
Print Assumptions C06_merge_sorted_stable.

(* emptying the queues of unselected tasks (--tid) yields the sub-sequence of the others;
   no sortedness needed *)
Theorem C06_merge_tid_subsequence : forall S qs, merge (mask S qs 0) = keep S (merge qs).
Proof. exact merge_mask. Qed.
Print Assumptions C06_merge_tid_subsequence.

(* ---- replay: order ---- *)
(* --no-merge view: one line per record, in merge order, carrying the record's task and
   timestamp; the printed timestamps never decrease *)
Theorem C06_lines_in_time_order : forall forks sel tasks,
  lost_free tasks = true ->
  Forall time_sorted (map k_recs tasks) ->
  let ls := filter not_warn (fst (replay_raw (mkcfg false forks) sel tasks)) in
  map tag_of_line ls = map tag_of_rec (merge (mask_queues sel tasks 0)) /\
  StronglySorted N.le (map l_time ls).
Proof. exact lines_in_time_order. Qed.
Print Assumptions C06_lines_in_time_order.

(* ---- replay: nesting and durations ---- *)
(* the func_stack[]/stack_count/display_depth automaton prints exactly what the reference
   semantics (a stack of entry times per task, display depth inherited across fork) says *)
Theorem C06_replay_refines_reference : forall forks sel tasks, forallb wf_task tasks = true ->
  events_of (fst (replay_raw (mkcfg false forks) sel tasks)) =
  srun forks tasks (merge (mask_queues sel tasks 0)) (init_S sel tasks).
Proof. exact replay_refines_spec. Qed.
Print Assumptions C06_replay_refines_reference.

(* a stream that is the trace of a call forest is rendered as that forest: indentation =
   nesting depth, duration = t1 - t0; calls still open at the end have no closing line *)
Theorem C06_forest_exact : forall i f d dd stk rest,
  spec_task i dd stk (flat_forest d f ++ rest) = render_forest i dd f ++ spec_task i dd stk rest.
Proof. exact spec_forest. Qed.
Print Assumptions C06_forest_exact.

Theorem C06_open_calls : forall i t d dd stk, spec_task i dd stk (flat_tail d t) = render_tail i dd t.
Proof. exact spec_tail. Qed.
Print Assumptions C06_open_calls.

Theorem C06_calls_exact : forall forks sel tasks i d f t,
  forallb wf_task tasks = true -> selected sel i = true ->
  k_parent (nth i tasks (mktask None [])) = None ->
  k_recs (nth i tasks (mktask None [])) = flat_forest d f ++ flat_tail d t ->
  filter (of_task i) (events_of (fst (replay_raw (mkcfg false forks) sel tasks))) =
  render_forest i 0 f ++ render_tail i 0 t.
Proof. exact task_calls_exact. Qed.
Print Assumptions C06_calls_exact.

Theorem C06_calls_exact_folded : forall forks sel tasks i d f t,
  forallb wf_task tasks = true -> selected sel i = true ->
  k_parent (nth i tasks (mktask None [])) = None ->
  k_recs (nth i tasks (mktask None [])) = flat_forest d f ++ flat_tail d t ->
  filter (fun c : core => Nat.eqb (snd (fst (fst (fst c)))) i)
         (map core_of (events_of (fst (replay_raw (mkcfg true forks) sel tasks)))) =
  map core_of (render_forest i 0 f ++ render_tail i 0 t).
Proof. exact task_calls_exact_folded. Qed.
Print Assumptions C06_calls_exact_folded.

(* a forked child's first line continues at the display depth its parent had inside fork() *)
Theorem C06_fork_child_continues : forall forks tasks S i r tl p,
  k_parent (nth i tasks (mktask None [])) = Some p ->
  s_set (nth i S sstate0) = false -> s_fork (nth p S sstate0) <> 0 ->
  exists rest, srun forks tasks ((i, r) :: tl) S =
    match r_type r with
    | ENTRY => mkev true i (s_fork (nth p S sstate0)) (r_addr r) 0 (r_time r) :: rest
    | EXIT => match N.to_nat (first_depth r) with
              | O => []
              | _ => mkev false i (N.pred (s_fork (nth p S sstate0))) (r_addr r) 0 (r_time r) :: rest
              end
    | LOST => []
    end.
Proof. exact fork_child_continues. Qed.
Print Assumptions C06_fork_child_continues.

(* ---- LOST markers (libmcount buffer overflow) ---- *)
(* In the --no-merge view every ENTRY/EXIT record is shown with its task, function and timestamp,
   a LOST marker shows no call, and every record that lies in a depth-consistent stretch after a
   LOST marker of its task ([marks]) is indented by its own depth field: the nesting restarts at the
   depth of the first record after the gap.  Holds for every input (no well-formedness needed);
   with C06_fold_is_presentation also for the default view.  Durations of calls that were open
   at the marker or entered inside the gap are what the reader's slots give (model only). *)
Theorem C06_lost_resync : forall forks sel tasks,
  aligned (merge (mask_queues sel tasks 0)) (marks (merge (mask_queues sel tasks 0)) (T0 tasks))
          (events_of (fst (replay_raw (mkcfg false forks) sel tasks))).
Proof. exact replay_lost_resync. Qed.
Print Assumptions C06_lost_resync.

(* ---- presentation options ---- *)
(* leaf folding (default) vs --no-merge: same calls, same indentation, same durations (streams without
   longjmp(): a pending longjmp correction could move the depth between the two halves of a folded leaf;
   exec* and setjmp() are covered) *)
Theorem C06_fold_is_presentation : forall forks sel tasks, no_longjmp_tasks tasks = true ->
  map core_of (events_of (fst (replay_raw (mkcfg true forks) sel tasks))) =
  map core_of (events_of (fst (replay_raw (mkcfg false forks) sel tasks))).
Proof. exact fold_is_presentation. Qed.
Print Assumptions C06_fold_is_presentation.

(* --tid: exactly the lines of the selected tasks, unchanged - provided the selection keeps
   the parent of every selected forked child *)
Theorem C06_tid_selects : forall forks sel tasks,
  forallb wf_task tasks = true -> parent_closed (selected sel) tasks ->
  events_of (fst (replay_raw (mkcfg false forks) sel tasks)) =
  filter (fun e => selected sel (e_task e)) (events_of (fst (replay_raw (mkcfg false forks) None tasks))).
Proof. exact tid_selects. Qed.
Print Assumptions C06_tid_selects.

(* without that proviso the statement is false of the code: a forked child selected alone
   continues at its inherited stack depth, which differs from the full view when its parent is
   displayed with an offset *)
Theorem C06_tid_child_only_refuted :
  forallb wf_task tid_witness_offset = true /\
  events_of (fst (replay_raw (mkcfg false [4]) (Some [1%nat]) tid_witness_offset)) <>
  filter (fun e => selected (Some [1%nat]) (e_task e))
         (events_of (fst (replay_raw (mkcfg false [4]) None tid_witness_offset))).
Proof. exact tid_child_only_refuted. Qed.
Print Assumptions C06_tid_child_only_refuted.

(* -f: columns are blanked, nothing else *)
Theorem C06_fields_only_mask : forall f ls, events_of (map (view_line f) ls) = map (ev_view f) (events_of ls).
Proof. exact fields_only_mask. Qed.
Print Assumptions C06_fields_only_mask.

(* --column-view: a per-task offset that the checker's inverse removes again *)
Theorem C06_column_view_roundtrip : forall off ls cols next,
  uncolumn off cols next (column_view off cols next ls) = ls.
Proof. exact column_view_roundtrip. Qed.
Print Assumptions C06_column_view_roundtrip.

(* --task-newline: only blank lines are added *)
Theorem C06_task_newline_only_blanks : forall ls prev,
  forallb not_blank ls = true -> filter not_blank (task_newline prev ls) = ls.
Proof. exact task_newline_only_blanks. Qed.
Print Assumptions C06_task_newline_only_blanks.

(* print_time_unit loses nothing below one millisecond (durations are compared exactly there) *)
Theorem C06_time_format_exact_below_1ms : forall d, d < 1000000 -> fmt_time d = d.
Proof. exact fmt_time_exact. Qed.
Print Assumptions C06_time_format_exact_below_1ms.

Theorem C06_time_format_keeps_events : forall ls, events_of (map fmt_line ls) = map fmt_ev (events_of ls).
Proof. exact events_fmt. Qed.
Print Assumptions C06_time_format_keeps_events.

(* "its printed duration equals exit minus entry": for every duration below 1000 hours the printed
   text determines the duration up to the resolution of its unit (1 ns for us, 1 us for ms, 1 ms for s,
   1 s for m - the fraction of "m" counts seconds - and 1 min for h): the value is truncated, never
   rounded up, never in the wrong unit *)
Theorem C06_time_format_truncates : forall d, 0 < d -> d < 3600000000000000 ->
  fmt_lo (fmt_time d) <= d /\ d < fmt_lo (fmt_time d) + fmt_step (fmt_time d).
Proof. exact fmt_time_truncates. Qed.
Print Assumptions C06_time_format_truncates.

(* perf context-switch events (perf-cpuN.dat) merged with the user records; a sched-out / sched-in pair is a virtual call
   working on the top of the task's stack.  With the tie rule of the (fixed) code - a sched-in before, a sched-out after the
   records of the same timestamp - the user calls keep the durations and nesting they have without the events on the tie
   witnesses; PARTIAL: for generated data this is checked per case by ok_sched on the real output, not proved in general *)
Theorem C06_sched_tie_rule_ok_partial :
  ok_with tie_sched_in_first w_out_at_exit = true /\ ok_with tie_sched_in_first w_in_at_exit = true /\
  ok_with tie_sched_in_first w_in_at_entry = true.
Proof. exact sched_in_first_ok. Qed.
Print Assumptions C06_sched_tie_rule_ok_partial.

(* `perf->time <= min_timestamp`: refuted (a sched-out at the time of an EXIT: the call is shown with duration 0) *)
Theorem C06_sched_perf_first_refuted : ok_with tie_perf_first w_out_at_exit = false.
Proof. exact perf_first_refuted. Qed.
Print Assumptions C06_sched_perf_first_refuted.

(* the code as found (user record always first): refuted for a sched-in at the time of an EXIT / ENTRY of its task *)
Theorem C06_sched_user_first_legacy_refuted :
  ok_with tie_user_first w_in_at_exit = false /\ ok_with tie_user_first w_in_at_entry = false /\
  ok_with tie_user_first w_out_at_exit = true.
Proof. exact user_first_legacy_refuted. Qed.
Print Assumptions C06_sched_user_first_legacy_refuted.

(* the perf extension is conservative: without perf events it is the --no-merge view of the base model, whatever the tie rule *)
Theorem C06_sched_conservative : forall wins forks sel f tasks,
  replay_x wins forks sel f tasks [] = map XL (fst (replay forks (mkvariant false sel f None false) tasks)).
Proof. exact replay_x_no_perf. Qed.
Print Assumptions C06_sched_conservative.

(* a task (set up, not waiting for a re-synchronisation) switched out at a and in at b: stack count, display depth and user
   stack count are restored, every frame below the top is untouched - the open calls keep their start times, so their
   durations are exit - entry as without the pair - and the slot the sched-in line shows holds b - a *)
Theorem C06_sched_pair_neutral : forall inh ts i a b k,
  t_set ts = true -> t_lost ts = false -> k <> 1 -> a <= b -> b < W64 ->
  let ts1 := consume_p inh ts (dummy (mkpev a i k)) in
  let ts2 := consume_p inh ts1 (dummy (mkpev b i 1)) in
  t_sc ts2 = t_sc ts /\ t_dd ts2 = t_dd ts /\ t_usc ts2 = t_usc ts /\ t_set ts2 = true /\ t_lost ts2 = false /\
  (forall j, j < t_sc ts -> fget (t_stack ts2) j = fget (t_stack ts) j) /\
  f_time (fget (t_stack ts2) (t_sc ts2)) = b - a.
Proof. exact sched_pair_neutral. Qed.
Print Assumptions C06_sched_pair_neutral.

(* The --tid view task by task, for ALL queues and ALL selections: in the merged stream of the selected tasks a
   selected task has exactly its own records in its own order and an unselected task has none. *)
Theorem C06_tid_view_per_task : forall S qs i,
  proj i (merge (mask S qs 0)) = if S i then nth i qs [] else [].
Proof. exact tid_view_per_task. Qed.
Print Assumptions C06_tid_view_per_task.
