(* Property C06 - only statements, each closed by [exact]. *)
From Coq Require Import NArith List Bool.
Import ListNotations.
Require Import UV.C06.Model UV.C06.Proofs.

Theorem C06_placeholder : True.
Proof. exact placeholder. Qed.
Print Assumptions C06_placeholder.
