(* C03 - exec: a task that changes its libmcount session mid-way (same tid, new shm names).  The invariant and all
   its consequences cover the step (P_exec is a label of the transition system); here a concrete run, and what
   happens when the recorder does not flush the old image's buffer at the TASK_START of the new image. *)
From Coq Require Import List Arith Bool PeanoNat NArith Lia.
Import ListNotations.
Require Import UV.Gen.Consts UV.C03.Model UV.C03.Lib UV.C03.Inv UV.C03.StepsR UV.C03.StepsP UV.C03.Proofs UV.C03.Lost.

(* one-record buffers; the task emits r1, execs, emits r2 and r3 (r3 needs a second buffer of the new session, so the
   first one is handed over with REC_END before the end of the run) *)
Definition exec_trace : list label :=
  [P_start 0; P_emit 0 (r16 1) 0 true; P_exec 0; P_emit 0 (r16 2) 0 true; P_emit 0 (r16 3) 0 true;
   M_msg; M_msg; M_msg; M_msg; M_msg;            (* START old, START new, TASK_START (flush_old_shmem), END new.0, START new.1 *)
   W_pick 0; W_write 0; W_release 0; W_write 0; W_release 0; W_splice 0;
   M_stop; M_join; M_flush1; M_rem1].
Lemma exec_run :
  exists s, run {| maxsize := 16 |} (init 1) exec_trace = Some s /\ finished s = true /\
            emitted s 0 = [r16 1; r16 2; r16 3] /\ bytes_of (file s 0) = r16 1 ++ r16 2 ++ r16 3.
Proof.
  destruct (run {| maxsize := 16 |} (init 1) exec_trace) as [s|] eqn:E; [|vm_compute in E; discriminate].
  exists s. split; [reflexivity|]. vm_compute in E. injection E as <-. vm_compute. repeat split; reflexivity.
Qed.

(* NOT the code: a recorder that does not recognise the TASK_START of a task it knows (e.g. because it compares the
   pid as well and a forked child is listed under its parent's pid): the message is consumed without flush_old_shmem *)
Definition step_noflush (c : cfg) (s : st) (l : label) : option st :=
  match l, chan s with
  | M_msg, MExec _ :: r => if stopped s then None else Some (set_chan s r)
  | _, _ => step c s l
  end.
Fixpoint run_noflush (c : cfg) (s : st) (ls : list label) : option st :=
  match ls with
  | [] => Some s
  | l :: r => match step_noflush c s l with Some s' => run_noflush c s' r | None => None end
  end.
Definition exec_trace_noflush : list label :=
  [P_start 0; P_emit 0 (r16 1) 0 true; P_exec 0; P_emit 0 (r16 2) 0 true; P_emit 0 (r16 3) 0 true;
   M_msg; M_msg; M_msg; M_msg; M_msg;
   W_pick 0; W_write 0; W_release 0; W_splice 0;
   M_stop; M_join; M_flush1; M_flush1; M_rem1; M_rem1].
Lemma exec_noflush_refuted :
  exists s, run_noflush {| maxsize := 16 |} (init 1) exec_trace_noflush = Some s /\ finished s = true /\
            emitted s 0 = [r16 1; r16 2; r16 3] /\
            bytes_of (file s 0) = r16 2 ++ r16 1 ++ r16 3.     (* nothing lost, but the pre-exec record comes second *)
Proof.
  destruct (run_noflush {| maxsize := 16 |} (init 1) exec_trace_noflush) as [s|] eqn:E; [|vm_compute in E; discriminate].
  exists s. split; [reflexivity|]. vm_compute in E. injection E as <-. vm_compute. repeat split; reflexivity.
Qed.

(* the TASK_START of a known task finds exactly the buffer the old image was recording into *)
Theorem exec_flushes_old_buffer c nw s b r : reach c nw s -> stopped s = false -> chan s = MExec b :: r ->
  first_tid (fst b) (shl s) = Some b /\ In b (chain s (fst b)).
Proof.
  intros R Es Ec. pose proof (inv_reachable c nw s R) as I.
  pose proof (I_chan s I Es (fst b)) as CK. rewrite Ec in CK. cbn [chan_ok] in CK. rewrite Nat.eqb_refl in CK.
  destruct CK as (sl' & Hsl & _). split; [eapply first_tid_of_tid; eassumption|].
  unfold chain, pend. rewrite Es, Ec. cbn [ends flat_map]. rewrite Nat.eqb_refl.
  apply in_or_app. right. apply in_or_app. right. left. reflexivity.
Qed.
