(* C03 - the hand-off of trace records between the traced program (libmcount/record.c:
   get_shmem_buffer / get_new_shmem_buffer / finish_shmem_buffer / shmem_finish) and the recorder
   (cmds/record.c: read_record_mmap / record_mmap_file / copy_to_buffer / writer_thread /
   write_buf_list / stop_all_writers / flush_shmem_list / record_remaining_buffer), as an
   executable interleaving transition system.  NO proofs in this file.

   One atomic step of the model = one critical section / one externally visible action of the C code:
     P_start t        prepare_shmem_buffer: two buffers, REC_START(0), flag[0] = RECORDING|NEW
     P_emit t r pad ok  one record through get_shmem_buffer (+ finish_shmem_buffer + get_new_shmem_buffer
                      [r = the bytes by which `size` advances, pad = how many of them are 8-byte alignment
                       padding that the size test of get_shmem_buffer does not count: record_ret_stack asks
                       for 16 + argsize bytes and then advances by 16 + ALIGN (argsize, 8)]
                      when the record does not fit); ok = answer of allocate_shmem_buffer if it is asked
     P_addlost t n    record_trace_data: `losts += count - 1` after a failed parent ENTRY
     P_finish t       shmem_finish (thread exit)
     M_msg            read_record_mmap on the next REC_START / REC_END / LOST message of the FIFO
     W_pick w         writer_thread: critical section 1 (take first buf + all of that tid, register)
     W_write w        write_buffer: append to <tid>.dat, size = 0
     W_release w      __sync_synchronize(); flag = WRITTEN
     W_splice w       writer_thread: critical section 2 (take warg->bufs or unregister)
     M_stop           stop_tracing: FIFO drained, tracee gone, stop_all_writers
     M_join           pthread_join of all writers
     M_flush1         flush_shmem_list: one entry;   M_rem1   record_remaining_buffer: one entry
   Buffers hold whole records (a record is appended by one P_emit); a byte is an N. *)
From Coq Require Import List Arith Bool PeanoNat NArith.
Import ListNotations.
Require Import UV.Gen.Consts.

Notation tid := nat (only parsing).
Notation bufid := (nat * nat)%type (only parsing).   (* (thread, index in its ring) = shm object name *)
Notation byte := N (only parsing).
Notation rec := (list N) (only parsing).             (* one whole encoded record *)

Definition bid_eqb (a b : bufid) : bool := Nat.eqb (fst a) (fst b) && Nat.eqb (snd a) (snd b).
Definition upd {A} (f : bufid -> A) (b : bufid) (v : A) : bufid -> A :=
  fun x => if bid_eqb x b then v else f x.
Definition updt {A} (f : tid -> A) (t : tid) (v : A) : tid -> A :=
  fun x => if Nat.eqb x t then v else f x.

(* mcount_shmem_buffer.flag *)
Record flags := { f_new : bool; f_wr : bool; f_rec : bool }.
Definition fl0 := {| f_new := false; f_wr := false; f_rec := false |}.
Definition fl_start := {| f_new := true; f_wr := false; f_rec := true |}.
Definition fl_written := {| f_new := false; f_wr := true; f_rec := false |}.
Definition set_rec (f : flags) := {| f_new := f_new f; f_wr := f_wr f; f_rec := true |}.
Definition is_wr (f : flags) : bool := negb (f_new f) && f_wr f && negb (f_rec f).   (* flag == WRITTEN *)
Definition flag_word (f : flags) : N :=
  ((if f_new f then SHMEM_FL_NEW else 0) + (if f_wr f then SHMEM_FL_WRITTEN else 0)
   + (if f_rec f then SHMEM_FL_RECORDING else 0))%N.

(* struct writer_arg as far as the hand-off is concerned: tid (None = not in writer_list),
   the local list `head` still to be written, warg->bufs, and "file written, flag not yet released" *)
Record writer := { wtid : option tid; whead : list bufid; wbufs : list bufid; wrote : bool }.
Definition w_idle := {| wtid := None; whead := []; wbufs := []; wrote := false |}.

(* MExec b = TASK_START of a task the recorder already knows (exec: same tid, new libmcount session); the message
   itself carries only the tid, fst b; b (ghost) is the buffer the old image was recording into *)
Inductive msg := MStart (b : bufid) | MEnd (b : bufid) | MLost (n : N) | MExec (b : bufid).

(* ghost log of one producer: what it put into its buffers, and what it had to drop *)
Inductive pev := Emit (r : rec) | Marker (n : N) (r : rec) | Drop (r : rec).

Record cfg := { maxsize : nat }.   (* shmem_bufsize - sizeof(struct mcount_shmem_buffer) *)

Record st := {
  data : bufid -> list rec;        (* data[0..size) of a shm buffer, as whole records *)
  flag : bufid -> flags;
  stale : bufid -> N;              (* depth bits left at offset 0 of the buffer (the LOST record does not set them) *)
  nbuf : tid -> nat;               (* shmem->nr_buf; 0 = thread not started *)
  rbase : tid -> nat;              (* index (in this model's numbering) of buffer 0 of the task's current libmcount
                                      session: after exec the new image has its own shm names; they are numbered
                                      on from the old ones, (t, rbase t + k) = buffer k of the new session *)
  curr : tid -> option nat;        (* shmem->curr; None = -1 *)
  losts : tid -> N;
  pdone : tid -> bool;
  plog : tid -> list pev;          (* ghost *)
  chan : list msg;                 (* the FIFO, whole messages *)
  shl : list bufid;                (* shmem_list_head *)
  bwl : list bufid;                (* buf_write_list *)
  ws : list writer;
  lostcnt : N;                     (* shmem_lost_count *)
  gmark : N;                       (* ghost: sum of the counts of all LOST markers written *)
  kicks : nat;                     (* bytes/4 waiting in the thread_ctl pipe: wake-ups for the writers *)
  stopped : bool;                  (* buf_done *)
  joined : bool;
  file : tid -> list rec           (* <tid>.dat *)
}.

Definition set_data (s : st) (v : bufid -> list rec) : st :=
  {| data := v; flag := flag s; stale := stale s; nbuf := nbuf s; rbase := rbase s; curr := curr s; losts := losts s; pdone := pdone s; plog := plog s; chan := chan s; shl := shl s; bwl := bwl s; ws := ws s; lostcnt := lostcnt s; gmark := gmark s; kicks := kicks s; stopped := stopped s; joined := joined s; file := file s |}.
Definition set_flag (s : st) (v : bufid -> flags) : st :=
  {| data := data s; flag := v; stale := stale s; nbuf := nbuf s; rbase := rbase s; curr := curr s; losts := losts s; pdone := pdone s; plog := plog s; chan := chan s; shl := shl s; bwl := bwl s; ws := ws s; lostcnt := lostcnt s; gmark := gmark s; kicks := kicks s; stopped := stopped s; joined := joined s; file := file s |}.
Definition set_stale (s : st) (v : bufid -> N) : st :=
  {| data := data s; flag := flag s; stale := v; nbuf := nbuf s; rbase := rbase s; curr := curr s; losts := losts s; pdone := pdone s; plog := plog s; chan := chan s; shl := shl s; bwl := bwl s; ws := ws s; lostcnt := lostcnt s; gmark := gmark s; kicks := kicks s; stopped := stopped s; joined := joined s; file := file s |}.
Definition set_nbuf (s : st) (v : tid -> nat) : st :=
  {| data := data s; flag := flag s; stale := stale s; nbuf := v; rbase := rbase s; curr := curr s; losts := losts s; pdone := pdone s; plog := plog s; chan := chan s; shl := shl s; bwl := bwl s; ws := ws s; lostcnt := lostcnt s; gmark := gmark s; kicks := kicks s; stopped := stopped s; joined := joined s; file := file s |}.
Definition set_rbase (s : st) (v : tid -> nat) : st :=
  {| data := data s; flag := flag s; stale := stale s; nbuf := nbuf s; rbase := v; curr := curr s; losts := losts s; pdone := pdone s; plog := plog s; chan := chan s; shl := shl s; bwl := bwl s; ws := ws s; lostcnt := lostcnt s; gmark := gmark s; kicks := kicks s; stopped := stopped s; joined := joined s; file := file s |}.
Definition set_curr (s : st) (v : tid -> option nat) : st :=
  {| data := data s; flag := flag s; stale := stale s; nbuf := nbuf s; rbase := rbase s; curr := v; losts := losts s; pdone := pdone s; plog := plog s; chan := chan s; shl := shl s; bwl := bwl s; ws := ws s; lostcnt := lostcnt s; gmark := gmark s; kicks := kicks s; stopped := stopped s; joined := joined s; file := file s |}.
Definition set_losts (s : st) (v : tid -> N) : st :=
  {| data := data s; flag := flag s; stale := stale s; nbuf := nbuf s; rbase := rbase s; curr := curr s; losts := v; pdone := pdone s; plog := plog s; chan := chan s; shl := shl s; bwl := bwl s; ws := ws s; lostcnt := lostcnt s; gmark := gmark s; kicks := kicks s; stopped := stopped s; joined := joined s; file := file s |}.
Definition set_pdone (s : st) (v : tid -> bool) : st :=
  {| data := data s; flag := flag s; stale := stale s; nbuf := nbuf s; rbase := rbase s; curr := curr s; losts := losts s; pdone := v; plog := plog s; chan := chan s; shl := shl s; bwl := bwl s; ws := ws s; lostcnt := lostcnt s; gmark := gmark s; kicks := kicks s; stopped := stopped s; joined := joined s; file := file s |}.
Definition set_plog (s : st) (v : tid -> list pev) : st :=
  {| data := data s; flag := flag s; stale := stale s; nbuf := nbuf s; rbase := rbase s; curr := curr s; losts := losts s; pdone := pdone s; plog := v; chan := chan s; shl := shl s; bwl := bwl s; ws := ws s; lostcnt := lostcnt s; gmark := gmark s; kicks := kicks s; stopped := stopped s; joined := joined s; file := file s |}.
Definition set_chan (s : st) (v : list msg) : st :=
  {| data := data s; flag := flag s; stale := stale s; nbuf := nbuf s; rbase := rbase s; curr := curr s; losts := losts s; pdone := pdone s; plog := plog s; chan := v; shl := shl s; bwl := bwl s; ws := ws s; lostcnt := lostcnt s; gmark := gmark s; kicks := kicks s; stopped := stopped s; joined := joined s; file := file s |}.
Definition set_shl (s : st) (v : list bufid) : st :=
  {| data := data s; flag := flag s; stale := stale s; nbuf := nbuf s; rbase := rbase s; curr := curr s; losts := losts s; pdone := pdone s; plog := plog s; chan := chan s; shl := v; bwl := bwl s; ws := ws s; lostcnt := lostcnt s; gmark := gmark s; kicks := kicks s; stopped := stopped s; joined := joined s; file := file s |}.
Definition set_bwl (s : st) (v : list bufid) : st :=
  {| data := data s; flag := flag s; stale := stale s; nbuf := nbuf s; rbase := rbase s; curr := curr s; losts := losts s; pdone := pdone s; plog := plog s; chan := chan s; shl := shl s; bwl := v; ws := ws s; lostcnt := lostcnt s; gmark := gmark s; kicks := kicks s; stopped := stopped s; joined := joined s; file := file s |}.
Definition set_ws (s : st) (v : list writer) : st :=
  {| data := data s; flag := flag s; stale := stale s; nbuf := nbuf s; rbase := rbase s; curr := curr s; losts := losts s; pdone := pdone s; plog := plog s; chan := chan s; shl := shl s; bwl := bwl s; ws := v; lostcnt := lostcnt s; gmark := gmark s; kicks := kicks s; stopped := stopped s; joined := joined s; file := file s |}.
Definition set_lostcnt (s : st) (v : N) : st :=
  {| data := data s; flag := flag s; stale := stale s; nbuf := nbuf s; rbase := rbase s; curr := curr s; losts := losts s; pdone := pdone s; plog := plog s; chan := chan s; shl := shl s; bwl := bwl s; ws := ws s; lostcnt := v; gmark := gmark s; kicks := kicks s; stopped := stopped s; joined := joined s; file := file s |}.
Definition set_gmark (s : st) (v : N) : st :=
  {| data := data s; flag := flag s; stale := stale s; nbuf := nbuf s; rbase := rbase s; curr := curr s; losts := losts s; pdone := pdone s; plog := plog s; chan := chan s; shl := shl s; bwl := bwl s; ws := ws s; lostcnt := lostcnt s; gmark := v; kicks := kicks s; stopped := stopped s; joined := joined s; file := file s |}.
Definition set_kicks (s : st) (v : nat) : st :=
  {| data := data s; flag := flag s; stale := stale s; nbuf := nbuf s; rbase := rbase s; curr := curr s; losts := losts s; pdone := pdone s; plog := plog s; chan := chan s; shl := shl s; bwl := bwl s; ws := ws s; lostcnt := lostcnt s; gmark := gmark s; kicks := v; stopped := stopped s; joined := joined s; file := file s |}.
Definition set_stopped (s : st) (v : bool) : st :=
  {| data := data s; flag := flag s; stale := stale s; nbuf := nbuf s; rbase := rbase s; curr := curr s; losts := losts s; pdone := pdone s; plog := plog s; chan := chan s; shl := shl s; bwl := bwl s; ws := ws s; lostcnt := lostcnt s; gmark := gmark s; kicks := kicks s; stopped := v; joined := joined s; file := file s |}.
Definition set_joined (s : st) (v : bool) : st :=
  {| data := data s; flag := flag s; stale := stale s; nbuf := nbuf s; rbase := rbase s; curr := curr s; losts := losts s; pdone := pdone s; plog := plog s; chan := chan s; shl := shl s; bwl := bwl s; ws := ws s; lostcnt := lostcnt s; gmark := gmark s; kicks := kicks s; stopped := stopped s; joined := v; file := file s |}.
Definition set_file (s : st) (v : tid -> list rec) : st :=
  {| data := data s; flag := flag s; stale := stale s; nbuf := nbuf s; rbase := rbase s; curr := curr s; losts := losts s; pdone := pdone s; plog := plog s; chan := chan s; shl := shl s; bwl := bwl s; ws := ws s; lostcnt := lostcnt s; gmark := gmark s; kicks := kicks s; stopped := stopped s; joined := joined s; file := v |}.

Definition init (nw : nat) : st :=
  {| data := fun _ => []; flag := fun _ => fl0; stale := fun _ => 0%N; nbuf := fun _ => 0; rbase := fun _ => 0; curr := fun _ => None;
     losts := fun _ => 0%N; pdone := fun _ => false; plog := fun _ => []; chan := []; shl := []; bwl := [];
     ws := repeat w_idle nw; lostcnt := 0%N; gmark := 0%N; kicks := 0; stopped := false; joined := false;
     file := fun _ => [] |}.

(* ------------------------------------------------------------------ records *)
Fixpoint le_bytes (k : nat) (n : N) : list byte :=
  match k with 0 => [] | S k' => (n mod 256)%N :: le_bytes k' (n / 256)%N end.
Fixpoint of_le (l : list byte) : N :=
  match l with [] => 0%N | b :: t => (b + 256 * of_le t)%N end.
(* the hand-packed word of record_ret_stack: type | MAGIC<<3 | more<<2 | depth<<6 | addr<<16 *)
Definition rec_word (ty depth addr : N) : N :=
  ((ty + RECORD_MAGIC * 8 + depth * 64 + addr * 65536) mod 18446744073709551616)%N.
Definition enc_rec (time ty depth addr : N) : rec := le_bytes 8 time ++ le_bytes 8 (rec_word ty depth addr).
(* depth bit-field of the record whose bytes are r *)
Definition depth_of (r : rec) : N := ((of_le (firstn 8 (skipn 8 r)) / 64) mod 1024)%N.
(* the LOST record of get_new_shmem_buffer: time, type, magic, more and addr are assigned, depth is not *)
Definition lostrec (n dstale : N) : rec := enc_rec 0 UFTRACE_LOST dstale (n mod 281474976710656)%N.

Definition bytes_of (l : list rec) : list byte := concat l.
Definition size (s : st) (b : bufid) : nat := length (bytes_of (data s b)).

(* what a producer put into its buffers, in order (LOST markers included) *)
Definition emitted_of (l : list pev) : list rec :=
  flat_map (fun e => match e with Emit r => [r] | Marker _ r => [r] | Drop _ => [] end) l.
Definition dropped_of (l : list pev) : list rec :=
  flat_map (fun e => match e with Drop r => [r] | _ => [] end) l.
Definition emitted (s : st) (t : tid) := emitted_of (plog s t).
Definition dropped (s : st) (t : tid) := dropped_of (plog s t).

(* ------------------------------------------------------------------ producer (libmcount/record.c) *)
Definition append_rec (s : st) (t : tid) (i : nat) (r : rec) : st :=
  let b := (t, i) in
  let s1 := match data s b with [] => set_stale s (upd (stale s) b (depth_of r)) | _ => s end in
  let s2 := set_data s1 (upd (data s1) b (data s1 b ++ [r])) in
  set_plog s2 (updt (plog s2) t (plog s2 t ++ [Emit r])).

(* "always use first buffer available": first idx < nr_buf whose flag lacks RECORDING *)
Fixpoint find_free_from (s : st) (t : tid) (i k : nat) : option nat :=
  match k with
  | 0 => None
  | S k' => if f_rec (flag s (t, i)) then find_free_from s t (S i) k' else Some i
  end.
Definition find_free (s : st) (t : tid) : option nat := find_free_from s t (rbase s t) (nbuf s t - rbase s t).

Definition count_written (s : st) (t : tid) (from upto : nat) : nat :=
  length (filter (fun i => is_wr (flag s (t, i))) (seq from (upto - from))).
(* "shrink unused buffers" *)
Definition shrink (s : st) (t : tid) (idx : nat) : st :=
  let n := nbuf s t in
  if idx + 3 <=? n then
    if (3 <=? count_written s t (S idx) n) && is_wr (flag s (t, n - 1))
    then set_nbuf s (updt (nbuf s) t (n - 1)) else s
  else s.

(* NOT the code: the same block with `flag & SHMEM_FL_WRITTEN` instead of `flag == SHMEM_FL_WRITTEN`
   (only used to show why the exact comparison matters: C03_shrink_loose_refuted) *)
Definition shrink_loose (s : st) (t : tid) (idx : nat) : st :=
  let n := nbuf s t in
  if idx + 3 <=? n then
    if (3 <=? length (filter (fun i => f_wr (flag s (t, i))) (seq (S idx) (n - S idx)))) && f_wr (flag s (t, n - 1))
    then set_nbuf s (updt (nbuf s) t (n - 1)) else s
  else s.

Definition marker (s : st) (t : tid) (b : bufid) : st :=
  let n := losts s t in
  let lr := lostrec n (stale s b) in
  let s1 := set_data s (upd (data s) b [lr]) in
  let s2 := set_chan s1 (chan s1 ++ [MLost n]) in
  let s3 := set_plog s2 (updt (plog s2) t (plog s2 t ++ [Marker n lr])) in
  let s4 := set_gmark s3 (gmark s3 + n)%N in
  set_losts s4 (updt (losts s4) t 0%N).

(* the `reuse:` part of get_new_shmem_buffer for buffer idx, then the record itself *)
Definition take (s : st) (t : tid) (idx : nat) (r : rec) : st :=
  let b := (t, idx) in
  let s1 := set_flag s (upd (flag s) b (set_rec (flag s b))) in
  let s2 := set_curr s1 (updt (curr s1) t (Some idx)) in
  let s3 := set_data s2 (upd (data s2) b []) in
  let s4 := shrink s3 t idx in
  let s5 := set_chan s4 (chan s4 ++ [MStart b]) in
  let s6 := if (losts s5 t =? 0)%N then s5 else marker s5 t b in
  append_rec s6 t idx r.

(* a fresh shm object at index nr_buf (O_CREAT|O_TRUNC + ftruncate: all zero) *)
Definition grow (s : st) (t : tid) : st :=
  let n := nbuf s t in
  let b := (t, n) in
  let s1 := set_data s (upd (data s) b []) in
  let s2 := set_flag s1 (upd (flag s1) b fl0) in
  let s3 := set_stale s2 (upd (stale s2) b 0%N) in
  set_nbuf s3 (updt (nbuf s3) t (S n)).

(* allocation failed: get_new_shmem_buffer: losts++, curr = -1; get_shmem_buffer: losts++ *)
Definition alloc_failed (s : st) (t : tid) (r : rec) : st :=
  let s1 := set_losts s (updt (losts s) t (losts s t + 2)%N) in
  let s2 := set_curr s1 (updt (curr s1) t None) in
  set_plog s2 (updt (plog s2) t (plog s2 t ++ [Drop r])).

Definition switch (s : st) (t : tid) (r : rec) (ok : bool) : st :=
  match find_free s t with
  | Some idx => take s t idx r
  | None => if ok then take (grow s t) t (nbuf s t) r else alloc_failed s t r
  end.

Definition p_live (s : st) (t : tid) : bool := negb (nbuf s t =? 0) && negb (pdone s t) && negb (stopped s).

Definition p_start (s : st) (t : tid) : option st :=
  if (nbuf s t =? 0) && negb (stopped s) then
    let s1 := set_data s (upd (upd (data s) (t, 0) []) (t, 1) []) in
    let s2 := set_flag s1 (upd (upd (flag s1) (t, 0) fl_start) (t, 1) fl0) in
    let s3 := set_stale s2 (upd (upd (stale s2) (t, 0) 0%N) (t, 1) 0%N) in
    let s4 := set_nbuf s3 (updt (nbuf s3) t 2) in
    let s5 := set_curr s4 (updt (curr s4) t (Some 0)) in
    Some (set_chan s5 (chan s5 ++ [MStart (t, 0)]))
  else None.

(* exec(): the image is replaced while the task keeps its tid.  The old image's current buffer stays as it is (REC_START
   sent, no REC_END); the new libmcount starts a new session: two fresh buffers, REC_START for the first, then
   TASK_START (mcount_prepare).  (exec while the thread has no buffer - right after a failed allocation - is left out.) *)
Definition p_exec (s : st) (t : tid) : option st :=
  if p_live s t then
    match curr s t with
    | Some i =>
        let n := nbuf s t in
        let s1 := set_data s (upd (upd (data s) (t, n) []) (t, S n) []) in
        let s2 := set_flag s1 (upd (upd (flag s1) (t, n) fl_start) (t, S n) fl0) in
        let s3 := set_stale s2 (upd (upd (stale s2) (t, n) 0%N) (t, S n) 0%N) in
        let s4 := set_rbase s3 (updt (rbase s3) t n) in
        let s5 := set_nbuf s4 (updt (nbuf s4) t (S (S n))) in
        let s6 := set_curr s5 (updt (curr s5) t (Some n)) in
        Some (set_chan s6 (chan s6 ++ [MStart (t, n); MExec (t, i)]))
    | None => None
    end
  else None.

Definition p_emit (c : cfg) (s : st) (t : tid) (r : rec) (pad : nat) (ok : bool) : option st :=
  if p_live s t then
    match curr s t with
    | Some i => if size s (t, i) + (length r - pad) <=? maxsize c then Some (append_rec s t i r)
                else (* finish_shmem_buffer(curr); get_new_shmem_buffer overwrites curr in every case *)
                  let s0 := set_chan s (chan s ++ [MEnd (t, i)]) in
                  Some (switch (set_curr s0 (updt (curr s0) t None)) t r ok)
    | None => Some (switch s t r ok)
    end
  else None.

Definition p_addlost (s : st) (t : tid) (n : N) : option st :=
  if p_live s t then
    match curr s t with
    | None => Some (set_losts s (updt (losts s) t (losts s t + n)%N))
    | Some _ => None
    end
  else None.

Definition p_finish (s : st) (t : tid) : option st :=
  if p_live s t then
    let s1 := match curr s t with
              | Some i => if f_rec (flag s (t, i)) then set_chan s (chan s ++ [MEnd (t, i)]) else s
              | None => s
              end in
    let s2 := set_pdone s1 (updt (pdone s1) t true) in
    Some (set_curr s2 (updt (curr s2) t None))
  else None.

(* ------------------------------------------------------------------ recorder (cmds/record.c) *)
Definition of_tid (t : tid) (l : list bufid) : list bufid := filter (fun b => Nat.eqb (fst b) t) l.
Definition not_tid (t : tid) (l : list bufid) : list bufid := filter (fun b => negb (Nat.eqb (fst b) t)) l.

Fixpoint remove_first (b : bufid) (l : list bufid) : list bufid :=
  match l with [] => [] | x :: r => if bid_eqb x b then r else x :: remove_first b r end.

Definition works_for (t : tid) (w : writer) : bool :=
  match wtid w with Some t' => Nat.eqb t' t | None => false end.
Definition give_to (w : writer) (b : bufid) : writer :=
  {| wtid := wtid w; whead := whead w; wbufs := wbufs w ++ [b]; wrote := wrote w |}.
(* copy_to_buffer: "check some writers work for this tid": hand the buffer to the first such writer *)
Fixpoint give (b : bufid) (l : list writer) : option (list writer) :=
  match l with
  | [] => None
  | w :: r => if works_for (fst b) w then Some (give_to w b :: r)
              else match give b r with Some r' => Some (w :: r') | None => None end
  end.
Definition copy_to_buffer (s : st) (b : bufid) : st :=
  match give b (ws s) with
  | Some ws' => set_ws s ws'
  | None => (* list_add_tail(&buf->list, &buf_write_list); write(thread_ctl[1], &kick, 4) - fails once the pipe is closed *)
            let s1 := set_bwl s (bwl s ++ [b]) in
            if stopped s then s1 else set_kicks s1 (S (kicks s))
  end.
Definition is_nil {A} (l : list A) : bool := match l with [] => true | _ => false end.
(* record_mmap_file: queued only if the flag has RECORDING and size != 0 *)
Definition record_mmap (s : st) (b : bufid) : st :=
  if f_rec (flag s b) && negb (is_nil (data s b)) then copy_to_buffer s b else s.

Fixpoint first_tid (t : tid) (l : list bufid) : option bufid :=
  match l with [] => None | x :: r => if Nat.eqb (fst x) t then Some x else first_tid t r end.
Definition m_msg (s : st) : option st :=
  if stopped s then None else
  match chan s with
  | [] => None
  | MStart b :: r => Some (set_shl (set_chan s r) (shl s ++ [b]))
  | MEnd b :: r => Some (record_mmap (set_shl (set_chan s r) (remove_first b (shl s))) b)
  | MLost n :: r => Some (set_lostcnt (set_chan s r) (lostcnt s + n)%N)
  | MExec b :: r => (* flush_old_shmem: the first entry of shmem_list with this tid *)
      match first_tid (fst b) (shl s) with
      | Some b' => Some (record_mmap (set_shl (set_chan s r) (remove_first b' (shl s))) b')
      | None => Some (set_chan s r)
      end
  end.

Fixpoint set_nth {A} (i : nat) (x : A) (l : list A) : list A :=
  match l, i with
  | [], _ => []
  | _ :: t, 0 => x :: t
  | h :: t, S i' => h :: set_nth i' x t
  end.

(* an idle writer gets past poll()/read() only with a kick in the pipe (one is consumed), or, after
   stop_all_writers closed the pipe, by end-of-file *)
Definition take_kick (s : st) : option st :=
  if stopped s then Some s else match kicks s with 0 => None | S k => Some (set_kicks s k) end.
Definition w_pick (s : st) (w : nat) : option st :=
  if joined s then None else
  match nth_error (ws s) w with
  | Some wr =>
      match wtid wr with
      | Some _ => None
      | None =>
          match take_kick s with
          | None => None
          | Some s =>
              match bwl s with
              | [] => Some s
              | b :: _ =>
                  let t := fst b in
                  Some (set_bwl (set_ws s (set_nth w {| wtid := Some t; whead := of_tid t (bwl s);
                                                         wbufs := wbufs wr; wrote := false |} (ws s)))
                                (not_tid t (bwl s)))
              end
          end
      end
  | None => None
  end.

Definition w_write (s : st) (w : nat) : option st :=
  if joined s then None else
  match nth_error (ws s) w with
  | Some wr =>
      match wtid wr, whead wr, wrote wr with
      | Some _, b :: _, false =>
          let s1 := set_file s (updt (file s) (fst b) (file s (fst b) ++ data s b)) in
          let s2 := set_data s1 (upd (data s1) b []) in
          Some (set_ws s2 (set_nth w {| wtid := wtid wr; whead := whead wr; wbufs := wbufs wr; wrote := true |} (ws s2)))
      | _, _, _ => None
      end
  | None => None
  end.

Definition w_release (s : st) (w : nat) : option st :=
  if joined s then None else
  match nth_error (ws s) w with
  | Some wr =>
      match wtid wr, whead wr, wrote wr with
      | Some _, b :: rest, true =>
          let s1 := set_flag s (upd (flag s) b fl_written) in
          Some (set_ws s1 (set_nth w {| wtid := wtid wr; whead := rest; wbufs := wbufs wr; wrote := false |} (ws s1)))
      | _, _, _ => None
      end
  | None => None
  end.

Definition w_splice (s : st) (w : nat) : option st :=
  if joined s then None else
  match nth_error (ws s) w with
  | Some wr =>
      match wtid wr, whead wr with
      | Some t, [] =>
          Some (set_ws s (set_nth w {| wtid := if is_nil (wbufs wr) then None else Some t;
                                        whead := wbufs wr; wbufs := []; wrote := false |} (ws s)))
      | _, _ => None
      end
  | None => None
  end.

Definition idle (w : writer) : bool :=
  match wtid w with None => true | Some _ => false end.

Definition m_stop (s : st) : option st :=
  if negb (stopped s) && is_nil (chan s) then Some (set_stopped s true) else None.
Definition m_join (s : st) : option st :=
  if stopped s && negb (joined s) && forallb idle (ws s) then Some (set_joined s true) else None.
Definition m_flush1 (s : st) : option st :=
  if joined s then
    match shl s with
    | [] => None
    | b :: r => Some (record_mmap (set_shl s r) b)
    end
  else None.
Definition m_rem1 (s : st) : option st :=
  if joined s && is_nil (shl s) then
    match bwl s with
    | [] => None
    | b :: r =>
        let s1 := set_file s (updt (file s) (fst b) (file s (fst b) ++ data s b)) in
        let s2 := set_data s1 (upd (data s1) b []) in
        Some (set_bwl s2 r)
    end
  else None.

Inductive label :=
| P_start (t : tid) | P_emit (t : tid) (r : rec) (pad : nat) (ok : bool) | P_addlost (t : tid) (n : N) | P_finish (t : tid)
| P_exec (t : tid)
| M_msg
| W_pick (w : nat) | W_write (w : nat) | W_release (w : nat) | W_splice (w : nat)
| M_stop | M_join | M_flush1 | M_rem1.

Definition step (c : cfg) (s : st) (l : label) : option st :=
  match l with
  | P_start t => p_start s t
  | P_emit t r pad ok => p_emit c s t r pad ok
  | P_addlost t n => p_addlost s t n
  | P_finish t => p_finish s t
  | P_exec t => p_exec s t
  | M_msg => m_msg s
  | W_pick w => w_pick s w
  | W_write w => w_write s w
  | W_release w => w_release s w
  | W_splice w => w_splice s w
  | M_stop => m_stop s
  | M_join => m_join s
  | M_flush1 => m_flush1 s
  | M_rem1 => m_rem1 s
  end.

Fixpoint run (c : cfg) (s : st) (ls : list label) : option st :=
  match ls with
  | [] => Some s
  | l :: r => match step c s l with Some s' => run c s' r | None => None end
  end.

(* the recorder is done: writers joined, both lists flushed *)
Definition finished (s : st) : bool := joined s && is_nil (shl s) && is_nil (bwl s).

(* ------------------------------------------------------------------ executable property checkers *)
Fixpoint list_eqb {A} (eqb : A -> A -> bool) (a b : list A) : bool :=
  match a, b with
  | [], [] => true
  | x :: a', y :: b' => eqb x y && list_eqb eqb a' b'
  | _, _ => false
  end.

(* LOST rule on one producer's log: after a Drop the next thing put into a buffer is a Marker *)
Fixpoint well_marked (pending : bool) (l : list pev) : bool :=
  match l with
  | [] => true
  | Emit _ :: r => negb pending && well_marked false r
  | Marker n _ :: r => pending && negb (n =? 0)%N && well_marked false r
  | Drop _ :: r => well_marked true r
  end.
Fixpoint pending_after (pending : bool) (l : list pev) : bool :=
  match l with
  | [] => pending
  | Drop _ :: r => pending_after true r
  | _ :: r => pending_after false r
  end.
Definition marker_sum (l : list pev) : N :=
  fold_right (fun e a => match e with Marker n _ => (n + a)%N | _ => a end) 0%N l.

(* the property on the observable result of one thread: the data file is byte for byte the
   concatenation of what the thread put into its buffers, and the log obeys the LOST rule *)
Definition ok_thread (log : list pev) (file_bytes : list byte) : bool :=
  list_eqb N.eqb file_bytes (bytes_of (emitted_of log)) && well_marked false log.
(* all threads + the LOST report: the recorder's count equals the sum of the markers *)
Definition ok_c03 (logs : list (list pev)) (files : list (list byte)) (reported : N) : bool :=
  Nat.eqb (length logs) (length files)
  && forallb (fun p => ok_thread (fst p) (snd p)) (combine logs files)
  && (reported =? fold_right (fun l a => (marker_sum l + a)%N) 0%N logs)%N.

(* ------------------------------------------------------------------ the tie: scripts of operations
   One `op` = one command given to the two harness processes; `exec_op` expands it into labels
   (using the state, as the C control flow does) and runs them. *)
Record frame := { fk : N; ftime : N; fwritten : bool; fpl : list byte (* argument payload, unpadded *) }.
Record drv := {
  stacks : tid -> list frame;     (* rstack of each thread, top first (no filters) *)
  failn : nat;                    (* SHMFAIL: how many of the next allocations fail *)
  base : N;                       (* address of f0 in the producer harness *)
  img : bufid -> list byte        (* bytes last stored in the data area of each shm object (missing = 0):
                                     the alignment padding behind a payload is not written by the producer
                                     and keeps what was there *)
}.
Definition drv0 (b : N) : drv := {| stacks := fun _ => []; failn := 0; base := b; img := fun _ => [] |}.
Definition set_stack (d : drv) (t : tid) (l : list frame) : drv :=
  {| stacks := updt (stacks d) t l; failn := failn d; base := base d; img := img d |}.

Inductive op :=
| OpE (t : tid) (k time : N) (pl : list byte)   (* mcount_entry of f<k> in thread t, saved argument bytes *)
| OpX (t : tid) (time : N) (rpl : list byte)   (* mcount_exit in thread t, saved return value bytes *)
| OpEnd (t : tid)                (* thread exit: mtd_dtor -> shmem_finish *)
| OpExec (t : tid)               (* the task execs: new image, new session, empty rstack *)
| OpExecE (t : tid) (k time : N) (pl : list byte)   (* exec, then the first hook call of the new image (libmcount
                                    prepares the thread lazily: REC_START and TASK_START are sent then) *)
| OpFork (p ch : tid)            (* fork in thread p: the child ch gets its buffers at once (atfork child handler),
                                    inherits the frames, all marked written *)
| OpFail (n : nat)               (* the next n shm_open(O_CREAT) fail *)
| OpM                            (* recorder: next REC_START/REC_END/LOST message *)
| OpW (w : nat)                  (* writer w: from its gate to the next gate *)
| OpDrain | OpStop | OpJoin | OpFlush
| OpSettle.                      (* model only: every busy writer runs until it is idle *)

(* will this P_emit (size test on chk bytes) ask allocate_shmem_buffer? *)
Definition will_alloc (c : cfg) (s : st) (t : tid) (chk : nat) : bool :=
  let need := match curr s t with
              | Some i => negb (size s (t, i) + chk <=? maxsize c)
              | None => true
              end in
  need && match find_free s t with None => true | Some _ => false end.

(* where a record whose size test asks for chk bytes will be stored: (buffer index, offset, fresh object) *)
Definition landing (c : cfg) (s : st) (t : tid) (chk : nat) : nat * nat * bool :=
  let off0 := if (losts s t =? 0)%N then 0 else 16 in
  match curr s t with
  | Some i => if size s (t, i) + chk <=? maxsize c then (i, size s (t, i), false)
              else match find_free s t with Some idx => (idx, off0, false) | None => (nbuf s t, off0, true) end
  | None => match find_free s t with Some idx => (idx, off0, false) | None => (nbuf s t, off0, true) end
  end.
Fixpoint nth_bytes (l : list byte) (off n : nat) : list byte :=   (* l[off .. off+n), 0 where l ends *)
  match n with 0 => [] | S n' => nth off l 0%N :: nth_bytes l (S off) n' end.

(* one record (16-byte header ++ unpadded payload) through P_emit with the SHMFAIL counter as oracle;
   returns success *)
Definition emit1 (c : cfg) (sd : st * drv) (t : tid) (hp : list byte) : option (st * drv * bool) :=
  let '(s, d) := sd in
  let chk := length hp in
  let pad := (8 - chk mod 8) mod 8 in
  let asks := will_alloc c s t chk in
  let ok := negb asks || (failn d =? 0) in
  let fl := if asks && negb (failn d =? 0) then pred (failn d) else failn d in
  let '(idx, off, fresh) := landing c s t chk in
  let old := if fresh then [] else img d (t, idx) in
  let r := hp ++ nth_bytes old (off + chk) pad in
  match p_emit c s t r pad ok with
  | Some s' =>
      match curr s' t with
      | Some i => let now := bytes_of (data s' (t, i)) in
                  Some (s', {| stacks := stacks d; failn := fl; base := base d;
                               img := upd (img d) (t, i) (now ++ skipn (length now) (if Nat.eqb i idx then old else img d (t, i))) |}, true)
      | None => Some (s', {| stacks := stacks d; failn := fl; base := base d; img := img d |}, false)
      end
  | None => None
  end.

Definition faddr (d : drv) (k : N) : N := (base d + 256 * k + 4)%N.
(* header + payload of the ENTRY record of a frame (more bit set when arguments were saved) *)
Definition entry_hp (d : drv) (f : frame) (dep : N) : list byte :=
  le_bytes 8 (ftime f)
  ++ le_bytes 8 (rec_word UFTRACE_ENTRY dep (faddr d (fk f)) + (if is_nil (fpl f) then 0 else 4))%N
  ++ fpl f.

(* record_trace_data at the exit of the top frame (no filters: nothing was written at entry):
   ENTRY of every not yet written frame from the outermost one, then ENTRY and EXIT of the top frame;
   stop at the first failure; a failing parent ENTRY adds count-1 to losts *)
Fixpoint unwritten_prefix (l : list frame) : list frame :=   (* l: top first; frames below top that are unwritten *)
  match l with
  | f :: r => if fwritten f then [] else f :: unwritten_prefix r
  | [] => []
  end.

Fixpoint emit_parents (c : cfg) (sd : st * drv) (t : tid) (ps : list (frame * N)) (count : nat)
  : option (st * drv * nat * bool) :=   (* returns number written, all_ok *)
  match ps with
  | [] => Some (sd, 0, true)
  | (f, dep) :: r =>
      match emit1 c sd t (entry_hp (snd sd) f dep) with
      | Some (s', d', true) =>
          match emit_parents c (s', d') t r (pred count) with
          | Some (sd2, n, okk) => Some (sd2, S n, okk)
          | None => None
          end
      | Some (s', d', false) =>
          match p_addlost s' t (N.of_nat (pred count)) with
          | Some s2 => Some ((s2, d'), 0, false)
          | None => None
          end
      | None => None
      end
  end.

Fixpoint mark_written (n : nat) (l : list frame) : list frame :=   (* l: outermost first *)
  match n, l with
  | S n', f :: r => {| fk := fk f; ftime := ftime f; fwritten := true; fpl := fpl f |} :: mark_written n' r
  | _, _ => l
  end.

Definition exec_exit (c : cfg) (s : st) (d : drv) (t : tid) (time : N) (rpl : list byte) : option (st * drv) :=
  match stacks d t with
  | [] => Some (s, d)
  | top :: below =>
      let depth_top := length below in
      let unw := if fwritten top then [] else unwritten_prefix below in     (* top first *)
      let nun := length unw in
      let parents := rev unw in                                             (* outermost first *)
      let pdeps := combine parents (map N.of_nat (seq (depth_top - nun) nun)) in
      let count := nun + (if fwritten top then 0 else 1) + 1 in
      match emit_parents c (s, d) t pdeps count with
      | Some ((s1, d1), nw, okk) =>
          (* frames below top, outermost first, with the first nw of the unwritten ones now written *)
          let below_o := rev below in
          let keep := length below - nun in
          let below' := rev (firstn keep below_o ++ mark_written nw (skipn keep below_o)) in
          let d2 := set_stack d1 t below' in
          if negb okk then Some (s1, d2) else
          let dep := N.of_nat depth_top in
          let addr := faddr d1 (fk top) in
          let after_entry :=
            if fwritten top then Some (s1, d2, true)
            else emit1 c (s1, d2) t (entry_hp d2 top dep) in
          match after_entry with
          | Some (s2, d3, true) =>
              match emit1 c (s2, d3) t (le_bytes 8 time
                                         ++ le_bytes 8 (rec_word UFTRACE_EXIT dep addr + (if is_nil rpl then 0 else 4))%N
                                         ++ rpl) with
              | Some (s3, d4, _) => Some (s3, d4)
              | None => None
              end
          | Some (s2, d3, false) => Some (s2, d3)
          | None => None
          end
      | None => None
      end
  end.

Fixpoint iter_opt {A} (fuel : nat) (f : A -> option A) (a : A) : A :=
  match fuel with 0 => a | S k => match f a with Some a' => iter_opt k f a' | None => a end end.

(* writer w from its gate (poll: idle; open: about to write its head) to the next gate *)
Definition exec_w (s : st) (w : nat) : option st :=
  match nth_error (ws s) w with
  | Some wr =>
      match wtid wr with
      | None => match w_pick s w with Some s' => Some s' | None => Some s end    (* no kick: poll times out *)
      | Some _ =>
          match w_write s w with
          | Some s1 =>
              match w_release s1 w with
              | Some s2 =>
                  match nth_error (ws s2) w with
                  | Some wr2 => if is_nil (whead wr2) then w_splice s2 w else Some s2
                  | None => None
                  end
              | None => None
              end
          | None => None
          end
      end
  | None => None
  end.

Definition busy (s : st) : bool := negb (forallb idle (ws s)).
(* writer w runs until it is idle *)
Fixpoint run_idle (fuel : nat) (s : st) (w : nat) : st :=
  match fuel with
  | 0 => s
  | S k => match nth_error (ws s) w with
           | Some wr => if idle wr then s else match exec_w s w with Some s' => run_idle k s' w | None => s end
           | None => s
           end
  end.
(* after stop_all_writers every writer leaves its loop: a busy one after it is done with its tid, an idle
   one after at most one more round (a kick is pending whenever buf_write_list is not empty) *)
Definition join_writers (s : st) : st :=
  fold_left (fun a w => match nth_error (ws a) w with
                        | Some wr => if idle wr
                                     then match w_pick a w with Some a' => run_idle 1000 a' w | None => a end
                                     else run_idle 1000 a w
                        | None => a
                        end) (seq 0 (length (ws s))) s.
(* the writers work until nothing is queued and all are idle *)
Definition settle (s : st) : st :=
  iter_opt 1000 (fun s => if busy s || negb (is_nil (bwl s)) then
                              Some (fold_left (fun a w => match exec_w a w with Some a' => a' | None => a end)
                                              (seq 0 (length (ws s))) s)
                            else None) s.

Definition exec_op (c : cfg) (sd : st * drv) (o : op) : option (st * drv) :=
  let '(s, d) := sd in
  match o with
  | OpE t k time pl =>
      let s1 := if nbuf s t =? 0 then p_start s t else Some s in
      match s1 with
      | Some s1 => Some (s1, set_stack d t ({| fk := k; ftime := time; fwritten := false; fpl := pl |} :: stacks d t))
      | None => None
      end
  | OpX t time rpl => exec_exit c s d t time rpl
  | OpEnd t => match p_finish s t with Some s' => Some (s', d) | None => None end
  | OpExec t => match p_exec s t with
                | Some s' => let n := nbuf s t in
                             Some (s', {| stacks := updt (stacks d) t []; failn := failn d; base := base d;
                                          img := upd (upd (img d) (t, n) []) (t, S n) [] |})
                | None => None
                end
  | OpExecE t k time pl =>
      match p_exec s t with
      | Some s' => let n := nbuf s t in
                   Some (s', {| stacks := updt (stacks d) t [{| fk := k; ftime := time; fwritten := false; fpl := pl |}];
                                failn := failn d; base := base d; img := upd (upd (img d) (t, n) []) (t, S n) [] |})
      | None => None
      end
  | OpFork p ch =>
      match p_start s ch with
      | Some s' => Some (s', set_stack d ch (map (fun f => {| fk := fk f; ftime := ftime f; fwritten := true; fpl := fpl f |})
                                               (stacks d p)))
      | None => None
      end
  | OpFail n => Some (s, {| stacks := stacks d; failn := n; base := base d; img := img d |})
  | OpM => match chan s with [] => Some (s, d) | _ => match m_msg s with Some s' => Some (s', d) | None => None end end
  | OpW w => match exec_w s w with Some s' => Some (s', d) | None => None end
  | OpDrain => Some (iter_opt (length (chan s)) m_msg s, d)
  | OpStop => match m_stop s with Some s' => Some (s', d) | None => None end
  | OpJoin => match m_join (join_writers s) with Some s' => Some (s', d) | None => None end
  | OpFlush => let s1 := iter_opt (length (shl s)) m_flush1 s in
               Some (iter_opt (length (bwl s1)) m_rem1 s1, d)
  | OpSettle => Some (settle s, d)
  end.

(* ---- snapshots compared with the two processes after every operation (flat lists of N) *)
Definition enc_id (b : bufid) : N := N.of_nat (fst b * 1000 + snd b).
Definition enc_opt (o : option nat) : N := match o with None => 0%N | Some i => N.of_nat (S i) end.
Definition snap_prod (s : st) (t : tid) : list N :=
  [N.of_nat (nbuf s t); enc_opt (curr s t); losts s t]
  ++ flat_map (fun i => [flag_word (flag s (t, i)); N.of_nat (size s (t, i))]) (seq 0 (nbuf s t)).
Definition enc_ids (l : list bufid) : list N := N.of_nat (length l) :: map enc_id l.
Definition snap_rec (s : st) (nt : nat) : list N :=
  enc_ids (shl s) ++ enc_ids (bwl s) ++ [lostcnt s; if stopped s then 0%N else N.of_nat (kicks s)]
  ++ flat_map (fun w => enc_opt (wtid w) :: enc_ids (wbufs w)) (ws s)
  ++ map (fun t => N.of_nat (length (bytes_of (file s t)))) (seq 0 nt).
(* producers that are still alive are observable; a finished thread has unmapped its ring *)
Definition snap (s : st) (nt : nat) : list N :=
  flat_map (fun t => if pdone s t then [999%N] else snap_prod s t) (seq 0 nt) ++ [4242%N] ++ snap_rec s nt.

Fixpoint run_ops (withsnap : bool) (c : cfg) (nt : nat) (sd : st * drv) (ops : list op)
  : list (list N) * option (st * drv) :=
  match ops with
  | [] => ([], Some sd)
  | o :: r => match exec_op c sd o with
              | Some sd' => let '(snaps, fin) := run_ops withsnap c nt sd' r in
                            ((if withsnap then snap (fst sd') nt else []) :: snaps, fin)
              | None => ([], None)
              end
  end.

Definition nlist_eqb := list_eqb N.eqb.
(* index of the first operation after which the implementation's snapshot differs from the model's
   (or the model cannot execute the operation): None = all agree *)
Fixpoint first_diff (i : nat) (a b : list (list N)) : option nat :=
  match a, b with
  | [], [] => None
  | x :: a', y :: b' => if nlist_eqb x y then first_diff (S i) a' b' else Some i
  | _, _ => Some i
  end.

Record case := {
  c_bufsize : nat; c_nw : nat; c_nt : nat; c_base : N; c_ops : list op;
  c_snaps : list (list N);          (* implementation: snapshot after every operation ([] = not observed) *)
  c_files : list (list byte);       (* implementation: final <tid>.dat of model threads 0..nt-1 *)
  c_lost : N;                       (* implementation: shmem_lost_count at the end *)
  c_logs : list (list pev)          (* implementation: what each thread was SEEN to put into its shm buffers
                                       (deltas of the buffers after every hook call; Drop = losts went up);
                                       [] = not observed (soak mode) *)
}.
Definition case_cfg (k : case) : cfg := {| maxsize := c_bufsize k - 16 |}.
Definition case_run (k : case) :=
  run_ops (negb (is_nil (c_snaps k))) (case_cfg k) (c_nt k) (init (c_nw k), drv0 (c_base k)) (c_ops k).

(* model = implementation?  (snapshots when observed, final files and LOST count always) *)
Definition case_agrees (k : case) : bool :=
  match case_run k with
  | (snaps, Some (s, _)) =>
      (is_nil (c_snaps k) || match first_diff 0 snaps (c_snaps k) with None => true | Some _ => false end)
      && list_eqb nlist_eqb (map (fun t => bytes_of (file s t)) (seq 0 (c_nt k))) (c_files k)
      && (lostcnt s =? c_lost k)%N
  | (_, None) => false
  end.
Definition case_diff (k : case) : option nat :=
  match case_run k with
  | (snaps, _) => first_diff 0 snaps (c_snaps k)
  end.
(* the property checker on the implementation's outputs alone: the files against the logs observed in the
   producer's buffers (step mode); in soak mode, where the buffers are not observed, against the model's logs
   (no allocation failures there: the log is determined by the script) *)
Definition case_ok (k : case) : bool :=
  if is_nil (c_logs k) then
    match case_run k with
    | (_, Some (s, _)) => ok_c03 (map (plog s) (seq 0 (c_nt k))) (c_files k) (c_lost k)
    | (_, None) => false
    end
  else ok_c03 (c_logs k) (c_files k) (c_lost k).

Fixpoint bad_indices {A} (f : A -> bool) (i : nat) (l : list A) : list nat :=
  match l with [] => [] | x :: r => if f x then bad_indices f (S i) r else i :: bad_indices f (S i) r end.
