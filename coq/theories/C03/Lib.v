(* C03 - list / finite-map lemmas used by the invariant proofs *)
From Coq Require Import List Arith Bool PeanoNat NArith Lia.
Import ListNotations.
Require Import UV.Gen.Consts UV.C03.Model.

Lemma bid_eqb_spec a b : reflect (a = b) (bid_eqb a b).
Proof.
  destruct a as [a1 a2], b as [b1 b2]; unfold bid_eqb; cbn.
  destruct (Nat.eqb_spec a1 b1), (Nat.eqb_spec a2 b2); cbn; constructor; congruence.
Qed.
Lemma bid_eqb_refl a : bid_eqb a a = true.
Proof. destruct (bid_eqb_spec a a); congruence. Qed.
Lemma upd_same {A} (f : bufid -> A) b v : upd f b v b = v.
Proof. unfold upd. now rewrite bid_eqb_refl. Qed.
Lemma upd_other {A} (f : bufid -> A) b v x : x <> b -> upd f b v x = f x.
Proof. unfold upd. destruct (bid_eqb_spec x b); congruence. Qed.
Lemma updt_same {A} (f : tid -> A) t v : updt f t v t = v.
Proof. unfold updt. now rewrite Nat.eqb_refl. Qed.
Lemma updt_other {A} (f : tid -> A) t v x : x <> t -> updt f t v x = f x.
Proof. unfold updt. destruct (Nat.eqb_spec x t); congruence. Qed.

Lemma flat_map_upd_notin {A} (d : bufid -> list A) b v l : ~ In b l -> flat_map (upd d b v) l = flat_map d l.
Proof.
  intro H. induction l as [|x l IH]; cbn; [reflexivity|].
  rewrite upd_other by (intro; subst; apply H; left; reflexivity).
  rewrite IH; [reflexivity|]. intro; apply H; right; assumption.
Qed.
Lemma flat_map_ext_in {A B} (f g : A -> list B) l : (forall x, In x l -> f x = g x) -> flat_map f l = flat_map g l.
Proof.
  intro H. induction l as [|x l IH]; cbn; [reflexivity|].
  rewrite H by (left; reflexivity). rewrite IH; [reflexivity|]. intros; apply H; right; assumption.
Qed.

(* of_tid / not_tid *)
Lemma of_tid_app t l1 l2 : of_tid t (l1 ++ l2) = of_tid t l1 ++ of_tid t l2.
Proof. apply filter_app. Qed.
Lemma of_tid_In t l b : In b (of_tid t l) <-> In b l /\ fst b = t.
Proof. unfold of_tid. rewrite filter_In, Nat.eqb_eq. tauto. Qed.
Lemma of_tid_cons_same t b l : fst b = t -> of_tid t (b :: l) = b :: of_tid t l.
Proof. intro H. unfold of_tid. cbn [filter]. rewrite H, Nat.eqb_refl. reflexivity. Qed.
Lemma of_tid_cons_other t b l : fst b <> t -> of_tid t (b :: l) = of_tid t l.
Proof. intro H. unfold of_tid. cbn [filter]. destruct (Nat.eqb_spec (fst b) t); congruence. Qed.
Lemma of_tid_not_tid_same t l : of_tid t (not_tid t l) = [].
Proof.
  induction l as [|b l IH]; cbn; [reflexivity|].
  destruct (Nat.eqb_spec (fst b) t) as [E|E]; cbn; [exact IH|].
  destruct (Nat.eqb_spec (fst b) t); [congruence|exact IH].
Qed.
Lemma of_tid_not_tid_other t t' l : t <> t' -> of_tid t (not_tid t' l) = of_tid t l.
Proof.
  intro H. induction l as [|b l IH]; cbn; [reflexivity|].
  destruct (Nat.eqb_spec (fst b) t') as [E|E]; cbn.
  - destruct (Nat.eqb_spec (fst b) t); [congruence|exact IH].
  - destruct (Nat.eqb_spec (fst b) t); [f_equal|]; exact IH.
Qed.
Lemma of_tid_nil_notin t l : of_tid t l = [] -> forall b, In b l -> fst b <> t.
Proof.
  intros H b Hb E. assert (In b (of_tid t l)) by (apply of_tid_In; auto). rewrite H in H0. destruct H0.
Qed.
Lemma of_tid_idem t l : of_tid t (of_tid t l) = of_tid t l.
Proof.
  induction l as [|b l IH]; cbn; [reflexivity|].
  destruct (Nat.eqb_spec (fst b) t) as [E|E]; cbn; [|exact IH].
  destruct (Nat.eqb_spec (fst b) t); [f_equal; exact IH|congruence].
Qed.
Lemma of_tid_of_other t t' l : t <> t' -> of_tid t (of_tid t' l) = [].
Proof.
  intro H. induction l as [|b l IH]; cbn; [reflexivity|].
  destruct (Nat.eqb_spec (fst b) t') as [E|E]; cbn; [|exact IH].
  destruct (Nat.eqb_spec (fst b) t); [congruence|exact IH].
Qed.
Lemma of_tid_all t l : (forall b, In b l -> fst b = t) -> of_tid t l = l.
Proof.
  intro H. induction l as [|b l IH]; cbn; [reflexivity|].
  rewrite (H b) by (left; reflexivity). rewrite Nat.eqb_refl. f_equal. apply IH. intros; apply H; right; assumption.
Qed.

(* remove_first *)
Lemma remove_first_of_tid_other t b l : fst b <> t -> of_tid t (remove_first b l) = of_tid t l.
Proof.
  intro H. induction l as [|x l IH]; cbn; [reflexivity|].
  destruct (bid_eqb_spec x b) as [E|E].
  - subst x. destruct (Nat.eqb_spec (fst b) t); [congruence|reflexivity].
  - cbn. destruct (Nat.eqb_spec (fst x) t); [f_equal|]; exact IH.
Qed.
Lemma remove_first_of_tid_head b l r : of_tid (fst b) l = b :: r -> of_tid (fst b) (remove_first b l) = r.
Proof.
  induction l as [|x l IH]; cbn; [discriminate|].
  destruct (Nat.eqb_spec (fst x) (fst b)) as [E|E].
  - intro H. inversion H; subst x. rewrite bid_eqb_refl. reflexivity.
  - intro H. destruct (bid_eqb_spec x b) as [E2|E2]; [subst; congruence|].
    cbn. destruct (Nat.eqb_spec (fst x) (fst b)); [congruence|]. apply IH, H.
Qed.
Lemma remove_first_notin b l : ~ In b l -> remove_first b l = l.
Proof.
  induction l as [|x l IH]; cbn; [reflexivity|]. intro H.
  destruct (bid_eqb_spec x b) as [E|E]; [exfalso; apply H; left; exact E|].
  f_equal. apply IH. intro; apply H; right; assumption.
Qed.

(* set_nth *)
Lemma set_nth_split {A} (l1 : list A) w x l2 : set_nth (length l1) x (l1 ++ w :: l2) = l1 ++ x :: l2.
Proof. induction l1 as [|h l1 IH]; cbn; [reflexivity|]. f_equal. exact IH. Qed.
Lemma nth_split {A} (l : list A) i w : nth_error l i = Some w ->
  exists l1 l2, l = l1 ++ w :: l2 /\ length l1 = i.
Proof. apply nth_error_split. Qed.

Lemma NoDup_app_l {A} (l1 l2 : list A) : NoDup (l1 ++ l2) -> NoDup l1.
Proof. induction l1 as [|x l1 IH]; cbn; intro H; [constructor|]. inversion H; subst. constructor; [|auto]. intro; apply H2; apply in_or_app; auto. Qed.
Lemma NoDup_app_r {A} (l1 l2 : list A) : NoDup (l1 ++ l2) -> NoDup l2.
Proof. induction l1 as [|x l1 IH]; cbn; intro H; [assumption|]. inversion H; subst. auto. Qed.
Lemma NoDup_app_disj {A} (l1 l2 : list A) x : NoDup (l1 ++ l2) -> In x l1 -> In x l2 -> False.
Proof.
  induction l1 as [|y l1 IH]; cbn; intros H H1 H2; [destruct H1|].
  inversion H; subst. destruct H1 as [->|H1]; [apply H4; apply in_or_app; auto|eauto].
Qed.
Lemma NoDup_app_intro {A} (l1 l2 : list A) : NoDup l1 -> NoDup l2 -> (forall x, In x l1 -> In x l2 -> False) -> NoDup (l1 ++ l2).
Proof.
  induction l1 as [|y l1 IH]; cbn; intros H1 H2 H; [assumption|].
  inversion H1; subst. constructor.
  - intro Hin. apply in_app_or in Hin. destruct Hin; [auto|]. eapply H; [left; reflexivity|eassumption].
  - apply IH; auto. intros; eapply H; [right|]; eassumption.
Qed.

Lemma is_nil_true {A} (l : list A) : is_nil l = true <-> l = [].
Proof. destruct l; cbn; split; congruence. Qed.
Lemma is_nil_false {A} (l : list A) : is_nil l = false <-> l <> [].
Proof. destruct l; cbn; split; congruence. Qed.

(* simplify only projections of state setters *)
Ltac sp := cbn [data flag stale nbuf rbase curr losts pdone plog chan shl bwl ws lostcnt gmark kicks stopped joined file
  set_data set_flag set_stale set_nbuf set_rbase set_curr set_losts set_pdone set_plog set_chan set_shl set_bwl set_ws
  set_lostcnt set_gmark set_kicks set_stopped set_joined set_file].
Ltac sp_in H := cbn [data flag stale nbuf rbase curr losts pdone plog chan shl bwl ws lostcnt gmark kicks stopped joined file
  set_data set_flag set_stale set_nbuf set_rbase set_curr set_losts set_pdone set_plog set_chan set_shl set_bwl set_ws
  set_lostcnt set_gmark set_kicks set_stopped set_joined set_file] in H.
Ltac sp_all := cbn [data flag stale nbuf rbase curr losts pdone plog chan shl bwl ws lostcnt gmark kicks stopped joined file
  set_data set_flag set_stale set_nbuf set_rbase set_curr set_losts set_pdone set_plog set_chan set_shl set_bwl set_ws
  set_lostcnt set_gmark set_kicks set_stopped set_joined set_file] in *.
