(* C03 - main theorems: the invariant holds in every reachable state, for any number of writers,
   threads, buffer size and schedule; consequences *)
From Coq Require Import List Arith Bool PeanoNat NArith Lia.
Import ListNotations.
Require Import UV.Gen.Consts UV.C03.Model UV.C03.Lib UV.C03.Inv UV.C03.StepsR UV.C03.StepsP.

Inductive reach (c : cfg) (nw : nat) : st -> Prop :=
| reach_init : reach c nw (init nw)
| reach_step s l s' : reach c nw s -> step c s l = Some s' -> reach c nw s'.

Lemma reach_run c nw s ls s' : reach c nw s -> run c s ls = Some s' -> reach c nw s'.
Proof.
  revert s. induction ls as [|l ls IH]; intros s R H; cbn in H.
  - injection H as <-. exact R.
  - destruct (step c s l) as [s1|] eqn:E; [|discriminate]. eapply IH; [|exact H]. eapply reach_step; eassumption.
Qed.

Lemma regs_repeat_idle n : regs (repeat w_idle n) = [].
Proof. induction n as [|n IH]; cbn; [reflexivity|exact IH]. Qed.

Lemma Inv_init nw : Inv (init nw).
Proof.
  assert (HW : forall t, Wq t (repeat w_idle nw) = []) by (intro t; apply Wq_nil; rewrite regs_repeat_idle; tauto).
  constructor; cbn [init data flag stale nbuf curr losts pdone plog chan shl bwl ws lostcnt gmark stopped joined file].
  - intro t. unfold content, chain, pend, emitted; cbn. rewrite HW. reflexivity.
  - intro t. unfold chain, pend; cbn. rewrite HW. constructor.
  - intros t b H. unfold chain, pend in H; cbn in H. rewrite HW in H. destruct H.
  - intros w H _. apply repeat_spec in H. subst w. auto.
  - intros w t H Ht. apply repeat_spec in H. subst w. discriminate.
  - rewrite regs_repeat_idle. constructor.
  - intros w H Hw. apply repeat_spec in H. subst w. discriminate.
  - reflexivity.
  - discriminate.
  - intros _ t. reflexivity.
  - reflexivity.
Qed.

Lemma Inv_step c s l s' : Inv s -> step c s l = Some s' -> Inv s'.
Proof.
  intros I H. destruct l; cbn [step] in H.
  - eapply inv_p_start; eassumption.
  - eapply inv_p_emit; eassumption.
  - eapply inv_p_addlost; eassumption.
  - eapply inv_p_finish; eassumption.
  - eapply inv_p_exec; eassumption.
  - eapply inv_m_msg; eassumption.
  - eapply inv_w_pick; eassumption.
  - eapply inv_w_write; eassumption.
  - eapply inv_w_release; eassumption.
  - eapply inv_w_splice; eassumption.
  - eapply inv_m_stop; eassumption.
  - eapply inv_m_join; eassumption.
  - eapply inv_m_flush1; eassumption.
  - eapply inv_m_rem1; eassumption.
Qed.

Theorem inv_reachable c nw s : reach c nw s -> Inv s.
Proof. induction 1 as [|s l s' R IH H]; [apply Inv_init|eapply Inv_step; eassumption]. Qed.

(* ------------------------------------------------------------------ consequences *)
(* after the recorder has finished, the file of every thread is what the thread put into its buffers *)
Theorem final_exact c nw s : reach c nw s -> finished s = true ->
  forall t, file s t = emitted s t /\ bytes_of (file s t) = bytes_of (emitted s t).
Proof.
  intros R F t. pose proof (inv_reachable c nw s R) as I.
  unfold finished in F. apply andb_prop in F. destruct F as [F F3]. apply andb_prop in F. destruct F as [F1 F2].
  apply is_nil_true in F2. apply is_nil_true in F3.
  destruct (I_join s I F1) as [Es Hidle].
  pose proof (I_content s I t) as E. unfold content, chain, pend in E. rewrite Es, F2, F3 in E.
  rewrite (Wq_nil t (ws s)) in E by (rewrite (regs_idle _ Hidle); tauto). cbn in E. rewrite app_nil_r in E.
  split; [assumption|]. rewrite E. reflexivity.
Qed.

(* at every moment the file is a prefix of what the thread emitted, cut at a record boundary, and what is
   missing is exactly the contents of the buffers of the chain, in chain order *)
Theorem file_whole_prefix c nw s t : reach c nw s ->
  exists k, file s t = firstn k (emitted s t) /\ bytes_of (file s t) = bytes_of (firstn k (emitted s t)).
Proof.
  intro R. pose proof (I_content s (inv_reachable c nw s R) t) as E. unfold content in E.
  exists (length (file s t)). rewrite <- E. rewrite firstn_app, Nat.sub_diag, firstn_all. cbn. rewrite app_nil_r.
  split; reflexivity.
Qed.

(* never two writers for one thread, and while a writer works for it nothing of that thread waits in
   buf_write_list; the lists of a writer hold only buffers of its thread *)
Theorem writers_exclusive c nw s : reach c nw s ->
  (forall i j wi wj t, nth_error (ws s) i = Some wi -> nth_error (ws s) j = Some wj ->
     wtid wi = Some t -> wtid wj = Some t -> i = j) /\
  (forall w t, In w (ws s) -> wtid w = Some t ->
     of_tid t (bwl s) = [] /\ forall b, In b (whead w ++ wbufs w) -> fst b = t).
Proof.
  intro R. pose proof (inv_reachable c nw s R) as I. split.
  - intros i j wi wj t Hi Hj Ti Tj.
    destruct (Nat.lt_trichotomy i j) as [L|[E|L]]; [exfalso| assumption |exfalso].
    all: pose proof (I_one s I) as ND.
    + destruct (nth_split _ _ _ Hi) as (l1 & l2 & El & Hlen). rewrite El in ND, Hj.
      rewrite nth_error_app2 in Hj by lia. replace (j - length l1) with (S (j - length l1 - 1)) in Hj by lia. cbn in Hj.
      rewrite regs_mid in ND. apply NoDup_app_r in ND. unfold reg1 at 1 in ND. rewrite Ti in ND. cbn [app] in ND.
      apply NoDup_cons_iff in ND. destruct ND as [ND _]. apply ND. apply regs_In. exists wj. split; [|assumption].
      eapply nth_error_In; eassumption.
    + destruct (nth_split _ _ _ Hj) as (l1 & l2 & El & Hlen). rewrite El in ND, Hi.
      rewrite nth_error_app2 in Hi by lia. replace (i - length l1) with (S (i - length l1 - 1)) in Hi by lia. cbn in Hi.
      rewrite regs_mid in ND. apply NoDup_app_r in ND. unfold reg1 at 1 in ND. rewrite Tj in ND. cbn [app] in ND.
      apply NoDup_cons_iff in ND. destruct ND as [ND _]. apply ND. apply regs_In. exists wi. split; [|assumption].
      eapply nth_error_In; eassumption.
  - intros w t Hw Ht. destruct (I_wt s I w t Hw Ht). split; assumption.
Qed.

(* no shm buffer is in two places at once, every queued buffer is still marked RECORDING (so the producer
   does not touch it), and buffers of different threads never mix *)
Theorem chain_sound c nw s t : reach c nw s ->
  NoDup (chain s t) /\ forall b, In b (chain s t) -> fst b = t /\ snd b < nbuf s t /\ f_rec (flag s b) = true.
Proof. intro R. pose proof (inv_reachable c nw s R) as I. split; [apply I|apply (I_own s I)]. Qed.

(* the LOST messages: everything the producers announced is either counted or still in the FIFO;
   once the recorder has stopped reading, the count is complete *)
Theorem lost_count c nw s : reach c nw s ->
  (lostcnt s + chan_lost (chan s) = gmark s)%N /\ (stopped s = true -> lostcnt s = gmark s).
Proof.
  intro R. pose proof (inv_reachable c nw s R) as I. split; [apply I|].
  intro Es. pose proof (I_lost s I) as L. rewrite (I_stop s I Es) in L. cbn in L. lia.
Qed.
