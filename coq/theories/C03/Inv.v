(* C03 - the invariant of the hand-off protocol and the lemmas about its ingredients *)
From Coq Require Import List Arith Bool PeanoNat NArith Lia.
Import ListNotations.
Require Import UV.Gen.Consts UV.C03.Model UV.C03.Lib.

(* REC_END messages of thread t still in the FIFO, in order *)
Definition ends (t : tid) (c : list msg) : list bufid :=
  flat_map (fun m => match m with
                     | MEnd b | MExec b => if Nat.eqb (fst b) t then [b] else []
                     | _ => []
                     end) c.
Definition curr_l (s : st) (t : tid) : list bufid := match curr s t with Some i => [(t, i)] | None => [] end.
(* buffers of t the recorder has not queued yet: while the FIFO is read, those announced by a pending
   REC_END and the current one; after stop, those still in shmem_list *)
Definition pend (s : st) (t : tid) : list bufid :=
  if stopped s then of_tid t (shl s) else ends t (chan s) ++ curr_l s t.
Definition wq (t : tid) (w : writer) : list bufid := if works_for t w then whead w ++ wbufs w else [].
Notation Wq t := (flat_map (wq t)).
(* all buffers of thread t that hold (or may hold) data not yet in the file, in the order in which
   their contents will reach the file *)
Definition chain (s : st) (t : tid) : list bufid := Wq t (ws s) ++ of_tid t (bwl s) ++ pend s t.
Definition content (s : st) (t : tid) : list rec := file s t ++ flat_map (data s) (chain s t).
Definition reg1 (w : writer) : list tid := match wtid w with Some t => [t] | None => [] end.
Notation regs := (flat_map reg1).

(* the recorder's shmem_list versus the FIFO: consuming the FIFO finds every REC_END'ed buffer of t at
   the head of t's part of shmem_list and leaves exactly the current buffer *)
Fixpoint chan_ok (t : tid) (sl : list bufid) (c : list msg) (cur : list bufid) : Prop :=
  match c with
  | [] => sl = cur
  | MStart b :: r => if Nat.eqb (fst b) t then chan_ok t (sl ++ [b]) r cur else chan_ok t sl r cur
  | MEnd b :: r | MExec b :: r =>
      if Nat.eqb (fst b) t then (exists sl', sl = b :: sl' /\ chan_ok t sl' r cur) else chan_ok t sl r cur
  | MLost _ :: r => chan_ok t sl r cur
  end.

Fixpoint chan_lost (c : list msg) : N :=
  match c with [] => 0%N | MLost n :: r => (n + chan_lost r)%N | _ :: r => chan_lost r end.

Record Inv (s : st) : Prop := {
  I_content : forall t, content s t = emitted s t;
  I_nodup : forall t, NoDup (chain s t);
  I_own : forall t b, In b (chain s t) -> fst b = t /\ snd b < nbuf s t /\ f_rec (flag s b) = true;
  I_idle : forall w, In w (ws s) -> wtid w = None -> whead w = [] /\ wbufs w = [] /\ wrote w = false;
  I_wt : forall w t, In w (ws s) -> wtid w = Some t ->
           (forall b, In b (whead w ++ wbufs w) -> fst b = t) /\ of_tid t (bwl s) = [];
  I_one : NoDup (regs (ws s));
  I_wrote : forall w, In w (ws s) -> wrote w = true -> exists b rest, whead w = b :: rest /\ data s b = [];
  I_stop : stopped s = true -> chan s = [];
  I_join : joined s = true -> stopped s = true /\ forallb idle (ws s) = true;
  I_chan : stopped s = false -> forall t, chan_ok t (of_tid t (shl s)) (chan s) (curr_l s t);
  I_lost : (lostcnt s + chan_lost (chan s) = gmark s)%N
}.

(* ------------------------------------------------------------------ ends / chan_ok *)
Lemma ends_app t c1 c2 : ends t (c1 ++ c2) = ends t c1 ++ ends t c2.
Proof. unfold ends. apply flat_map_app. Qed.
Lemma ends_In t c b : In b (ends t c) -> fst b = t.
Proof.
  unfold ends. rewrite in_flat_map. intros (m & _ & H). destruct m as [x|x|n|x]; try (destruct H; fail);
  (destruct (Nat.eqb_spec (fst x) t); [|destruct H]); destruct H as [<-|[]]; assumption.
Qed.

Lemma chan_ok_app_end t sl c b : fst b = t -> chan_ok t sl c [b] -> chan_ok t sl (c ++ [MEnd b]) [].
Proof.
  intro Hb. revert sl. induction c as [|m c IH]; intros sl H; cbn in *.
  - rewrite Hb, Nat.eqb_refl. exists []. split; [assumption|reflexivity].
  - destruct m as [x|x|n|x]; cbn in *.
    + destruct (fst x =? t); apply IH, H.
    + destruct (fst x =? t); [|apply IH, H]. destruct H as (sl' & -> & H). exists sl'. split; [reflexivity|apply IH, H].
    + apply IH, H.
    + destruct (fst x =? t); [|apply IH, H]. destruct H as (sl' & -> & H). exists sl'. split; [reflexivity|apply IH, H].
Qed.
Lemma chan_ok_app_start t sl c b : fst b = t -> chan_ok t sl c [] -> chan_ok t sl (c ++ [MStart b]) [b].
Proof.
  intro Hb. revert sl. induction c as [|m c IH]; intros sl H; cbn in *.
  - rewrite Hb, Nat.eqb_refl. cbn. subst sl. reflexivity.
  - destruct m as [x|x|n|x]; cbn in *.
    + destruct (fst x =? t); apply IH, H.
    + destruct (fst x =? t); [|apply IH, H]. destruct H as (sl' & -> & H). exists sl'. split; [reflexivity|apply IH, H].
    + apply IH, H.
    + destruct (fst x =? t); [|apply IH, H]. destruct H as (sl' & -> & H). exists sl'. split; [reflexivity|apply IH, H].
Qed.
Lemma chan_ok_app_exec t sl c b b' : fst b = t -> fst b' = t -> chan_ok t sl c [b] ->
  chan_ok t sl (c ++ [MStart b'; MExec b]) [b'].
Proof.
  intros Hb Hb'. revert sl. induction c as [|m c IH]; intros sl H; cbn in *.
  - rewrite Hb, Hb', Nat.eqb_refl. subst sl. cbn. exists [b']. split; reflexivity.
  - destruct m as [x|x|n|x]; cbn in *.
    + destruct (fst x =? t); apply IH, H.
    + destruct (fst x =? t); [|apply IH, H]. destruct H as (sl' & -> & H). exists sl'. split; [reflexivity|apply IH, H].
    + apply IH, H.
    + destruct (fst x =? t); [|apply IH, H]. destruct H as (sl' & -> & H). exists sl'. split; [reflexivity|apply IH, H].
Qed.
Definition msg_other (t : tid) (m : msg) : Prop :=
  match m with MStart b => fst b <> t | MEnd b => fst b <> t | MLost _ => True | MExec b => fst b <> t end.
Lemma chan_ok_app_other t sl c m cur : msg_other t m -> chan_ok t sl c cur -> chan_ok t sl (c ++ [m]) cur.
Proof.
  intro Hm. revert sl. induction c as [|x c IH]; intros sl H; cbn in *.
  - destruct m as [b|b|n|b]; cbn in *; try (destruct (Nat.eqb_spec (fst b) t); [congruence|]); assumption.
  - destruct x as [y|y|n|y]; cbn in *.
    + destruct (fst y =? t); apply IH, H.
    + destruct (fst y =? t); [|apply IH, H]. destruct H as (sl' & -> & H). exists sl'. split; [reflexivity|apply IH, H].
    + apply IH, H.
    + destruct (fst y =? t); [|apply IH, H]. destruct H as (sl' & -> & H). exists sl'. split; [reflexivity|apply IH, H].
Qed.

Lemma chan_lost_app c1 c2 : chan_lost (c1 ++ c2) = (chan_lost c1 + chan_lost c2)%N.
Proof. induction c1 as [|m c1 IH]; cbn [chan_lost app]; [reflexivity|]. destruct m; rewrite IH; lia. Qed.

(* ------------------------------------------------------------------ writers *)
Lemma Wq_app t l1 l2 : Wq t (l1 ++ l2) = Wq t l1 ++ Wq t l2.
Proof. apply flat_map_app. Qed.
Lemma regs_app l1 l2 : regs (l1 ++ l2) = regs l1 ++ regs l2.
Proof. apply flat_map_app. Qed.
Lemma works_for_iff t w : works_for t w = true <-> wtid w = Some t.
Proof.
  unfold works_for. destruct (wtid w) as [t'|]; [|split; discriminate].
  rewrite Nat.eqb_eq. split; congruence.
Qed.
Lemma Wq_nil t l : ~ In t (regs l) -> Wq t l = [].
Proof.
  induction l as [|w l IH]; cbn; intro H; [reflexivity|].
  rewrite IH by (intro; apply H; apply in_or_app; right; assumption).
  rewrite app_nil_r. unfold wq. destruct (works_for t w) eqn:E; [|reflexivity].
  apply works_for_iff in E. exfalso. apply H. unfold reg1. rewrite E. left; reflexivity.
Qed.
Lemma regs_In t l : In t (regs l) <-> exists w, In w l /\ wtid w = Some t.
Proof.
  rewrite in_flat_map. unfold reg1. split.
  - intros (w & Hw & H). exists w. split; [assumption|]. destruct (wtid w); [destruct H as [->|[]]; reflexivity|destruct H].
  - intros (w & Hw & H). exists w. split; [assumption|]. rewrite H. left; reflexivity.
Qed.
Lemma Wq_In t l b : In b (Wq t l) -> exists w, In w l /\ wtid w = Some t /\ In b (whead w ++ wbufs w).
Proof.
  rewrite in_flat_map. intros (w & Hw & H). unfold wq in H.
  destruct (works_for t w) eqn:E; [|destruct H]. apply works_for_iff in E. eauto.
Qed.
(* the registered writer of t is the only contributor to t's queue *)
Lemma Wq_split t l1 w l2 : NoDup (regs (l1 ++ w :: l2)) -> wtid w = Some t ->
  Wq t l1 = [] /\ Wq t l2 = [].
Proof.
  intros ND Hw. rewrite regs_app in ND. cbn [flat_map] in ND. unfold reg1 at 2 in ND. rewrite Hw in ND. cbn [app] in ND.
  split; apply Wq_nil; intro Hin.
  - eapply (NoDup_app_disj _ _ t ND); [assumption|left; reflexivity].
  - apply NoDup_app_r in ND. inversion ND; subst. auto.
Qed.
Lemma wq_other t w t' : wtid w = Some t' -> t <> t' -> wq t w = [].
Proof.
  intros H Hne. unfold wq, works_for. rewrite H. destruct (Nat.eqb_spec t' t); [congruence|reflexivity].
Qed.
Lemma wq_same t w : wtid w = Some t -> wq t w = whead w ++ wbufs w.
Proof. intro H. unfold wq. replace (works_for t w) with true; [reflexivity|]. symmetry. apply works_for_iff, H. Qed.
Lemma wq_idle t w : wtid w = None -> wq t w = [].
Proof. intro H. unfold wq, works_for. rewrite H. reflexivity. Qed.

Lemma in_set_split {A} (l1 : list A) w x l2 y : In y (l1 ++ x :: l2) -> y = x \/ In y (l1 ++ w :: l2).
Proof.
  intro H. apply in_app_or in H. destruct H as [H|[H|H]]; [right|left|right]; try (symmetry; assumption);
  apply in_or_app; [left|right; right]; assumption.
Qed.

(* give *)
Lemma give_some b l l' : give b l = Some l' ->
  exists l1 w l2, l = l1 ++ w :: l2 /\ wtid w = Some (fst b) /\ l' = l1 ++ give_to w b :: l2.
Proof.
  revert l'. induction l as [|w l IH]; cbn; intros l' H; [discriminate|].
  destruct (works_for (fst b) w) eqn:E.
  - inversion H; subst. exists [], w, l. apply works_for_iff in E. auto.
  - destruct (give b l) as [r'|] eqn:G; [|discriminate]. inversion H; subst.
    destruct (IH r' eq_refl) as (l1 & w0 & l2 & -> & Hw & ->). exists (w :: l1), w0, l2. auto.
Qed.
Lemma give_none b l : give b l = None -> ~ In (fst b) (regs l).
Proof.
  induction l as [|w l IH]; cbn; intro H; [tauto|].
  destruct (works_for (fst b) w) eqn:E; [discriminate|].
  destruct (give b l); [discriminate|]. intro Hin. apply in_app_or in Hin. destruct Hin as [Hin|Hin]; [|apply IH; auto].
  unfold reg1 in Hin. destruct (wtid w) as [t'|] eqn:Hw; [|destruct Hin]. destruct Hin as [Heq|[]].
  assert (works_for (fst b) w = true) by (apply works_for_iff; congruence). congruence.
Qed.

(* ------------------------------------------------------------------ generic consequences *)
Lemma chain_tid s t b : Inv s -> In b (chain s t) -> fst b = t.
Proof. intros I H. apply (I_own s I t b H). Qed.

Lemma not_in_chain_other s t t' b : Inv s -> fst b = t -> t' <> t -> ~ In b (chain s t').
Proof. intros I Hb Hne Hin. apply Hne. rewrite <- Hb. symmetry. eapply chain_tid; eassumption. Qed.

Lemma not_in_chain_norec s t b : Inv s -> f_rec (flag s b) = false -> ~ In b (chain s t).
Proof. intros I Hf Hin. destruct (I_own s I t b Hin) as (_ & _ & H). congruence. Qed.

Lemma chain_empty_unstarted s t : Inv s -> nbuf s t = 0 -> chain s t = [].
Proof.
  intros I H. destruct (chain s t) as [|b l] eqn:E; [reflexivity|].
  destruct (I_own s I t b) as (_ & Hlt & _); [rewrite E; left; reflexivity|]. lia.
Qed.

(* the three buffer clauses depend on the state only through these components *)
Lemma frame_buffers_e s s' :
  Inv s -> (forall t, chain s' t = chain s t) -> (forall t b, In b (chain s t) -> data s' b = data s b) ->
  file s' = file s -> (forall t, emitted s' t = emitted s t) ->
  (forall t b, In b (chain s t) -> flag s' b = flag s b) -> (forall t, nbuf s t <= nbuf s' t) ->
  (forall t, content s' t = emitted s' t) /\ (forall t, NoDup (chain s' t)) /\
  (forall t b, In b (chain s' t) -> fst b = t /\ snd b < nbuf s' t /\ f_rec (flag s' b) = true).
Proof.
  intros I Hc Hd Hf Hp Hfl Hn. repeat split.
  - intro t. unfold content. rewrite Hc, Hf, Hp. rewrite <- (I_content s I t). unfold content. f_equal.
    apply flat_map_ext_in. intros x Hx. eapply Hd; eassumption.
  - intro t. rewrite Hc. apply (I_nodup s I).
  - rewrite Hc in H. apply (I_own s I t b H).
  - rewrite Hc in H. destruct (I_own s I t b H) as (_ & Hlt & _). specialize (Hn t). lia.
  - rewrite Hc in H. rewrite (Hfl t b H). apply (I_own s I t b H).
Qed.

Lemma frame_buffers s s' :
  Inv s -> (forall t, chain s' t = chain s t) -> data s' = data s -> file s' = file s -> plog s' = plog s ->
  flag s' = flag s -> nbuf s' = nbuf s ->
  (forall t, content s' t = emitted s' t) /\ (forall t, NoDup (chain s' t)) /\
  (forall t b, In b (chain s' t) -> fst b = t /\ snd b < nbuf s' t /\ f_rec (flag s' b) = true).
Proof.
  intros I Hc Hd Hf Hp Hfl Hn. apply (frame_buffers_e s s'); try assumption.
  - intros. rewrite Hd. reflexivity.
  - intro t. unfold emitted. rewrite Hp. reflexivity.
  - intros. rewrite Hfl. reflexivity.
  - intro t. rewrite Hn. lia.
Qed.
