(* C03 - the "shrink unused buffers" block of get_new_shmem_buffer gives up only a buffer that the recorder has
   released and the thread has not taken again (flag == WRITTEN exactly): such a buffer is in no chain, so no
   pending record is forgotten.  With `flag & WRITTEN` a buffer that was written once, re-used, filled again and
   is still waiting for a stalled writer (WRITTEN|RECORDING) would be given up. *)
From Coq Require Import List Arith Bool PeanoNat NArith Lia.
Import ListNotations.
Require Import UV.Gen.Consts UV.C03.Model UV.C03.Lib UV.C03.Inv UV.C03.StepsR UV.C03.StepsP UV.C03.Proofs UV.C03.Lost.

Theorem shrink_only_released c nw s t idx : reach c nw s -> nbuf (shrink s t idx) t <> nbuf s t ->
  nbuf (shrink s t idx) t = nbuf s t - 1 /\ idx + 3 <= nbuf s t /\
  is_wr (flag s (t, nbuf s t - 1)) = true /\ data (shrink s t idx) = data s /\
  forall t', ~ In (t, nbuf s t - 1) (chain s t').
Proof.
  intros R Hn. pose proof (inv_reachable c nw s R) as I.
  destruct (shrink_fields s t idx) as (S1 & _ & _ & _ & _ & _ & _ & _ & _ & _ & _ & _ & _ & _ & _ & _ & _ & S18).
  destruct S18 as [E|(E & Hi & Hw)]; [contradiction|].
  repeat split; try assumption.
  intro t'. apply not_in_chain_norec; [assumption|]. apply is_wr_norec. assumption.
Qed.

(* every buffer of every chain survives the block: it stays below nr_buf *)
Corollary shrink_keeps_chain c nw s t idx t' b : reach c nw s -> In b (chain s t') -> snd b < nbuf (shrink s t idx) t'.
Proof.
  intros R Hin. pose proof (inv_reachable c nw s R) as I. destruct (I_own s I t' b Hin) as (Hf & Hl & Hr).
  destruct (shrink_fields s t idx) as (_ & _ & _ & _ & _ & _ & _ & _ & _ & _ & _ & _ & _ & _ & _ & _ & S17 & S18).
  destruct (Nat.eq_dec t' t) as [->|Hne]; [|rewrite S17 by assumption; assumption].
  destruct S18 as [->|(-> & Hi & Hw)]; [assumption|].
  assert (b <> (t, nbuf s t - 1)).
  { intro; subst b. apply is_wr_norec in Hw. congruence. }
  destruct b as [b1 b2]. cbn [fst snd] in *. subst b1. assert (b2 <> nbuf s t - 1) by congruence. lia.
Qed.

(* the state the seeded change needs: ring of 4 one-record buffers; 1, 2 written once, re-used, full and
   waiting (WRITTEN|RECORDING); 3 likewise and current; 0 released; the writer stalled *)
Definition stall_trace : list label :=
  [P_start 0; P_emit 0 (r16 1) 0 true; P_emit 0 (r16 2) 0 true; P_emit 0 (r16 3) 0 true; P_emit 0 (r16 4) 0 true;
   M_msg; M_msg; M_msg; M_msg; M_msg; M_msg; M_msg;
   W_pick 0; W_write 0; W_release 0; W_write 0; W_release 0; W_write 0; W_release 0; W_splice 0;
   P_emit 0 (r16 5) 0 true; P_emit 0 (r16 6) 0 true;
   M_msg; M_msg; M_msg; M_msg;
   W_pick 0; W_write 0; W_release 0;                        (* buffer 3 written; buffer 0 waits in the writer's list *)
   P_emit 0 (r16 7) 0 true; P_emit 0 (r16 8) 0 true;      (* 2 and 3 re-used *)
   W_write 0; W_release 0].                                 (* buffer 0 written and released; 1, 2 (and 3) wait *)

Lemma shrink_loose_refuted :
  exists s, run {| maxsize := 16 |} (init 1) stall_trace = Some s /\
    find_free s 0 = Some 0 /\ nbuf s 0 = 4 /\
    nbuf (shrink s 0 0) 0 = 4 /\                           (* the code keeps the ring *)
    nbuf (shrink_loose s 0 0) 0 = 3 /\                     (* the loose test gives up buffer 3 ... *)
    In (0, 3) (chain s 0) /\ data s (0, 3) = [r16 8] /\    (* ... whose record has not reached the file *)
    In (0, 1) (chain s 0) /\ In (0, 2) (chain s 0) /\ flag_word (flag s (0, 3)) = 6%N.
Proof.
  destruct (run {| maxsize := 16 |} (init 1) stall_trace) as [s|] eqn:E; [|vm_compute in E; discriminate].
  exists s. split; [reflexivity|]. vm_compute in E. injection E as <-.
  vm_compute. repeat split; auto 10.
Qed.
