(* C03 - no shm buffer is ever filled beyond its capacity, provided (1) a LOST marker plus any single
   record fits (get_new_shmem_buffer puts a record behind the marker without a second size check) and
   (2) the capacity is a multiple of 8 (record_ret_stack tests 16 + argsize but advances by
   16 + ALIGN (argsize, 8)); without either hypothesis the buffer overflows *)
From Coq Require Import List Arith Bool PeanoNat NArith ZArith Lia.
Require Import ZifyNat.
Ltac Zify.zify_post_hook ::= Z.div_mod_to_equations.
Import ListNotations.
Require Import UV.Gen.Consts UV.C03.Model UV.C03.Lib UV.C03.Inv UV.C03.StepsR UV.C03.StepsP UV.C03.Proofs UV.C03.Lost.

Definition small (c : cfg) (l : label) : Prop :=
  match l with
  | P_emit _ r pad _ => 16 + length r <= maxsize c /\ pad < 8 /\ pad <= length r /\ length r mod 8 = 0
  | _ => True
  end.

Inductive reach_small (c : cfg) (nw : nat) : st -> Prop :=
| rs_init : reach_small c nw (init nw)
| rs_step s l s' : reach_small c nw s -> small c l -> step c s l = Some s' -> reach_small c nw s'.

Lemma reach_small_reach c nw s : reach_small c nw s -> reach c nw s.
Proof. induction 1; [constructor|econstructor; eassumption]. Qed.

Lemma le_bytes_length k n : length (le_bytes k n) = k.
Proof. revert n. induction k as [|k IH]; intro n; cbn; [reflexivity|]. rewrite IH. reflexivity. Qed.
Lemma lostrec_length n d : length (lostrec n d) = 16.
Proof. unfold lostrec, enc_rec. rewrite app_length, !le_bytes_length. reflexivity. Qed.

Lemma size_upd_same s v b : length (bytes_of (upd (data s) b v b)) = length (bytes_of v).
Proof. rewrite upd_same. reflexivity. Qed.

Definition Fits (c : cfg) (s : st) : Prop := forall b, size s b <= maxsize c /\ size s b mod 8 = 0.

Lemma bytes_snoc l r : length (bytes_of (l ++ [r])) = length (bytes_of l) + length r.
Proof. unfold bytes_of. rewrite concat_app, app_length. cbn. rewrite app_nil_r. reflexivity. Qed.

(* data after a step is either what it was, or empty, or explicitly bounded *)
Lemma fits_data_cases c s s' : Fits c s ->
  (forall b, data s' b = data s b \/ data s' b = [] \/
             (length (bytes_of (data s' b)) <= maxsize c /\ length (bytes_of (data s' b)) mod 8 = 0)) -> Fits c s'.
Proof.
  intros F H b. unfold size. destruct (H b) as [->|[->|Hl]]; [apply F|cbn; split; [lia|reflexivity]|assumption].
Qed.

Lemma record_mmap_data s b : data (record_mmap s b) = data s.
Proof. unfold record_mmap, copy_to_buffer. destruct (_ && _); [|reflexivity]. destruct (give b (ws s)); [|destruct (stopped s)]; reflexivity. Qed.

Lemma fits_take c s t idx r : Fits c s -> 16 + length r <= maxsize c -> length r mod 8 = 0 -> Fits c (take s t idx r).
Proof.
  intros F Hr Hm. rewrite take_eq. set (s0 := take0 s t idx).
  assert (D0 : data s0 = upd (data s) (t, idx) []).
  { unfold s0, take0. set (s3 := set_data _ _). destruct (shrink_fields s3 t idx) as (S1 & _). sp. rewrite S1. reflexivity. }
  set (s1 := if (losts s0 t =? 0)%N then s0 else marker s0 t (t, idx)).
  destruct (append_rec_fields s1 t idx r) as (A1 & _). cbv zeta in A1.
  apply (fits_data_cases c s); [assumption|]. intro b. rewrite A1.
  destruct (bid_eqb_spec b (t, idx)) as [->|Hne]; [rewrite !upd_same|rewrite !upd_other by assumption].
  - right. right. rewrite bytes_snoc. unfold s1. destruct (losts s0 t =? 0)%N.
    + rewrite D0, upd_same. cbn [bytes_of concat length]. split; lia.
    + unfold marker; sp. rewrite upd_same. cbn [bytes_of concat]. rewrite app_nil_r, lostrec_length. split; lia.
  - unfold s1. destruct (losts s0 t =? 0)%N; [|unfold marker; sp; rewrite upd_other by assumption];
      rewrite D0, upd_other by assumption; left; reflexivity.
Qed.

Lemma fits_step c s l s' : maxsize c mod 8 = 0 -> Fits c s -> small c l -> step c s l = Some s' -> Fits c s'.
Proof.
  intros Hc F Hs H. destruct l; cbn [step] in H.
  - (* P_start *) unfold p_start in H. destruct (_ && _); [|discriminate]. injection H as <-.
    apply (fits_data_cases c s _ F). intro b. sp. unfold upd. destruct (bid_eqb b (t, 1)); [auto|]. destruct (bid_eqb b (t, 0)); auto.
  - (* P_emit *) cbn [small] in Hs. destruct Hs as (Hs1 & Hs2 & Hs3 & Hs4). unfold p_emit in H. destruct (p_live s t); [|discriminate].
    assert (Hsw : forall s0, Fits c s0 -> Fits c (switch s0 t r ok)).
    { intros s0 F0. unfold switch. destruct (find_free s0 t).
      - apply fits_take; assumption.
      - destruct ok.
        + apply fits_take; [|assumption|assumption]. apply (fits_data_cases c s0 _ F0). intro b. unfold grow; sp.
          unfold upd. destruct (bid_eqb b (t, nbuf s0 t)); auto.
        + intro b. apply F0. }
    destruct (curr s t) as [i|].
    + destruct (size s (t, i) + (length r - pad) <=? maxsize c) eqn:E; injection H as <-.
      * apply Nat.leb_le in E. destruct (append_rec_fields s t i r) as (A1 & _). cbv zeta in A1.
        apply (fits_data_cases c s _ F). intro b. rewrite A1.
        destruct (bid_eqb_spec b (t, i)) as [->|Hne]; [rewrite !upd_same|rewrite !upd_other by assumption; auto].
        right. right. rewrite bytes_snoc. destruct (F (t, i)) as [F1 F2]. unfold size in *. split; lia.
      * apply Hsw. intro b. apply F.
    + injection H as <-. apply Hsw. assumption.
  - unfold p_addlost in H. destruct (p_live s t); [|discriminate]. destruct (curr s t); [discriminate|]. injection H as <-. exact F.
  - unfold p_finish in H. destruct (p_live s t); [|discriminate]. injection H as <-. intro b. unfold size; sp.
    destruct (curr s t); [destruct (f_rec _)|]; apply F.
  - unfold p_exec in H. destruct (p_live s t); [|discriminate]. destruct (curr s t); [|discriminate]. injection H as <-.
    apply (fits_data_cases c s _ F). intro b. sp. unfold upd. destruct (bid_eqb b (t, S (nbuf s t))); [auto|].
    destruct (bid_eqb b (t, nbuf s t)); auto.
  - unfold m_msg in H. destruct (stopped s); [discriminate|]. destruct (chan s) as [|[b|b|n|b] r]; try discriminate.
    4:{ destruct (first_tid (fst b) (shl s)) as [b'|]; injection H as <-; [|exact F].
        intro x. unfold size. rewrite record_mmap_data. apply F. }
    all: injection H as <-; try exact F. intro x. unfold size. rewrite record_mmap_data. apply F.
  - apply w_pick_spec in H. destruct H as (s0 & Ek & _ & wr & _ & _ & H).
    destruct (take_kick_spec s s0 Ek) as [[->|(k & ->)] _]; destruct H as [[_ ->]|(b & rest & _ & ->)]; exact F.
  - apply w_write_spec in H. destruct H as (_ & wr & t0 & b & rest & _ & _ & _ & _ & ->).
    apply (fits_data_cases c s _ F). intro x. sp. unfold upd. destruct (bid_eqb x b); auto.
  - apply w_release_spec in H. destruct H as (_ & wr & t0 & b & rest & _ & _ & _ & _ & ->). exact F.
  - apply w_splice_spec in H. destruct H as (_ & wr & t0 & _ & _ & _ & ->). exact F.
  - unfold m_stop in H. destruct (_ && _); [|discriminate]. injection H as <-. exact F.
  - unfold m_join in H. destruct (_ && _); [|discriminate]. injection H as <-. exact F.
  - unfold m_flush1 in H. destruct (joined s); [|discriminate]. destruct (shl s) as [|b r]; [discriminate|]. injection H as <-.
    intro x. unfold size. rewrite record_mmap_data. apply F.
  - unfold m_rem1 in H. destruct (_ && _); [|discriminate]. destruct (bwl s) as [|b r]; [discriminate|]. injection H as <-.
    apply (fits_data_cases c s _ F). intro x. sp. unfold upd. destruct (bid_eqb x b); auto.
Qed.

Theorem buffers_fit c nw s : maxsize c mod 8 = 0 -> reach_small c nw s -> forall b, size s b <= maxsize c.
Proof.
  intros Hc R.
  assert (F : Fits c s).
  { induction R as [|s l s' R IH Hs H].
    - intro b. cbn. split; [lia|reflexivity].
    - eapply fits_step; eassumption. }
  intro b. apply F.
Qed.

(* without the hypothesis: one record per buffer, a refused allocation, then the LOST marker and the next
   record go into the same 16-byte buffer *)
Definition overflow_trace : list label :=
  [P_start 0; P_emit 0 (r16 1) 0 true; P_emit 0 (r16 2) 0 true; P_emit 0 (r16 3) 0 false;
   M_msg; M_msg; W_pick 0; W_write 0; W_release 0; P_emit 0 (r16 4) 0 true].
Lemma overflow_refuted :
  exists s, run {| maxsize := 16 |} (init 1) overflow_trace = Some s /\ size s (0, 0) = 32.
Proof.
  destruct (run {| maxsize := 16 |} (init 1) overflow_trace) as [s|] eqn:E; [|vm_compute in E; discriminate].
  exists s. split; [reflexivity|]. vm_compute in E. injection E as <-. reflexivity.
Qed.

(* without hypothesis (2): capacity 20 (UFTRACE_BUFFER = 36), a record with a 4-byte argument: the size test
   asks for 20 bytes, `size` advances by 24 *)
Definition unaligned_trace : list label := [P_start 0; P_emit 0 (r16 1 ++ [1; 0; 0; 0; 0; 0; 0; 0]%N) 4 true].
Lemma overflow_unaligned_refuted :
  exists s, run {| maxsize := 20 |} (init 1) unaligned_trace = Some s /\ size s (0, 0) = 24.
Proof.
  destruct (run {| maxsize := 20 |} (init 1) unaligned_trace) as [s|] eqn:E; [|vm_compute in E; discriminate].
  exists s. split; [reflexivity|]. vm_compute in E. injection E as <-. reflexivity.
Qed.

(* non-vacuity of reach_small: records of 16, 24 and 40 bytes (0, 4 and 24 bytes of arguments) in buffers of 56 *)
Definition small_trace : list label :=
  [P_start 0; P_emit 0 (r16 1) 0 true; P_emit 0 (r16 2 ++ [7; 0; 0; 0; 9; 9; 9; 9]%N) 4 true;
   P_emit 0 (r16 3 ++ r16 4 ++ [1; 2; 3; 4; 5; 6; 7; 8]%N) 0 true; P_emit 0 (r16 5) 0 true].
Fixpoint reach_small_run c nw s ls : reach_small c nw s -> Forall (small c) ls ->
  forall s', run c s ls = Some s' -> reach_small c nw s'.
Proof.
  destruct ls as [|l ls]; intros R F s' H; cbn in H.
  - injection H as <-. exact R.
  - destruct (step c s l) as [s1|] eqn:E; [|discriminate]. inversion F; subst.
    eapply (reach_small_run c nw s1 ls); [eapply rs_step; eassumption|assumption|exact H].
Qed.
Lemma small_run :
  exists s, reach_small {| maxsize := 56 |} 1 s /\ size s (0, 0) = 40 /\ size s (0, 1) = 56 /\ curr s 0 = Some 1.
Proof.
  destruct (run {| maxsize := 56 |} (init 1) small_trace) as [s|] eqn:E; [|vm_compute in E; discriminate].
  exists s. split.
  - eapply reach_small_run; [apply rs_init| |exact E].
    repeat constructor; cbn; lia.
  - vm_compute in E. injection E as <-. vm_compute. repeat split; reflexivity.
Qed.
