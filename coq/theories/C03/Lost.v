(* C03 - the LOST rule: records are dropped only when allocate_shmem_buffer fails, then whole; the next
   thing the thread puts into a buffer is a LOST marker with a non-zero count; a LOST message is sent *)
From Coq Require Import List Arith Bool PeanoNat NArith Lia.
Import ListNotations.
Require Import UV.Gen.Consts UV.C03.Model UV.C03.Lib UV.C03.Inv UV.C03.StepsR UV.C03.StepsP UV.C03.Proofs.

Definition snoc_ok (pending : bool) (e : pev) : bool :=
  match e with
  | Emit _ => negb pending
  | Marker n _ => pending && negb (n =? 0)%N
  | Drop _ => true
  end.
Lemma well_marked_snoc p l e : well_marked p (l ++ [e]) = well_marked p l && snoc_ok (pending_after p l) e.
Proof.
  revert p. induction l as [|x l IH]; intro p; cbn.
  - destruct e; cbn; rewrite ?andb_true_r; reflexivity.
  - destruct x; rewrite IH; cbn; rewrite ?andb_assoc; reflexivity.
Qed.
Lemma pending_after_snoc p l e : pending_after p (l ++ [e]) = match e with Drop _ => true | _ => false end.
Proof. revert p. induction l as [|x l IH]; intro p; cbn; [destruct e; reflexivity|]. destruct x; apply IH. Qed.

Record LInv (s : st) (t : tid) : Prop := {
  L_wm : well_marked false (plog s t) = true;
  L_pend : pending_after false (plog s t) = true <-> losts s t <> 0%N;
  L_curr : forall i, curr s t = Some i -> losts s t = 0%N;
  L_none : curr s t = None -> nbuf s t <> 0 -> pdone s t = false -> losts s t <> 0%N;
  L_unstarted : nbuf s t = 0 -> losts s t = 0%N
}.

Lemma LInv_same s s' t : LInv s t -> plog s' t = plog s t -> losts s' t = losts s t -> curr s' t = curr s t ->
  nbuf s' t = nbuf s t -> pdone s' t = pdone s t -> LInv s' t.
Proof. intros [A B C D E] H1 H2 H3 H4 H5. constructor; rewrite ?H1, ?H2, ?H3, ?H4, ?H5; assumption. Qed.

(* the recorder never touches the producer's bookkeeping *)
Lemma record_mmap_pfields s b : let s' := record_mmap s b in
  plog s' = plog s /\ losts s' = losts s /\ curr s' = curr s /\ nbuf s' = nbuf s /\ pdone s' = pdone s.
Proof.
  unfold record_mmap, copy_to_buffer. destruct (_ && _); [|repeat split]. destruct (give b (ws s)); repeat split.
Qed.
Definition is_rec_label (l : label) : bool :=
  match l with P_start _ | P_emit _ _ _ | P_addlost _ _ | P_finish _ => false | _ => true end.
Lemma rec_step_pfields c s l s' : is_rec_label l = true -> step c s l = Some s' ->
  plog s' = plog s /\ losts s' = losts s /\ curr s' = curr s /\ nbuf s' = nbuf s /\ pdone s' = pdone s.
Proof.
  intros Hl H. destruct l; try discriminate; cbn [step] in H.
  - unfold m_msg in H. destruct (stopped s); [discriminate|]. destruct (chan s) as [|[b|b|n] r]; try discriminate;
      injection H as <-; try (repeat split; fail).
    destruct (record_mmap_pfields (set_shl (set_chan s r) (remove_first b (shl s))) b) as (F1 & F2 & F3 & F4 & F5).
    repeat split; assumption.
  - apply w_pick_spec in H. destruct H as (_ & wr & _ & _ & [[_ ->]|(b & rest & _ & ->)]); repeat split.
  - apply w_write_spec in H. destruct H as (_ & wr & t0 & b & rest & _ & _ & _ & _ & ->). repeat split.
  - apply w_release_spec in H. destruct H as (_ & wr & t0 & b & rest & _ & _ & _ & _ & ->). repeat split.
  - apply w_splice_spec in H. destruct H as (_ & wr & t0 & _ & _ & _ & ->). repeat split.
  - unfold m_stop in H. destruct (_ && _); [|discriminate]. injection H as <-. repeat split.
  - unfold m_join in H. destruct (_ && _); [|discriminate]. injection H as <-. repeat split.
  - unfold m_flush1 in H. destruct (joined s); [|discriminate]. destruct (shl s) as [|b r]; [discriminate|]. injection H as <-.
    destruct (record_mmap_pfields (set_shl s r) b) as (F1 & F2 & F3 & F4 & F5).
    repeat split; assumption.
  - unfold m_rem1 in H. destruct (_ && _); [|discriminate]. destruct (bwl s); [discriminate|]. injection H as <-. repeat split.
Qed.

(* what `take` does to the producer's bookkeeping *)
Lemma take_pfields s t idx r : idx < nbuf s t ->
  let s' := take s t idx r in
  (exists lr, plog s' t = plog s t ++ (if (losts s t =? 0)%N then [Emit r] else [Marker (losts s t) lr; Emit r])) /\
  losts s' t = 0%N /\ curr s' t = Some idx /\ nbuf s' t <> 0 /\ pdone s' = pdone s /\
  (forall t', t' <> t -> plog s' t' = plog s t' /\ losts s' t' = losts s t' /\ curr s' t' = curr s t' /\ nbuf s' t' = nbuf s t').
Proof.
  intro Hlt. rewrite take_eq.
  set (s0 := take0 s t idx).
  assert (F0 : plog s0 = plog s /\ losts s0 = losts s /\ curr s0 = updt (curr s) t (Some idx) /\ pdone s0 = pdone s /\
               nbuf s0 t <> 0 /\ forall t', t' <> t -> nbuf s0 t' = nbuf s t').
  { unfold s0, take0. set (s3 := set_data _ _).
    destruct (shrink_fields s3 t idx) as (S1 & S2 & S3 & S4 & S5 & S6 & S7 & S8 & S9 & S10 & S11 & S12 & S13 & S14 & S15 & S16 & S17 & S18).
    sp. rewrite S7, S5, S4, S6.
    split; [reflexivity|]. split; [reflexivity|]. split; [reflexivity|]. split; [reflexivity|]. split.
    - change (nbuf s3 t) with (nbuf s t) in S18. destruct S18 as [->|(-> & Hi & _)]; lia.
    - intros t' Hne. rewrite S17 by assumption. reflexivity. }
  destruct F0 as (P0 & L0 & C0 & D0 & N0 & NO0).
  set (s1 := if (losts s0 t =? 0)%N then s0 else marker s0 t (t, idx)).
  destruct (append_rec_fields s1 t idx r) as (_ & A2 & _ & _ & _ & A6 & A7 & _ & _ & _ & _ & _ & _ & _ & A15 & A16).
  cbv zeta in *. rewrite A2, A15, A7, A6, A16.
  assert (F1 : (exists lr, plog s1 t = plog s t ++ (if (losts s t =? 0)%N then [] else [Marker (losts s t) lr])) /\
               losts s1 t = 0%N /\ curr s1 = curr s0 /\ nbuf s1 = nbuf s0 /\ pdone s1 = pdone s0 /\
               forall t', t' <> t -> plog s1 t' = plog s t' /\ losts s1 t' = losts s t').
  { unfold s1. rewrite L0. destruct (losts s t =? 0)%N eqn:E.
    - apply N.eqb_eq in E. rewrite P0, L0.
      split; [exists []; rewrite app_nil_r; reflexivity|]. split; [assumption|]. repeat (split; [reflexivity|]).
      intros; split; reflexivity.
    - unfold marker; sp. rewrite P0, L0.
      split; [eexists; rewrite updt_same; reflexivity|]. split; [apply updt_same|]. repeat (split; [reflexivity|]).
      intros; split; apply updt_other; assumption. }
  destruct F1 as ((lr & P1) & L1 & C1 & N1 & D1 & O1).
  split; [|split; [|split; [|split; [|split]]]].
  - exists lr. rewrite updt_same, P1. destruct (losts s t =? 0)%N; rewrite <- app_assoc; reflexivity.
  - exact L1.
  - rewrite C1, C0. apply updt_same.
  - rewrite N1. exact N0.
  - rewrite D1. exact D0.
  - intros t' Hne. destruct (O1 t' Hne) as [O11 O12]. rewrite updt_other by assumption.
    rewrite C1, C0, N1, updt_other by assumption. rewrite NO0 by assumption. auto.
Qed.

Definition LW (s : st) (t : tid) : Prop :=
  well_marked false (plog s t) = true /\ (pending_after false (plog s t) = true <-> losts s t <> 0%N).

Lemma LInv_take s t idx r t' : idx < nbuf s t -> LW s t -> (forall x, x <> t -> LInv s x) -> LInv (take s t idx r) t'.
Proof.
  intros Hlt [A B] L. destruct (take_pfields s t idx r Hlt) as ((lr & P) & Lo & Cu & Nb & Pd & Oth).
  destruct (Nat.eq_dec t' t) as [->|Hne].
  - constructor; rewrite ?Lo, ?Cu, ?P.
    + destruct (losts s t =? 0)%N eqn:E0.
      * apply N.eqb_eq in E0. rewrite well_marked_snoc, A. cbn.
        destruct (pending_after false (plog s t)) eqn:Ep; [|reflexivity]. exfalso. apply B; auto.
      * apply N.eqb_neq in E0. change [Marker (losts s t) lr; Emit r] with ([Marker (losts s t) lr] ++ [Emit r]).
        rewrite app_assoc, well_marked_snoc, pending_after_snoc, well_marked_snoc, A. cbn.
        replace (pending_after false (plog s t)) with true by (symmetry; apply B; assumption).
        destruct (N.eqb_spec (losts s t) 0); [contradiction|reflexivity].
    + split; [|intro H; exfalso; apply H; reflexivity].
      destruct (losts s t =? 0)%N; [|change [Marker (losts s t) lr; Emit r] with ([Marker (losts s t) lr] ++ [Emit r]); rewrite app_assoc];
        rewrite pending_after_snoc; discriminate.
    + reflexivity.
    + discriminate.
    + intro H. contradiction.
  - destruct (Oth t' Hne) as (O1 & O2 & O3 & O4). apply (LInv_same s); auto. rewrite Pd. reflexivity.
Qed.

Lemma LInv_init nw t : LInv (init nw) t.
Proof. constructor; cbn; try reflexivity; try discriminate; try tauto. split; [discriminate|tauto]. Qed.

Lemma LInv_step c s l s' : (forall t, LInv s t) -> step c s l = Some s' -> forall t, LInv s' t.
Proof.
  intros L H t'. destruct (is_rec_label l) eqn:Hl.
  - destruct (rec_step_pfields c s l s' Hl H) as (F1 & F2 & F3 & F4 & F5).
    apply (LInv_same s); [apply L|rewrite F1|rewrite F2|rewrite F3|rewrite F4|rewrite F5]; reflexivity.
  - destruct l; try discriminate; cbn [step] in H.
    + (* P_start *)
      unfold p_start in H. destruct (nbuf s t =? 0) eqn:En; [|discriminate]. destruct (stopped s); [discriminate|].
      cbn [negb andb] in H. injection H as <-. apply Nat.eqb_eq in En.
      destruct (Nat.eq_dec t' t) as [->|Hne].
      * destruct (L t) as [A B C D E]. constructor; sp; rewrite ?updt_same; try assumption.
        -- intros _ _. apply E. assumption.
        -- discriminate.
        -- discriminate.
      * apply (LInv_same s); sp; rewrite ?updt_other by assumption; try reflexivity. apply L.
    + (* P_emit *)
      unfold p_emit in H. destruct (p_live s t) eqn:Lv; [|discriminate].
      apply p_live_spec in Lv. destruct Lv as (Hn & Hd & Es).
      assert (Hsw : forall s0, nbuf s0 t <> 0 -> LW s0 t -> (forall x, x <> t -> LInv s0 x) -> LInv (switch s0 t r ok) t').
      { intros s0 Hn0 LW0 L0. unfold switch. destruct (find_free s0 t) as [idx|] eqn:F.
        - unfold find_free in F. apply find_free_from_spec in F. apply LInv_take; [lia|assumption|assumption].
        - destruct ok.
          + apply LInv_take; [unfold grow; sp; rewrite updt_same; lia|exact LW0|].
            intros x Hx. apply (LInv_same s0); unfold grow; sp; rewrite ?updt_other by assumption; try reflexivity. apply L0. assumption.
          + unfold alloc_failed. destruct (Nat.eq_dec t' t) as [->|Hne].
            * destruct LW0 as [A B]. constructor; sp; rewrite ?updt_same.
              -- rewrite well_marked_snoc, A. reflexivity.
              -- rewrite pending_after_snoc. split; [lia|reflexivity].
              -- discriminate.
              -- intros _ _ _. lia.
              -- intro. contradiction.
            * apply (LInv_same s0); sp; rewrite ?updt_other by assumption; try reflexivity. apply L0. assumption. }
      assert (LWs : LW s t) by (destruct (L t) as [A B _ _ _]; split; assumption).
      destruct (curr s t) as [i|] eqn:Hc.
      * destruct (size s (t, i) + length r <=? maxsize c); injection H as <-.
        -- destruct (append_rec_fields s t i r) as (_ & A2 & _ & _ & _ & A6 & A7 & _ & _ & _ & _ & _ & _ & _ & A15 & A16).
           cbv zeta in *. destruct (Nat.eq_dec t' t) as [->|Hne].
           ++ destruct (L t) as [A B C D E]. pose proof (C i Hc) as L0.
              constructor; rewrite ?A2, ?A15, ?A7, ?A6, ?A16, ?updt_same; try assumption.
              ** rewrite well_marked_snoc, A. cbn. destruct (pending_after false (plog s t)) eqn:Ep; [|reflexivity].
                 exfalso. apply B; auto.
              ** rewrite pending_after_snoc. split; [discriminate|]. intro; contradiction.
           ++ apply (LInv_same s); rewrite ?A2, ?A15, ?A7, ?A6, ?A16, ?updt_other by assumption; try reflexivity. apply L.
        -- apply Hsw; [exact Hn|exact LWs|].
           intros x Hx. apply (LInv_same s); sp; rewrite ?updt_other by assumption; try reflexivity. apply L.
      * injection H as <-. apply Hsw; [exact Hn|exact LWs|]. intros; apply L.
    + (* P_addlost *)
      unfold p_addlost in H. destruct (p_live s t) eqn:Lv; [|discriminate].
      apply p_live_spec in Lv. destruct Lv as (Hn & Hd & Es).
      destruct (curr s t) eqn:Hc; [discriminate|]. injection H as <-.
      destruct (Nat.eq_dec t' t) as [->|Hne].
      * destruct (L t) as [A B C D E]. pose proof (D Hc Hn Hd) as Hlo. constructor; sp; rewrite ?updt_same; try assumption.
        -- split; [lia|]. intros _. apply B. assumption.
        -- rewrite Hc. discriminate.
        -- intros _ _ _. lia.
        -- intro. contradiction.
      * apply (LInv_same s); sp; rewrite ?updt_other by assumption; try reflexivity. apply L.
    + (* P_finish *)
      unfold p_finish in H. destruct (p_live s t) eqn:Lv; [|discriminate]. injection H as <-.
      set (s1 := match curr s t with Some i => _ | None => s end).
      assert (F : plog s1 = plog s /\ losts s1 = losts s /\ nbuf s1 = nbuf s /\ pdone s1 = pdone s /\ curr s1 = curr s).
      { unfold s1. destruct (curr s t); [destruct (f_rec _)|]; repeat split. }
      destruct F as (F1 & F2 & F3 & F4 & F5).
      destruct (Nat.eq_dec t' t) as [->|Hne].
      * destruct (L t) as [A B C D E]. constructor; sp; rewrite ?F1, ?F2, ?F3, ?F4, ?F5, ?updt_same; try assumption; discriminate.
      * apply (LInv_same s); sp; rewrite ?F1, ?F2, ?F3, ?F4, ?F5, ?updt_other by assumption; try reflexivity. apply L.
Qed.
