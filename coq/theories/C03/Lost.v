(* C03 - the LOST rule: records are dropped only when allocate_shmem_buffer fails, then whole; the next
   thing the thread puts into a buffer is a LOST marker with a non-zero count; a LOST message is sent *)
From Coq Require Import List Arith Bool PeanoNat NArith Lia.
Import ListNotations.
Require Import UV.Gen.Consts UV.C03.Model UV.C03.Lib UV.C03.Inv UV.C03.StepsR UV.C03.StepsP UV.C03.Proofs.

Definition snoc_ok (pending : bool) (e : pev) : bool :=
  match e with
  | Emit _ => negb pending
  | Marker n _ => pending && negb (n =? 0)%N
  | Drop _ => true
  end.
Lemma well_marked_snoc p l e : well_marked p (l ++ [e]) = well_marked p l && snoc_ok (pending_after p l) e.
Proof.
  revert p. induction l as [|x l IH]; intro p; cbn.
  - destruct e; cbn; rewrite ?andb_true_r; reflexivity.
  - destruct x; rewrite IH; cbn; rewrite ?andb_assoc; reflexivity.
Qed.
Lemma pending_after_snoc p l e : pending_after p (l ++ [e]) = match e with Drop _ => true | _ => false end.
Proof. revert p. induction l as [|x l IH]; intro p; cbn; [destruct e; reflexivity|]. destruct x; apply IH. Qed.

Record LInv (s : st) (t : tid) : Prop := {
  L_wm : well_marked false (plog s t) = true;
  L_pend : pending_after false (plog s t) = true <-> losts s t <> 0%N;
  L_curr : forall i, curr s t = Some i -> losts s t = 0%N;
  L_none : curr s t = None -> nbuf s t <> 0 -> pdone s t = false -> losts s t <> 0%N;
  L_unstarted : nbuf s t = 0 -> losts s t = 0%N
}.

Lemma LInv_same s s' t : LInv s t -> plog s' t = plog s t -> losts s' t = losts s t -> curr s' t = curr s t ->
  nbuf s' t = nbuf s t -> pdone s' t = pdone s t -> LInv s' t.
Proof. intros [A B C D E] H1 H2 H3 H4 H5. constructor; rewrite ?H1, ?H2, ?H3, ?H4, ?H5; assumption. Qed.

(* the recorder never touches the producer's bookkeeping *)
Lemma record_mmap_pfields s b : let s' := record_mmap s b in
  plog s' = plog s /\ losts s' = losts s /\ curr s' = curr s /\ nbuf s' = nbuf s /\ pdone s' = pdone s.
Proof.
  unfold record_mmap, copy_to_buffer. destruct (_ && _); [|repeat split]. destruct (give b (ws s)); [|destruct (stopped s)]; repeat split.
Qed.
Definition is_rec_label (l : label) : bool :=
  match l with P_start _ | P_emit _ _ _ _ | P_addlost _ _ | P_finish _ | P_exec _ => false | _ => true end.
Lemma rec_step_pfields c s l s' : is_rec_label l = true -> step c s l = Some s' ->
  plog s' = plog s /\ losts s' = losts s /\ curr s' = curr s /\ nbuf s' = nbuf s /\ pdone s' = pdone s.
Proof.
  intros Hl H. destruct l; try discriminate; cbn [step] in H.
  - unfold m_msg in H. destruct (stopped s); [discriminate|]. destruct (chan s) as [|[b|b|n|b] r]; try discriminate.
    4:{ destruct (first_tid (fst b) (shl s)) as [b'|]; injection H as <-; [|repeat split].
        destruct (record_mmap_pfields (set_shl (set_chan s r) (remove_first b' (shl s))) b') as (F1 & F2 & F3 & F4 & F5).
        repeat split; assumption. }
    all: injection H as <-; try (repeat split; fail).
    destruct (record_mmap_pfields (set_shl (set_chan s r) (remove_first b (shl s))) b) as (F1 & F2 & F3 & F4 & F5).
    repeat split; assumption.
  - apply w_pick_spec in H. destruct H as (s0 & Ek & _ & wr & _ & _ & H).
    destruct (take_kick_spec s s0 Ek) as [[->|(k & ->)] _]; destruct H as [[_ ->]|(b & rest & _ & ->)]; repeat split.
  - apply w_write_spec in H. destruct H as (_ & wr & t0 & b & rest & _ & _ & _ & _ & ->). repeat split.
  - apply w_release_spec in H. destruct H as (_ & wr & t0 & b & rest & _ & _ & _ & _ & ->). repeat split.
  - apply w_splice_spec in H. destruct H as (_ & wr & t0 & _ & _ & _ & ->). repeat split.
  - unfold m_stop in H. destruct (_ && _); [|discriminate]. injection H as <-. repeat split.
  - unfold m_join in H. destruct (_ && _); [|discriminate]. injection H as <-. repeat split.
  - unfold m_flush1 in H. destruct (joined s); [|discriminate]. destruct (shl s) as [|b r]; [discriminate|]. injection H as <-.
    destruct (record_mmap_pfields (set_shl s r) b) as (F1 & F2 & F3 & F4 & F5).
    repeat split; assumption.
  - unfold m_rem1 in H. destruct (_ && _); [|discriminate]. destruct (bwl s); [discriminate|]. injection H as <-. repeat split.
Qed.

(* what `take` does to the producer's bookkeeping *)
Lemma take_pfields s t idx r : idx < nbuf s t ->
  let s' := take s t idx r in
  (exists lr, plog s' t = plog s t ++ (if (losts s t =? 0)%N then [Emit r] else [Marker (losts s t) lr; Emit r])) /\
  losts s' t = 0%N /\ curr s' t = Some idx /\ nbuf s' t <> 0 /\ pdone s' = pdone s /\
  (forall t', t' <> t -> plog s' t' = plog s t' /\ losts s' t' = losts s t' /\ curr s' t' = curr s t' /\ nbuf s' t' = nbuf s t').
Proof.
  intro Hlt. rewrite take_eq.
  set (s0 := take0 s t idx).
  assert (F0 : plog s0 = plog s /\ losts s0 = losts s /\ curr s0 = updt (curr s) t (Some idx) /\ pdone s0 = pdone s /\
               nbuf s0 t <> 0 /\ forall t', t' <> t -> nbuf s0 t' = nbuf s t').
  { unfold s0, take0. set (s3 := set_data _ _).
    destruct (shrink_fields s3 t idx) as (S1 & S2 & S3 & S4 & S5 & S6 & S7 & S8 & S9 & S10 & S11 & S12 & S13 & S14 & S15 & S16 & S17 & S18).
    sp. rewrite S7, S5, S4, S6.
    split; [reflexivity|]. split; [reflexivity|]. split; [reflexivity|]. split; [reflexivity|]. split.
    - change (nbuf s3 t) with (nbuf s t) in S18. destruct S18 as [->|(-> & Hi & _)]; lia.
    - intros t' Hne. rewrite S17 by assumption. reflexivity. }
  destruct F0 as (P0 & L0 & C0 & D0 & N0 & NO0).
  set (s1 := if (losts s0 t =? 0)%N then s0 else marker s0 t (t, idx)).
  destruct (append_rec_fields s1 t idx r) as (_ & A2 & _ & _ & _ & A6 & A7 & _ & _ & _ & _ & _ & _ & _ & A15 & A16).
  cbv zeta in *. rewrite A2, A15, A7, A6, A16.
  assert (F1 : (exists lr, plog s1 t = plog s t ++ (if (losts s t =? 0)%N then [] else [Marker (losts s t) lr])) /\
               losts s1 t = 0%N /\ curr s1 = curr s0 /\ nbuf s1 = nbuf s0 /\ pdone s1 = pdone s0 /\
               forall t', t' <> t -> plog s1 t' = plog s t' /\ losts s1 t' = losts s t').
  { unfold s1. rewrite L0. destruct (losts s t =? 0)%N eqn:E.
    - apply N.eqb_eq in E. rewrite P0, L0.
      split; [exists []; rewrite app_nil_r; reflexivity|]. split; [assumption|]. repeat (split; [reflexivity|]).
      intros; split; reflexivity.
    - unfold marker; sp. rewrite P0, L0.
      split; [eexists; rewrite updt_same; reflexivity|]. split; [apply updt_same|]. repeat (split; [reflexivity|]).
      intros; split; apply updt_other; assumption. }
  destruct F1 as ((lr & P1) & L1 & C1 & N1 & D1 & O1).
  split; [|split; [|split; [|split; [|split]]]].
  - exists lr. rewrite updt_same, P1. destruct (losts s t =? 0)%N; rewrite <- app_assoc; reflexivity.
  - exact L1.
  - rewrite C1, C0. apply updt_same.
  - rewrite N1. exact N0.
  - rewrite D1. exact D0.
  - intros t' Hne. destruct (O1 t' Hne) as [O11 O12]. rewrite updt_other by assumption.
    rewrite C1, C0, N1, updt_other by assumption. rewrite NO0 by assumption. auto.
Qed.

Definition LW (s : st) (t : tid) : Prop :=
  well_marked false (plog s t) = true /\ (pending_after false (plog s t) = true <-> losts s t <> 0%N).

Lemma LInv_take s t idx r t' : idx < nbuf s t -> LW s t -> (forall x, x <> t -> LInv s x) -> LInv (take s t idx r) t'.
Proof.
  intros Hlt [A B] L. destruct (take_pfields s t idx r Hlt) as ((lr & P) & Lo & Cu & Nb & Pd & Oth).
  destruct (Nat.eq_dec t' t) as [->|Hne].
  - constructor; rewrite ?Lo, ?Cu, ?P.
    + destruct (losts s t =? 0)%N eqn:E0.
      * apply N.eqb_eq in E0. rewrite well_marked_snoc, A. cbn.
        destruct (pending_after false (plog s t)) eqn:Ep; [|reflexivity]. exfalso. apply B; auto.
      * apply N.eqb_neq in E0. change [Marker (losts s t) lr; Emit r] with ([Marker (losts s t) lr] ++ [Emit r]).
        rewrite app_assoc, well_marked_snoc, pending_after_snoc, well_marked_snoc, A. cbn.
        replace (pending_after false (plog s t)) with true by (symmetry; apply B; assumption).
        destruct (N.eqb_spec (losts s t) 0); [contradiction|reflexivity].
    + split; [|intro H; exfalso; apply H; reflexivity].
      destruct (losts s t =? 0)%N; [|change [Marker (losts s t) lr; Emit r] with ([Marker (losts s t) lr] ++ [Emit r]); rewrite app_assoc];
        rewrite pending_after_snoc; discriminate.
    + reflexivity.
    + discriminate.
    + intro H. contradiction.
  - destruct (Oth t' Hne) as (O1 & O2 & O3 & O4). apply (LInv_same s); auto. rewrite Pd. reflexivity.
Qed.

Lemma LInv_init nw t : LInv (init nw) t.
Proof. constructor; cbn; try reflexivity; try discriminate; try tauto. split; [discriminate|tauto]. Qed.

Lemma LInv_step c s l s' : (forall t, LInv s t) -> step c s l = Some s' -> forall t, LInv s' t.
Proof.
  intros L H t'. destruct (is_rec_label l) eqn:Hl.
  - destruct (rec_step_pfields c s l s' Hl H) as (F1 & F2 & F3 & F4 & F5).
    apply (LInv_same s); [apply L|rewrite F1|rewrite F2|rewrite F3|rewrite F4|rewrite F5]; reflexivity.
  - destruct l; try discriminate; cbn [step] in H.
    + (* P_start *)
      unfold p_start in H. destruct (nbuf s t =? 0) eqn:En; [|discriminate]. destruct (stopped s); [discriminate|].
      cbn [negb andb] in H. injection H as <-. apply Nat.eqb_eq in En.
      destruct (Nat.eq_dec t' t) as [->|Hne].
      * destruct (L t) as [A B C D E]. constructor; sp; rewrite ?updt_same; try assumption.
        -- intros _ _. apply E. assumption.
        -- discriminate.
        -- discriminate.
      * apply (LInv_same s); sp; rewrite ?updt_other by assumption; try reflexivity. apply L.
    + (* P_emit *)
      unfold p_emit in H. destruct (p_live s t) eqn:Lv; [|discriminate].
      apply p_live_spec in Lv. destruct Lv as (Hn & Hd & Es).
      assert (Hsw : forall s0, nbuf s0 t <> 0 -> LW s0 t -> (forall x, x <> t -> LInv s0 x) -> LInv (switch s0 t r ok) t').
      { intros s0 Hn0 LW0 L0. unfold switch. destruct (find_free s0 t) as [idx|] eqn:F.
        - unfold find_free in F. apply find_free_from_spec in F. apply LInv_take; [lia|assumption|assumption].
        - destruct ok.
          + apply LInv_take; [unfold grow; sp; rewrite updt_same; lia|exact LW0|].
            intros x Hx. apply (LInv_same s0); unfold grow; sp; rewrite ?updt_other by assumption; try reflexivity. apply L0. assumption.
          + unfold alloc_failed. destruct (Nat.eq_dec t' t) as [->|Hne].
            * destruct LW0 as [A B]. constructor; sp; rewrite ?updt_same.
              -- rewrite well_marked_snoc, A. reflexivity.
              -- rewrite pending_after_snoc. split; [lia|reflexivity].
              -- discriminate.
              -- intros _ _ _. lia.
              -- intro. contradiction.
            * apply (LInv_same s0); sp; rewrite ?updt_other by assumption; try reflexivity. apply L0. assumption. }
      assert (LWs : LW s t) by (destruct (L t) as [A B _ _ _]; split; assumption).
      destruct (curr s t) as [i|] eqn:Hc.
      * destruct (size s (t, i) + (length r - pad) <=? maxsize c); injection H as <-.
        -- destruct (append_rec_fields s t i r) as (_ & A2 & _ & _ & _ & A6 & A7 & _ & _ & _ & _ & _ & _ & _ & A15 & A16).
           cbv zeta in *. destruct (Nat.eq_dec t' t) as [->|Hne].
           ++ destruct (L t) as [A B C D E]. pose proof (C i Hc) as L0.
              constructor; rewrite ?A2, ?A15, ?A7, ?A6, ?A16, ?updt_same; try assumption.
              ** rewrite well_marked_snoc, A. cbn. destruct (pending_after false (plog s t)) eqn:Ep; [|reflexivity].
                 exfalso. apply B; auto.
              ** rewrite pending_after_snoc. split; [discriminate|]. intro; contradiction.
           ++ apply (LInv_same s); rewrite ?A2, ?A15, ?A7, ?A6, ?A16, ?updt_other by assumption; try reflexivity. apply L.
        -- apply Hsw; [exact Hn|exact LWs|].
           intros x Hx. apply (LInv_same s); sp; rewrite ?updt_other by assumption; try reflexivity. apply L.
      * injection H as <-. apply Hsw; [exact Hn|exact LWs|]. intros; apply L.
    + (* P_addlost *)
      unfold p_addlost in H. destruct (p_live s t) eqn:Lv; [|discriminate].
      apply p_live_spec in Lv. destruct Lv as (Hn & Hd & Es).
      destruct (curr s t) eqn:Hc; [discriminate|]. injection H as <-.
      destruct (Nat.eq_dec t' t) as [->|Hne].
      * destruct (L t) as [A B C D E]. pose proof (D Hc Hn Hd) as Hlo. constructor; sp; rewrite ?updt_same; try assumption.
        -- split; [lia|]. intros _. apply B. assumption.
        -- rewrite Hc. discriminate.
        -- intros _ _ _. lia.
        -- intro. contradiction.
      * apply (LInv_same s); sp; rewrite ?updt_other by assumption; try reflexivity. apply L.
    + (* P_finish *)
      unfold p_finish in H. destruct (p_live s t) eqn:Lv; [|discriminate]. injection H as <-.
      set (s1 := match curr s t with Some i => _ | None => s end).
      assert (F : plog s1 = plog s /\ losts s1 = losts s /\ nbuf s1 = nbuf s /\ pdone s1 = pdone s /\ curr s1 = curr s).
      { unfold s1. destruct (curr s t); [destruct (f_rec _)|]; repeat split. }
      destruct F as (F1 & F2 & F3 & F4 & F5).
      destruct (Nat.eq_dec t' t) as [->|Hne].
      * destruct (L t) as [A B C D E]. constructor; sp; rewrite ?F1, ?F2, ?F3, ?F4, ?F5, ?updt_same; try assumption; discriminate.
      * apply (LInv_same s); sp; rewrite ?F1, ?F2, ?F3, ?F4, ?F5, ?updt_other by assumption; try reflexivity. apply L.
    + (* P_exec *)
      unfold p_exec in H. destruct (p_live s t) eqn:Lv; [|discriminate]. destruct (curr s t) as [i|] eqn:Hc; [|discriminate].
      injection H as <-. destruct (Nat.eq_dec t' t) as [->|Hne].
      * destruct (L t) as [A B C D E]. pose proof (C i Hc) as L0. constructor; sp; rewrite ?updt_same; try assumption.
        -- intros; exact L0.
        -- discriminate.
        -- discriminate.
      * apply (LInv_same s); sp; rewrite ?updt_other by assumption; try reflexivity. apply L.
Qed.

Theorem lost_rule_reachable c nw s : reach c nw s -> forall t, LInv s t.
Proof. induction 1 as [|s l s' R IH H]; [intro; apply LInv_init|eapply LInv_step; eassumption]. Qed.

(* ------------------------------------------------------------------ meaning of well_marked *)
Definition is_drop (e : pev) : Prop := match e with Drop _ => True | _ => False end.
Lemma well_marked_pending l e l3 : Forall is_drop l -> ~ is_drop e -> well_marked true (l ++ e :: l3) = true ->
  exists n lr, e = Marker n lr /\ n <> 0%N.
Proof.
  induction 1 as [|x l Hx _ IH]; intros He H; cbn in H.
  - destruct e as [r|n lr|r]; cbn in H; [discriminate| |exfalso; apply He; exact I].
    exists n, lr. split; [reflexivity|]. destruct (N.eqb_spec n 0); [discriminate|assumption].
  - destruct x; try destruct Hx. apply IH; assumption.
Qed.
(* after a dropped record the next thing the thread puts into a buffer is a LOST marker with a non-zero count *)
Lemma well_marked_meaning p l : well_marked p l = true ->
  forall l1 r ds e l3, l = l1 ++ Drop r :: ds ++ e :: l3 -> Forall is_drop ds -> ~ is_drop e ->
  exists n lr, e = Marker n lr /\ n <> 0%N.
Proof.
  intros H l1. revert p l H. induction l1 as [|x l1 IH]; intros p l H r ds e l3 -> Hd He.
  - cbn in H. eapply well_marked_pending; eassumption.
  - cbn in H. destruct x; cbn in H.
    + apply andb_prop in H. destruct H as [_ H]. eapply IH; [exact H|reflexivity|assumption|assumption].
    + apply andb_prop in H. destruct H as [_ H]. eapply IH; [exact H|reflexivity|assumption|assumption].
    + eapply IH; [exact H|reflexivity|assumption|assumption].
Qed.

Lemma dropped_of_app l1 l2 : dropped_of (l1 ++ l2) = dropped_of l1 ++ dropped_of l2.
Proof. apply flat_map_app. Qed.

Lemma find_free_ext s0 s t : flag s0 = flag s -> nbuf s0 t = nbuf s t -> rbase s0 t = rbase s t -> find_free s0 t = find_free s t.
Proof.
  intros Hf Hn Hb. unfold find_free. rewrite Hn, Hb.
  assert (G : forall k i, find_free_from s0 t i k = find_free_from s t i k).
  { induction k as [|k IH]; intro i; cbn; [reflexivity|].
    rewrite Hf. destruct (f_rec (flag s (t, i))); [apply IH|reflexivity]. }
  apply G.
Qed.

(* a record is dropped only by a P_emit whose allocation was refused while every buffer of the ring was
   still RECORDING; it is dropped whole and nothing else happens to the thread's output in that step *)
Theorem drop_only_on_alloc_failure c s l s' t : step c s l = Some s' -> dropped s' t <> dropped s t ->
  exists r pad, l = P_emit t r pad false /\ find_free s t = None /\
            dropped s' t = dropped s t ++ [r] /\ emitted s' t = emitted s t.
Proof.
  intros H Hd. destruct (is_rec_label l) eqn:Hl.
  { destruct (rec_step_pfields c s l s' Hl H) as (F1 & _). exfalso. apply Hd. unfold dropped. rewrite F1. reflexivity. }
  destruct l as [t0|t0 r pad ok|t0 n|t0|t0| | | | | | | | |]; try discriminate; cbn [step] in H.
  - exfalso. apply Hd. unfold p_start in H. destruct (_ && _); [|discriminate]. injection H as <-. reflexivity.
  - unfold p_emit in H. destruct (p_live s t0) eqn:Lv; [|discriminate].
    apply p_live_spec in Lv. destruct Lv as (Hn & Hdn & Es).
    assert (Hsw : forall s0, plog s0 = plog s -> nbuf s0 t0 = nbuf s t0 -> find_free s0 t0 = find_free s t0 ->
                  dropped (switch s0 t0 r ok) t <> dropped s t ->
                  t0 = t /\ ok = false /\ find_free s t0 = None /\ dropped (switch s0 t0 r ok) t = dropped s t ++ [r] /\
                  emitted (switch s0 t0 r ok) t = emitted s t).
    { intros s0 P0 N0 FF Hd0. unfold switch in *. rewrite FF in *. destruct (find_free s t0) as [idx|] eqn:F.
      - exfalso. apply Hd0. unfold find_free in F. apply find_free_from_spec in F.
        destruct (take_pfields s0 t0 idx r) as ((lr & P) & _ & _ & _ & _ & Oth); [lia|].
        unfold dropped. destruct (Nat.eq_dec t t0) as [->|Hne].
        + rewrite P, P0, dropped_of_app. destruct (losts s0 t0 =? 0)%N; cbn; apply app_nil_r.
        + destruct (Oth t Hne) as (-> & _). rewrite P0. reflexivity.
      - destruct ok.
        + exfalso. apply Hd0.
          destruct (take_pfields (grow s0 t0) t0 (nbuf s0 t0) r) as ((lr & P) & _ & _ & _ & _ & Oth); [unfold grow; sp; rewrite updt_same; lia|].
          unfold dropped. destruct (Nat.eq_dec t t0) as [->|Hne].
          * rewrite P. change (plog (grow s0 t0)) with (plog s0). change (losts (grow s0 t0)) with (losts s0).
            rewrite P0, dropped_of_app. destruct (losts s0 t0 =? 0)%N; cbn; apply app_nil_r.
          * destruct (Oth t Hne) as (-> & _). change (plog (grow s0 t0)) with (plog s0). rewrite P0. reflexivity.
        + unfold alloc_failed, dropped, emitted in *; sp_all. rewrite P0 in *. unfold updt in *.
          destruct (Nat.eqb_spec t t0) as [->|Hne]; [|exfalso; apply Hd0; reflexivity].
          repeat split; auto; [rewrite dropped_of_app; reflexivity|rewrite emitted_of_app; cbn; apply app_nil_r]. }
    destruct (curr s t0) as [i|] eqn:Hc.
    + destruct (size s (t0, i) + (length r - pad) <=? maxsize c); injection H as <-.
      * exfalso. apply Hd. destruct (append_rec_fields s t0 i r) as (_ & A2 & _). cbv zeta in A2. unfold dropped. rewrite A2.
        unfold updt. destruct (Nat.eqb_spec t t0) as [->|]; [|reflexivity]. rewrite dropped_of_app. cbn. apply app_nil_r.
      * match type of Hd with dropped (switch ?s0 _ _ _) _ <> _ =>
          destruct (Hsw s0 eq_refl eq_refl (find_free_ext s0 s t0 eq_refl eq_refl eq_refl) Hd) as (-> & -> & F & D1 & E1) end. exists r, pad. auto.
    + injection H as <-. destruct (Hsw s eq_refl eq_refl eq_refl Hd) as (-> & -> & F & D1 & E1). exists r, pad. auto.
  - exfalso. apply Hd. unfold p_addlost in H. destruct (p_live s t0); [|discriminate]. destruct (curr s t0); [discriminate|].
    injection H as <-. reflexivity.
  - exfalso. apply Hd. unfold p_finish in H. destruct (p_live s t0); [|discriminate]. injection H as <-.
    unfold dropped; sp. destruct (curr s t0); [destruct (f_rec _)|]; reflexivity.
  - exfalso. apply Hd. unfold p_exec in H. destruct (p_live s t0); [|discriminate]. destruct (curr s t0); [|discriminate].
    injection H as <-. reflexivity.
Qed.

(* ------------------------------------------------------------------ the loss that is never reported:
   if the allocation fails for the rest of the thread's life, no LOST marker is written and no LOST message
   is sent: the recorder finishes with shmem_lost_count = 0 although records were dropped *)
Definition r16 (k : N) : list N := enc_rec k UFTRACE_ENTRY 0 7.
Definition tail_loss_trace : list label :=
  [P_start 0; P_emit 0 (r16 1) 0 true; P_emit 0 (r16 2) 0 true; P_emit 0 (r16 3) 0 false; P_finish 0;
   M_msg; M_msg; M_msg; M_msg; W_pick 0; W_write 0; W_release 0; W_write 0; W_release 0; W_splice 0;
   M_stop; M_join].
Lemma tail_loss_unreported_refuted :
  exists s, run {| maxsize := 16 |} (init 1) tail_loss_trace = Some s /\ finished s = true /\
            dropped s 0 = [r16 3] /\ lostcnt s = 0%N /\ chan s = [] /\
            bytes_of (file s 0) = r16 1 ++ r16 2.
Proof.
  destruct (run {| maxsize := 16 |} (init 1) tail_loss_trace) as [s|] eqn:E; [|vm_compute in E; discriminate].
  exists s. split; [reflexivity|]. vm_compute in E. injection E as <-. vm_compute. repeat split; reflexivity.
Qed.

(* ------------------------------------------------------------------ non-vacuity: two threads, two writers, buffers of
   two records, one buffer reuse, one refused allocation followed by a LOST marker, a direct hand-over to a
   busy writer; the run ends finished with both files exact *)
Definition nv_trace : list label :=
  [P_start 0; P_start 1;
   P_emit 0 (r16 1) 0 true; P_emit 0 (r16 2) 0 true; P_emit 1 (r16 11) 0 true; P_emit 0 (r16 3) 0 true;   (* t0: buf0 full -> buf1 *)
   M_msg; M_msg; M_msg; M_msg;                               (* START 0.0, START 1.0, END 0.0 -> bwl, START 0.1 *)
   W_pick 0; W_write 0;                                      (* writer 0 works for thread 0, file written, not released *)
   P_emit 0 (r16 4) 0 true; P_emit 0 (r16 5) 0 false;            (* buf1 full, buf0 still RECORDING, allocation refused: drop *)
   M_msg;                                                    (* END 0.1 goes directly to writer 0 *)
   W_release 0;                                              (* buf0 released *)
   P_emit 0 (r16 6) 0 true;                                    (* reuse of buf0: LOST marker + record *)
   P_emit 1 (r16 12) 0 true; P_emit 1 (r16 13) 0 true;
   W_splice 0; W_write 0; W_release 0; W_splice 0;
   M_msg; M_msg; M_msg; M_msg;                               (* START 0.0, LOST, END 1.0, START 1.1 *)
   W_pick 1; W_write 1; W_release 1; W_splice 1;
   P_finish 1; M_msg;
   M_stop; W_pick 0; W_write 0; W_release 0; W_splice 0; M_join; M_flush1; M_rem1].
Lemma nv_run :
  exists s, run {| maxsize := 32 |} (init 2) nv_trace = Some s /\ finished s = true /\
    bytes_of (file s 0) = r16 1 ++ r16 2 ++ r16 3 ++ r16 4 ++ lostrec 2 0 ++ r16 6 /\
    bytes_of (file s 1) = r16 11 ++ r16 12 ++ r16 13 /\
    dropped s 0 = [r16 5] /\ lostcnt s = 2%N /\ gmark s = 2%N.
Proof.
  destruct (run {| maxsize := 32 |} (init 2) nv_trace) as [s|] eqn:E; [|vm_compute in E; discriminate].
  exists s. split; [reflexivity|]. vm_compute in E. injection E as <-. vm_compute. repeat split; reflexivity.
Qed.

(* the run-time checker accepts the model's own result for every thread *)
Lemma list_eqb_refl (l : list N) : list_eqb N.eqb l l = true.
Proof. induction l as [|x l IH]; cbn; [reflexivity|]. rewrite N.eqb_refl, IH. reflexivity. Qed.
Theorem ok_thread_model c nw s t : reach c nw s -> finished s = true ->
  ok_thread (plog s t) (bytes_of (file s t)) = true.
Proof.
  intros R F. unfold ok_thread. destruct (final_exact c nw s R F t) as [_ E]. rewrite E.
  unfold emitted. rewrite list_eqb_refl. cbn. apply (L_wm s t (lost_rule_reachable c nw s R t)).
Qed.

Theorem lost_marker_reachable c nw s t : reach c nw s ->
  well_marked false (plog s t) = true /\
  (pending_after false (plog s t) = true <-> losts s t <> 0%N).
Proof. intro R. destruct (lost_rule_reachable c nw s R t) as [A B _ _ _]. exact (conj A B). Qed.
