(* C03 - the recorder can always finish: from EVERY reachable state, recorder steps alone (drain the FIFO,
   stop, let the writers run out, join, flush) lead to a finished state, and there every file is exactly what
   its thread had emitted.  So no reachable state has data stuck in a buffer, a list or a writer. *)
From Coq Require Import List Arith Bool PeanoNat NArith Lia.
Import ListNotations.
Require Import UV.Gen.Consts UV.C03.Model UV.C03.Lib UV.C03.Inv UV.C03.StepsR UV.C03.StepsP UV.C03.Proofs UV.C03.Lost.

Definition rl (l : label) : Prop := is_rec_label l = true.

(* a run of recorder steps keeps reachability and the producers' logs *)
Record Leads (c : cfg) (nw : nat) (s : st) (ls : list label) (s' : st) : Prop := {
  L_rl : Forall rl ls;
  L_run : run c s ls = Some s';
  L_reach : reach c nw s';
  L_plog : plog s' = plog s
}.
Lemma leads_nil c nw s : reach c nw s -> Leads c nw s [] s.
Proof. intro R. constructor; auto. Qed.
Lemma run_app c s l1 s1 l2 : run c s l1 = Some s1 -> run c s (l1 ++ l2) = run c s1 l2.
Proof.
  revert s. induction l1 as [|l l1 IH]; intros s H; cbn in *; [injection H as <-; reflexivity|].
  destruct (step c s l); [apply IH; assumption|discriminate].
Qed.
Lemma leads_trans c nw s l1 s1 l2 s2 : Leads c nw s l1 s1 -> Leads c nw s1 l2 s2 -> Leads c nw s (l1 ++ l2) s2.
Proof.
  intros [A1 B1 C1 D1] [A2 B2 C2 D2]. constructor.
  - apply Forall_app. split; assumption.
  - rewrite (run_app c s l1 s1 l2 B1). assumption.
  - assumption.
  - congruence.
Qed.
Lemma leads_step c nw s l s' : reach c nw s -> is_rec_label l = true -> step c s l = Some s' -> Leads c nw s [l] s'.
Proof.
  intros R Hl H. constructor.
  - repeat constructor. exact Hl.
  - cbn. rewrite H. reflexivity.
  - eapply reach_step; eassumption.
  - apply (rec_step_pfields c s l s' Hl H).
Qed.

(* ------------------------------------------------------------------ phase A: drain the FIFO, stop *)
Lemma m_msg_some s : stopped s = false -> chan s <> [] ->
  exists s', m_msg s = Some s' /\ stopped s' = false /\ length (chan s') = pred (length (chan s)).
Proof.
  intros Es Hc. unfold m_msg. rewrite Es. destruct (chan s) as [|m r] eqn:Ec; [congruence|].
  destruct m as [b|b|n|b]; [| | |destruct (first_tid (fst b) (shl s)) as [b'|]]; eexists; (split; [reflexivity|]).
  - split; [exact Es|reflexivity].
  - destruct (record_mmap_fields (set_shl (set_chan s r) (remove_first b (shl s))) b) as (F1 & _ & F3 & _).
    rewrite F1, F3. split; [exact Es|reflexivity].
  - split; [exact Es|reflexivity].
  - destruct (record_mmap_fields (set_shl (set_chan s r) (remove_first b' (shl s))) b') as (F1 & _ & F3 & _).
    rewrite F1, F3. split; [exact Es|reflexivity].
  - split; [exact Es|reflexivity].
Qed.

Lemma drain c nw : forall n s, reach c nw s -> stopped s = false -> length (chan s) <= n ->
  exists ls s', Leads c nw s ls s' /\ stopped s' = false /\ chan s' = [].
Proof.
  induction n as [|n IH]; intros s R Es Hn.
  - exists [], s. split; [apply leads_nil; assumption|]. split; [assumption|]. destruct (chan s); [reflexivity|cbn in Hn; lia].
  - destruct (chan s) as [|m r] eqn:Ec.
    + exists [], s. split; [apply leads_nil; assumption|]. auto.
    + destruct (m_msg_some s Es) as (s1 & H1 & Es1 & Hl1); [rewrite Ec; discriminate|].
      assert (L1 : Leads c nw s [M_msg] s1) by (apply leads_step; auto).
      destruct (IH s1 (L_reach _ _ _ _ _ L1) Es1) as (ls & s2 & L2 & Es2 & Hc2).
      { rewrite Hl1, Ec. simpl in *. lia. }
      exists ([M_msg] ++ ls), s2. split; [eapply leads_trans; eassumption|]. auto.
Qed.

(* ------------------------------------------------------------------ phase B: the writers run out *)
Definition wm (w : writer) : nat :=
  match wtid w with
  | None => 0
  | Some _ => 1 + 3 * length (whead w) + 4 * length (wbufs w) + (if wrote w then 0 else 1)
  end.
Definition mu (s : st) : nat := list_sum (map wm (ws s)).

Lemma list_sum_cons a l : list_sum (a :: l) = a + list_sum l.
Proof. reflexivity. Qed.

Lemma sum_set_nth (l : list writer) i w x : nth_error l i = Some w ->
  list_sum (map wm (set_nth i x l)) + wm w = list_sum (map wm l) + wm x.
Proof.
  intro H. destruct (nth_split _ _ _ H) as (l1 & l2 & -> & <-). rewrite set_nth_split.
  rewrite !map_app, !list_sum_app, !map_cons, !list_sum_cons. lia.
Qed.

Lemma busy_writer l : forallb idle l = false -> exists i w t, nth_error l i = Some w /\ wtid w = Some t.
Proof.
  induction l as [|w l IH]; cbn; [discriminate|]. intro H.
  destruct (idle w) eqn:E; cbn in H.
  - destruct (IH H) as (i & w0 & t & H1 & H2). exists (S i), w0, t. auto.
  - unfold idle in E. destruct (wtid w) as [t|] eqn:Ew; [|discriminate]. exists 0, w, t. auto.
Qed.

Lemma writers_run_out c nw : forall n s, reach c nw s -> stopped s = true -> joined s = false -> mu s <= n ->
  exists ls s', Leads c nw s ls s' /\ stopped s' = true /\ joined s' = false /\ forallb idle (ws s') = true.
Proof.
  induction n as [|n IH]; intros s R Es Ej Hn.
  - exists [], s. split; [apply leads_nil; assumption|]. split; [assumption|]. split; [assumption|].
    destruct (forallb idle (ws s)) eqn:E; [reflexivity|]. exfalso.
    destruct (busy_writer _ E) as (i & w & t & H1 & H2).
    unfold mu in Hn. assert (Hw1 : wm w >= 1) by (unfold wm; rewrite H2; lia).
    destruct (nth_split _ _ _ H1) as (l1 & l2 & El & _). rewrite El, map_app, list_sum_app, map_cons, list_sum_cons in Hn. lia.
  - destruct (forallb idle (ws s)) eqn:E.
    + exists [], s. split; [apply leads_nil; assumption|]. auto.
    + destruct (busy_writer _ E) as (i & w & t & En & Ew).
      pose proof (inv_reachable c nw s R) as I.
      assert (Hw : In w (ws s)) by (eapply nth_error_In; eassumption).
      assert (Hstep : exists l s1, is_rec_label l = true /\ step c s l = Some s1 /\ stopped s1 = true /\ joined s1 = false /\ mu s1 < mu s).
      { destruct (whead w) as [|b rest] eqn:Eh.
        - (* splice *)
          assert (Eo : wrote w = false).
          { destruct (wrote w) eqn:Eo; [|reflexivity]. destruct (I_wrote s I w Hw Eo) as (b & r & Hb & _). congruence. }
          exists (W_splice i). eexists. split; [reflexivity|]. split.
          + cbn [step]. unfold w_splice. rewrite Ej, En, Ew, Eh. reflexivity.
          + sp. split; [assumption|]. split; [assumption|]. unfold mu; sp.
            pose proof (sum_set_nth (ws s) i w {| wtid := if is_nil (wbufs w) then None else Some t; whead := wbufs w; wbufs := []; wrote := false |} En) as S.
            unfold wm at 2 4 in S. cbn [wtid whead wbufs wrote] in S. rewrite Ew, Eh, Eo in S.
            destruct (wbufs w) as [|x l]; cbn [is_nil length] in S |- *; lia.
        - destruct (wrote w) eqn:Eo.
          + (* release *)
            exists (W_release i). eexists. split; [reflexivity|]. split.
            * cbn [step]. unfold w_release. rewrite Ej, En, Ew, Eh, Eo. reflexivity.
            * sp. split; [assumption|]. split; [assumption|]. unfold mu; sp.
              pose proof (sum_set_nth (ws s) i w {| wtid := Some t; whead := rest; wbufs := wbufs w; wrote := false |} En) as S.
              unfold wm at 2 4 in S. cbn [wtid whead wbufs wrote] in S. rewrite Ew, Eh, Eo in S. cbn [length] in S. lia.
          + (* write *)
            exists (W_write i). eexists. split; [reflexivity|]. split.
            * cbn [step]. unfold w_write. rewrite Ej, En, Ew, Eh, Eo. reflexivity.
            * sp. split; [assumption|]. split; [assumption|]. unfold mu; sp.
              pose proof (sum_set_nth (ws s) i w {| wtid := wtid w; whead := whead w; wbufs := wbufs w; wrote := true |} En) as S.
              unfold wm at 2 4 in S. cbn [wtid whead wbufs wrote] in S. rewrite Ew, Eh, Eo in S. cbn [length] in S. lia. }
      destruct Hstep as (l & s1 & Hl & H1 & Es1 & Ej1 & Hmu).
      assert (L1 : Leads c nw s [l] s1) by (apply leads_step; auto).
      destruct (IH s1 (L_reach _ _ _ _ _ L1) Es1 Ej1) as (ls & s2 & L2 & Es2 & Ej2 & Hi2); [lia|].
      exists ([l] ++ ls), s2. split; [eapply leads_trans; eassumption|]. auto.
Qed.

(* ------------------------------------------------------------------ phase D: flush_shmem_list, record_remaining_buffer *)
Lemma flush_all c nw : forall n s, reach c nw s -> joined s = true -> length (shl s) <= n ->
  exists ls s', Leads c nw s ls s' /\ joined s' = true /\ shl s' = [].
Proof.
  induction n as [|n IH]; intros s R Ej Hn.
  - exists [], s. split; [apply leads_nil; assumption|]. split; [assumption|]. destruct (shl s); [reflexivity|cbn in Hn; lia].
  - destruct (shl s) as [|b r] eqn:Esl.
    + exists [], s. split; [apply leads_nil; assumption|]. auto.
    + destruct (record_mmap_fields (set_shl s r) b) as (_ & F2 & _ & F4 & _).
      assert (H1 : step c s M_flush1 = Some (record_mmap (set_shl s r) b)) by (cbn [step]; unfold m_flush1; rewrite Ej, Esl; reflexivity).
      assert (L1 : Leads c nw s [M_flush1] (record_mmap (set_shl s r) b)) by (apply leads_step; auto).
      destruct (IH _ (L_reach _ _ _ _ _ L1)) as (ls & s2 & L2 & Ej2 & Hs2).
      { rewrite F4. exact Ej. }
      { rewrite F2. cbn in *. lia. }
      exists ([M_flush1] ++ ls), s2. split; [eapply leads_trans; eassumption|]. auto.
Qed.

Lemma remaining_all c nw : forall n s, reach c nw s -> joined s = true -> shl s = [] -> length (bwl s) <= n ->
  exists ls s', Leads c nw s ls s' /\ finished s' = true.
Proof.
  induction n as [|n IH]; intros s R Ej Esl Hn.
  - exists [], s. split; [apply leads_nil; assumption|]. unfold finished. rewrite Ej, Esl.
    destruct (bwl s); [reflexivity|cbn in Hn; lia].
  - destruct (bwl s) as [|b r] eqn:Eb.
    + exists [], s. split; [apply leads_nil; assumption|]. unfold finished. rewrite Ej, Esl, Eb. reflexivity.
    + assert (H1 : exists s1, step c s M_rem1 = Some s1 /\ joined s1 = true /\ shl s1 = [] /\ bwl s1 = r).
      { eexists. split; [cbn [step]; unfold m_rem1; rewrite Ej, Esl, Eb; reflexivity|]. sp. auto. }
      destruct H1 as (s1 & H1 & Ej1 & Esl1 & Eb1).
      assert (L1 : Leads c nw s [M_rem1] s1) by (apply leads_step; auto).
      destruct (IH s1 (L_reach _ _ _ _ _ L1) Ej1 Esl1) as (ls & s2 & L2 & F2); [rewrite Eb1; cbn in Hn; lia|].
      exists ([M_rem1] ++ ls), s2. split; [eapply leads_trans; eassumption|]. assumption.
Qed.

(* ------------------------------------------------------------------ all phases *)
Theorem can_finish c nw s : reach c nw s ->
  exists ls s', Forall rl ls /\ run c s ls = Some s' /\ finished s' = true /\
                forall t, file s' t = emitted s t /\ bytes_of (file s' t) = bytes_of (emitted s t).
Proof.
  intro R.
  assert (HD : forall s0, reach c nw s0 -> joined s0 = true -> exists ls s', Leads c nw s0 ls s' /\ finished s' = true).
  { intros s0 R0 Ej0. destruct (flush_all c nw _ s0 R0 Ej0 (le_n _)) as (l1 & s1 & L1 & Ej1 & Esl1).
    destruct (remaining_all c nw _ s1 (L_reach _ _ _ _ _ L1) Ej1 Esl1 (le_n _)) as (l2 & s2 & L2 & F2).
    exists (l1 ++ l2), s2. split; [eapply leads_trans; eassumption|assumption]. }
  assert (HB : forall s0, reach c nw s0 -> stopped s0 = true -> exists ls s', Leads c nw s0 ls s' /\ finished s' = true).
  { intros s0 R0 Es0. destruct (joined s0) eqn:Ej0; [apply HD; assumption|].
    destruct (writers_run_out c nw _ s0 R0 Es0 Ej0 (le_n _)) as (l1 & s1 & L1 & Es1 & Ej1 & Hi1).
    assert (H2 : step c s1 M_join = Some (set_joined s1 true)) by (cbn [step]; unfold m_join; rewrite Es1, Ej1, Hi1; reflexivity).
    assert (L2 : Leads c nw s1 [M_join] (set_joined s1 true)) by (apply leads_step; [exact (L_reach _ _ _ _ _ L1)|reflexivity|exact H2]).
    destruct (HD _ (L_reach _ _ _ _ _ L2) eq_refl) as (l3 & s3 & L3 & F3).
    exists (l1 ++ [M_join] ++ l3), s3. split; [|assumption].
    eapply leads_trans; [eassumption|]. eapply leads_trans; eassumption. }
  assert (HA : exists ls s', Leads c nw s ls s' /\ finished s' = true).
  { destruct (stopped s) eqn:Es; [apply HB; assumption|].
    destruct (drain c nw _ s R Es (le_n _)) as (l1 & s1 & L1 & Es1 & Ec1).
    assert (H2 : step c s1 M_stop = Some (set_stopped s1 true)) by (cbn [step]; unfold m_stop; rewrite Es1, Ec1; reflexivity).
    assert (L2 : Leads c nw s1 [M_stop] (set_stopped s1 true)) by (apply leads_step; [exact (L_reach _ _ _ _ _ L1)|reflexivity|exact H2]).
    destruct (HB _ (L_reach _ _ _ _ _ L2) eq_refl) as (l3 & s3 & L3 & F3).
    exists (l1 ++ [M_stop] ++ l3), s3. split; [|assumption].
    eapply leads_trans; [eassumption|]. eapply leads_trans; eassumption. }
  destruct HA as (ls & s' & [A B C D] & F). exists ls, s'. split; [assumption|]. split; [assumption|]. split; [assumption|].
  intro t. destruct (final_exact c nw s' C F t) as [E1 E2]. unfold emitted in *. rewrite D in *. split; assumption.
Qed.
