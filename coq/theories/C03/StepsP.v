(* C03 - the invariant is preserved by every producer step (libmcount/record.c side) *)
From Coq Require Import List Arith Bool PeanoNat NArith Lia.
Import ListNotations.
Require Import UV.Gen.Consts UV.C03.Model UV.C03.Lib UV.C03.Inv UV.C03.StepsR.

Lemma p_live_spec s t : p_live s t = true -> nbuf s t <> 0 /\ pdone s t = false /\ stopped s = false.
Proof.
  unfold p_live. intro H. apply andb_prop in H. destruct H as [H H3]. apply andb_prop in H. destruct H as [H1 H2].
  repeat split.
  - destruct (Nat.eqb_spec (nbuf s t) 0); [discriminate|assumption].
  - destruct (pdone s t); [discriminate|reflexivity].
  - destruct (stopped s); [discriminate|reflexivity].
Qed.

Lemma not_joined s : Inv s -> stopped s = false -> joined s = false.
Proof. intros I Es. destruct (joined s) eqn:Ej; [|reflexivity]. destruct (I_join s I Ej). congruence. Qed.

Lemma emitted_of_app l1 l2 : emitted_of (l1 ++ l2) = emitted_of l1 ++ emitted_of l2.
Proof. apply flat_map_app. Qed.

Lemma ends_snoc_other t c b : ends t (c ++ [MStart b]) = ends t c.
Proof. rewrite ends_app. cbn. apply app_nil_r. Qed.
Lemma ends_snoc_end t c b : ends t (c ++ [MEnd b]) = ends t c ++ (if fst b =? t then [b] else []).
Proof. rewrite ends_app. cbn. destruct (fst b =? t); reflexivity. Qed.

(* a head of a writer's list lies in the writers' part of the chain *)
Lemma in_writer_in_Wq s w t x : In w (ws s) -> wtid w = Some t -> In x (whead w ++ wbufs w) -> In x (Wq t (ws s)).
Proof. intros Hw Ht Hx. apply in_flat_map. exists w. split; [assumption|]. rewrite (wq_same t w Ht). assumption. Qed.

(* the current buffer of a running producer is in no writer's hands *)
Lemma curr_not_in_writer s t i w : Inv s -> stopped s = false -> curr s t = Some i -> In w (ws s) ->
  ~ In (t, i) (whead w ++ wbufs w).
Proof.
  intros I Es Hc Hw Hin.
  destruct (wtid w) as [t1|] eqn:Ew.
  - destruct (I_wt s I w t1 Hw Ew) as [Htid _]. pose proof (Htid _ Hin) as E. cbn in E. subst t1.
    pose proof (in_writer_in_Wq s w t (t, i) Hw Ew Hin) as HW.
    pose proof (I_nodup s I t) as ND. unfold chain, pend in ND. rewrite Es in ND. unfold curr_l in ND. rewrite Hc in ND.
    eapply (NoDup_app_disj _ _ (t, i) ND); [assumption|]. apply in_or_app. right. apply in_or_app. right. left. reflexivity.
  - destruct (I_idle s I w Hw Ew) as (H1 & H2 & _). rewrite H1, H2 in Hin. destruct Hin.
Qed.

(* ------------------------------------------------------------------ changes nothing relevant *)
Lemma inv_irrelevant s s' : Inv s ->
  data s' = data s -> flag s' = flag s -> nbuf s' = nbuf s -> (forall t, curr s' t = curr s t) -> plog s' = plog s ->
  chan s' = chan s -> shl s' = shl s -> bwl s' = bwl s -> ws s' = ws s -> lostcnt s' = lostcnt s ->
  gmark s' = gmark s -> stopped s' = stopped s -> joined s' = joined s -> file s' = file s -> Inv s'.
Proof.
  intros I Hda Hfl Hnb Hcu Hpl Hch Hsl Hbw Hws Hlc Hgm Hst Hjo Hfi.
  assert (Hcl : forall t, curr_l s' t = curr_l s t) by (intro t; unfold curr_l; rewrite Hcu; reflexivity).
  apply Inv_intro.
  - apply (InvB_frame s); try assumption. intro t. unfold pend. rewrite Hst, Hsl, Hch, Hcl. reflexivity.
  - rewrite Hst, Hch. apply I.
  - rewrite Hjo, Hst, Hws. apply I.
  - rewrite Hst, Hsl, Hch. intros E t. rewrite Hcl. apply (I_chan s I E).
  - rewrite Hlc, Hch, Hgm. apply I.
Qed.

(* ------------------------------------------------------------------ P_addlost *)
Lemma inv_p_addlost s s' t n : Inv s -> p_addlost s t n = Some s' -> Inv s'.
Proof.
  intros I H. unfold p_addlost in H. destruct (p_live s t); [|discriminate].
  destruct (curr s t); [discriminate|]. injection H as <-.
  apply (inv_irrelevant s); try reflexivity. assumption.
Qed.

(* ------------------------------------------------------------------ REC_END for the current buffer *)
Definition send_end (s : st) (t : tid) (i : nat) : st :=
  let s0 := set_chan s (chan s ++ [MEnd (t, i)]) in set_curr s0 (updt (curr s0) t None).

Lemma curr_l_updt_none s t t' : curr s t = None ->
  match updt (curr s) t None t' with Some i => [(t', i)] | None => [] end = curr_l s t'.
Proof.
  intro H. unfold curr_l, updt. destruct (Nat.eqb_spec t' t) as [->|Hne]; [rewrite H|]; reflexivity.
Qed.

Lemma inv_send_end s t i : Inv s -> stopped s = false -> curr s t = Some i -> Inv (send_end s t i).
Proof.
  intros I Es Hc. unfold send_end.
  assert (Hp : forall t', pend (set_curr (set_chan s (chan s ++ [MEnd (t, i)])) (updt (curr s) t None)) t' = pend s t').
  { intro t'. unfold pend, curr_l; sp. rewrite Es. rewrite ends_snoc_end. cbn [fst].
    unfold updt. destruct (Nat.eqb_spec t t') as [<-|Hne].
    - rewrite Nat.eqb_refl, Hc. rewrite app_nil_r. reflexivity.
    - destruct (Nat.eqb_spec t' t); [congruence|]. rewrite app_nil_r. reflexivity. }
  apply Inv_intro; sp.
  - apply (InvB_frame s); try reflexivity; assumption.
  - congruence.
  - intro J. rewrite (not_joined s I Es) in J. discriminate.
  - intros _ t'. pose proof (I_chan s I Es t') as CK. unfold curr_l in *; sp.
    unfold updt. destruct (Nat.eqb_spec t' t) as [->|Hne].
    + rewrite Hc in CK. apply chan_ok_app_end; [reflexivity|assumption].
    + apply chan_ok_app_other; [cbn; congruence|assumption].
  - rewrite chan_lost_app. cbn [chan_lost]. rewrite N.add_0_r. apply I.
Qed.

(* ------------------------------------------------------------------ P_finish *)
Lemma inv_p_finish s s' t : Inv s -> p_finish s t = Some s' -> Inv s'.
Proof.
  intros I H. unfold p_finish in H. destruct (p_live s t) eqn:L; [|discriminate].
  apply p_live_spec in L. destruct L as (Hn & Hd & Es). injection H as <-.
  destruct (curr s t) as [i|] eqn:Hc.
  - assert (Hin : In (t, i) (chain s t)).
    { unfold chain, pend, curr_l. rewrite Es, Hc. apply in_or_app. right. apply in_or_app. right. apply in_or_app. right. left. reflexivity. }
    destruct (I_own s I t _ Hin) as (_ & _ & Hr). rewrite Hr.
    apply (inv_irrelevant (send_end s t i)); try reflexivity. apply inv_send_end; assumption.
  - apply (inv_irrelevant s); try reflexivity; [assumption|]. sp.
    intro t'. unfold updt. destruct (Nat.eqb_spec t' t) as [->|]; [symmetry; assumption|reflexivity].
Qed.

(* ------------------------------------------------------------------ something is put at the end of the current buffer *)
Definition only_lost (m : msg) : Prop := match m with MLost _ => True | _ => False end.

Lemma ends_app_lost t c ms : Forall only_lost ms -> ends t (c ++ ms) = ends t c.
Proof.
  intro H. rewrite ends_app. induction H as [|m ms Hm _ IH]; [apply app_nil_r|].
  destruct m; try destruct Hm. cbn [ends flat_map app] in *. exact IH.
Qed.
Lemma chan_ok_app_lost t sl c ms cur : Forall only_lost ms -> chan_ok t sl c cur -> chan_ok t sl (c ++ ms) cur.
Proof.
  intro H. revert c. induction H as [|m ms Hm _ IH]; intros c CK; [rewrite app_nil_r; assumption|].
  replace (c ++ m :: ms) with ((c ++ [m]) ++ ms) by (rewrite <- app_assoc; reflexivity).
  apply IH. apply chan_ok_app_other; [|assumption]. destruct m; try destruct Hm. exact I.
Qed.

Lemma Inv_put s s' t i x e ms : Inv s -> stopped s = false -> curr s t = Some i ->
  data s' = upd (data s) (t, i) (data s (t, i) ++ [x]) -> plog s' = updt (plog s) t (plog s t ++ [e]) ->
  emitted_of [e] = [x] -> chan s' = chan s ++ ms -> Forall only_lost ms -> gmark s' = (gmark s + chan_lost ms)%N ->
  flag s' = flag s -> nbuf s' = nbuf s -> curr s' = curr s -> shl s' = shl s -> bwl s' = bwl s -> ws s' = ws s ->
  lostcnt s' = lostcnt s -> stopped s' = stopped s -> joined s' = joined s -> file s' = file s -> Inv s'.
Proof.
  intros I Es Hc Hda Hpl He Hch Hms Hgm Hfl Hnb Hcu Hsl Hbw Hws Hlc Hst Hjo Hfi.
  set (b := (t, i)) in *.
  assert (Hchain : forall t', chain s' t' = chain s t').
  { intro t'. unfold chain, pend, curr_l. rewrite Hws, Hbw, Hst, Hsl, Hch, Hcu, Es. rewrite ends_app_lost by assumption. reflexivity. }
  assert (Hc0 : chain s t = (Wq t (ws s) ++ of_tid t (bwl s) ++ ends t (chan s)) ++ [b]).
  { unfold chain, pend, curr_l. rewrite Es, Hc. rewrite <- !app_assoc. reflexivity. }
  pose proof (I_nodup s I t) as ND. rewrite Hc0 in ND.
  assert (Hnotin : ~ In b (Wq t (ws s) ++ of_tid t (bwl s) ++ ends t (chan s))).
  { intro Hin. eapply (NoDup_app_disj _ _ b ND); [assumption|left; reflexivity]. }
  set (X := Wq t (ws s) ++ of_tid t (bwl s) ++ ends t (chan s)) in *.
  assert (Hem : forall t', emitted s' t' = if t' =? t then emitted s t ++ [x] else emitted s t').
  { intro t'. unfold emitted. rewrite Hpl. unfold updt. destruct (Nat.eqb_spec t' t) as [->|]; [|reflexivity].
    rewrite emitted_of_app, He. reflexivity. }
  apply Inv_intro.
  - unfold InvB. rewrite Hws, Hbw. refine (conj _ (conj _ (conj _ (conj (I_idle s I) (conj (I_wt s I) (conj (I_one s I) _)))))).
    + intro t'. unfold content. rewrite Hchain, Hfi, Hem, Hda.
      pose proof (I_content s I t') as E. unfold content in E.
      destruct (Nat.eqb_spec t' t) as [->|Hne].
      * rewrite <- E, Hc0. rewrite !flat_map_app. cbn [flat_map]. rewrite upd_same, app_nil_r.
        rewrite flat_map_upd_notin by assumption. rewrite <- !app_assoc. reflexivity.
      * rewrite <- E. rewrite flat_map_upd_notin; [reflexivity|].
        eapply not_in_chain_other; [eassumption|reflexivity|assumption].
    + intro t'. rewrite Hchain. apply (I_nodup s I).
    + intros t' y Hy. rewrite Hchain in Hy. rewrite Hnb, Hfl. apply (I_own s I t' y Hy).
    + intros w Hw Hwo. destruct (I_wrote s I w Hw Hwo) as (b0 & r0 & Eh & Hd0). exists b0, r0. split; [assumption|].
      rewrite Hda, upd_other; [assumption|]. intro; subst b0.
      apply (curr_not_in_writer s t i w I Es Hc Hw). rewrite Eh. left. reflexivity.
  - rewrite Hst. congruence.
  - rewrite Hjo. intro J. rewrite (not_joined s I Es) in J. discriminate.
  - rewrite Hst, Hsl, Hch. intros _ t'. unfold curr_l. rewrite Hcu. apply chan_ok_app_lost; [assumption|]. apply (I_chan s I Es).
  - rewrite Hlc, Hch, Hgm, chan_lost_app. pose proof (I_lost s I). lia.
Qed.

Lemma append_rec_fields s t i r :
  let s' := append_rec s t i r in
  data s' = upd (data s) (t, i) (data s (t, i) ++ [r]) /\ plog s' = updt (plog s) t (plog s t ++ [Emit r]) /\
  chan s' = chan s /\ gmark s' = gmark s /\ flag s' = flag s /\ nbuf s' = nbuf s /\ curr s' = curr s /\
  shl s' = shl s /\ bwl s' = bwl s /\ ws s' = ws s /\ lostcnt s' = lostcnt s /\ stopped s' = stopped s /\
  joined s' = joined s /\ file s' = file s /\ losts s' = losts s /\ pdone s' = pdone s.
Proof. unfold append_rec. destruct (data s (t, i)) eqn:E; repeat split; sp; rewrite ?E; reflexivity. Qed.

Lemma inv_append s t i r : Inv s -> stopped s = false -> curr s t = Some i -> Inv (append_rec s t i r).
Proof.
  intros I Es Hc. destruct (append_rec_fields s t i r) as (F1 & F2 & F3 & F4 & F5 & F6 & F7 & F8 & F9 & F10 & F11 & F12 & F13 & F14 & _).
  apply (Inv_put s _ t i r (Emit r) []); try assumption; try reflexivity.
  - rewrite F3, app_nil_r. reflexivity.
  - constructor.
  - rewrite F4. cbn. lia.
Qed.

Lemma inv_marker s t i : Inv s -> stopped s = false -> curr s t = Some i -> data s (t, i) = [] ->
  Inv (marker s t (t, i)).
Proof.
  intros I Es Hc Hd.
  apply (Inv_put s _ t i (lostrec (losts s t) (stale s (t, i))) (Marker (losts s t) (lostrec (losts s t) (stale s (t, i)))) [MLost (losts s t)]);
    try assumption; try reflexivity; unfold marker; sp.
  - rewrite Hd. reflexivity.
  - repeat constructor.
  - cbn [chan_lost]. lia.
Qed.

(* ------------------------------------------------------------------ taking a buffer (the `reuse:` part) *)
Definition take0 (s : st) (t : tid) (idx : nat) : st :=
  let b := (t, idx) in
  let s1 := set_flag s (upd (flag s) b (set_rec (flag s b))) in
  let s2 := set_curr s1 (updt (curr s1) t (Some idx)) in
  let s3 := set_data s2 (upd (data s2) b []) in
  let s4 := shrink s3 t idx in
  set_chan s4 (chan s4 ++ [MStart b]).

Lemma take_eq s t idx r :
  take s t idx r = append_rec (if (losts (take0 s t idx) t =? 0)%N then take0 s t idx else marker (take0 s t idx) t (t, idx)) t idx r.
Proof. reflexivity. Qed.

Lemma shrink_fields s t idx :
  let s' := shrink s t idx in
  data s' = data s /\ flag s' = flag s /\ stale s' = stale s /\ curr s' = curr s /\ losts s' = losts s /\ pdone s' = pdone s /\
  plog s' = plog s /\ chan s' = chan s /\ shl s' = shl s /\ bwl s' = bwl s /\ ws s' = ws s /\ lostcnt s' = lostcnt s /\
  gmark s' = gmark s /\ stopped s' = stopped s /\ joined s' = joined s /\ file s' = file s /\
  (forall t', t' <> t -> nbuf s' t' = nbuf s t') /\
  (nbuf s' t = nbuf s t \/ (nbuf s' t = nbuf s t - 1 /\ idx + 3 <= nbuf s t /\ is_wr (flag s (t, nbuf s t - 1)) = true)).
Proof.
  unfold shrink. destruct (idx + 3 <=? nbuf s t) eqn:E1; [|repeat split; auto].
  destruct (_ && _) eqn:E2; [|repeat split; auto].
  apply andb_prop in E2. destruct E2 as [_ E2]. apply Nat.leb_le in E1.
  repeat split; sp.
  - intros t' Hne. apply updt_other. assumption.
  - right. rewrite updt_same. auto.
Qed.

Lemma is_wr_norec f : is_wr f = true -> f_rec f = false.
Proof. unfold is_wr. destruct (f_new f), (f_wr f), (f_rec f); cbn; congruence. Qed.

Lemma inv_take0 s t idx : Inv s -> stopped s = false -> curr s t = None -> idx < nbuf s t ->
  f_rec (flag s (t, idx)) = false ->
  Inv (take0 s t idx) /\ stopped (take0 s t idx) = false /\ curr (take0 s t idx) t = Some idx /\
  data (take0 s t idx) (t, idx) = [].
Proof.
  intros I Es Hc Hlt Hfr. set (b := (t, idx)).
  unfold take0. fold b.
  set (s3 := set_data _ _).
  destruct (shrink_fields s3 t idx) as (S1 & S2 & S3 & S4 & S5 & S6 & S7 & S8 & S9 & S10 & S11 & S12 & S13 & S14 & S15 & S16 & S17 & S18).
  set (s4 := shrink s3 t idx) in *.
  assert (S17' : forall t', t' <> t -> nbuf s4 t' = nbuf s t') by exact S17.
  assert (S18' : nbuf s4 t = nbuf s t \/ (nbuf s4 t = nbuf s t - 1 /\ idx + 3 <= nbuf s t /\ is_wr (flag s3 (t, nbuf s t - 1)) = true)) by exact S18.
  clear S17 S18. rename S17' into S17. rename S18' into S18.
  set (s5 := set_chan s4 _).
  assert (Hnb : ~ In b (chain s t)) by (apply not_in_chain_norec; assumption).
  assert (Hch : forall t', chain s5 t' = chain s t' ++ (if t' =? t then [b] else [])).
  { intro t'. unfold chain, pend, curr_l, s5; sp. rewrite S14, S11, S10, S8, S4. unfold s3; sp. rewrite Es.
    rewrite ends_snoc_other. unfold updt.
    destruct (Nat.eqb_spec t' t) as [->|Hne]; [rewrite Hc|]; rewrite <- ?app_assoc; rewrite ?app_nil_r; reflexivity. }
  assert (Hda : data s5 = upd (data s) b []) by (unfold s5; sp; rewrite S1; reflexivity).
  assert (Hfl : flag s5 = upd (flag s) b (set_rec (flag s b))) by (unfold s5; sp; rewrite S2; reflexivity).
  assert (Hnbuf : forall t' x, In x (chain s t') -> snd x < nbuf s5 t').
  { intros t' x Hx. destruct (I_own s I t' x Hx) as (Hf & Hl & Hr). unfold s5; sp.
    destruct (Nat.eq_dec t' t) as [->|Hne]; [|rewrite S17 by assumption; assumption].
    destruct S18 as [->|(-> & Hi & Hw)]; [assumption|].
    assert (x <> (t, nbuf s t - 1)).
    { intro; subst x. unfold s3 in Hw; sp_in Hw. rewrite upd_other in Hw by (unfold b; intro E; injection E as E1; lia).
      apply is_wr_norec in Hw. congruence. }
    destruct x as [x1 x2]. cbn [fst snd] in *. subst x1. assert (x2 <> nbuf s t - 1) by congruence. lia. }
  split; [|split; [|split]].
  - apply Inv_intro.
    + unfold InvB. change (ws s5) with (ws s4). change (bwl s5) with (bwl s4). rewrite S11, S10. change (ws s3) with (ws s). change (bwl s3) with (bwl s).
      refine (conj _ (conj _ (conj _ (conj (I_idle s I) (conj (I_wt s I) (conj (I_one s I) _)))))).
      * intro t'. unfold content, emitted. rewrite Hch, Hda. change (file s5) with (file s4). change (plog s5) with (plog s4).
        rewrite S16, S7. change (file s3) with (file s). change (plog s3) with (plog s).
        pose proof (I_content s I t') as E. unfold content, emitted in E. rewrite <- E. rewrite flat_map_app.
        destruct (Nat.eqb_spec t' t) as [->|Hne].
        -- cbn [flat_map]. rewrite upd_same, !app_nil_r. rewrite flat_map_upd_notin by assumption. reflexivity.
        -- cbn [flat_map]. rewrite app_nil_r. rewrite flat_map_upd_notin; [reflexivity|].
           eapply not_in_chain_other; [eassumption|reflexivity|assumption].
      * intro t'. rewrite Hch. destruct (Nat.eqb_spec t' t) as [->|Hne]; [|rewrite app_nil_r; apply (I_nodup s I)].
        apply NoDup_app_intro; [apply (I_nodup s I)|repeat constructor; tauto|]. intros x H1 [<-|[]]. contradiction.
      * intros t' x Hx. rewrite Hch in Hx. apply in_app_or in Hx. destruct Hx as [Hx|Hx].
        -- destruct (I_own s I t' x Hx) as (Hf & Hl & Hr). split; [assumption|]. split; [apply Hnbuf; assumption|].
           rewrite Hfl, upd_other; [assumption|]. intro; subst x. apply Hnb. cbn [fst] in Hf. subst t'. assumption.
        -- destruct (Nat.eqb_spec t' t) as [->|Hne]; [|destruct Hx]. destruct Hx as [<-|[]]. split; [reflexivity|]. split.
           ++ unfold s5; sp. cbn [snd b]. destruct S18 as [->|(-> & Hi & _)]; [assumption|lia].
           ++ rewrite Hfl, upd_same. reflexivity.
      * intros w Hw Hwo. destruct (I_wrote s I w Hw Hwo) as (b0 & r0 & Eh & Hd0). exists b0, r0. split; [assumption|].
        rewrite Hda. unfold upd. destruct (bid_eqb b0 b); [reflexivity|assumption].
    + unfold s5; sp. rewrite S14. unfold s3; sp. congruence.
    + unfold s5; sp. rewrite S15. unfold s3; sp. intro J. rewrite (not_joined s I Es) in J. discriminate.
    + intros _ t'. unfold curr_l, s5; sp. rewrite S9, S8, S4. unfold s3; sp. pose proof (I_chan s I Es t') as CK. unfold curr_l in CK.
      unfold updt. destruct (Nat.eqb_spec t' t) as [->|Hne].
      * rewrite Hc in CK. apply chan_ok_app_start; [reflexivity|assumption].
      * apply chan_ok_app_other; [cbn; congruence|assumption].
    + unfold s5; sp. rewrite S12, S8, S13. unfold s3; sp. rewrite chan_lost_app. cbn [chan_lost]. rewrite N.add_0_r. apply I.
  - unfold s5; sp. rewrite S14. exact Es.
  - unfold s5; sp. rewrite S4. unfold s3; sp. apply updt_same.
  - rewrite Hda. apply upd_same.
Qed.

Lemma inv_take s t idx r : Inv s -> stopped s = false -> curr s t = None -> idx < nbuf s t ->
  f_rec (flag s (t, idx)) = false -> Inv (take s t idx r).
Proof.
  intros I Es Hc Hlt Hfr. rewrite take_eq.
  destruct (inv_take0 s t idx I Es Hc Hlt Hfr) as (I0 & Es0 & Hc0 & Hd0).
  destruct (losts (take0 s t idx) t =? 0)%N.
  - apply inv_append; assumption.
  - apply inv_append; [apply inv_marker; assumption|exact Es0|exact Hc0].
Qed.

(* ------------------------------------------------------------------ a new buffer at index nr_buf *)
Lemma inv_grow s t : Inv s -> Inv (grow s t) /\ stopped (grow s t) = stopped s /\ curr (grow s t) = curr s /\
  nbuf (grow s t) t = S (nbuf s t) /\ f_rec (flag (grow s t) (t, nbuf s t)) = false.
Proof.
  intro I. unfold grow. set (b := (t, nbuf s t)).
  assert (Hnb : forall t', ~ In b (chain s t')).
  { intros t' Hin. destruct (I_own s I t' b Hin) as (Hf & Hl & _). cbn [fst snd b] in *. subst t'. lia. }
  split; [|sp; repeat split; [apply updt_same|rewrite upd_same; reflexivity]].
  apply Inv_intro; sp; try (apply I).
  unfold InvB; sp. refine (conj _ (conj _ (conj _ (conj (I_idle s I) (conj (I_wt s I) (conj (I_one s I) _)))))).
  1-3: set (s' := set_nbuf _ _);
    assert (Hch : forall t', chain s' t' = chain s t') by reflexivity;
    destruct (frame_buffers_e s s' I Hch) as (A & B & C); try assumption; try reflexivity.
  - intros t' x Hx. unfold s'; sp. apply upd_other. intro; subst x. eapply Hnb; eassumption.
  - intros t' x Hx. unfold s'; sp. apply upd_other. intro; subst x. eapply Hnb; eassumption.
  - intro t'. unfold s'; sp. unfold updt. destruct (t' =? t) eqn:E; [apply Nat.eqb_eq in E; subst; lia|lia].
  - intros t' x Hx. unfold s'; sp. apply upd_other. intro; subst x. eapply Hnb; eassumption.
  - intros t' x Hx. unfold s'; sp. apply upd_other. intro; subst x. eapply Hnb; eassumption.
  - intro t'. unfold s'; sp. unfold updt. destruct (t' =? t) eqn:E; [apply Nat.eqb_eq in E; subst; lia|lia].
  - intros t' x Hx. unfold s'; sp. apply upd_other. intro; subst x. eapply Hnb; eassumption.
  - intros t' x Hx. unfold s'; sp. apply upd_other. intro; subst x. eapply Hnb; eassumption.
  - intro t'. unfold s'; sp. unfold updt. destruct (t' =? t) eqn:E; [apply Nat.eqb_eq in E; subst; lia|lia].
  - intros w Hw Hwo. destruct (I_wrote s I w Hw Hwo) as (b0 & r0 & Eh & Hd0). exists b0, r0. split; [assumption|].
    unfold upd. destruct (bid_eqb b0 b); [reflexivity|assumption].
Qed.

(* ------------------------------------------------------------------ allocation failure *)
Lemma inv_alloc_failed s t r : Inv s -> stopped s = false -> curr s t = None -> Inv (alloc_failed s t r).
Proof.
  intros I Es Hc. unfold alloc_failed.
  assert (Hcl : forall t', match updt (curr s) t None t' with Some i => [(t', i)] | None => [] end = curr_l s t')
    by (intro; apply curr_l_updt_none; assumption).
  set (s' := set_plog _ _).
  assert (Hch : forall t', chain s' t' = chain s t').
  { intro t'. unfold chain, pend, curr_l, s'; sp. rewrite Hcl. reflexivity. }
  assert (Hem : forall t', emitted s' t' = emitted s t').
  { intro t'. unfold emitted, s'; sp. unfold updt. destruct (Nat.eqb_spec t' t) as [->|]; [|reflexivity].
    rewrite emitted_of_app. cbn. apply app_nil_r. }
  destruct (frame_buffers_e s s' I Hch) as (A & B & C); try assumption; try reflexivity.
  apply Inv_intro; try (unfold s'; sp; apply I).
  - exact (conj A (conj B (conj C (conj (I_idle s I) (conj (I_wt s I) (conj (I_one s I) (I_wrote s I))))))).
  - intros _ t'. unfold curr_l, s'; sp. rewrite Hcl. apply (I_chan s I Es).
Qed.

(* ------------------------------------------------------------------ get_new_shmem_buffer *)
Lemma find_free_from_spec s t i k idx : find_free_from s t i k = Some idx ->
  i <= idx < i + k /\ f_rec (flag s (t, idx)) = false.
Proof.
  revert i. induction k as [|k IH]; intros i H; cbn in H; [discriminate|].
  destruct (f_rec (flag s (t, i))) eqn:E.
  - apply IH in H. destruct H. split; [lia|assumption].
  - injection H as <-. split; [lia|assumption].
Qed.

Lemma inv_switch s t r ok : Inv s -> stopped s = false -> curr s t = None -> Inv (switch s t r ok).
Proof.
  intros I Es Hc. unfold switch. destruct (find_free s t) as [idx|] eqn:F.
  - unfold find_free in F. apply find_free_from_spec in F. destruct F as [Hr Hf].
    apply inv_take; try assumption. lia.
  - destruct ok; [|apply inv_alloc_failed; assumption].
    destruct (inv_grow s t I) as (Ig & Esg & Hcg & Hng & Hfg).
    apply inv_take; try assumption; try congruence. rewrite Hng. lia.
Qed.

(* ------------------------------------------------------------------ P_emit *)
Lemma inv_p_emit c s s' t r pad ok : Inv s -> p_emit c s t r pad ok = Some s' -> Inv s'.
Proof.
  intros I H. unfold p_emit in H. destruct (p_live s t) eqn:L; [|discriminate].
  apply p_live_spec in L. destruct L as (Hn & Hd & Es).
  destruct (curr s t) as [i|] eqn:Hc.
  - destruct (size s (t, i) + (length r - pad) <=? maxsize c); injection H as <-.
    + apply inv_append; assumption.
    + change (set_curr (set_chan s (chan s ++ [MEnd (t, i)])) (updt (curr (set_chan s (chan s ++ [MEnd (t, i)]))) t None))
        with (send_end s t i).
      apply inv_switch; [apply inv_send_end; assumption|exact Es|].
      unfold send_end; sp. apply updt_same.
  - injection H as <-. apply inv_switch; assumption.
Qed.

(* ------------------------------------------------------------------ P_start *)
Lemma inv_p_start s s' t : Inv s -> p_start s t = Some s' -> Inv s'.
Proof.
  intros I H. unfold p_start in H. destruct (nbuf s t =? 0) eqn:En; [|discriminate].
  destruct (stopped s) eqn:Es; [discriminate|]. cbn [negb andb] in H. injection H as <-.
  apply Nat.eqb_eq in En.
  pose proof (chain_empty_unstarted s t I En) as Hc0.
  assert (Hparts : Wq t (ws s) = [] /\ of_tid t (bwl s) = [] /\ ends t (chan s) = [] /\ curr s t = None).
  { unfold chain, pend, curr_l in Hc0. rewrite Es in Hc0.
    apply app_eq_nil in Hc0. destruct Hc0 as [H1 H2]. apply app_eq_nil in H2. destruct H2 as [H2 H3].
    apply app_eq_nil in H3. destruct H3 as [H3 H4]. repeat split; try assumption.
    destruct (curr s t); [discriminate|reflexivity]. }
  destruct Hparts as (HW & HB & HE & Hc).
  set (b0 := (t, 0)). set (b1 := (t, 1)).
  set (s' := set_chan _ _).
  assert (Hne01 : b0 <> b1) by (unfold b0, b1; congruence).
  assert (Hnotin : forall t' x, In x (chain s t') -> x <> b0 /\ x <> b1).
  { intros t' x Hx. destruct (I_own s I t' x Hx) as (Hf & Hl & _).
    split; intro; subst x; cbn [fst snd b0 b1] in *; subst t'; lia. }
  assert (Hch : forall t', chain s' t' = chain s t' ++ (if t' =? t then [b0] else [])).
  { intro t'. unfold chain, pend, curr_l, s'; sp. rewrite Es. rewrite ends_snoc_other.
    unfold updt. destruct (Nat.eqb_spec t' t) as [->|Hne]; [rewrite Hc|]; rewrite <- ?app_assoc; rewrite ?app_nil_r; reflexivity. }
  assert (Hda : forall x, data s' x = if bid_eqb x b1 then [] else if bid_eqb x b0 then [] else data s x) by reflexivity.
  assert (Hdat : forall t' x, In x (chain s t') -> data s' x = data s x).
  { intros t' x Hx. destruct (Hnotin t' x Hx) as [N0 N1]. rewrite Hda.
    destruct (bid_eqb_spec x b1); [contradiction|]. destruct (bid_eqb_spec x b0); [contradiction|]. reflexivity. }
  assert (Hflg : forall t' x, In x (chain s t') -> flag s' x = flag s x).
  { intros t' x Hx. destruct (Hnotin t' x Hx) as [N0 N1]. unfold s'; sp. rewrite !upd_other by assumption. reflexivity. }
  apply Inv_intro.
  - unfold InvB. change (ws s') with (ws s). change (bwl s') with (bwl s).
    refine (conj _ (conj _ (conj _ (conj (I_idle s I) (conj (I_wt s I) (conj (I_one s I) _)))))).
    + intro t'. unfold content, emitted. rewrite Hch. change (file s') with (file s). change (plog s') with (plog s).
      pose proof (I_content s I t') as E. unfold content, emitted in E. rewrite <- E. rewrite flat_map_app.
      rewrite (flat_map_ext_in (data s') (data s) (chain s t')) by (intros; eapply Hdat; eassumption).
      destruct (Nat.eqb_spec t' t) as [->|Hne]; cbn [flat_map]; rewrite ?app_nil_r; [|reflexivity].
      rewrite Hda. destruct (bid_eqb_spec b0 b1); [contradiction|]. rewrite bid_eqb_refl. rewrite app_nil_r. reflexivity.
    + intro t'. rewrite Hch. destruct (Nat.eqb_spec t' t) as [->|Hne]; [|rewrite app_nil_r; apply (I_nodup s I)].
      rewrite Hc0. repeat constructor. tauto.
    + intros t' x Hx. rewrite Hch in Hx. apply in_app_or in Hx. destruct Hx as [Hx|Hx].
      * destruct (I_own s I t' x Hx) as (Hf & Hl & Hr). split; [assumption|]. split.
        -- unfold s'; sp. unfold updt. destruct (Nat.eqb_spec t' t) as [->|]; [lia|assumption].
        -- rewrite (Hflg t' x Hx). assumption.
      * destruct (Nat.eqb_spec t' t) as [->|Hne]; [|destruct Hx]. destruct Hx as [<-|[]]. split; [reflexivity|]. split.
        -- unfold s'; sp. rewrite updt_same. cbn. lia.
        -- unfold s'; sp. rewrite upd_other by assumption. rewrite upd_same. reflexivity.
    + intros w Hw Hwo. destruct (I_wrote s I w Hw Hwo) as (x & r0 & Eh & Hd0). exists x, r0. split; [assumption|].
      rewrite Hda. destruct (bid_eqb x b1); [reflexivity|]. destruct (bid_eqb x b0); [reflexivity|assumption].
  - unfold s'; sp. congruence.
  - unfold s'; sp. intro J. rewrite (not_joined s I Es) in J. discriminate.
  - intros _ t'. unfold curr_l, s'; sp. pose proof (I_chan s I Es t') as CK. unfold curr_l in CK.
    unfold updt. destruct (Nat.eqb_spec t' t) as [->|Hne].
    + rewrite Hc in CK. apply chan_ok_app_start; [reflexivity|assumption].
    + apply chan_ok_app_other; [cbn; congruence|assumption].
  - unfold s'; sp. rewrite chan_lost_app. cbn [chan_lost]. rewrite N.add_0_r. apply I.
Qed.

(* ------------------------------------------------------------------ P_exec *)
Lemma inv_p_exec s s' t : Inv s -> p_exec s t = Some s' -> Inv s'.
Proof.
  intros I H. unfold p_exec in H. destruct (p_live s t) eqn:L; [|discriminate].
  apply p_live_spec in L. destruct L as (Hn & Hd & Es).
  destruct (curr s t) as [i|] eqn:Hc; [|discriminate]. injection H as <-.
  set (n := nbuf s t). set (b0 := (t, n)). set (b1 := (t, S n)). set (bo := (t, i)).
  set (s' := set_chan _ _).
  assert (Hne01 : b0 <> b1) by (unfold b0, b1; intro E; injection E; lia).
  assert (Hnotin : forall t' x, In x (chain s t') -> x <> b0 /\ x <> b1).
  { intros t' x Hx. destruct (I_own s I t' x Hx) as (Hf & Hl & _).
    split; intro; subst x; cbn [fst snd b0 b1] in *; subst t'; unfold n in *; lia. }
  assert (Hch : forall t', chain s' t' = chain s t' ++ (if t' =? t then [b0] else [])).
  { intro t'. unfold chain, pend, curr_l, s'; sp. rewrite Es.
    change (chan s ++ [MStart b0; MExec bo]) with (chan s ++ [MStart b0] ++ [MExec bo]).
    rewrite (app_assoc (chan s) [MStart b0] [MExec bo]), ends_app, ends_snoc_other. cbn [ends flat_map fst bo app].
    unfold updt. destruct (Nat.eqb_spec t' t) as [->|Hne].
    - rewrite Hc, Nat.eqb_refl. rewrite <- !app_assoc. reflexivity.
    - destruct (Nat.eqb_spec t t'); [congruence|]. rewrite !app_nil_r. reflexivity. }
  assert (Hda : forall x, data s' x = if bid_eqb x b1 then [] else if bid_eqb x b0 then [] else data s x) by reflexivity.
  assert (Hdat : forall t' x, In x (chain s t') -> data s' x = data s x).
  { intros t' x Hx. destruct (Hnotin t' x Hx) as [N0 N1]. rewrite Hda.
    destruct (bid_eqb_spec x b1); [contradiction|]. destruct (bid_eqb_spec x b0); [contradiction|]. reflexivity. }
  assert (Hflg : forall t' x, In x (chain s t') -> flag s' x = flag s x).
  { intros t' x Hx. destruct (Hnotin t' x Hx) as [N0 N1]. unfold s'; sp. rewrite !upd_other by assumption. reflexivity. }
  apply Inv_intro.
  - unfold InvB. change (ws s') with (ws s). change (bwl s') with (bwl s).
    refine (conj _ (conj _ (conj _ (conj (I_idle s I) (conj (I_wt s I) (conj (I_one s I) _)))))).
    + intro t'. unfold content, emitted. rewrite Hch. change (file s') with (file s). change (plog s') with (plog s).
      pose proof (I_content s I t') as E. unfold content, emitted in E. rewrite <- E. rewrite flat_map_app.
      rewrite (flat_map_ext_in (data s') (data s) (chain s t')) by (intros; eapply Hdat; eassumption).
      destruct (Nat.eqb_spec t' t) as [->|Hne]; cbn [flat_map]; rewrite ?app_nil_r; [|reflexivity].
      rewrite Hda. destruct (bid_eqb_spec b0 b1); [contradiction|]. rewrite bid_eqb_refl. rewrite app_nil_r. reflexivity.
    + intro t'. rewrite Hch. destruct (Nat.eqb_spec t' t) as [->|Hne]; [|rewrite app_nil_r; apply (I_nodup s I)].
      apply NoDup_app_intro; [apply (I_nodup s I)|repeat constructor; tauto|].
      intros x H1 [<-|[]]. destruct (Hnotin t b0 H1) as [N _]. congruence.
    + intros t' x Hx. rewrite Hch in Hx. apply in_app_or in Hx. destruct Hx as [Hx|Hx].
      * destruct (I_own s I t' x Hx) as (Hf & Hl & Hr). split; [assumption|]. split.
        -- unfold s'; sp. unfold updt. destruct (Nat.eqb_spec t' t) as [->|]; [fold n; unfold n in *; lia|assumption].
        -- rewrite (Hflg t' x Hx). assumption.
      * destruct (Nat.eqb_spec t' t) as [->|Hne]; [|destruct Hx]. destruct Hx as [<-|[]]. split; [reflexivity|]. split.
        -- unfold s'; sp. rewrite updt_same. cbn [snd b0]. lia.
        -- unfold s'; sp. rewrite upd_other by assumption. rewrite upd_same. reflexivity.
    + intros w Hw Hwo. destruct (I_wrote s I w Hw Hwo) as (x & r0 & Eh & Hd0). exists x, r0. split; [assumption|].
      rewrite Hda. destruct (bid_eqb x b1); [reflexivity|]. destruct (bid_eqb x b0); [reflexivity|assumption].
  - unfold s'; sp. congruence.
  - unfold s'; sp. intro J. rewrite (not_joined s I Es) in J. discriminate.
  - intros _ t'. unfold curr_l, s'; sp. pose proof (I_chan s I Es t') as CK. unfold curr_l in CK.
    unfold updt. destruct (Nat.eqb_spec t' t) as [->|Hne].
    + rewrite Hc in CK. apply chan_ok_app_exec; [reflexivity|reflexivity|assumption].
    + change (chan s ++ [MStart b0; MExec bo]) with (chan s ++ [MStart b0] ++ [MExec bo]). rewrite (app_assoc (chan s) [MStart b0] [MExec bo]).
      apply chan_ok_app_other; [cbn; congruence|]. apply chan_ok_app_other; [cbn; congruence|assumption].
  - unfold s'; sp. rewrite chan_lost_app. cbn [chan_lost]. rewrite N.add_0_r. apply I.
Qed.
