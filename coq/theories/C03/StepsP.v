(* C03 - the invariant is preserved by every producer step (libmcount/record.c side) *)
From Coq Require Import List Arith Bool PeanoNat NArith Lia.
Import ListNotations.
Require Import UV.Gen.Consts UV.C03.Model UV.C03.Lib UV.C03.Inv UV.C03.StepsR.

Lemma p_live_spec s t : p_live s t = true -> nbuf s t <> 0 /\ pdone s t = false /\ stopped s = false.
Proof.
  unfold p_live. intro H. apply andb_prop in H. destruct H as [H H3]. apply andb_prop in H. destruct H as [H1 H2].
  repeat split.
  - destruct (Nat.eqb_spec (nbuf s t) 0); [discriminate|assumption].
  - destruct (pdone s t); [discriminate|reflexivity].
  - destruct (stopped s); [discriminate|reflexivity].
Qed.

Lemma not_joined s : Inv s -> stopped s = false -> joined s = false.
Proof. intros I Es. destruct (joined s) eqn:Ej; [|reflexivity]. destruct (I_join s I Ej). congruence. Qed.

Lemma emitted_of_app l1 l2 : emitted_of (l1 ++ l2) = emitted_of l1 ++ emitted_of l2.
Proof. apply flat_map_app. Qed.

Lemma ends_snoc_other t c m : (forall b, m <> MEnd b) -> ends t (c ++ [m]) = ends t c.
Proof. intro H. rewrite ends_app. destruct m as [b|b|n]; cbn; try apply app_nil_r. exfalso. eapply H. reflexivity. Qed.
Lemma ends_snoc_end t c b : ends t (c ++ [MEnd b]) = ends t c ++ (if fst b =? t then [b] else []).
Proof. rewrite ends_app. cbn. destruct (fst b =? t); reflexivity. Qed.

(* a head of a writer's list lies in the writers' part of the chain *)
Lemma in_writer_in_Wq s w t x : In w (ws s) -> wtid w = Some t -> In x (whead w ++ wbufs w) -> In x (Wq t (ws s)).
Proof. intros Hw Ht Hx. apply in_flat_map. exists w. split; [assumption|]. rewrite (wq_same t w Ht). assumption. Qed.

(* the current buffer of a running producer is in no writer's hands *)
Lemma curr_not_in_writer s t i w : Inv s -> stopped s = false -> curr s t = Some i -> In w (ws s) ->
  ~ In (t, i) (whead w ++ wbufs w).
Proof.
  intros I Es Hc Hw Hin.
  destruct (wtid w) as [t1|] eqn:Ew.
  - destruct (I_wt s I w t1 Hw Ew) as [Htid _]. pose proof (Htid _ Hin) as E. cbn in E. subst t1.
    pose proof (in_writer_in_Wq s w t (t, i) Hw Ew Hin) as HW.
    pose proof (I_nodup s I t) as ND. unfold chain, pend in ND. rewrite Es in ND. unfold curr_l in ND. rewrite Hc in ND.
    eapply (NoDup_app_disj _ _ (t, i) ND); [assumption|]. apply in_or_app. right. apply in_or_app. right. left. reflexivity.
  - destruct (I_idle s I w Hw Ew) as (H1 & H2 & _). rewrite H1, H2 in Hin. destruct Hin.
Qed.

(* ------------------------------------------------------------------ changes nothing relevant *)
Lemma inv_irrelevant s s' : Inv s ->
  data s' = data s -> flag s' = flag s -> nbuf s' = nbuf s -> (forall t, curr s' t = curr s t) -> plog s' = plog s ->
  chan s' = chan s -> shl s' = shl s -> bwl s' = bwl s -> ws s' = ws s -> lostcnt s' = lostcnt s ->
  gmark s' = gmark s -> stopped s' = stopped s -> joined s' = joined s -> file s' = file s -> Inv s'.
Proof.
  intros I Hda Hfl Hnb Hcu Hpl Hch Hsl Hbw Hws Hlc Hgm Hst Hjo Hfi.
  assert (Hcl : forall t, curr_l s' t = curr_l s t) by (intro t; unfold curr_l; rewrite Hcu; reflexivity).
  apply Inv_intro.
  - apply (InvB_frame s); try assumption. intro t. unfold pend. rewrite Hst, Hsl, Hch, Hcl. reflexivity.
  - rewrite Hst, Hch. apply I.
  - rewrite Hjo, Hst, Hws. apply I.
  - rewrite Hst, Hsl, Hch. intros E t. rewrite Hcl. apply (I_chan s I E).
  - rewrite Hlc, Hch, Hgm. apply I.
Qed.

(* ------------------------------------------------------------------ P_addlost *)
Lemma inv_p_addlost s s' t n : Inv s -> p_addlost s t n = Some s' -> Inv s'.
Proof.
  intros I H. unfold p_addlost in H. destruct (p_live s t); [|discriminate].
  destruct (curr s t); [discriminate|]. injection H as <-.
  apply (inv_irrelevant s); try reflexivity. assumption.
Qed.

(* ------------------------------------------------------------------ REC_END for the current buffer *)
Definition send_end (s : st) (t : tid) (i : nat) : st :=
  let s0 := set_chan s (chan s ++ [MEnd (t, i)]) in set_curr s0 (updt (curr s0) t None).

Lemma curr_l_updt_none s t t' : curr s t = None ->
  match updt (curr s) t None t' with Some i => [(t', i)] | None => [] end = curr_l s t'.
Proof.
  intro H. unfold curr_l, updt. destruct (Nat.eqb_spec t' t) as [->|Hne]; [rewrite H|]; reflexivity.
Qed.

Lemma inv_send_end s t i : Inv s -> stopped s = false -> curr s t = Some i -> Inv (send_end s t i).
Proof.
  intros I Es Hc. unfold send_end.
  assert (Hp : forall t', pend (set_curr (set_chan s (chan s ++ [MEnd (t, i)])) (updt (curr s) t None)) t' = pend s t').
  { intro t'. unfold pend, curr_l; sp. rewrite Es. rewrite ends_snoc_end. cbn [fst].
    unfold updt. destruct (Nat.eqb_spec t t') as [<-|Hne].
    - rewrite Nat.eqb_refl, Hc. rewrite app_nil_r. reflexivity.
    - destruct (Nat.eqb_spec t' t); [congruence|]. rewrite app_nil_r. reflexivity. }
  apply Inv_intro; sp.
  - apply (InvB_frame s); try reflexivity; assumption.
  - congruence.
  - intro J. rewrite (not_joined s I Es) in J. discriminate.
  - intros _ t'. pose proof (I_chan s I Es t') as CK. unfold curr_l in *; sp.
    unfold updt. destruct (Nat.eqb_spec t' t) as [->|Hne].
    + rewrite Hc in CK. apply chan_ok_app_end; [reflexivity|assumption].
    + apply chan_ok_app_other; [cbn; congruence|assumption].
  - rewrite chan_lost_app. cbn [chan_lost]. rewrite N.add_0_r. apply I.
Qed.

(* ------------------------------------------------------------------ P_finish *)
Lemma inv_p_finish s s' t : Inv s -> p_finish s t = Some s' -> Inv s'.
Proof.
  intros I H. unfold p_finish in H. destruct (p_live s t) eqn:L; [|discriminate].
  apply p_live_spec in L. destruct L as (Hn & Hd & Es). injection H as <-.
  destruct (curr s t) as [i|] eqn:Hc.
  - assert (Hin : In (t, i) (chain s t)).
    { unfold chain, pend, curr_l. rewrite Es, Hc. apply in_or_app. right. apply in_or_app. right. apply in_or_app. right. left. reflexivity. }
    destruct (I_own s I t _ Hin) as (_ & _ & Hr). rewrite Hr.
    apply (inv_irrelevant (send_end s t i)); try reflexivity. apply inv_send_end; assumption.
  - apply (inv_irrelevant s); try reflexivity; [assumption|]. sp.
    intro t'. unfold updt. destruct (Nat.eqb_spec t' t) as [->|]; [symmetry; assumption|reflexivity].
Qed.

(* ------------------------------------------------------------------ something is put at the end of the current buffer *)
Definition only_lost (m : msg) : Prop := match m with MLost _ => True | _ => False end.

Lemma ends_app_lost t c ms : Forall only_lost ms -> ends t (c ++ ms) = ends t c.
Proof.
  intro H. rewrite ends_app. induction H as [|m ms Hm _ IH]; [apply app_nil_r|].
  destruct m; try destruct Hm. cbn [ends flat_map app] in *. exact IH.
Qed.
Lemma chan_ok_app_lost t sl c ms cur : Forall only_lost ms -> chan_ok t sl c cur -> chan_ok t sl (c ++ ms) cur.
Proof.
  intro H. revert c. induction H as [|m ms Hm _ IH]; intros c CK; [rewrite app_nil_r; assumption|].
  replace (c ++ m :: ms) with ((c ++ [m]) ++ ms) by (rewrite <- app_assoc; reflexivity).
  apply IH. apply chan_ok_app_other; [|assumption]. destruct m; try destruct Hm. exact I.
Qed.

Lemma Inv_put s s' t i x e ms : Inv s -> stopped s = false -> curr s t = Some i ->
  data s' = upd (data s) (t, i) (data s (t, i) ++ [x]) -> plog s' = updt (plog s) t (plog s t ++ [e]) ->
  emitted_of [e] = [x] -> chan s' = chan s ++ ms -> Forall only_lost ms -> gmark s' = (gmark s + chan_lost ms)%N ->
  flag s' = flag s -> nbuf s' = nbuf s -> curr s' = curr s -> shl s' = shl s -> bwl s' = bwl s -> ws s' = ws s ->
  lostcnt s' = lostcnt s -> stopped s' = stopped s -> joined s' = joined s -> file s' = file s -> Inv s'.
Proof.
  intros I Es Hc Hda Hpl He Hch Hms Hgm Hfl Hnb Hcu Hsl Hbw Hws Hlc Hst Hjo Hfi.
  set (b := (t, i)) in *.
  assert (Hchain : forall t', chain s' t' = chain s t').
  { intro t'. unfold chain, pend, curr_l. rewrite Hws, Hbw, Hst, Hsl, Hch, Hcu, Es. rewrite ends_app_lost by assumption. reflexivity. }
  assert (Hc0 : chain s t = (Wq t (ws s) ++ of_tid t (bwl s) ++ ends t (chan s)) ++ [b]).
  { unfold chain, pend, curr_l. rewrite Es, Hc. rewrite <- !app_assoc. reflexivity. }
  pose proof (I_nodup s I t) as ND. rewrite Hc0 in ND.
  assert (Hnotin : ~ In b (Wq t (ws s) ++ of_tid t (bwl s) ++ ends t (chan s))).
  { intro Hin. eapply (NoDup_app_disj _ _ b ND); [assumption|left; reflexivity]. }
  set (X := Wq t (ws s) ++ of_tid t (bwl s) ++ ends t (chan s)) in *.
  assert (Hem : forall t', emitted s' t' = if t' =? t then emitted s t ++ [x] else emitted s t').
  { intro t'. unfold emitted. rewrite Hpl. unfold updt. destruct (Nat.eqb_spec t' t) as [->|]; [|reflexivity].
    rewrite emitted_of_app, He. reflexivity. }
  apply Inv_intro.
  - unfold InvB. rewrite Hws, Hbw. refine (conj _ (conj _ (conj _ (conj (I_idle s I) (conj (I_wt s I) (conj (I_one s I) _)))))).
    + intro t'. unfold content. rewrite Hchain, Hfi, Hem, Hda.
      pose proof (I_content s I t') as E. unfold content in E.
      destruct (Nat.eqb_spec t' t) as [->|Hne].
      * rewrite <- E, Hc0. rewrite !flat_map_app. cbn [flat_map]. rewrite upd_same, app_nil_r.
        rewrite flat_map_upd_notin by assumption. rewrite <- !app_assoc. reflexivity.
      * rewrite <- E. rewrite flat_map_upd_notin; [reflexivity|].
        eapply not_in_chain_other; [eassumption|reflexivity|assumption].
    + intro t'. rewrite Hchain. apply (I_nodup s I).
    + intros t' y Hy. rewrite Hchain in Hy. rewrite Hnb, Hfl. apply (I_own s I t' y Hy).
    + intros w Hw Hwo. destruct (I_wrote s I w Hw Hwo) as (b0 & r0 & Eh & Hd0). exists b0, r0. split; [assumption|].
      rewrite Hda, upd_other; [assumption|]. intro; subst b0.
      apply (curr_not_in_writer s t i w I Es Hc Hw). rewrite Eh. left. reflexivity.
  - rewrite Hst. congruence.
  - rewrite Hjo. intro J. rewrite (not_joined s I Es) in J. discriminate.
  - rewrite Hst, Hsl, Hch. intros _ t'. unfold curr_l. rewrite Hcu. apply chan_ok_app_lost; [assumption|]. apply (I_chan s I Es).
  - rewrite Hlc, Hch, Hgm, chan_lost_app. pose proof (I_lost s I). lia.
Qed.

Lemma append_rec_fields s t i r :
  let s' := append_rec s t i r in
  data s' = upd (data s) (t, i) (data s (t, i) ++ [r]) /\ plog s' = updt (plog s) t (plog s t ++ [Emit r]) /\
  chan s' = chan s /\ gmark s' = gmark s /\ flag s' = flag s /\ nbuf s' = nbuf s /\ curr s' = curr s /\
  shl s' = shl s /\ bwl s' = bwl s /\ ws s' = ws s /\ lostcnt s' = lostcnt s /\ stopped s' = stopped s /\
  joined s' = joined s /\ file s' = file s /\ losts s' = losts s /\ pdone s' = pdone s.
Proof. unfold append_rec. destruct (data s (t, i)) eqn:E; repeat split; sp; rewrite ?E; reflexivity. Qed.

Lemma inv_append s t i r : Inv s -> stopped s = false -> curr s t = Some i -> Inv (append_rec s t i r).
Proof.
  intros I Es Hc. destruct (append_rec_fields s t i r) as (F1 & F2 & F3 & F4 & F5 & F6 & F7 & F8 & F9 & F10 & F11 & F12 & F13 & F14 & _).
  apply (Inv_put s _ t i r (Emit r) []); try assumption; try reflexivity.
  - rewrite F3, app_nil_r. reflexivity.
  - constructor.
  - rewrite F4. cbn. lia.
Qed.

Lemma inv_marker s t i : Inv s -> stopped s = false -> curr s t = Some i -> data s (t, i) = [] ->
  Inv (marker s t (t, i)).
Proof.
  intros I Es Hc Hd.
  apply (Inv_put s _ t i (lostrec (losts s t) (stale s (t, i))) (Marker (losts s t) (lostrec (losts s t) (stale s (t, i)))) [MLost (losts s t)]);
    try assumption; try reflexivity; unfold marker; sp.
  - rewrite Hd. reflexivity.
  - repeat constructor.
  - cbn [chan_lost]. lia.
Qed.
