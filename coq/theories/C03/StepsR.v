(* C03 - the invariant is preserved by every recorder step (cmds/record.c side) *)
From Coq Require Import List Arith Bool PeanoNat NArith Lia.
Import ListNotations.
Require Import UV.Gen.Consts UV.C03.Model UV.C03.Lib UV.C03.Inv.

Ltac inv_some H := match type of H with Some _ = Some ?b => injection H as H; subst b end.

(* ------------------------------------------------------------------ M_stop *)
Lemma inv_m_stop s s' : Inv s -> m_stop s = Some s' -> Inv s'.
Proof.
  intros I H. unfold m_stop in H.
  destruct (stopped s) eqn:Es; cbn in H; [discriminate|].
  destruct (is_nil (chan s)) eqn:Ec; [|discriminate]. apply is_nil_true in Ec. inv_some H.
  assert (Hch : forall t, chain (set_stopped s true) t = chain s t).
  { intro t. unfold chain, pend; sp. rewrite Es, Ec. cbn [ends flat_map app].
    pose proof (I_chan s I Es t) as C. rewrite Ec in C. cbn [chan_ok] in C. rewrite C. reflexivity. }
  destruct (frame_buffers s (set_stopped s true) I Hch eq_refl eq_refl eq_refl eq_refl eq_refl) as (A & B & C).
  constructor; sp; try assumption; try (apply I).
  - intros _. exact Ec.
  - intro J. destruct (I_join s I J) as [J1 J2]. congruence.
  - discriminate.
Qed.

(* ------------------------------------------------------------------ M_join *)
Lemma inv_m_join s s' : Inv s -> m_join s = Some s' -> Inv s'.
Proof.
  intros I H. unfold m_join in H.
  destruct (stopped s) eqn:Es; cbn in H; [|discriminate].
  destruct (joined s) eqn:Ej; cbn in H; [discriminate|].
  destruct (forallb idle (ws s)) eqn:Ei; [|discriminate]. inv_some H.
  assert (Hch : forall t, chain (set_joined s true) t = chain s t) by reflexivity.
  destruct (frame_buffers s (set_joined s true) I Hch eq_refl eq_refl eq_refl eq_refl eq_refl) as (A & B & C).
  constructor; sp; try assumption; try (apply I).
  intros _. split; assumption.
Qed.

(* ------------------------------------------------------------------ helpers on the writer list *)
Lemma NoDup_insert {A} (a c : list A) x : NoDup (a ++ c) -> ~ In x (a ++ c) -> NoDup (a ++ x :: c).
Proof.
  intros ND Hn. apply NoDup_app_intro.
  - eapply NoDup_app_l; eassumption.
  - constructor; [intro; apply Hn; apply in_or_app; auto|eapply NoDup_app_r; eassumption].
  - intros y Ha [<-|Hc]; [apply Hn; apply in_or_app; auto|eapply NoDup_app_disj; eassumption].
Qed.
Lemma regs_mid l1 (w : writer) l2 : regs (l1 ++ w :: l2) = regs l1 ++ reg1 w ++ regs l2.
Proof. rewrite regs_app. reflexivity. Qed.
Lemma Wq_mid t l1 (w : writer) l2 : Wq t (l1 ++ w :: l2) = Wq t l1 ++ wq t w ++ Wq t l2.
Proof. rewrite Wq_app. reflexivity. Qed.
Lemma in_mid {A} (l1 : list A) x l2 y : In y (l1 ++ x :: l2) <-> y = x \/ In y (l1 ++ l2).
Proof.
  rewrite !in_app_iff. cbn. split; [intros [H|[H|H]]|intros [H|[H|H]]]; auto.
Qed.
(* replacing a writer that does not work for t by another one that does not work for t *)
Lemma Wq_replace_other t l1 w w' l2 : wq t w = [] -> wq t w' = [] -> Wq t (l1 ++ w' :: l2) = Wq t (l1 ++ w :: l2).
Proof. intros H H'. rewrite !Wq_mid, H, H'. reflexivity. Qed.

Lemma regs_none_of s t : Inv s -> of_tid t (bwl s) <> [] -> ~ In t (regs (ws s)).
Proof.
  intros I Hb Hin. apply regs_In in Hin. destruct Hin as (w & Hw & Ht).
  destruct (I_wt s I w t Hw Ht) as [_ H]. contradiction.
Qed.

(* ------------------------------------------------------------------ W_pick *)
Lemma take_kick_spec s s0 : take_kick s = Some s0 ->
  (s0 = s \/ exists k, s0 = set_kicks s k) /\
  ((stopped s = true /\ s0 = s) \/ (stopped s = false /\ kicks s = S (kicks s0) /\ s0 = set_kicks s (kicks s0))).
Proof.
  unfold take_kick. destruct (stopped s) eqn:Es.
  - intro H. injection H as <-. split; [left; reflexivity|left; auto].
  - destruct (kicks s) as [|k] eqn:Ek; [discriminate|]. intro H. injection H as <-. split; [right; eauto|right; auto].
Qed.

Lemma inv_set_kicks s k : Inv s -> Inv (set_kicks s k).
Proof.
  intro I. assert (Hch : forall t, chain (set_kicks s k) t = chain s t) by reflexivity.
  destruct (frame_buffers s (set_kicks s k) I Hch eq_refl eq_refl eq_refl eq_refl eq_refl) as (A & B & C).
  constructor; sp; try assumption; apply I.
Qed.

Lemma inv_take_kick s s0 : Inv s -> take_kick s = Some s0 -> Inv s0.
Proof.
  intros I H. destruct (take_kick_spec s s0 H) as [[->|(k & ->)] _]; [assumption|apply inv_set_kicks; assumption].
Qed.

(* w_pick = take a kick, then the critical section on the resulting state s0 *)
Lemma w_pick_spec s w s' : w_pick s w = Some s' ->
  exists s0, take_kick s = Some s0 /\
  joined s0 = false /\ exists wr, nth_error (ws s0) w = Some wr /\ wtid wr = None /\
  ((bwl s0 = [] /\ s' = s0) \/
   exists b rest, bwl s0 = b :: rest /\
     s' = set_bwl (set_ws s0 (set_nth w {| wtid := Some (fst b); whead := of_tid (fst b) (bwl s0);
                                          wbufs := wbufs wr; wrote := false |} (ws s0)))
                  (not_tid (fst b) (bwl s0))).
Proof.
  unfold w_pick. destruct (joined s) eqn:Ej; [discriminate|].
  destruct (nth_error (ws s) w) as [wr|] eqn:En; [|discriminate].
  destruct (wtid wr) eqn:Ew; [discriminate|].
  destruct (take_kick s) as [s0|] eqn:Ek; [|discriminate].
  assert (F : joined s0 = joined s /\ ws s0 = ws s).
  { destruct (take_kick_spec s s0 Ek) as [[->|(k & ->)] _]; split; reflexivity. }
  destruct F as [F1 F2].
  intro H. exists s0. split; [reflexivity|]. split; [congruence|]. exists wr. split; [rewrite F2; assumption|].
  split; [assumption|].
  destruct (bwl s0) as [|b rest] eqn:Eb; injection H as <-; [left; auto|right].
  exists b, rest. split; reflexivity.
Qed.

Lemma inv_w_pick s s' w : Inv s -> w_pick s w = Some s' -> Inv s'.
Proof.
  intros I0 H. apply w_pick_spec in H. destruct H as (s0 & Ek & Ej & wr & En & Ew & H).
  pose proof (inv_take_kick s s0 I0 Ek) as I. clear I0 Ek. rename s into s_before. rename s0 into s.
  destruct H as [[Eb ->]|(b & rest & Eb & ->)]; [exact I|].
  destruct (nth_split _ _ _ En) as (l1 & l2 & El & Hlen). subst w.
  assert (Hwr : In wr (ws s)) by (rewrite El; apply in_or_app; right; left; reflexivity).
  destruct (I_idle s I wr Hwr Ew) as (Hh & Hbf & Hwo).
  set (t0 := fst b).
  assert (Hof : of_tid t0 (b :: rest) = b :: of_tid t0 rest) by (apply of_tid_cons_same; reflexivity).
  assert (Hnr : ~ In t0 (regs (ws s))).
  { apply regs_none_of; [assumption|]. rewrite Eb, Hof. discriminate. }
  clear Hof.
  rewrite El, set_nth_split. rewrite Hbf.
  fold t0. remember (of_tid t0 (bwl s)) as hd0 eqn:Ehd.
  set (wr' := {| wtid := Some t0; whead := hd0; wbufs := []; wrote := false |}).
  assert (Hr1 : ~ In t0 (regs l1) /\ ~ In t0 (regs l2)).
  { rewrite El, regs_mid in Hnr. split; intro; apply Hnr; apply in_or_app; [left|right; apply in_or_app; right]; assumption. }
  assert (Hch : forall t, chain (set_bwl (set_ws s (l1 ++ wr' :: l2)) (not_tid t0 (bwl s))) t = chain s t).
  { intro t. unfold chain, pend; sp.
    destruct (Nat.eq_dec t t0) as [->|Hne].
    - rewrite El, !Wq_mid. rewrite (Wq_nil t0 l1), (Wq_nil t0 l2) by tauto.
      rewrite (wq_idle t0 wr Ew), (wq_same t0 wr') by reflexivity. cbn [whead wbufs wr' app].
      rewrite of_tid_not_tid_same. rewrite !app_nil_r. subst hd0. reflexivity.
    - rewrite El. rewrite (Wq_replace_other t l1 wr wr' l2); [|apply wq_idle; assumption|apply (wq_other t wr' t0); [reflexivity|assumption]].
      rewrite of_tid_not_tid_other by assumption. reflexivity. }
  destruct (frame_buffers s _ I Hch eq_refl eq_refl eq_refl eq_refl eq_refl) as (A & B & C).
  constructor; sp; try assumption; try (apply I).
  - (* idle *) intros w0 Hin Hn. apply in_mid in Hin. destruct Hin as [->|Hin]; [discriminate|].
    apply (I_idle s I w0); [|assumption]. rewrite El. apply in_mid. right. assumption.
  - (* wt *) intros w0 t Hin Ht. apply in_mid in Hin. destruct Hin as [->|Hin].
    + cbn [wtid wr'] in Ht. inversion Ht; subst t. cbn [whead wbufs wr']. rewrite app_nil_r. split.
      * intros x Hx. subst hd0. apply of_tid_In in Hx. tauto.
      * apply of_tid_not_tid_same.
    + assert (Hin' : In w0 (ws s)) by (rewrite El; apply in_mid; right; assumption).
      destruct (I_wt s I w0 t Hin' Ht) as [H1 H2]. split; [assumption|].
      destruct (Nat.eq_dec t t0) as [->|Hne]; [apply of_tid_not_tid_same|].
      rewrite of_tid_not_tid_other by assumption. assumption.
  - (* one *) rewrite regs_mid. cbn [reg1 wtid wr' app]. apply NoDup_insert.
    + pose proof (I_one s I) as ND. rewrite El, regs_mid in ND. unfold reg1 at 2 in ND. rewrite Ew in ND. exact ND.
    + intro Hin. apply in_app_or in Hin. tauto.
  - (* wrote *) intros w0 Hin Hw. apply in_mid in Hin. destruct Hin as [->|Hin]; [discriminate|].
    apply (I_wrote s I w0); [|assumption]. rewrite El. apply in_mid. right. assumption.
  - (* join *) intro J. congruence.
Qed.

(* ------------------------------------------------------------------ replacing a writer by an equivalent one *)
Lemma wq_same_fields t w w' : wtid w' = wtid w -> whead w' ++ wbufs w' = whead w ++ wbufs w -> wq t w' = wq t w.
Proof. intros H1 H2. unfold wq, works_for. rewrite H1, H2. reflexivity. Qed.
Lemma Wq_replace t l1 w w' l2 : wq t w' = wq t w -> Wq t (l1 ++ w' :: l2) = Wq t (l1 ++ w :: l2).
Proof. intro H. rewrite !Wq_mid, H. reflexivity. Qed.
Lemma regs_replace l1 w w' l2 : wtid w' = wtid w -> regs (l1 ++ w' :: l2) = regs (l1 ++ w :: l2).
Proof. intro H. rewrite !regs_mid. unfold reg1 at 2 4. rewrite H. reflexivity. Qed.

(* the buffers clauses when a buffer with no data leaves the chain of t0 *)
Lemma frame_remove s s' t0 b A B :
  Inv s -> chain s t0 = A ++ b :: B -> chain s' t0 = A ++ B -> (forall t, t <> t0 -> chain s' t = chain s t) ->
  data s b = [] -> data s' = data s -> file s' = file s -> plog s' = plog s -> flag s' = flag s -> nbuf s' = nbuf s ->
  (forall t, content s' t = emitted s' t) /\ (forall t, NoDup (chain s' t)) /\
  (forall t x, In x (chain s' t) -> fst x = t /\ snd x < nbuf s' t /\ f_rec (flag s' x) = true).
Proof.
  intros I Hc Hc' Ho Hd Hda Hf Hp Hfl Hn.
  assert (Hsub : forall t x, In x (chain s' t) -> In x (chain s t)).
  { intros t x Hx. destruct (Nat.eq_dec t t0) as [->|Hne]; [|rewrite <- Ho; assumption].
    rewrite Hc. rewrite Hc' in Hx. apply in_app_or in Hx. apply in_or_app. destruct Hx; [left|right; right]; assumption. }
  repeat split.
  - intro t. pose proof (I_content s I t) as E. unfold content, emitted in *. rewrite Hda, Hf, Hp, <- E.
    destruct (Nat.eq_dec t t0) as [->|Hne]; [|rewrite Ho by assumption; reflexivity].
    rewrite Hc, Hc'. rewrite !flat_map_app. cbn [flat_map]. rewrite Hd. reflexivity.
  - intro t. destruct (Nat.eq_dec t t0) as [->|Hne]; [|rewrite Ho by assumption; apply (I_nodup s I)].
    rewrite Hc'. pose proof (I_nodup s I t0) as ND. rewrite Hc in ND. eapply NoDup_remove_1; eassumption.
  - apply (I_own s I t x (Hsub t x H)).
  - rewrite Hn. apply (I_own s I t x (Hsub t x H)).
  - rewrite Hfl. apply (I_own s I t x (Hsub t x H)).
Qed.

(* ------------------------------------------------------------------ W_write *)
Lemma w_write_spec s w s' : w_write s w = Some s' ->
  joined s = false /\ exists wr t0 b rest, nth_error (ws s) w = Some wr /\ wtid wr = Some t0 /\ whead wr = b :: rest /\
    wrote wr = false /\
    s' = set_ws (set_data (set_file s (updt (file s) (fst b) (file s (fst b) ++ data s b))) (upd (data s) b []))
                (set_nth w {| wtid := Some t0; whead := b :: rest; wbufs := wbufs wr; wrote := true |} (ws s)).
Proof.
  unfold w_write. destruct (joined s); [discriminate|].
  destruct (nth_error (ws s) w) as [wr|]; [|discriminate].
  destruct (wtid wr) as [t0|] eqn:Ew; [|discriminate].
  destruct (whead wr) as [|b rest] eqn:Eh; [discriminate|].
  destruct (wrote wr) eqn:Eo; [discriminate|]. intro H. injection H as <-.
  split; [reflexivity|]. exists wr, t0, b, rest. repeat (split; [auto|]). reflexivity.
Qed.

Lemma inv_w_write s s' w : Inv s -> w_write s w = Some s' -> Inv s'.
Proof.
  intros I H. apply w_write_spec in H. destruct H as (Ej & wr & t0 & b & rest & En & Ew & Eh & Eo & ->).
  destruct (nth_split _ _ _ En) as (l1 & l2 & El & Hlen). subst w.
  assert (Hwr : In wr (ws s)) by (rewrite El; apply in_or_app; right; left; reflexivity).
  destruct (I_wt s I wr t0 Hwr Ew) as (Htid & Hbw).
  assert (Hb : fst b = t0) by (apply Htid; rewrite Eh; left; reflexivity).
  rewrite El, set_nth_split.
  set (wr' := {| wtid := Some t0; whead := b :: rest; wbufs := wbufs wr; wrote := true |}).
  set (s1 := set_ws _ _).
  assert (Hch : forall t, chain s1 t = chain s t).
  { intro t. unfold chain, pend, s1; sp. rewrite El. rewrite (Wq_replace t l1 wr wr' l2); [reflexivity|].
    apply wq_same_fields; cbn [wr' wtid whead wbufs]; congruence. }
  assert (Hc0 : chain s t0 = b :: (rest ++ wbufs wr) ++ of_tid t0 (bwl s) ++ pend s t0).
  { unfold chain. rewrite El, Wq_mid. pose proof (I_one s I) as ND. rewrite El in ND.
    destruct (Wq_split t0 l1 wr l2 ND Ew) as [-> ->]. rewrite (wq_same t0 wr Ew), Eh. cbn [app]. rewrite app_nil_r. reflexivity. }
  pose proof (I_nodup s I t0) as ND0. rewrite Hc0 in ND0. apply NoDup_cons_iff in ND0. destruct ND0 as [Hnotin ND0].
  constructor; unfold s1; sp; try (apply I).
  - (* content *) intro t. pose proof (I_content s I t) as E. unfold content, emitted in *. fold s1. rewrite Hch. unfold s1; sp.
    rewrite <- E.
    destruct (Nat.eq_dec t t0) as [->|Hne].
    + rewrite Hb, updt_same, Hc0. cbn [flat_map]. rewrite upd_same. cbn [app].
      rewrite flat_map_upd_notin by assumption. rewrite <- app_assoc. reflexivity.
    + rewrite Hb, updt_other by assumption. rewrite flat_map_upd_notin; [reflexivity|].
      eapply not_in_chain_other; eassumption.
  - intro t. fold s1. rewrite Hch. apply (I_nodup s I).
  - intros t x Hx. fold s1 in Hx. rewrite Hch in Hx. apply (I_own s I t x Hx).
  - intros w0 Hin Hn. apply in_mid in Hin. destruct Hin as [->|Hin]; [cbn in Hn; congruence|].
    apply (I_idle s I w0); [|assumption]. rewrite El. apply in_mid. right. assumption.
  - intros w0 t Hin Ht. apply in_mid in Hin. destruct Hin as [->|Hin].
    + cbn [wtid wr' whead wbufs] in *. rewrite <- Eh. apply (I_wt s I wr t Hwr). congruence.
    + apply (I_wt s I w0 t); [|assumption]. rewrite El. apply in_mid. right. assumption.
  - rewrite (regs_replace l1 wr wr' l2) by (cbn; congruence). rewrite <- El. apply (I_one s I).
  - intros w0 Hin Hw. apply in_mid in Hin. destruct Hin as [->|Hin].
    + exists b, rest. split; [reflexivity|apply upd_same].
    + destruct (I_wrote s I w0) as (b0 & r0 & H1 & H2); [rewrite El; apply in_mid; right; assumption|assumption|].
      exists b0, r0. split; [assumption|]. unfold upd. destruct (bid_eqb b0 b); [reflexivity|assumption].
  - intro J. congruence.
Qed.

(* ------------------------------------------------------------------ W_release *)
Lemma w_release_spec s w s' : w_release s w = Some s' ->
  joined s = false /\ exists wr t0 b rest, nth_error (ws s) w = Some wr /\ wtid wr = Some t0 /\ whead wr = b :: rest /\
    wrote wr = true /\
    s' = set_ws (set_flag s (upd (flag s) b fl_written))
                (set_nth w {| wtid := Some t0; whead := rest; wbufs := wbufs wr; wrote := false |} (ws s)).
Proof.
  unfold w_release. destruct (joined s); [discriminate|].
  destruct (nth_error (ws s) w) as [wr|]; [|discriminate].
  destruct (wtid wr) as [t0|] eqn:Ew; [|discriminate].
  destruct (whead wr) as [|b rest] eqn:Eh; [discriminate|].
  destruct (wrote wr) eqn:Eo; [|discriminate]. intro H. injection H as <-.
  split; [reflexivity|]. exists wr, t0, b, rest. repeat (split; [auto|]). reflexivity.
Qed.

Lemma inv_w_release s s' w : Inv s -> w_release s w = Some s' -> Inv s'.
Proof.
  intros I H. apply w_release_spec in H. destruct H as (Ej & wr & t0 & b & rest & En & Ew & Eh & Eo & ->).
  destruct (nth_split _ _ _ En) as (l1 & l2 & El & Hlen). subst w.
  assert (Hwr : In wr (ws s)) by (rewrite El; apply in_or_app; right; left; reflexivity).
  destruct (I_wt s I wr t0 Hwr Ew) as (Htid & Hbw).
  assert (Hb : fst b = t0) by (apply Htid; rewrite Eh; left; reflexivity).
  destruct (I_wrote s I wr Hwr Eo) as (b' & rest' & Eh' & Hd). rewrite Eh in Eh'. injection Eh' as <- <-.
  rewrite El, set_nth_split.
  set (wr' := {| wtid := Some t0; whead := rest; wbufs := wbufs wr; wrote := false |}).
  set (s1 := set_ws _ _).
  pose proof (I_one s I) as ND1. rewrite El in ND1.
  destruct (Wq_split t0 l1 wr l2 ND1 Ew) as [W1 W2].
  assert (Hc0 : chain s t0 = [] ++ b :: (rest ++ wbufs wr) ++ of_tid t0 (bwl s) ++ pend s t0).
  { unfold chain. rewrite El, Wq_mid, W1, W2. rewrite (wq_same t0 wr Ew), Eh. cbn [app]. rewrite app_nil_r. reflexivity. }
  assert (Hc1 : chain s1 t0 = [] ++ (rest ++ wbufs wr) ++ of_tid t0 (bwl s) ++ pend s t0).
  { unfold chain, pend, s1; sp. rewrite Wq_mid, W1, W2. rewrite (wq_same t0 wr') by reflexivity. cbn [app wr' whead wbufs].
    rewrite app_nil_r. reflexivity. }
  assert (Hco : forall t, t <> t0 -> chain s1 t = chain s t).
  { intros t Hne. unfold chain, pend, s1; sp. rewrite El. rewrite (Wq_replace t l1 wr wr' l2); [reflexivity|].
    rewrite (wq_other t wr t0), (wq_other t wr' t0); auto. }
  assert (Hsub : forall t x, In x (chain s1 t) -> In x (chain s t) /\ x <> b).
  { intros t x Hx. destruct (Nat.eq_dec t t0) as [->|Hne].
    - pose proof (I_nodup s I t0) as ND0. rewrite Hc0 in ND0. cbn [app] in ND0. apply NoDup_cons_iff in ND0.
      rewrite Hc1 in Hx. rewrite Hc0. cbn [app] in *. split; [right; assumption|]. intro; subst x. tauto.
    - rewrite Hco in Hx by assumption. split; [assumption|]. intro; subst x. apply Hne. symmetry.
      rewrite <- Hb. eapply chain_tid; eassumption. }
  constructor; unfold s1; sp; try (apply I).
  - intro t. pose proof (I_content s I t) as E. unfold content, emitted in *. sp. fold s1.
    rewrite <- E. destruct (Nat.eq_dec t t0) as [->|Hne]; [|rewrite Hco by assumption; reflexivity].
    rewrite Hc0, Hc1. cbn [app flat_map]. rewrite Hd. reflexivity.
  - intro t. fold s1. destruct (Nat.eq_dec t t0) as [->|Hne]; [|rewrite Hco by assumption; apply (I_nodup s I)].
    rewrite Hc1. pose proof (I_nodup s I t0) as ND0. rewrite Hc0 in ND0. eapply NoDup_remove_1; eassumption.
  - intros t x Hx. fold s1 in Hx. destruct (Hsub t x Hx) as [Hin Hne]. rewrite upd_other by assumption.
    apply (I_own s I t x Hin).
  - intros w0 Hin Hn. apply in_mid in Hin. destruct Hin as [->|Hin]; [discriminate|].
    apply (I_idle s I w0); [|assumption]. rewrite El. apply in_mid. right. assumption.
  - intros w0 t Hin Ht. apply in_mid in Hin. destruct Hin as [->|Hin].
    + cbn [wtid wr' whead wbufs] in *. injection Ht as <-. split; [|assumption].
      intros x Hx. apply Htid. rewrite Eh. right. assumption.
    + apply (I_wt s I w0 t); [|assumption]. rewrite El. apply in_mid. right. assumption.
  - rewrite (regs_replace l1 wr wr' l2) by (cbn; congruence). assumption.
  - intros w0 Hin Hw. apply in_mid in Hin. destruct Hin as [->|Hin]; [discriminate|].
    apply (I_wrote s I w0); [|assumption]. rewrite El. apply in_mid. right. assumption.
  - intro J. congruence.
Qed.

(* ------------------------------------------------------------------ W_splice *)
Lemma w_splice_spec s w s' : w_splice s w = Some s' ->
  joined s = false /\ exists wr t0, nth_error (ws s) w = Some wr /\ wtid wr = Some t0 /\ whead wr = [] /\
    s' = set_ws s (set_nth w {| wtid := if is_nil (wbufs wr) then None else Some t0;
                                whead := wbufs wr; wbufs := []; wrote := false |} (ws s)).
Proof.
  unfold w_splice. destruct (joined s); [discriminate|].
  destruct (nth_error (ws s) w) as [wr|]; [|discriminate].
  destruct (wtid wr) as [t0|] eqn:Ew; [|discriminate].
  destruct (whead wr) as [|b rest] eqn:Eh; [|discriminate].
  intro H. injection H as <-.
  split; [reflexivity|]. exists wr, t0. repeat (split; [auto|]). reflexivity.
Qed.

Lemma inv_w_splice s s' w : Inv s -> w_splice s w = Some s' -> Inv s'.
Proof.
  intros I H. apply w_splice_spec in H. destruct H as (Ej & wr & t0 & En & Ew & Eh & ->).
  destruct (nth_split _ _ _ En) as (l1 & l2 & El & Hlen). subst w.
  assert (Hwr : In wr (ws s)) by (rewrite El; apply in_or_app; right; left; reflexivity).
  destruct (I_wt s I wr t0 Hwr Ew) as (Htid & Hbw).
  rewrite El, set_nth_split.
  set (wr' := {| wtid := if is_nil (wbufs wr) then None else Some t0; whead := wbufs wr; wbufs := []; wrote := false |}).
  set (s1 := set_ws _ _).
  assert (Hwq : forall t, wq t wr' = wq t wr).
  { intro t. unfold wq, works_for. cbn [wr' wtid whead wbufs]. rewrite Ew, Eh. cbn [app].
    destruct (wbufs wr) as [|x l]; cbn [is_nil]; [destruct (t0 =? t); reflexivity|].
    rewrite app_nil_r. reflexivity. }
  assert (Hch : forall t, chain s1 t = chain s t).
  { intro t. unfold chain, pend, s1; sp. rewrite El. rewrite (Wq_replace t l1 wr wr' l2); [reflexivity|apply Hwq]. }
  destruct (frame_buffers s s1 I Hch eq_refl eq_refl eq_refl eq_refl eq_refl) as (A & B & C).
  constructor; try assumption; unfold s1; sp; try (apply I).
  - intros w0 Hin Hn. apply in_mid in Hin. destruct Hin as [->|Hin].
    + unfold wr' in Hn |- *. cbn [wtid whead wbufs wrote] in Hn |- *.
      destruct (is_nil (wbufs wr)) eqn:En2; [|discriminate]. apply is_nil_true in En2. auto.
    + apply (I_idle s I w0); [|assumption]. rewrite El. apply in_mid. right. assumption.
  - intros w0 t Hin Ht. apply in_mid in Hin. destruct Hin as [->|Hin].
    + unfold wr' in Ht |- *. cbn [wtid whead wbufs] in Ht |- *.
      destruct (is_nil (wbufs wr)) eqn:En2; [discriminate|].
      injection Ht as <-. split; [|assumption]. intros y Hy. apply Htid. rewrite Eh. cbn [app]. rewrite app_nil_r in Hy. assumption.
    + apply (I_wt s I w0 t); [|assumption]. rewrite El. apply in_mid. right. assumption.
  - pose proof (I_one s I) as ND. rewrite El, regs_mid in ND. rewrite regs_mid. unfold reg1 at 2 in ND. rewrite Ew in ND.
    unfold reg1 at 2. cbn [wr' wtid]. destruct (is_nil (wbufs wr)); [|assumption].
    cbn [app] in *. eapply NoDup_remove_1; eassumption.
  - intros w0 Hin Hw. apply in_mid in Hin. destruct Hin as [->|Hin]; [discriminate|].
    apply (I_wrote s I w0); [|assumption]. rewrite El. apply in_mid. right. assumption.
  - intro J. congruence.
Qed.

(* ------------------------------------------------------------------ record_mmap_file + copy_to_buffer *)
Definition InvB (s : st) : Prop :=
  (forall t, content s t = emitted s t) /\ (forall t, NoDup (chain s t)) /\
  (forall t b, In b (chain s t) -> fst b = t /\ snd b < nbuf s t /\ f_rec (flag s b) = true) /\
  (forall w, In w (ws s) -> wtid w = None -> whead w = [] /\ wbufs w = [] /\ wrote w = false) /\
  (forall w t, In w (ws s) -> wtid w = Some t ->
      (forall b, In b (whead w ++ wbufs w) -> fst b = t) /\ of_tid t (bwl s) = []) /\
  NoDup (regs (ws s)) /\
  (forall w, In w (ws s) -> wrote w = true -> exists b rest, whead w = b :: rest /\ data s b = []).

Lemma Inv_intro s : InvB s -> (stopped s = true -> chan s = []) ->
  (joined s = true -> stopped s = true /\ forallb idle (ws s) = true) ->
  (stopped s = false -> forall t, chan_ok t (of_tid t (shl s)) (chan s) (curr_l s t)) ->
  (lostcnt s + chan_lost (chan s) = gmark s)%N -> Inv s.
Proof. intros (A & B & C & D & E & F & G) H1 H2 H3 H4. constructor; assumption. Qed.

Lemma record_mmap_fields s b :
  chan (record_mmap s b) = chan s /\ shl (record_mmap s b) = shl s /\ stopped (record_mmap s b) = stopped s /\
  joined (record_mmap s b) = joined s /\ lostcnt (record_mmap s b) = lostcnt s /\ gmark (record_mmap s b) = gmark s /\
  curr (record_mmap s b) = curr s.
Proof.
  unfold record_mmap, copy_to_buffer. destruct (f_rec (flag s b) && negb (is_nil (data s b))); [|repeat split].
  destruct (give b (ws s)); [|destruct (stopped s) eqn:E]; repeat split; sp; try assumption; reflexivity.
Qed.

Lemma give_idle b l : forallb idle l = true -> give b l = None.
Proof.
  induction l as [|w l IH]; cbn; [reflexivity|]. intro H. apply andb_prop in H. destruct H as [H1 H2].
  unfold works_for. unfold idle in H1. destruct (wtid w); [discriminate|]. rewrite IH by assumption. reflexivity.
Qed.

Lemma record_mmap_buffers s s1 b :
  Inv s ->
  ws s1 = ws s -> bwl s1 = bwl s -> data s1 = data s -> file s1 = file s -> plog s1 = plog s ->
  flag s1 = flag s -> nbuf s1 = nbuf s ->
  pend s (fst b) = b :: pend s1 (fst b) -> (forall t, t <> fst b -> pend s1 t = pend s t) ->
  InvB (record_mmap s1 b).
Proof.
  intros I Hws Hbw Hda Hfi Hpl Hfl Hnb Hp0 Hpo.
  set (t0 := fst b) in *.
  assert (Hc0 : chain s t0 = (Wq t0 (ws s) ++ of_tid t0 (bwl s)) ++ b :: pend s1 t0).
  { unfold chain. rewrite Hp0, <- app_assoc. reflexivity. }
  assert (Hinb : In b (chain s t0)) by (rewrite Hc0; apply in_or_app; right; left; reflexivity).
  destruct (I_own s I t0 b Hinb) as (_ & _ & Hrec).
  unfold record_mmap. rewrite Hfl, Hda, Hrec. cbn [andb].
  destruct (is_nil (data s b)) eqn:Enil; cbn [negb].
  - (* size 0: not queued *)
    apply is_nil_true in Enil.
    assert (Hc1 : chain s1 t0 = (Wq t0 (ws s) ++ of_tid t0 (bwl s)) ++ pend s1 t0).
    { unfold chain. rewrite Hws, Hbw, <- app_assoc. reflexivity. }
    assert (Hco : forall t, t <> t0 -> chain s1 t = chain s t).
    { intros t Hne. unfold chain. rewrite Hws, Hbw, Hpo by assumption. reflexivity. }
    destruct (frame_remove s s1 t0 b _ _ I Hc0 Hc1 Hco Enil Hda Hfi Hpl Hfl Hnb) as (A & B & C).
    unfold InvB. rewrite Hws, Hbw, Hda.
    exact (conj A (conj B (conj C (conj (I_idle s I) (conj (I_wt s I) (conj (I_one s I) (I_wrote s I))))))).
  - unfold copy_to_buffer. rewrite Hws.
    destruct (give b (ws s)) as [ws'|] eqn:G.
    + (* handed to the writer working for t0 *)
      destruct (give_some _ _ _ G) as (l1 & w & l2 & El & Hw & ->). fold t0 in Hw.
      assert (Hwin : In w (ws s)) by (rewrite El; apply in_or_app; right; left; reflexivity).
      destruct (I_wt s I w t0 Hwin Hw) as (Htid & Hbw0).
      pose proof (I_one s I) as ND1. rewrite El in ND1. destruct (Wq_split t0 l1 w l2 ND1 Hw) as [W1 W2].
      set (s2 := set_ws s1 _).
      assert (Hch : forall t, chain s2 t = chain s t).
      { intro t. unfold chain, s2; sp. rewrite Hbw. change (pend (set_ws s1 _) t) with (pend s1 t).
        destruct (Nat.eq_dec t t0) as [->|Hne].
        - rewrite Hp0, El, !Wq_mid, W1, W2, Hbw0. rewrite (wq_same t0 w Hw), (wq_same t0 (give_to w b)) by exact Hw.
          cbn [give_to whead wbufs app]. rewrite !app_nil_r, <- !app_assoc. reflexivity.
        - rewrite Hpo by assumption. rewrite El. rewrite (Wq_replace t l1 w (give_to w b) l2); [reflexivity|].
          rewrite (wq_other t w t0), (wq_other t (give_to w b) t0); auto. }
      destruct (frame_buffers s s2 I Hch Hda Hfi Hpl Hfl Hnb) as (A & B & C).
      unfold InvB. refine (conj A (conj B (conj C (conj _ (conj _ (conj _ _)))))); unfold s2; sp.
      * intros w0 Hin Hn. apply in_mid in Hin. destruct Hin as [->|Hin]; [cbn in Hn; congruence|].
        apply (I_idle s I w0); [|assumption]. rewrite El. apply in_mid. right. assumption.
      * intros w0 t Hin Ht. rewrite Hbw. apply in_mid in Hin. destruct Hin as [->|Hin].
        -- cbn [give_to wtid whead wbufs] in *. rewrite Hw in Ht. injection Ht as <-. split; [|assumption].
           intros x Hx. rewrite app_assoc in Hx. apply in_app_or in Hx. destruct Hx as [Hx|[<-|[]]]; [apply Htid; assumption|reflexivity].
        -- apply (I_wt s I w0 t); [|assumption]. rewrite El. apply in_mid. right. assumption.
      * rewrite (regs_replace l1 w (give_to w b) l2) by reflexivity. assumption.
      * intros w0 Hin Hwo. rewrite Hda. apply in_mid in Hin. destruct Hin as [->|Hin].
        -- cbn [give_to whead wrote] in *. apply (I_wrote s I w Hwin Hwo).
        -- apply (I_wrote s I w0); [|assumption]. rewrite El. apply in_mid. right. assumption.
    + (* nobody works for t0: buf_write_list *)
      apply give_none in G. fold t0 in G.
      cut (InvB (set_bwl s1 (bwl s1 ++ [b]))); [intro G2; destruct (stopped s1); exact G2|].
      set (s2 := set_bwl s1 _).
      assert (Hch : forall t, chain s2 t = chain s t).
      { intro t. unfold chain, s2; sp. rewrite Hws, Hbw. change (pend (set_bwl s1 _) t) with (pend s1 t).
        rewrite of_tid_app. destruct (Nat.eq_dec t t0) as [->|Hne].
        - rewrite Hp0. rewrite (of_tid_cons_same t0 b []) by reflexivity. cbn [of_tid filter]. rewrite <- !app_assoc. reflexivity.
        - rewrite Hpo by assumption. rewrite (of_tid_cons_other t b []) by (intro; apply Hne; symmetry; assumption).
          cbn [of_tid filter]. rewrite app_nil_r. reflexivity. }
      destruct (frame_buffers s s2 I Hch Hda Hfi Hpl Hfl Hnb) as (A & B & C).
      unfold InvB. refine (conj A (conj B (conj C (conj _ (conj _ (conj _ _)))))); unfold s2; sp; rewrite ?Hws, ?Hda;
        try (apply I).
      intros w t Hin Ht. destruct (I_wt s I w t Hin Ht) as [H1 H2]. split; [assumption|].
      rewrite Hbw, of_tid_app, H2. cbn [app].
      apply of_tid_cons_other. intro E. apply G. apply regs_In. exists w. split; [assumption|]. rewrite Ht, <- E. reflexivity.
Qed.

Lemma InvB_of_Inv s : Inv s -> InvB s.
Proof.
  intro I. exact (conj (I_content s I) (conj (I_nodup s I) (conj (I_own s I) (conj (I_idle s I) (conj (I_wt s I)
    (conj (I_one s I) (I_wrote s I))))))).
Qed.

(* a change of the FIFO / shmem_list / counters that leaves every chain as it is *)
Lemma InvB_frame s s' : Inv s -> (forall t, pend s' t = pend s t) ->
  ws s' = ws s -> bwl s' = bwl s -> data s' = data s -> file s' = file s -> plog s' = plog s ->
  flag s' = flag s -> nbuf s' = nbuf s -> InvB s'.
Proof.
  intros I Hp Hws Hbw Hda Hfi Hpl Hfl Hnb.
  assert (Hch : forall t, chain s' t = chain s t) by (intro t; unfold chain; rewrite Hws, Hbw, Hp; reflexivity).
  destruct (frame_buffers s s' I Hch Hda Hfi Hpl Hfl Hnb) as (A & B & C).
  unfold InvB. rewrite Hws, Hbw, Hda.
  exact (conj A (conj B (conj C (conj (I_idle s I) (conj (I_wt s I) (conj (I_one s I) (I_wrote s I))))))).
Qed.

Lemma first_tid_of_tid t l b sl' : of_tid t l = b :: sl' -> first_tid t l = Some b.
Proof.
  induction l as [|x l IH]; cbn; [discriminate|].
  destruct (Nat.eqb_spec (fst x) t) as [E|E]; [intro H; injection H as -> _; reflexivity|exact IH].
Qed.

(* ------------------------------------------------------------------ M_msg *)
Lemma inv_m_msg s s' : Inv s -> m_msg s = Some s' -> Inv s'.
Proof.
  intros I H. unfold m_msg in H. destruct (stopped s) eqn:Es; [discriminate|].
  assert (Ej : joined s = false).
  { destruct (joined s) eqn:Ej; [|reflexivity]. destruct (I_join s I Ej). congruence. }
  destruct (chan s) as [|m r] eqn:Ec; [discriminate|].
  pose proof (I_chan s I Es) as CK. rewrite Ec in CK.
  pose proof (I_lost s I) as LK. rewrite Ec in LK.
  assert (HX : forall b, m = MExec b -> first_tid (fst b) (shl s) = Some b).
  { intros b ->. specialize (CK (fst b)). cbn [chan_ok] in CK. rewrite Nat.eqb_refl in CK.
    destruct CK as (sl' & Hsl & _). eapply first_tid_of_tid; eassumption. }
  destruct m as [b|b|n|b]; [| | |rewrite (HX b eq_refl) in H]; injection H as <-.
  - (* REC_START *)
    apply Inv_intro; sp; try congruence.
    + apply (InvB_frame s); try reflexivity; [assumption|].
      intro t. unfold pend; sp. rewrite Es, Ec. reflexivity.
    + intros _ t. specialize (CK t). cbn [chan_ok] in CK. rewrite of_tid_app.
      destruct (Nat.eqb_spec (fst b) t) as [E|E].
      * rewrite (of_tid_cons_same t b []) by assumption. exact CK.
      * rewrite (of_tid_cons_other t b []) by assumption. cbn [of_tid filter]. rewrite app_nil_r. exact CK.
    + exact LK.
  - (* REC_END *)
    set (s1 := set_shl (set_chan s r) (remove_first b (shl s))).
    destruct (record_mmap_fields s1 b) as (F1 & F2 & F3 & F4 & F5 & F6 & F7).
    apply Inv_intro; unfold curr_l; rewrite ?F1, ?F2, ?F3, ?F4, ?F5, ?F6, ?F7; unfold s1; sp; try congruence.
    + apply (record_mmap_buffers s); try reflexivity; [assumption| |].
      * unfold pend, s1; sp. rewrite Es, Ec. cbn [ends flat_map]. rewrite Nat.eqb_refl. reflexivity.
      * intros t Hne. unfold pend, s1; sp. rewrite Es, Ec. cbn [ends flat_map].
        destruct (Nat.eqb_spec (fst b) t); [congruence|]. reflexivity.
    + intros _ t. specialize (CK t). cbn [chan_ok] in CK. fold (curr_l s t).
      destruct (Nat.eqb_spec (fst b) t) as [E|E].
      * destruct CK as (sl' & Hsl & CK). subst t. rewrite (remove_first_of_tid_head b (shl s) sl' Hsl). exact CK.
      * rewrite remove_first_of_tid_other by assumption. exact CK.
    + exact LK.
  - (* LOST *)
    apply Inv_intro; sp; try congruence.
    + apply (InvB_frame s); try reflexivity; [assumption|].
      intro t. unfold pend; sp. rewrite Es, Ec. reflexivity.
    + intros _ t. exact (CK t).
    + cbn [chan_lost] in LK. lia.
  - (* TASK_START of a known task: flush_old_shmem *)
    set (s1 := set_shl (set_chan s r) (remove_first b (shl s))).
    destruct (record_mmap_fields s1 b) as (F1 & F2 & F3 & F4 & F5 & F6 & F7).
    apply Inv_intro; unfold curr_l; rewrite ?F1, ?F2, ?F3, ?F4, ?F5, ?F6, ?F7; unfold s1; sp; try congruence.
    + apply (record_mmap_buffers s); try reflexivity; [assumption| |].
      * unfold pend, s1; sp. rewrite Es, Ec. cbn [ends flat_map]. rewrite Nat.eqb_refl. reflexivity.
      * intros t Hne. unfold pend, s1; sp. rewrite Es, Ec. cbn [ends flat_map].
        destruct (Nat.eqb_spec (fst b) t); [congruence|]. reflexivity.
    + intros _ t. specialize (CK t). cbn [chan_ok] in CK. fold (curr_l s t).
      destruct (Nat.eqb_spec (fst b) t) as [E|E].
      * destruct CK as (sl' & Hsl & CK). subst t. rewrite (remove_first_of_tid_head b (shl s) sl' Hsl). exact CK.
      * rewrite remove_first_of_tid_other by assumption. exact CK.
    + exact LK.
Qed.

(* ------------------------------------------------------------------ M_flush1 *)
Lemma regs_idle l : forallb idle l = true -> regs l = [].
Proof.
  induction l as [|w l IH]; cbn; [reflexivity|]. intro H. apply andb_prop in H. destruct H as [H1 H2].
  rewrite IH by assumption. unfold reg1. unfold idle in H1. destruct (wtid w); [discriminate|reflexivity].
Qed.

Lemma inv_m_flush1 s s' : Inv s -> m_flush1 s = Some s' -> Inv s'.
Proof.
  intros I H. unfold m_flush1 in H. destruct (joined s) eqn:Ej; [|discriminate].
  destruct (I_join s I Ej) as [Es Hidle].
  destruct (shl s) as [|b r] eqn:Esl; [discriminate|]. injection H as <-.
  set (s1 := set_shl s r).
  destruct (record_mmap_fields s1 b) as (F1 & F2 & F3 & F4 & F5 & F6 & F7).
  assert (Hws : ws (record_mmap s1 b) = ws s).
  { unfold record_mmap, copy_to_buffer. destruct (_ && _); [|reflexivity].
    change (ws s1) with (ws s). rewrite (give_idle b (ws s) Hidle). destruct (stopped s1); reflexivity. }
  apply Inv_intro; unfold curr_l; rewrite ?F1, ?F2, ?F3, ?F4, ?F5, ?F6, ?F7, ?Hws; unfold s1; sp; try congruence; try (apply I).
  - apply (record_mmap_buffers s); try reflexivity; [assumption| |].
    + unfold pend, s1; sp. rewrite Es, Esl. apply of_tid_cons_same. reflexivity.
    + intros t Hne. unfold pend, s1; sp. rewrite Es, Esl. symmetry. apply of_tid_cons_other. congruence.
Qed.

(* ------------------------------------------------------------------ M_rem1 *)
Lemma inv_m_rem1 s s' : Inv s -> m_rem1 s = Some s' -> Inv s'.
Proof.
  intros I H. unfold m_rem1 in H. destruct (joined s) eqn:Ej; [|discriminate].
  destruct (I_join s I Ej) as [Es Hidle].
  destruct (is_nil (shl s)) eqn:Esl; [|discriminate]. cbn [andb] in H.
  destruct (bwl s) as [|b r] eqn:Eb; [discriminate|]. injection H as <-.
  set (t0 := fst b).
  assert (HW : forall t, Wq t (ws s) = []) by (intro t; apply Wq_nil; rewrite (regs_idle _ Hidle); tauto).
  assert (Hc0 : chain s t0 = b :: of_tid t0 r ++ pend s t0).
  { unfold chain. rewrite HW, Eb. rewrite (of_tid_cons_same t0 b r) by reflexivity. reflexivity. }
  pose proof (I_nodup s I t0) as ND0. rewrite Hc0 in ND0. apply NoDup_cons_iff in ND0. destruct ND0 as [Hnotin ND0].
  set (s1 := set_bwl _ r).
  assert (Hc1 : chain s1 t0 = of_tid t0 r ++ pend s t0).
  { unfold chain, s1; sp. rewrite HW. reflexivity. }
  assert (Hco : forall t, t <> t0 -> chain s1 t = chain s t).
  { intros t Hne. unfold chain, s1; sp. rewrite Eb. rewrite (of_tid_cons_other t b r) by (intro E; apply Hne; symmetry; exact E). reflexivity. }
  assert (Hsub : forall t x, In x (chain s1 t) -> In x (chain s t)).
  { intros t x Hx. destruct (Nat.eq_dec t t0) as [->|Hne]; [|rewrite <- Hco; assumption].
    rewrite Hc0. rewrite Hc1 in Hx. right. assumption. }
  constructor; unfold s1; sp; try (apply I).
  - intro t. pose proof (I_content s I t) as E. unfold content, emitted in *. sp. fold s1. rewrite <- E.
    destruct (Nat.eq_dec t t0) as [->|Hne].
    + rewrite updt_same, Hc0, Hc1. cbn [flat_map]. rewrite flat_map_upd_notin by assumption. rewrite <- app_assoc. reflexivity.
    + rewrite updt_other by assumption. rewrite Hco by assumption. rewrite flat_map_upd_notin; [reflexivity|].
      eapply not_in_chain_other; [eassumption|reflexivity|assumption].
  - intro t. fold s1. destruct (Nat.eq_dec t t0) as [->|Hne]; [rewrite Hc1; assumption|rewrite Hco by assumption; apply (I_nodup s I)].
  - intros t x Hx. fold s1 in Hx. apply (I_own s I t x (Hsub t x Hx)).
  - intros w t Hin Ht. exfalso. assert (In t (regs (ws s))) by (apply regs_In; eauto).
    rewrite (regs_idle _ Hidle) in H. destruct H.
  - intros w Hin Hw. exfalso.
    assert (Hn : wtid w = None).
    { rewrite forallb_forall in Hidle. specialize (Hidle w Hin). unfold idle in Hidle. destruct (wtid w); [discriminate|reflexivity]. }
    destruct (I_idle s I w Hin Hn) as (_ & _ & Hf). congruence.
Qed.
