(* C03 - the invariant is preserved by every recorder step (cmds/record.c side) *)
From Coq Require Import List Arith Bool PeanoNat NArith Lia.
Import ListNotations.
Require Import UV.Gen.Consts UV.C03.Model UV.C03.Lib UV.C03.Inv.

Ltac inv_some H := match type of H with Some _ = Some ?b => injection H as H; subst b end.

(* ------------------------------------------------------------------ M_stop *)
Lemma inv_m_stop s s' : Inv s -> m_stop s = Some s' -> Inv s'.
Proof.
  intros I H. unfold m_stop in H.
  destruct (stopped s) eqn:Es; cbn in H; [discriminate|].
  destruct (is_nil (chan s)) eqn:Ec; [|discriminate]. apply is_nil_true in Ec. inv_some H.
  assert (Hch : forall t, chain (set_stopped s true) t = chain s t).
  { intro t. unfold chain, pend; sp. rewrite Es, Ec. cbn [ends flat_map app].
    pose proof (I_chan s I Es t) as C. rewrite Ec in C. cbn [chan_ok] in C. rewrite C. reflexivity. }
  destruct (frame_buffers s (set_stopped s true) I Hch eq_refl eq_refl eq_refl eq_refl eq_refl) as (A & B & C).
  constructor; sp; try assumption; try (apply I).
  - intros _. exact Ec.
  - intro J. destruct (I_join s I J) as [J1 J2]. congruence.
  - discriminate.
Qed.

(* ------------------------------------------------------------------ M_join *)
Lemma inv_m_join s s' : Inv s -> m_join s = Some s' -> Inv s'.
Proof.
  intros I H. unfold m_join in H.
  destruct (stopped s) eqn:Es; cbn in H; [|discriminate].
  destruct (joined s) eqn:Ej; cbn in H; [discriminate|].
  destruct (forallb idle (ws s)) eqn:Ei; [|discriminate]. inv_some H.
  assert (Hch : forall t, chain (set_joined s true) t = chain s t) by reflexivity.
  destruct (frame_buffers s (set_joined s true) I Hch eq_refl eq_refl eq_refl eq_refl eq_refl) as (A & B & C).
  constructor; sp; try assumption; try (apply I).
  intros _. split; assumption.
Qed.

(* ------------------------------------------------------------------ helpers on the writer list *)
Lemma NoDup_insert {A} (a c : list A) x : NoDup (a ++ c) -> ~ In x (a ++ c) -> NoDup (a ++ x :: c).
Proof.
  intros ND Hn. apply NoDup_app_intro.
  - eapply NoDup_app_l; eassumption.
  - constructor; [intro; apply Hn; apply in_or_app; auto|eapply NoDup_app_r; eassumption].
  - intros y Ha [<-|Hc]; [apply Hn; apply in_or_app; auto|eapply NoDup_app_disj; eassumption].
Qed.
Lemma regs_mid l1 (w : writer) l2 : regs (l1 ++ w :: l2) = regs l1 ++ reg1 w ++ regs l2.
Proof. rewrite regs_app. reflexivity. Qed.
Lemma Wq_mid t l1 (w : writer) l2 : Wq t (l1 ++ w :: l2) = Wq t l1 ++ wq t w ++ Wq t l2.
Proof. rewrite Wq_app. reflexivity. Qed.
Lemma in_mid {A} (l1 : list A) x l2 y : In y (l1 ++ x :: l2) <-> y = x \/ In y (l1 ++ l2).
Proof.
  rewrite !in_app_iff. cbn. split; [intros [H|[H|H]]|intros [H|[H|H]]]; auto.
Qed.
(* replacing a writer that does not work for t by another one that does not work for t *)
Lemma Wq_replace_other t l1 w w' l2 : wq t w = [] -> wq t w' = [] -> Wq t (l1 ++ w' :: l2) = Wq t (l1 ++ w :: l2).
Proof. intros H H'. rewrite !Wq_mid, H, H'. reflexivity. Qed.

Lemma regs_none_of s t : Inv s -> of_tid t (bwl s) <> [] -> ~ In t (regs (ws s)).
Proof.
  intros I Hb Hin. apply regs_In in Hin. destruct Hin as (w & Hw & Ht).
  destruct (I_wt s I w t Hw Ht) as [_ H]. contradiction.
Qed.

(* ------------------------------------------------------------------ W_pick *)
Lemma w_pick_spec s w s' : w_pick s w = Some s' ->
  joined s = false /\ exists wr, nth_error (ws s) w = Some wr /\ wtid wr = None /\
  ((bwl s = [] /\ s' = s) \/
   exists b rest, bwl s = b :: rest /\
     s' = set_bwl (set_ws s (set_nth w {| wtid := Some (fst b); whead := of_tid (fst b) (bwl s);
                                          wbufs := wbufs wr; wrote := false |} (ws s)))
                  (not_tid (fst b) (bwl s))).
Proof.
  unfold w_pick. destruct (joined s); [discriminate|].
  destruct (nth_error (ws s) w) as [wr|]; [|discriminate].
  destruct (wtid wr) eqn:Ew; [discriminate|].
  destruct (bwl s) as [|b rest] eqn:Eb; intro H; injection H as <-; (split; [reflexivity|]);
    exists wr; (split; [reflexivity|]); (split; [assumption|]); [left; auto|right].
  exists b, rest. split; reflexivity.
Qed.

Lemma inv_w_pick s s' w : Inv s -> w_pick s w = Some s' -> Inv s'.
Proof.
  intros I H. apply w_pick_spec in H. destruct H as (Ej & wr & En & Ew & [[Eb ->]|(b & rest & Eb & ->)]); [exact I|].
  destruct (nth_split _ _ _ En) as (l1 & l2 & El & Hlen). subst w.
  assert (Hwr : In wr (ws s)) by (rewrite El; apply in_or_app; right; left; reflexivity).
  destruct (I_idle s I wr Hwr Ew) as (Hh & Hbf & Hwo).
  set (t0 := fst b).
  assert (Hof : of_tid t0 (b :: rest) = b :: of_tid t0 rest) by (apply of_tid_cons_same; reflexivity).
  assert (Hnr : ~ In t0 (regs (ws s))).
  { apply regs_none_of; [assumption|]. rewrite Eb, Hof. discriminate. }
  clear Hof.
  rewrite El, set_nth_split. rewrite Hbf.
  fold t0. remember (of_tid t0 (bwl s)) as hd0 eqn:Ehd.
  set (wr' := {| wtid := Some t0; whead := hd0; wbufs := []; wrote := false |}).
  assert (Hr1 : ~ In t0 (regs l1) /\ ~ In t0 (regs l2)).
  { rewrite El, regs_mid in Hnr. split; intro; apply Hnr; apply in_or_app; [left|right; apply in_or_app; right]; assumption. }
  assert (Hch : forall t, chain (set_bwl (set_ws s (l1 ++ wr' :: l2)) (not_tid t0 (bwl s))) t = chain s t).
  { intro t. unfold chain, pend; sp.
    destruct (Nat.eq_dec t t0) as [->|Hne].
    - rewrite El, !Wq_mid. rewrite (Wq_nil t0 l1), (Wq_nil t0 l2) by tauto.
      rewrite (wq_idle t0 wr Ew), (wq_same t0 wr') by reflexivity. cbn [whead wbufs wr' app].
      rewrite of_tid_not_tid_same. rewrite !app_nil_r. subst hd0. reflexivity.
    - rewrite El. rewrite (Wq_replace_other t l1 wr wr' l2); [|apply wq_idle; assumption|apply (wq_other t wr' t0); [reflexivity|assumption]].
      rewrite of_tid_not_tid_other by assumption. reflexivity. }
  destruct (frame_buffers s _ I Hch eq_refl eq_refl eq_refl eq_refl eq_refl) as (A & B & C).
  constructor; sp; try assumption; try (apply I).
  - (* idle *) intros w0 Hin Hn. apply in_mid in Hin. destruct Hin as [->|Hin]; [discriminate|].
    apply (I_idle s I w0); [|assumption]. rewrite El. apply in_mid. right. assumption.
  - (* wt *) intros w0 t Hin Ht. apply in_mid in Hin. destruct Hin as [->|Hin].
    + cbn [wtid wr'] in Ht. inversion Ht; subst t. cbn [whead wbufs wr']. rewrite app_nil_r. split.
      * intros x Hx. subst hd0. apply of_tid_In in Hx. tauto.
      * apply of_tid_not_tid_same.
    + assert (Hin' : In w0 (ws s)) by (rewrite El; apply in_mid; right; assumption).
      destruct (I_wt s I w0 t Hin' Ht) as [H1 H2]. split; [assumption|].
      destruct (Nat.eq_dec t t0) as [->|Hne]; [apply of_tid_not_tid_same|].
      rewrite of_tid_not_tid_other by assumption. assumption.
  - (* one *) rewrite regs_mid. cbn [reg1 wtid wr' app]. apply NoDup_insert.
    + pose proof (I_one s I) as ND. rewrite El, regs_mid in ND. unfold reg1 at 2 in ND. rewrite Ew in ND. exact ND.
    + intro Hin. apply in_app_or in Hin. tauto.
  - (* wrote *) intros w0 Hin Hw. apply in_mid in Hin. destruct Hin as [->|Hin]; [discriminate|].
    apply (I_wrote s I w0); [|assumption]. rewrite El. apply in_mid. right. assumption.
  - (* join *) intro J. congruence.
Qed.

(* ------------------------------------------------------------------ replacing a writer by an equivalent one *)
Lemma wq_same_fields t w w' : wtid w' = wtid w -> whead w' ++ wbufs w' = whead w ++ wbufs w -> wq t w' = wq t w.
Proof. intros H1 H2. unfold wq, works_for. rewrite H1, H2. reflexivity. Qed.
Lemma Wq_replace t l1 w w' l2 : wq t w' = wq t w -> Wq t (l1 ++ w' :: l2) = Wq t (l1 ++ w :: l2).
Proof. intro H. rewrite !Wq_mid, H. reflexivity. Qed.
Lemma regs_replace l1 w w' l2 : wtid w' = wtid w -> regs (l1 ++ w' :: l2) = regs (l1 ++ w :: l2).
Proof. intro H. rewrite !regs_mid. unfold reg1 at 2 4. rewrite H. reflexivity. Qed.

(* the buffers clauses when a buffer with no data leaves the chain of t0 *)
Lemma frame_remove s s' t0 b A B :
  Inv s -> chain s t0 = A ++ b :: B -> chain s' t0 = A ++ B -> (forall t, t <> t0 -> chain s' t = chain s t) ->
  data s b = [] -> data s' = data s -> file s' = file s -> plog s' = plog s -> flag s' = flag s -> nbuf s' = nbuf s ->
  (forall t, content s' t = emitted s' t) /\ (forall t, NoDup (chain s' t)) /\
  (forall t x, In x (chain s' t) -> fst x = t /\ snd x < nbuf s' t /\ f_rec (flag s' x) = true).
Proof.
  intros I Hc Hc' Ho Hd Hda Hf Hp Hfl Hn.
  assert (Hsub : forall t x, In x (chain s' t) -> In x (chain s t)).
  { intros t x Hx. destruct (Nat.eq_dec t t0) as [->|Hne]; [|rewrite <- Ho; assumption].
    rewrite Hc. rewrite Hc' in Hx. apply in_app_or in Hx. apply in_or_app. destruct Hx; [left|right; right]; assumption. }
  repeat split.
  - intro t. pose proof (I_content s I t) as E. unfold content, emitted in *. rewrite Hda, Hf, Hp, <- E.
    destruct (Nat.eq_dec t t0) as [->|Hne]; [|rewrite Ho by assumption; reflexivity].
    rewrite Hc, Hc'. rewrite !flat_map_app. cbn [flat_map]. rewrite Hd. reflexivity.
  - intro t. destruct (Nat.eq_dec t t0) as [->|Hne]; [|rewrite Ho by assumption; apply (I_nodup s I)].
    rewrite Hc'. pose proof (I_nodup s I t0) as ND. rewrite Hc in ND. eapply NoDup_remove_1; eassumption.
  - apply (I_own s I t x (Hsub t x H)).
  - rewrite Hn. apply (I_own s I t x (Hsub t x H)).
  - rewrite Hfl. apply (I_own s I t x (Hsub t x H)).
Qed.

(* ------------------------------------------------------------------ W_write *)
Lemma w_write_spec s w s' : w_write s w = Some s' ->
  joined s = false /\ exists wr t0 b rest, nth_error (ws s) w = Some wr /\ wtid wr = Some t0 /\ whead wr = b :: rest /\
    wrote wr = false /\
    s' = set_ws (set_data (set_file s (updt (file s) (fst b) (file s (fst b) ++ data s b))) (upd (data s) b []))
                (set_nth w {| wtid := Some t0; whead := b :: rest; wbufs := wbufs wr; wrote := true |} (ws s)).
Proof.
  unfold w_write. destruct (joined s); [discriminate|].
  destruct (nth_error (ws s) w) as [wr|]; [|discriminate].
  destruct (wtid wr) as [t0|] eqn:Ew; [|discriminate].
  destruct (whead wr) as [|b rest] eqn:Eh; [discriminate|].
  destruct (wrote wr) eqn:Eo; [discriminate|]. intro H. injection H as <-.
  split; [reflexivity|]. exists wr, t0, b, rest. repeat (split; [auto|]). reflexivity.
Qed.

Lemma inv_w_write s s' w : Inv s -> w_write s w = Some s' -> Inv s'.
Proof.
  intros I H. apply w_write_spec in H. destruct H as (Ej & wr & t0 & b & rest & En & Ew & Eh & Eo & ->).
  destruct (nth_split _ _ _ En) as (l1 & l2 & El & Hlen). subst w.
  assert (Hwr : In wr (ws s)) by (rewrite El; apply in_or_app; right; left; reflexivity).
  destruct (I_wt s I wr t0 Hwr Ew) as (Htid & Hbw).
  assert (Hb : fst b = t0) by (apply Htid; rewrite Eh; left; reflexivity).
  rewrite El, set_nth_split.
  set (wr' := {| wtid := Some t0; whead := b :: rest; wbufs := wbufs wr; wrote := true |}).
  set (s1 := set_ws _ _).
  assert (Hch : forall t, chain s1 t = chain s t).
  { intro t. unfold chain, pend, s1; sp. rewrite El. rewrite (Wq_replace t l1 wr wr' l2); [reflexivity|].
    apply wq_same_fields; cbn [wr' wtid whead wbufs]; congruence. }
  assert (Hc0 : chain s t0 = b :: (rest ++ wbufs wr) ++ of_tid t0 (bwl s) ++ pend s t0).
  { unfold chain. rewrite El, Wq_mid. pose proof (I_one s I) as ND. rewrite El in ND.
    destruct (Wq_split t0 l1 wr l2 ND Ew) as [-> ->]. rewrite (wq_same t0 wr Ew), Eh. cbn [app]. rewrite app_nil_r. reflexivity. }
  pose proof (I_nodup s I t0) as ND0. rewrite Hc0 in ND0. apply NoDup_cons_iff in ND0. destruct ND0 as [Hnotin ND0].
  constructor; unfold s1; sp; try (apply I).
  - (* content *) intro t. pose proof (I_content s I t) as E. unfold content, emitted in *. fold s1. rewrite Hch. unfold s1; sp.
    rewrite <- E.
    destruct (Nat.eq_dec t t0) as [->|Hne].
    + rewrite Hb, updt_same, Hc0. cbn [flat_map]. rewrite upd_same. cbn [app].
      rewrite flat_map_upd_notin by assumption. rewrite <- app_assoc. reflexivity.
    + rewrite Hb, updt_other by assumption. rewrite flat_map_upd_notin; [reflexivity|].
      eapply not_in_chain_other; eassumption.
  - intro t. fold s1. rewrite Hch. apply (I_nodup s I).
  - intros t x Hx. fold s1 in Hx. rewrite Hch in Hx. apply (I_own s I t x Hx).
  - intros w0 Hin Hn. apply in_mid in Hin. destruct Hin as [->|Hin]; [cbn in Hn; congruence|].
    apply (I_idle s I w0); [|assumption]. rewrite El. apply in_mid. right. assumption.
  - intros w0 t Hin Ht. apply in_mid in Hin. destruct Hin as [->|Hin].
    + cbn [wtid wr' whead wbufs] in *. rewrite <- Eh. apply (I_wt s I wr t Hwr). congruence.
    + apply (I_wt s I w0 t); [|assumption]. rewrite El. apply in_mid. right. assumption.
  - rewrite (regs_replace l1 wr wr' l2) by (cbn; congruence). rewrite <- El. apply (I_one s I).
  - intros w0 Hin Hw. apply in_mid in Hin. destruct Hin as [->|Hin].
    + exists b, rest. split; [reflexivity|apply upd_same].
    + destruct (I_wrote s I w0) as (b0 & r0 & H1 & H2); [rewrite El; apply in_mid; right; assumption|assumption|].
      exists b0, r0. split; [assumption|]. unfold upd. destruct (bid_eqb b0 b); [reflexivity|assumption].
  - intro J. congruence.
Qed.

(* ------------------------------------------------------------------ W_release *)
Lemma w_release_spec s w s' : w_release s w = Some s' ->
  joined s = false /\ exists wr t0 b rest, nth_error (ws s) w = Some wr /\ wtid wr = Some t0 /\ whead wr = b :: rest /\
    wrote wr = true /\
    s' = set_ws (set_flag s (upd (flag s) b fl_written))
                (set_nth w {| wtid := Some t0; whead := rest; wbufs := wbufs wr; wrote := false |} (ws s)).
Proof.
  unfold w_release. destruct (joined s); [discriminate|].
  destruct (nth_error (ws s) w) as [wr|]; [|discriminate].
  destruct (wtid wr) as [t0|] eqn:Ew; [|discriminate].
  destruct (whead wr) as [|b rest] eqn:Eh; [discriminate|].
  destruct (wrote wr) eqn:Eo; [|discriminate]. intro H. injection H as <-.
  split; [reflexivity|]. exists wr, t0, b, rest. repeat (split; [auto|]). reflexivity.
Qed.

Lemma inv_w_release s s' w : Inv s -> w_release s w = Some s' -> Inv s'.
Proof.
  intros I H. apply w_release_spec in H. destruct H as (Ej & wr & t0 & b & rest & En & Ew & Eh & Eo & ->).
  destruct (nth_split _ _ _ En) as (l1 & l2 & El & Hlen). subst w.
  assert (Hwr : In wr (ws s)) by (rewrite El; apply in_or_app; right; left; reflexivity).
  destruct (I_wt s I wr t0 Hwr Ew) as (Htid & Hbw).
  assert (Hb : fst b = t0) by (apply Htid; rewrite Eh; left; reflexivity).
  destruct (I_wrote s I wr Hwr Eo) as (b' & rest' & Eh' & Hd). rewrite Eh in Eh'. injection Eh' as <- <-.
  rewrite El, set_nth_split.
  set (wr' := {| wtid := Some t0; whead := rest; wbufs := wbufs wr; wrote := false |}).
  set (s1 := set_ws _ _).
  pose proof (I_one s I) as ND1. rewrite El in ND1.
  destruct (Wq_split t0 l1 wr l2 ND1 Ew) as [W1 W2].
  assert (Hc0 : chain s t0 = [] ++ b :: (rest ++ wbufs wr) ++ of_tid t0 (bwl s) ++ pend s t0).
  { unfold chain. rewrite El, Wq_mid, W1, W2. rewrite (wq_same t0 wr Ew), Eh. cbn [app]. rewrite app_nil_r. reflexivity. }
  assert (Hc1 : chain s1 t0 = [] ++ (rest ++ wbufs wr) ++ of_tid t0 (bwl s) ++ pend s t0).
  { unfold chain, pend, s1; sp. rewrite Wq_mid, W1, W2. rewrite (wq_same t0 wr') by reflexivity. cbn [app wr' whead wbufs].
    rewrite app_nil_r. reflexivity. }
  assert (Hco : forall t, t <> t0 -> chain s1 t = chain s t).
  { intros t Hne. unfold chain, pend, s1; sp. rewrite El. rewrite (Wq_replace t l1 wr wr' l2); [reflexivity|].
    rewrite (wq_other t wr t0), (wq_other t wr' t0); auto. }
  assert (Hsub : forall t x, In x (chain s1 t) -> In x (chain s t) /\ x <> b).
  { intros t x Hx. destruct (Nat.eq_dec t t0) as [->|Hne].
    - pose proof (I_nodup s I t0) as ND0. rewrite Hc0 in ND0. cbn [app] in ND0. apply NoDup_cons_iff in ND0.
      rewrite Hc1 in Hx. rewrite Hc0. cbn [app] in *. split; [right; assumption|]. intro; subst x. tauto.
    - rewrite Hco in Hx by assumption. split; [assumption|]. intro; subst x. apply Hne. symmetry.
      rewrite <- Hb. eapply chain_tid; eassumption. }
  constructor; unfold s1; sp; try (apply I).
  - intro t. pose proof (I_content s I t) as E. unfold content, emitted in *. sp. fold s1.
    rewrite <- E. destruct (Nat.eq_dec t t0) as [->|Hne]; [|rewrite Hco by assumption; reflexivity].
    rewrite Hc0, Hc1. cbn [app flat_map]. rewrite Hd. reflexivity.
  - intro t. fold s1. destruct (Nat.eq_dec t t0) as [->|Hne]; [|rewrite Hco by assumption; apply (I_nodup s I)].
    rewrite Hc1. pose proof (I_nodup s I t0) as ND0. rewrite Hc0 in ND0. eapply NoDup_remove_1; eassumption.
  - intros t x Hx. fold s1 in Hx. destruct (Hsub t x Hx) as [Hin Hne]. rewrite upd_other by assumption.
    apply (I_own s I t x Hin).
  - intros w0 Hin Hn. apply in_mid in Hin. destruct Hin as [->|Hin]; [discriminate|].
    apply (I_idle s I w0); [|assumption]. rewrite El. apply in_mid. right. assumption.
  - intros w0 t Hin Ht. apply in_mid in Hin. destruct Hin as [->|Hin].
    + cbn [wtid wr' whead wbufs] in *. injection Ht as <-. split; [|assumption].
      intros x Hx. apply Htid. rewrite Eh. right. assumption.
    + apply (I_wt s I w0 t); [|assumption]. rewrite El. apply in_mid. right. assumption.
  - rewrite (regs_replace l1 wr wr' l2) by (cbn; congruence). assumption.
  - intros w0 Hin Hw. apply in_mid in Hin. destruct Hin as [->|Hin]; [discriminate|].
    apply (I_wrote s I w0); [|assumption]. rewrite El. apply in_mid. right. assumption.
  - intro J. congruence.
Qed.

(* ------------------------------------------------------------------ W_splice *)
Lemma w_splice_spec s w s' : w_splice s w = Some s' ->
  joined s = false /\ exists wr t0, nth_error (ws s) w = Some wr /\ wtid wr = Some t0 /\ whead wr = [] /\
    s' = set_ws s (set_nth w {| wtid := if is_nil (wbufs wr) then None else Some t0;
                                whead := wbufs wr; wbufs := []; wrote := false |} (ws s)).
Proof.
  unfold w_splice. destruct (joined s); [discriminate|].
  destruct (nth_error (ws s) w) as [wr|]; [|discriminate].
  destruct (wtid wr) as [t0|] eqn:Ew; [|discriminate].
  destruct (whead wr) as [|b rest] eqn:Eh; [|discriminate].
  intro H. injection H as <-.
  split; [reflexivity|]. exists wr, t0. repeat (split; [auto|]). reflexivity.
Qed.

Lemma inv_w_splice s s' w : Inv s -> w_splice s w = Some s' -> Inv s'.
Proof.
  intros I H. apply w_splice_spec in H. destruct H as (Ej & wr & t0 & En & Ew & Eh & ->).
  destruct (nth_split _ _ _ En) as (l1 & l2 & El & Hlen). subst w.
  assert (Hwr : In wr (ws s)) by (rewrite El; apply in_or_app; right; left; reflexivity).
  destruct (I_wt s I wr t0 Hwr Ew) as (Htid & Hbw).
  rewrite El, set_nth_split.
  set (wr' := {| wtid := if is_nil (wbufs wr) then None else Some t0; whead := wbufs wr; wbufs := []; wrote := false |}).
  set (s1 := set_ws _ _).
  assert (Hwq : forall t, wq t wr' = wq t wr).
  { intro t. unfold wq, works_for. cbn [wr' wtid whead wbufs]. rewrite Ew, Eh. cbn [app].
    destruct (wbufs wr) as [|x l]; cbn [is_nil]; [destruct (t0 =? t); reflexivity|].
    rewrite app_nil_r. reflexivity. }
  assert (Hch : forall t, chain s1 t = chain s t).
  { intro t. unfold chain, pend, s1; sp. rewrite El. rewrite (Wq_replace t l1 wr wr' l2); [reflexivity|apply Hwq]. }
  destruct (frame_buffers s s1 I Hch eq_refl eq_refl eq_refl eq_refl eq_refl) as (A & B & C).
  constructor; try assumption; unfold s1; sp; try (apply I).
  - intros w0 Hin Hn. apply in_mid in Hin. destruct Hin as [->|Hin].
    + unfold wr' in Hn |- *. cbn [wtid whead wbufs wrote] in Hn |- *.
      destruct (is_nil (wbufs wr)) eqn:En2; [|discriminate]. apply is_nil_true in En2. auto.
    + apply (I_idle s I w0); [|assumption]. rewrite El. apply in_mid. right. assumption.
  - intros w0 t Hin Ht. apply in_mid in Hin. destruct Hin as [->|Hin].
    + unfold wr' in Ht |- *. cbn [wtid whead wbufs] in Ht |- *.
      destruct (is_nil (wbufs wr)) eqn:En2; [discriminate|].
      injection Ht as <-. split; [|assumption]. intros y Hy. apply Htid. rewrite Eh. cbn [app]. rewrite app_nil_r in Hy. assumption.
    + apply (I_wt s I w0 t); [|assumption]. rewrite El. apply in_mid. right. assumption.
  - pose proof (I_one s I) as ND. rewrite El, regs_mid in ND. rewrite regs_mid. unfold reg1 at 2 in ND. rewrite Ew in ND.
    unfold reg1 at 2. cbn [wr' wtid]. destruct (is_nil (wbufs wr)); [|assumption].
    cbn [app] in *. eapply NoDup_remove_1; eassumption.
  - intros w0 Hin Hw. apply in_mid in Hin. destruct Hin as [->|Hin]; [discriminate|].
    apply (I_wrote s I w0); [|assumption]. rewrite El. apply in_mid. right. assumption.
  - intro J. congruence.
Qed.
