(* C03 - the invariant is preserved by every recorder step (cmds/record.c side) *)
From Coq Require Import List Arith Bool PeanoNat NArith Lia.
Import ListNotations.
Require Import UV.Gen.Consts UV.C03.Model UV.C03.Lib UV.C03.Inv.

Ltac inv_some H := match type of H with Some _ = Some ?b => injection H as H; subst b end.

(* ------------------------------------------------------------------ M_stop *)
Lemma inv_m_stop s s' : Inv s -> m_stop s = Some s' -> Inv s'.
Proof.
  intros I H. unfold m_stop in H.
  destruct (stopped s) eqn:Es; cbn in H; [discriminate|].
  destruct (is_nil (chan s)) eqn:Ec; [|discriminate]. apply is_nil_true in Ec. inv_some H.
  assert (Hch : forall t, chain (set_stopped s true) t = chain s t).
  { intro t. unfold chain, pend; sp. rewrite Es, Ec. cbn [ends flat_map app].
    pose proof (I_chan s I Es t) as C. rewrite Ec in C. cbn [chan_ok] in C. rewrite C. reflexivity. }
  destruct (frame_buffers s (set_stopped s true) I Hch eq_refl eq_refl eq_refl eq_refl eq_refl) as (A & B & C).
  constructor; sp; try assumption; try (apply I).
  - intros _. exact Ec.
  - intro J. destruct (I_join s I J) as [J1 J2]. congruence.
  - discriminate.
Qed.

(* ------------------------------------------------------------------ M_join *)
Lemma inv_m_join s s' : Inv s -> m_join s = Some s' -> Inv s'.
Proof.
  intros I H. unfold m_join in H.
  destruct (stopped s) eqn:Es; cbn in H; [|discriminate].
  destruct (joined s) eqn:Ej; cbn in H; [discriminate|].
  destruct (forallb idle (ws s)) eqn:Ei; [|discriminate]. inv_some H.
  assert (Hch : forall t, chain (set_joined s true) t = chain s t) by reflexivity.
  destruct (frame_buffers s (set_joined s true) I Hch eq_refl eq_refl eq_refl eq_refl eq_refl) as (A & B & C).
  constructor; sp; try assumption; try (apply I).
  intros _. split; assumption.
Qed.

(* ------------------------------------------------------------------ helpers on the writer list *)
Lemma NoDup_insert {A} (a c : list A) x : NoDup (a ++ c) -> ~ In x (a ++ c) -> NoDup (a ++ x :: c).
Proof.
  intros ND Hn. apply NoDup_app_intro.
  - eapply NoDup_app_l; eassumption.
  - constructor; [intro; apply Hn; apply in_or_app; auto|eapply NoDup_app_r; eassumption].
  - intros y Ha [<-|Hc]; [apply Hn; apply in_or_app; auto|eapply NoDup_app_disj; eassumption].
Qed.
Lemma regs_mid l1 (w : writer) l2 : regs (l1 ++ w :: l2) = regs l1 ++ reg1 w ++ regs l2.
Proof. rewrite regs_app. reflexivity. Qed.
Lemma Wq_mid t l1 (w : writer) l2 : Wq t (l1 ++ w :: l2) = Wq t l1 ++ wq t w ++ Wq t l2.
Proof. rewrite Wq_app. reflexivity. Qed.
Lemma in_mid {A} (l1 : list A) x l2 y : In y (l1 ++ x :: l2) <-> y = x \/ In y (l1 ++ l2).
Proof.
  rewrite !in_app_iff. cbn. split; [intros [H|[H|H]]|intros [H|[H|H]]]; auto.
Qed.
(* replacing a writer that does not work for t by another one that does not work for t *)
Lemma Wq_replace_other t l1 w w' l2 : wq t w = [] -> wq t w' = [] -> Wq t (l1 ++ w' :: l2) = Wq t (l1 ++ w :: l2).
Proof. intros H H'. rewrite !Wq_mid, H, H'. reflexivity. Qed.

Lemma regs_none_of s t : Inv s -> of_tid t (bwl s) <> [] -> ~ In t (regs (ws s)).
Proof.
  intros I Hb Hin. apply regs_In in Hin. destruct Hin as (w & Hw & Ht).
  destruct (I_wt s I w t Hw Ht) as [_ H]. contradiction.
Qed.

(* ------------------------------------------------------------------ W_pick *)
Lemma w_pick_spec s w s' : w_pick s w = Some s' ->
  joined s = false /\ exists wr, nth_error (ws s) w = Some wr /\ wtid wr = None /\
  ((bwl s = [] /\ s' = s) \/
   exists b rest, bwl s = b :: rest /\
     s' = set_bwl (set_ws s (set_nth w {| wtid := Some (fst b); whead := of_tid (fst b) (bwl s);
                                          wbufs := wbufs wr; wrote := false |} (ws s)))
                  (not_tid (fst b) (bwl s))).
Proof.
  unfold w_pick. destruct (joined s); [discriminate|].
  destruct (nth_error (ws s) w) as [wr|]; [|discriminate].
  destruct (wtid wr) eqn:Ew; [discriminate|].
  destruct (bwl s) as [|b rest] eqn:Eb; intro H; injection H as <-; (split; [reflexivity|]);
    exists wr; (split; [reflexivity|]); (split; [assumption|]); [left; auto|right].
  exists b, rest. split; reflexivity.
Qed.

Lemma inv_w_pick s s' w : Inv s -> w_pick s w = Some s' -> Inv s'.
Proof.
  intros I H. apply w_pick_spec in H. destruct H as (Ej & wr & En & Ew & [[Eb ->]|(b & rest & Eb & ->)]); [exact I|].
  destruct (nth_split _ _ _ En) as (l1 & l2 & El & Hlen). subst w.
  assert (Hwr : In wr (ws s)) by (rewrite El; apply in_or_app; right; left; reflexivity).
  destruct (I_idle s I wr Hwr Ew) as (Hh & Hbf & Hwo).
  set (t0 := fst b).
  assert (Hof : of_tid t0 (b :: rest) = b :: of_tid t0 rest) by (apply of_tid_cons_same; reflexivity).
  assert (Hnr : ~ In t0 (regs (ws s))).
  { apply regs_none_of; [assumption|]. rewrite Eb, Hof. discriminate. }
  clear Hof.
  rewrite El, set_nth_split. rewrite Hbf.
  fold t0. remember (of_tid t0 (bwl s)) as hd0 eqn:Ehd.
  set (wr' := {| wtid := Some t0; whead := hd0; wbufs := []; wrote := false |}).
  assert (Hr1 : ~ In t0 (regs l1) /\ ~ In t0 (regs l2)).
  { rewrite El, regs_mid in Hnr. split; intro; apply Hnr; apply in_or_app; [left|right; apply in_or_app; right]; assumption. }
  assert (Hch : forall t, chain (set_bwl (set_ws s (l1 ++ wr' :: l2)) (not_tid t0 (bwl s))) t = chain s t).
  { intro t. unfold chain, pend; sp.
    destruct (Nat.eq_dec t t0) as [->|Hne].
    - rewrite El, !Wq_mid. rewrite (Wq_nil t0 l1), (Wq_nil t0 l2) by tauto.
      rewrite (wq_idle t0 wr Ew), (wq_same t0 wr') by reflexivity. cbn [whead wbufs wr' app].
      rewrite of_tid_not_tid_same. rewrite !app_nil_r. subst hd0. reflexivity.
    - rewrite El. rewrite (Wq_replace_other t l1 wr wr' l2); [|apply wq_idle; assumption|apply (wq_other t wr' t0); [reflexivity|assumption]].
      rewrite of_tid_not_tid_other by assumption. reflexivity. }
  destruct (frame_buffers s _ I Hch eq_refl eq_refl eq_refl eq_refl eq_refl) as (A & B & C).
  constructor; sp; try assumption; try (apply I).
  - (* idle *) intros w0 Hin Hn. apply in_mid in Hin. destruct Hin as [->|Hin]; [discriminate|].
    apply (I_idle s I w0); [|assumption]. rewrite El. apply in_mid. right. assumption.
  - (* wt *) intros w0 t Hin Ht. apply in_mid in Hin. destruct Hin as [->|Hin].
    + cbn [wtid wr'] in Ht. inversion Ht; subst t. cbn [whead wbufs wr']. rewrite app_nil_r. split.
      * intros x Hx. subst hd0. apply of_tid_In in Hx. tauto.
      * apply of_tid_not_tid_same.
    + assert (Hin' : In w0 (ws s)) by (rewrite El; apply in_mid; right; assumption).
      destruct (I_wt s I w0 t Hin' Ht) as [H1 H2]. split; [assumption|].
      destruct (Nat.eq_dec t t0) as [->|Hne]; [apply of_tid_not_tid_same|].
      rewrite of_tid_not_tid_other by assumption. assumption.
  - (* one *) rewrite regs_mid. cbn [reg1 wtid wr' app]. apply NoDup_insert.
    + pose proof (I_one s I) as ND. rewrite El, regs_mid in ND. unfold reg1 at 2 in ND. rewrite Ew in ND. exact ND.
    + intro Hin. apply in_app_or in Hin. tauto.
  - (* wrote *) intros w0 Hin Hw. apply in_mid in Hin. destruct Hin as [->|Hin]; [discriminate|].
    apply (I_wrote s I w0); [|assumption]. rewrite El. apply in_mid. right. assumption.
  - (* join *) intro J. congruence.
Qed.
