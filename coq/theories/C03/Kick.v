(* C03 - no lost wake-up: while the recorder runs, the thread_ctl pipe holds at least one kick for every
   buffer waiting in buf_write_list, so an idle writer that polls is woken and can take the first one *)
From Coq Require Import List Arith Bool PeanoNat NArith Lia.
Import ListNotations.
Require Import UV.Gen.Consts UV.C03.Model UV.C03.Lib UV.C03.Inv UV.C03.StepsR UV.C03.StepsP UV.C03.Proofs UV.C03.Lost.

Definition KInv (s : st) : Prop := stopped s = false -> length (bwl s) <= kicks s.

(* the three components the invariant speaks about are untouched by ... *)
Definition ksame (s s' : st) : Prop := bwl s' = bwl s /\ kicks s' = kicks s /\ stopped s' = stopped s.
Lemma ksame_refl s : ksame s s. Proof. repeat split. Qed.
Lemma ksame_trans a b c : ksame a b -> ksame b c -> ksame a c.
Proof. intros (A1 & A2 & A3) (B1 & B2 & B3). repeat split; congruence. Qed.

Lemma ksame_append s t i r : ksame s (append_rec s t i r).
Proof. unfold append_rec. destruct (data s (t, i)); repeat split. Qed.
Lemma ksame_shrink s t idx : ksame s (shrink s t idx).
Proof. unfold shrink. destruct (_ <=? _); [destruct (_ && _)|]; repeat split. Qed.
Lemma ksame_take0 s t idx : ksame s (take0 s t idx).
Proof.
  unfold take0. set (s3 := set_data _ _). destruct (ksame_shrink s3 t idx) as (A & B & C).
  repeat split; sp; [rewrite A|rewrite B|rewrite C]; reflexivity.
Qed.
Lemma ksame_marker s t b : ksame s (marker s t b).
Proof. repeat split. Qed.
Lemma ksame_take s t idx r : ksame s (take s t idx r).
Proof.
  rewrite take_eq. eapply ksame_trans; [apply ksame_take0|]. eapply ksame_trans; [|apply ksame_append].
  destruct (_ =? _)%N; [apply ksame_refl|apply ksame_marker].
Qed.
Lemma ksame_switch s t r ok : ksame s (switch s t r ok).
Proof.
  unfold switch. destruct (find_free s t); [apply ksame_take|]. destruct ok; [|repeat split].
  eapply ksame_trans; [|apply ksame_take]. repeat split.
Qed.

Lemma ksame_prod c s l s' : is_rec_label l = false -> step c s l = Some s' -> ksame s s'.
Proof.
  intros Hl H. destruct l; try discriminate; cbn [step] in H.
  - unfold p_start in H. destruct (_ && _); [|discriminate]. injection H as <-. repeat split.
  - unfold p_emit in H. destruct (p_live s t); [|discriminate]. destruct (curr s t) as [i|].
    + destruct (_ <=? _); injection H as <-; [apply ksame_append|].
      eapply ksame_trans; [|apply ksame_switch]. repeat split.
    + injection H as <-. apply ksame_switch.
  - unfold p_addlost in H. destruct (p_live s t); [|discriminate]. destruct (curr s t); [discriminate|]. injection H as <-. repeat split.
  - unfold p_finish in H. destruct (p_live s t); [|discriminate]. injection H as <-.
    destruct (curr s t); [destruct (f_rec _)|]; repeat split.
  - unfold p_exec in H. destruct (p_live s t); [|discriminate]. destruct (curr s t); [|discriminate]. injection H as <-. repeat split.
Qed.

(* record_mmap_file: a buffer put on buf_write_list comes with a kick while the pipe is open *)
Lemma record_mmap_k s b : let s' := record_mmap s b in
  stopped s' = stopped s /\
  ((bwl s' = bwl s /\ kicks s' = kicks s) \/
   (bwl s' = bwl s ++ [b] /\ kicks s' = if stopped s then kicks s else S (kicks s))).
Proof.
  unfold record_mmap, copy_to_buffer. destruct (_ && _); [|split; [reflexivity|left; auto]].
  destruct (give b (ws s)); [split; [reflexivity|left; auto]|].
  destruct (stopped s) eqn:E; (split; [sp; assumption|right; sp; auto]).
Qed.

Lemma filter_len {A} (f : A -> bool) l : length (filter f l) <= length l.
Proof. induction l as [|x l IH]; cbn; [lia|]. destruct (f x); cbn; lia. Qed.
Lemma not_tid_length b rest : length (not_tid (fst b) (b :: rest)) <= length rest.
Proof.
  unfold not_tid. cbn [filter]. rewrite Nat.eqb_refl. cbn [negb]. apply filter_len.
Qed.

Lemma KInv_step c s l s' : Inv s -> KInv s -> step c s l = Some s' -> KInv s'.
Proof.
  intros I K H. destruct (is_rec_label l) eqn:Hl.
  2:{ destruct (ksame_prod c s l s' Hl H) as (A & B & C). unfold KInv. rewrite A, B, C. exact K. }
  unfold KInv in *. destruct l; try discriminate; cbn [step] in H.
  - (* M_msg *) unfold m_msg in H. destruct (stopped s) eqn:Es; [discriminate|]. specialize (K eq_refl).
    destruct (chan s) as [|[b|b|n|b0] r]; try discriminate.
    4:{ destruct (first_tid (fst b0) (shl s)) as [b|]; injection H as <-; sp; [|intros _; exact K].
        set (s1 := set_shl _ _). destruct (record_mmap_k s1 b) as (A & [[B C]|[B C]]); intros _; rewrite B, C; unfold s1; sp; [exact K|].
        rewrite Es, app_length. cbn. lia. }
    all: injection H as <-; sp; try (intros _; exact K).
    set (s1 := set_shl _ _). destruct (record_mmap_k s1 b) as (A & [[B C]|[B C]]); intros _; rewrite B, C; unfold s1; sp; [exact K|].
    rewrite Es, app_length. cbn. lia.
  - (* W_pick *) apply w_pick_spec in H. destruct H as (s0 & Ek & _ & wr & _ & _ & H).
    destruct (take_kick_spec s s0 Ek) as [_ [[Es E0]|(Es & Ek1 & E0)]].
    + subst s0. destruct H as [[_ ->]|(b & rest & _ & ->)]; sp; congruence.
    + specialize (K Es). assert (Eb : bwl s0 = bwl s) by (rewrite E0; reflexivity).
      assert (Est : stopped s0 = stopped s) by (rewrite E0; reflexivity).
      destruct H as [[Eb0 ->]|(b & rest & Eb0 & ->)]; sp; intros _.
      * rewrite Eb0. cbn. lia.
      * rewrite Eb0. pose proof (not_tid_length b rest). rewrite <- Eb, Eb0 in K. cbn [length] in K. lia.
  - apply w_write_spec in H. destruct H as (_ & wr & t0 & b & rest & _ & _ & _ & _ & ->). exact K.
  - apply w_release_spec in H. destruct H as (_ & wr & t0 & b & rest & _ & _ & _ & _ & ->). exact K.
  - apply w_splice_spec in H. destruct H as (_ & wr & t0 & _ & _ & _ & ->). exact K.
  - unfold m_stop in H. destruct (_ && _); [|discriminate]. injection H as <-. sp. discriminate.
  - unfold m_join in H. destruct (stopped s) eqn:Es; [|discriminate]. destruct (_ && _); [|discriminate]. injection H as <-. sp. congruence.
  - unfold m_flush1 in H. destruct (joined s) eqn:Ej; [|discriminate]. destruct (I_join s I Ej) as [Es _].
    destruct (shl s) as [|b r]; [discriminate|]. injection H as <-.
    destruct (record_mmap_k (set_shl s r) b) as (A & _). rewrite A. sp. congruence.
  - unfold m_rem1 in H. destruct (joined s) eqn:Ej; [|discriminate]. destruct (I_join s I Ej) as [Es _].
    destruct (is_nil (shl s)); [|discriminate]. destruct (bwl s); [discriminate|]. injection H as <-. sp. congruence.
Qed.

Theorem no_lost_wakeup c nw s : reach c nw s -> stopped s = false -> length (bwl s) <= kicks s.
Proof.
  intro R. change (KInv s). induction R as [|s l s' R IH H]; [intros _; cbn; lia|].
  eapply KInv_step; [exact (inv_reachable c nw s R)|exact IH|exact H].
Qed.

(* consequence: whenever a buffer waits in buf_write_list and writer w is idle, w's next round takes the first
   waiting buffer (and every other one of that thread) and registers for its thread *)
Theorem idle_writer_can_pick c nw s w wr b rest : reach c nw s -> joined s = false ->
  nth_error (ws s) w = Some wr -> wtid wr = None -> bwl s = b :: rest ->
  exists s' wr', w_pick s w = Some s' /\ nth_error (ws s') w = Some wr' /\ wtid wr' = Some (fst b) /\
                 whead wr' = of_tid (fst b) (bwl s) /\ of_tid (fst b) (bwl s') = [].
Proof.
  intros R Ej En Ew Eb.
  assert (Hk : exists s0, take_kick s = Some s0 /\ bwl s0 = bwl s /\ ws s0 = ws s /\ joined s0 = joined s).
  { unfold take_kick. destruct (stopped s) eqn:Es; [exists s; auto|].
    pose proof (no_lost_wakeup c nw s R Es) as K. rewrite Eb in K. cbn in K.
    destruct (kicks s) as [|k]; [lia|]. eexists. split; [reflexivity|]. auto. }
  destruct Hk as (s0 & Ek & B0 & W0 & J0).
  eexists. eexists. split.
  - unfold w_pick. rewrite Ej, En, Ew, Ek. cbv beta iota. assert (E0 : bwl s0 = b :: rest) by congruence. rewrite E0. reflexivity.
  - sp. rewrite W0. split.
    + destruct (nth_split _ _ _ En) as (l1 & l2 & El & <-). rewrite El, set_nth_split.
      rewrite nth_error_app2 by lia. rewrite Nat.sub_diag. reflexivity.
    + cbn [wtid whead]. assert (E0 : bwl s0 = b :: rest) by congruence. rewrite <- B0, E0. repeat split. apply of_tid_not_tid_same.
Qed.

(* non-vacuity: two buffers of two threads wait, two kicks are in the pipe; writer 0 takes one kick and the first buffer *)
Definition kick_trace : list label :=
  [P_start 0; P_start 1; P_emit 0 (r16 1) 0 true; P_emit 1 (r16 2) 0 true; P_emit 0 (r16 3) 0 true; P_emit 1 (r16 4) 0 true;
   M_msg; M_msg; M_msg; M_msg; M_msg; M_msg].
Lemma kick_run :
  exists s, run {| maxsize := 16 |} (init 2) kick_trace = Some s /\ bwl s = [(0, 0); (1, 0)] /\ kicks s = 2 /\
  exists s', w_pick s 0 = Some s' /\ bwl s' = [(1, 0)] /\ kicks s' = 1.
Proof.
  destruct (run {| maxsize := 16 |} (init 2) kick_trace) as [s|] eqn:E; [|vm_compute in E; discriminate].
  exists s. split; [reflexivity|]. vm_compute in E. injection E as <-. split; [reflexivity|]. split; [reflexivity|].
  eexists. split; [vm_compute; reflexivity|]. split; reflexivity.
Qed.
