(* Property C18 - Scripts observe the same calls as replay.  Only statements, closed by [exact].
   Model: UV.C18.Model.script_run (cmds/script.c) over the reader model of C06. *)
From Coq Require Import NArith List Bool.
Import ListNotations.
Require Import UV.C06.Model UV.C06.MergeProofs UV.C06.Proofs UV.C18.Model UV.C18.Proofs UV.C18.Filter UV.C18.FilterProofs UV.C18.MoreProofs UV.C18.ArgsProofs UV.C18.DefsProofs UV.C18.Factor.
Require UV.Mcount.Model UV.Mcount.Forest UV.Mcount.ScriptCb.
Local Open Scope N_scope.

(* uftrace_begin once; then one uftrace_entry/uftrace_exit per line of `replay --no-merge` for the
   same data and --tid option, in the same order, with the same tid, depth, timestamp, duration,
   address and name; then uftrace_end once.  Holds for every input of the model (no
   well-formedness needed: both drivers share the reader). *)
Theorem C18_same_calls : forall forks sel tasks,
  script_run forks [] sel tasks =
  CBegin :: map cb_of_event (events_of (fst (replay_raw (mkcfg false forks) sel tasks))) ++ [CEnd].
Proof. exact script_same_calls. Qed.
Print Assumptions C18_same_calls.

(* against the default replay view (leaves folded): same calls, depths and durations *)
Theorem C18_matches_default_replay : forall forks sel tasks, no_longjmp_tasks tasks = true ->
  flat_map cb_core (script_run forks [] sel tasks) =
  map core_of (events_of (fst (replay_raw (mkcfg true forks) sel tasks))).
Proof. exact script_matches_default_replay. Qed.
Print Assumptions C18_matches_default_replay.

(* UFTRACE_FUNCS = L: exactly the sub-sequence of callbacks whose function is listed; depth
   bookkeeping and everything else unaffected *)
Theorem C18_funcs_filter : forall forks funcs sel tasks,
  script_run forks funcs sel tasks = filter (cb_keep funcs) (script_run forks [] sel tasks).
Proof. exact script_funcs_filter. Qed.
Print Assumptions C18_funcs_filter.

(* a task whose stream is the trace of a call forest receives that forest's callbacks *)
Theorem C18_calls_of_forest : forall forks sel tasks i d f t,
  forallb wf_task tasks = true -> selected sel i = true ->
  k_parent (nth i tasks (mktask None [])) = None ->
  k_recs (nth i tasks (mktask None [])) = flat_forest d f ++ flat_tail d t ->
  filter (of_cb_task i) (script_run forks [] sel tasks) =
  map cb_of_event (render_forest i 0 f ++ render_tail i 0 t).
Proof. exact script_calls_of_forest. Qed.
Print Assumptions C18_calls_of_forest.

(* the pairing checker applied to record-time (-S) output accepts the callbacks of every call
   forest with calls still open at the end (it is not vacuous, and it is what a correct hook
   sequence looks like).  PARTIAL: no theorem about libmcount's script_hook_entry/exit; record
   time is covered by running the real recorder and this checker only. *)
Theorem C18_pairing_checker_accepts_forests_partial : forall i f t dd stk,
  paired stk (map cb_of_event (render_forest i dd f ++ render_tail i dd t)) = true.
Proof. exact paired_forest_and_tail. Qed.
Print Assumptions C18_pairing_checker_accepts_forests_partial.

(* the same WITH replay-time filter options (-D depth, -F / -N functions; model UV.C18.Filter of
   fstack_entry / fstack_exit): the callbacks are exactly the UFTRACE_FUNCS sub-sequence of what
   `replay --no-merge` shows with the same options, for every input *)
Theorem C18_funcs_filter_with_options : forall o forks funcs sel tasks,
  script_opts o forks funcs sel tasks =
  CBegin :: filter (cb_keep funcs) (map cb_of_event (replay_opts o forks sel tasks)) ++ [CEnd].
Proof. exact script_funcs_filter_with_options. Qed.
Print Assumptions C18_funcs_filter_with_options.

(* ... and it depends on the EXIT branch undoing the filter state (fstack_exit) also for an
   unlisted function: the driver that forgets it is refuted by a witness (-D 2) *)
Theorem C18_leaky_exit_refuted :
  let o := mkfopts 2 [] [] in
  leaky_script_f o [] [3] leak_tasks (merge (mask_queues None leak_tasks 0)) (init_g None leak_tasks) (F0 o leak_tasks) <>
  filter (cb_keep [3]) (map cb_of_event (replay_opts o [] None leak_tasks)).
Proof. exact leaky_exit_refuted. Qed.
Print Assumptions C18_leaky_exit_refuted.

(* Record time (-S): for EVERY configuration - trace_on / trace_off triggers and --trace=off included - both
   instrumentation shapes, any thread state and any complete call forest, the entry/exit callbacks the script hooks
   deliver are properly paired ([bal]: a stack machine over the callbacks ends with the stack it started with).
   Model: libmcount's hook automaton (UV.Mcount.Model, tied to the real libmcount by C02/C05/C17) plus the placement
   of script_hook_entry / script_hook_exit as in libmcount/mcount.c after fix 3895699. *)
Theorem C18_record_time_callbacks_paired : forall c f s hk,
  ScriptCb.bal [] (ScriptCb.cbs true c (Forest.flat_forest f) (s, hk)) = Some [].
Proof. exact ScriptCb.forest_callbacks_paired. Qed.
Print Assumptions C18_record_time_callbacks_paired.

(* the code as found (entry callback for every recordable frame, exit callback only while tracing is on): a call
   entered before a trace_off trigger never gets its exit callback *)
Theorem C18_record_time_legacy_refuted :
  ScriptCb.bal [] (ScriptCb.cbs false ScriptCb.sw_cfg ScriptCb.sw_events (Mcount.Model.init, [])) = Some [2; 1] /\
  ScriptCb.bal [] (ScriptCb.cbs true ScriptCb.sw_cfg ScriptCb.sw_events (Mcount.Model.init, [])) = Some [].
Proof. exact ScriptCb.legacy_unpaired. Qed.
Print Assumptions C18_record_time_legacy_refuted.

(* ---- clause by clause ---- *)
(* "calls uftrace_begin once ... then uftrace_end once": exactly one of each, first and last, nothing
   but entry/exit callbacks in between - for every input, UFTRACE_FUNCS list, --tid, -D, -F, -N *)
Theorem C18_begin_end_exactly_once : forall o forks funcs sel tasks,
  once_begin_end (script_opts o forks funcs sel tasks).
Proof. exact begin_end_once. Qed.
Print Assumptions C18_begin_end_exactly_once.

Theorem C18_begin_end_exactly_once_plain : forall forks funcs sel tasks,
  once_begin_end (script_run forks funcs sel tasks).
Proof. exact begin_end_once_plain. Qed.
Print Assumptions C18_begin_end_exactly_once_plain.

(* "for the same data and options" with --tid: the callbacks of a parent-closed selection of
   well-formed tasks are exactly those tasks' callbacks of the full run *)
Theorem C18_tid_selects : forall forks sel tasks,
  forallb wf_task tasks = true -> parent_closed (selected sel) tasks ->
  script_run forks [] sel tasks = filter (cb_selected sel) (script_run forks [] None tasks).
Proof. exact script_tid_selects. Qed.
Print Assumptions C18_tid_selects.

(* data with LOST markers: a marker gives no callback; every record in a depth-consistent stretch after
   a marker of its task is passed with depth = its depth field (what replay shows) *)
Theorem C18_lost_resync : forall forks sel tasks,
  exists es, script_run forks [] sel tasks = CBegin :: map cb_of_event es ++ [CEnd] /\
             aligned (merge (mask_queues sel tasks 0)) (marks (merge (mask_queues sel tasks 0)) (T0 tasks)) es.
Proof. exact script_lost_resync. Qed.
Print Assumptions C18_lost_resync.

(* "properly paired entry/exit callbacks" at replay time: a task whose stream is the trace of a call
   forest (with calls still open at the end) gets properly paired callbacks *)
Theorem C18_replay_time_paired : forall forks sel tasks i d f t,
  forallb wf_task tasks = true -> selected sel i = true ->
  k_parent (nth i tasks (mktask None [])) = None ->
  k_recs (nth i tasks (mktask None [])) = flat_forest d f ++ flat_tail d t ->
  paired [] (filter (of_cb_task i) (script_run forks [] sel tasks)) = true.
Proof. exact script_replay_time_paired. Qed.
Print Assumptions C18_replay_time_paired.

(* "with matching ... arguments and return value": the model carries no payloads (both views decode the record the
   shared reader just read, C18_same_calls; the decoding is C09's theorem).  The comparison of what a Python / Lua
   script received with what replay prints is made on the real code by the checker ok_script_args, which accepts
   exactly: begin, the replay-side list position by position (task, depth, time, duration code, text token, name), end *)
Theorem C18_args_checker_exact : forall script_cbs replay_cbs,
  ok_script_args script_cbs replay_cbs = true <->
  exists inner, script_cbs = CBegin :: inner ++ [CEnd] /\ forallb inner_ok inner = true /\ map fmt_cb inner = replay_cbs.
Proof. exact args_checker_exact. Qed.
Print Assumptions C18_args_checker_exact.

(* a script may define any subset of uftrace_begin / uftrace_entry / uftrace_exit / uftrace_end (a binding answers -1 for an
   absent callback and the read loop goes on): for EVERY subset d, UFTRACE_FUNCS list and --tid selection, each defined
   callback receives exactly the projection of what `replay --no-merge` shows on its record type - in replay's order, with
   replay's fields - between begin and end where those are defined *)
Theorem C18_defined_callbacks : forall d forks funcs sel tasks,
  script_run_defs d forks funcs sel tasks =
  (if d_begin d then [CBegin] else []) ++
  map cb_of_event (filter (fun e => match_funcs funcs (e_name e) && ev_defined d e)
                          (events_of (fst (replay_raw (mkcfg false forks) sel tasks)))) ++
  (if d_end d then [CEnd] else []).
Proof. exact script_defs_same_calls. Qed.
Print Assumptions C18_defined_callbacks.

Theorem C18_defined_callbacks_projection : forall d forks funcs sel tasks,
  script_run_defs d forks funcs sel tasks = filter (cb_defined d) (script_run forks funcs sel tasks).
Proof. exact script_defs_filter. Qed.
Print Assumptions C18_defined_callbacks_projection.

Theorem C18_all_defined : forall forks funcs sel tasks,
  script_run_defs d_all forks funcs sel tasks = script_run forks funcs sel tasks.
Proof. exact script_defs_all. Qed.
Print Assumptions C18_all_defined.

(* the driver that ends the read loop at the first absent callback loses calls (a script with uftrace_entry only) *)
Theorem C18_stop_on_absent_refuted :
  let d := mkdefs true true false true in
  script_run_defs_gen true d [] [] None stop_witness <> filter (cb_defined d) (script_run [] [] None stop_witness) /\
  script_run_defs d [] [] None stop_witness = [CBegin; CEntry 0%nat 0 1000 1 1; CEntry 0%nat 0 1005 2 2; CEnd].
Proof. exact stop_on_absent_refuted. Qed.
Print Assumptions C18_stop_on_absent_refuted.

(* the tie's checker for a subset of callbacks is the plain checker when everything is defined *)
Theorem C18_checker_all_defined : forall funcs cbs lines, ok_script_d d_all funcs cbs lines = ok_script funcs cbs lines.
Proof. exact ok_script_d_all. Qed.
Print Assumptions C18_checker_all_defined.

(* The restrictions compose: whatever callbacks the script defines, whatever its UFTRACE_FUNCS list and whatever --tid
   selects, the callbacks it receives are the callbacks of the unrestricted run (which C18_same_calls equates with
   replay) projected on the defined callback kinds, on the listed functions and on the selected tasks - nothing else is
   dropped, added, reordered or changed - and the order in which the projections are applied does not matter. *)
Theorem C18_restrictions_compose : forall d forks funcs sel tasks,
  script_run_defs d forks funcs sel tasks =
  filter (cb_defined d) (filter (cb_keep funcs) (script_run forks [] sel tasks)).
Proof. exact script_factorises. Qed.
Print Assumptions C18_restrictions_compose.
Theorem C18_restrictions_compose_tid : forall d forks funcs sel tasks,
  forallb wf_task tasks = true -> parent_closed (selected sel) tasks ->
  script_run_defs d forks funcs sel tasks =
  filter (cb_defined d) (filter (cb_keep funcs) (filter (cb_selected sel) (script_run forks [] None tasks))).
Proof. exact script_factorises_tid. Qed.
Print Assumptions C18_restrictions_compose_tid.
Theorem C18_restrictions_commute : forall d forks funcs sel tasks,
  script_run_defs d forks funcs sel tasks =
  filter (cb_keep funcs) (filter (cb_defined d) (script_run forks [] sel tasks)).
Proof. exact script_projections_commute. Qed.
Print Assumptions C18_restrictions_commute.
