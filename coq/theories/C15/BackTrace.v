(* C15 - the BACKTRACE section of `uftrace graph FUNC` (cmds/graph.c save_backtrace_addr / save_backtrace_time /
   print_backtrace): the distinct call stacks (by ADDRESS) at the outermost entries of FUNC with their hit count and
   the total time of those calls.  Functions are symbol indices here (an address determines the symbol);
   is_func i = the symbol's name is FUNC.  No proofs in this file. *)
From Coq Require Import NArith List Bool.
Import ListNotations.
Require Import UV.C15.Model.
Local Open Scope N_scope.

Inductive iev := IEnt (i t : N) | IExt (i t : N).
Definition istream := list (N * iev).

Fixpoint key_eqb (a b : list N) : bool :=
  match a, b with
  | [], [] => true
  | x :: a', y :: b' => (x =? y) && key_eqb a' b'
  | _, _ => false
  end.

(* one backtrace: the stack outermost first, hit, time *)
Definition bt := (list N * N * N)%type.
Fixpoint bt_hit (key : list N) (l : list bt) : option (list bt) :=        (* hit++ on the entry with that key *)
  match l with
  | [] => None
  | (k, h, t) :: r => if key_eqb key k then Some ((k, h + 1, t) :: r)
                      else match bt_hit key r with Some r' => Some ((k, h, t) :: r') | None => None end
  end.
Definition bt_enter (key : list N) (l : list bt) : list bt :=
  match bt_hit key l with Some l' => l' | None => (key, 1, 0) :: l end.      (* list_add: at the head *)
Fixpoint bt_time (key : list N) (d : N) (l : list bt) : list bt :=
  match l with
  | [] => []
  | (k, h, t) :: r => if key_eqb key k then (k, h, add64 t d) :: r else (k, h, t) :: bt_time key d r
  end.

(* per task: frames (symbol, start, child) innermost first, tg->enabled, bt_curr *)
Record bts := { b_stack : list (N * N * N); b_en : N; b_cur : option (list N); b_last : N }.
Definition b_init : bts := {| b_stack := []; b_en := 0; b_cur := None; b_last := 0 |}.
Fixpoint b_get (tid : N) (l : list (N * bts)) : bts :=
  match l with [] => b_init | (k, s) :: r => if k =? tid then s else b_get tid r end.
Fixpoint b_set (tid : N) (s : bts) (l : list (N * bts)) : list (N * bts) :=
  match l with
  | [] => [(tid, s)]
  | (k, s0) :: r => if k =? tid then (k, s) :: r else (k, s0) :: b_set tid s r
  end.
Definition bump3 (d : N) (st : list (N * N * N)) : list (N * N * N) :=
  match st with [] => [] | (i, s, c) :: r => (i, s, add64 c d) :: r end.

(* end_graph at the exit of symbol i with duration [total] *)
Definition b_exit (is_func : N -> bool) (i total : N) (en : N) (cur : option (list N)) (l : list bt)
  : N * option (list N) * list bt :=
  if is_func i && (0 <? en)
  then if en =? 1
       then (0, None, match cur with Some k => bt_time k total l | None => l end)
       else (en - 1, cur, l)
  else (en, cur, l).

Definition bstep (is_func : N -> bool) (m : list bt * list (N * bts)) (r : N * iev) : list bt * list (N * bts) :=
  let '(l, ts) := m in
  let '(tid, e) := r in
  let s := b_get tid ts in
  match e with
  | IEnt i t =>
      let st := (i, t, 0) :: b_stack s in
      if is_func i
      then if b_en s =? 0
           then let key := rev (map (fun f => fst (fst f)) st) in
                (bt_enter key l, b_set tid {| b_stack := st; b_en := 1; b_cur := Some key; b_last := t |} ts)
           else (l, b_set tid {| b_stack := st; b_en := b_en s + 1; b_cur := b_cur s; b_last := t |} ts)
      else (l, b_set tid {| b_stack := st; b_en := b_en s; b_cur := b_cur s; b_last := t |} ts)
  | IExt i t =>
      match b_stack s with
      | [] => (l, b_set tid {| b_stack := []; b_en := b_en s; b_cur := b_cur s; b_last := t |} ts)
      | (j, start, child) :: rest =>
          let delta := sub64 t start in
          let '(en', cur', l') := b_exit is_func i delta (b_en s) (b_cur s) l in
          (l', b_set tid {| b_stack := bump3 delta rest; b_en := en'; b_cur := cur'; b_last := t |} ts)
      end
  end.
Fixpoint bclose (is_func : N -> bool) (last carry : N) (st : list (N * N * N)) (en : N) (cur : option (list N))
                (l : list bt) : list bt :=
  match st with
  | [] => l
  | (i, start, child) :: rest =>
      let fc := add64 child carry in
      if last <? start then bclose is_func last 0 rest en cur l
      else
        let delta := last - start in
        let total := if delta <? fc then fc else delta in
        let '(en', cur', l') := b_exit is_func i total en cur l in
        bclose is_func last total rest en' cur' l'
  end.
Definition backtraces (is_func : N -> bool) (tids : list N) (s : istream) : list bt :=
  let '(l, ts) := fold_left (bstep is_func) s ([], []) in
  fold_left (fun l tid => let b := b_get tid ts in bclose is_func (b_last b) 0 (b_stack b) (b_en b) (b_cur b) l) tids l.

(* ---- reference: the outermost calls of FUNC by their stack ---- *)
Definition istream_as_stream (s : istream) : stream :=
  map (fun r => (fst r, match snd r with IEnt i t => Ent [i] t | IExt i t => Ext [i] t end)) s.
Definition ipath (p : path) : list N := map (fun x => hd 0 x) p.
Fixpoint outermost (is_func : N -> bool) (k : list N) : bool :=      (* FUNC is the last symbol and only there *)
  match k with
  | [] => false
  | [i] => is_func i
  | i :: r => negb (is_func i) && outermost is_func r
  end.
Definition ref_bt_keys (is_func : N -> bool) (s : istream) : list (list N) :=
  filter (outermost is_func) (map ipath (ref_entries [] (istream_as_stream s))).
Definition ref_bt_hit (key : list N) (keys : list (list N)) : N :=
  fold_right (fun k a => if key_eqb key k then a + 1 else a) 0 keys.
Definition ref_bt_time (key : list N) (cs : list rcall) : N :=
  fold_right (fun c a => if key_eqb key (ipath (rc_path c)) then a + rc_dur c else a) 0 cs.

(* the printed blocks (stack, hit, time field) are, as a multiset, what the reference says *)
Definition pbt := (list N * N * option (N * N * N))%type.
Definition pbt_eqb (a b : pbt) : bool :=
  let '(k, h, t) := a in let '(k', h', t') := b in key_eqb k k' && (h =? h') && tu_eqb t t'.
Definition ok_backtraces (is_func : N -> bool) (tids : list N) (s : istream) (printed : list pbt) : bool :=
  let keys := ref_bt_keys is_func s in
  let cs := ref_calls tids (istream_as_stream s) in
  let distinct := fold_right (fun k acc => if existsb (key_eqb k) acc then acc else k :: acc) [] keys in
  Nat.eqb (length printed) (length distinct)
  && forallb (fun k => existsb (fun p => pbt_eqb p (k, ref_bt_hit k keys, time_unit (ref_bt_time k cs))) printed) distinct.

Definition pbts_eqb (a b : list pbt) : bool :=
  (fix go (a b : list pbt) : bool :=
     match a, b with
     | [], [] => true
     | x :: a', y :: b' => pbt_eqb x y && go a' b'
     | _, _ => false
     end) a b.
Definition shown_bt (l : list bt) : list pbt := map (fun b => let '(k, h, t) := b in (k, h, time_unit t)) l.

(* ---- differential case ---- *)
Record bcase := { bk_case : case; bk_func : name; bk_printed : list pbt }.
Definition bk_istream (k : case) : istream :=
  map (fun r : N * bool * N * N => let '(tid, b, i, t) := r in (tid, if b then IEnt i t else IExt i t)) (k_recs k).
Definition bk_is_func (b : bcase) (i : N) : bool := name_eqb (nth (N.to_nat i) (k_syms (bk_case b)) []) (bk_func b).
Definition agree_bt (b : bcase) : bool :=
  pbts_eqb (shown_bt (backtraces (bk_is_func b) (k_tids (bk_case b)) (bk_istream (bk_case b)))) (bk_printed b).
Definition okc_bt (b : bcase) : bool :=
  ok_backtraces (bk_is_func b) (k_tids (bk_case b)) (bk_istream (bk_case b)) (bk_printed b).
