(* C15 - the text of the FUNCTION CALL GRAPH section of `uftrace graph` (cmds/graph.c print_graph_node, pr_indent,
   print_field with the default field total-time; utils/debug.c __print_time_unit).  No proofs in this file. *)
From Coq Require Import NArith List Bool.
Import ListNotations.
Require Import UV.C15.Model.
Local Open Scope N_scope.

Definition mask := list bool.                       (* indent_mask[]: entries that are not there are false *)
Definition m_get (m : mask) (i : nat) : bool := nth i m false.
Fixpoint m_set (m : mask) (i : nat) (v : bool) : mask :=
  match i, m with
  | O, [] => [v]
  | O, _ :: r => v :: r
  | S i', [] => false :: m_set [] i' v
  | S i', b :: r => b :: m_set r i' v
  end.

Definition g_bar : list N := [32; 124; 32].     (* ' | ' *)
Definition g_blank : list N := [32; 32; 32].
Definition g_branch : list N := [32; 43; 45].   (* ' +-' *)
Definition g_dash : list N := [45; 45; 45].

(* pr_indent *)
Definition last_set (m : mask) (indent : nat) : option nat :=
  fold_left (fun acc i => if m_get m i then Some i else acc) (seq 0 indent) None.
Definition pr_indent (m : mask) (indent : nat) (line : bool) : list N :=
  let last := if line then last_set m indent else None in
  flat_map (fun i =>
              let plain := if m_get m i then g_bar else g_blank in
              if line then
                match last with
                | Some l => if Nat.ltb i l then plain else if Nat.eqb i l then g_branch else g_dash
                | None => g_dash
                end
              else plain) (seq 0 indent).

(* '%3lu' *)
Definition pad3 (n : N) : list N :=
  let d := dec n in repeat 32 (3 - length d) ++ d.
Definition unit_name (u : N) : list N :=
  if u =? 0 then [117; 115] else if u =? 1 then [109; 115] else if u =? 2 then [32; 115]
  else if u =? 3 then [32; 109] else [32; 104].
Definition d3' (r : N) : list N := [48 + r / 100; 48 + (r / 10) mod 10; 48 + r mod 10].
Definition time_field (t : N) : list N :=
  match time_unit t with
  | None => repeat 32 10
  | Some (a, b, u) => pad3 a ++ 46 :: d3' b ++ 32 :: unit_name u
  end.

Definition s_colon : list N := [32; 58; 32].
Definition row_line (m : mask) (indent : nat) (needs_line : bool) (calls : N) (nm : name) (t : N) : list N :=
  [32; 32] ++ time_field t ++ s_colon ++ pr_indent m indent needs_line ++ [40] ++ dec calls ++ [41; 32] ++ nm.
Definition blank_line (m : mask) (indent : nat) : list N := repeat 32 12 ++ s_colon ++ pr_indent m indent false.

(* print_graph_node; [pmulti]: the parent has more than one edge, [islast]: this is the parent's last child *)
Fixpoint pnode (n : node) (pmulti islast : bool) (m : mask) (indent : nat) (needs_line : bool)
               (calls_shown : option N) : list (list N) * mask :=
  match n with
  | Node _ nm c t _ ks =>
      let line := row_line m indent needs_line (match calls_shown with Some v => v | None => c end) nm t in
      let multi := Nat.ltb 1 (length ks) in
      let m1 := if multi then m_set m indent true else m in
      let indent1 := if multi then S indent else indent in
      let m2 := if pmulti && Nat.ltb 0 indent && islast then m_set m1 (indent - 1) false else m1 in
      let '(lines, m3) :=
        (fix go (l : list node) (mm : mask) {struct l} : list (list N) * mask :=
           match l with
           | [] => ([], mm)
           | k :: r =>
               let last := match r with [] => true | _ => false end in
               let '(lk, mm1) := pnode k multi last mm indent1 multi None in
               let sepl := if last then [] else [blank_line mm1 indent1] in
               let '(lr, mm2) := go r mm1 in
               (lk ++ sepl ++ lr, mm2)
           end) ks m2 in
      (line :: lines, m_set m3 indent false)
  end.

Definition with_time (n : node) (t : N) : node :=
  match n with Node i nm c _ ct ks => Node i nm c t ct ks end.
(* the lines between the column header and the closing empty line: full graph / graph FUNC *)
Definition graph_text_full (root : node) : list (list N) :=
  fst (pnode (with_time root (sum_time (n_kids root))) false false [] 0
             (Nat.ltb 1 (length (n_kids root))) (Some 1)).
Definition graph_text_func (root : node) : list (list N) :=
  fst (pnode root false false [] 0 (Nat.ltb 1 (length (n_kids root))) None).

(* ---- differential case: the raw lines of the FUNCTION CALL GRAPH section ---- *)
Require Import UV.C15.GraphF.
Record tcase := { tk_case : case; tk_func : option name; tk_lines : list (list N) }.
Definition agree_text (t : tcase) : bool :=
  let k := tk_case t in
  match tk_func t with
  | None => match k_recs k with
            | [] => match tk_lines t with [] => true | _ => false end
            | _ => lines_eqb (graph_text_full (graph_build 0 (k_root k) (k_tids k) (k_stream k))) (tk_lines t)
            end
  | Some f =>
      match graphf_rows (graphf_build f (k_tids k) (k_stream k)) with
      | Some (_ :: _) => lines_eqb (graph_text_func (graphf_build f (k_tids k) (k_stream k))) (tk_lines t)
      | _ => match tk_lines t with [] => true | _ => false end
      end
  end.

(* ---- the sample time `dump --flame-graph` picks itself (cmds/dump.c command_dump) when the data has a record date:
   from 1 us upwards in powers of ten until a million samples cover the elapsed time, at most 1 s.
   [total] = (uint64_t)(strtod(elapsed_time) * 1e9) ---- *)
Fixpoint auto_sample_loop (fuel : nat) (s total : N) : N :=
  match fuel with
  | O => s
  | S f => if (s * 1000000 <? total) && negb (s =? 1000000000) then auto_sample_loop f (s * 10) total else s
  end.
Definition auto_sample (total : N) : N := auto_sample_loop 7 1000 total.

Record acase := { ak_case : case; ak_total : N; ak_lines : list (list N) }.
Definition agree_flameA (a : acase) : bool :=
  let k := ak_case a in let s := auto_sample (ak_total a) in
  lines_eqb (map flame_text_full (flame_lines s (graph_build s [] (k_tids k) (k_stream k)))) (ak_lines a).
Definition okc_flameA (a : acase) : bool :=
  let k := ak_case a in ok_flame (auto_sample (ak_total a)) (k_tids k) (k_stream k) (ak_lines a).
