(* C15 - the depth-first walk of the printers lists every node exactly once; sibling names are unique *)
From Coq Require Import NArith List Bool Lia.
Import ListNotations.
Require Import UV.C15.Model UV.C15.ProofsTree.
Local Open Scope N_scope.

(* induction principle for the nested tree *)
Fixpoint node_ind' (P : node -> Prop)
  (H : forall i m c t ct ks, Forall P ks -> P (Node i m c t ct ks)) (n : node) : P n :=
  match n with
  | Node i m c t ct ks =>
      H i m c t ct ks ((fix go (l : list node) : Forall P l :=
                          match l with
                          | [] => Forall_nil P
                          | k :: r => Forall_cons k (node_ind' P H k) (go r)
                          end) ks)
  end.

(* children of every node have pairwise different names (add_graph_entry creates a child only when
   the lookup by name failed) *)
Inductive uniq : node -> Prop :=
| Uniq : forall i m c t ct ks, NoDup (map n_name ks) -> Forall uniq ks -> uniq (Node i m c t ct ks).

Lemma uniq_inv : forall i m c t ct ks, uniq (Node i m c t ct ks) -> NoDup (map n_name ks) /\ Forall uniq ks.
Proof. intros. inversion H; subst. split; assumption. Qed.

Lemma upd_child_names : forall x f ks, name_pres f -> map n_name (upd_child x f ks) = map n_name ks.
Proof.
  intros x f ks Hf. induction ks as [|k r IH]; simpl; [reflexivity|].
  destruct (name_eqb x (n_name k)); simpl; [rewrite Hf; reflexivity|rewrite IH; reflexivity].
Qed.
Lemma upd_child_forall : forall (P : node -> Prop) x f ks, (forall k, P k -> P (f k)) -> Forall P ks -> Forall P (upd_child x f ks).
Proof.
  intros P x f ks Hf H. induction H as [|k r Hk Hr IH]; simpl; [constructor|].
  destruct (name_eqb x (n_name k)); constructor; auto.
Qed.

Lemma uniq_upd_path : forall f, name_pres f -> (forall m, uniq m -> uniq (f m)) ->
  forall p n, uniq n -> uniq (upd_path p f n).
Proof.
  intros f Hn Hu. induction p as [|x p IH]; intros n U; simpl; [apply Hu, U|].
  destruct n as [i m c t ct ks]. apply uniq_inv in U. destruct U as [U1 U2].
  constructor.
  - rewrite upd_child_names; [exact U1|apply upd_path_name_pres, Hn].
  - apply upd_child_forall; [exact IH|exact U2].
Qed.

Lemma find_child_none : forall x ks, find_child x ks = None -> ~ In x (map n_name ks).
Proof.
  intros x ks. induction ks as [|k r IH]; simpl; intros H; [tauto|].
  destruct (name_eqb x (n_name k)) eqn:E; [discriminate|].
  apply name_eqb_neq in E. intros [A|A]; [congruence|]. apply (IH H A).
Qed.
Lemma find_child_some : forall x ks k, find_child x ks = Some k -> In k ks /\ n_name k = x.
Proof.
  intros x ks. induction ks as [|a r IH]; simpl; intros k H; [discriminate|].
  destruct (name_eqb x (n_name a)) eqn:E.
  - inversion H; subst. apply name_eqb_eq in E. split; [left; reflexivity|congruence].
  - destruct (IH k H). split; [right; assumption|assumption].
Qed.
Lemma find_child_in : forall ks k, NoDup (map n_name ks) -> In k ks -> find_child (n_name k) ks = Some k.
Proof.
  induction ks as [|a r IH]; simpl; intros k ND H; [tauto|].
  inversion ND as [|? ? Hnot ND']; subst.
  destruct H as [->|H].
  - rewrite name_eqb_refl. reflexivity.
  - destruct (name_eqb (n_name k) (n_name a)) eqn:E.
    + apply name_eqb_eq in E. exfalso. apply Hnot. rewrite <- E. apply in_map. exact H.
    + apply IH; assumption.
Qed.

Lemma NoDup_snoc : forall (A : Type) (l : list A) x, NoDup l -> ~ In x l -> NoDup (l ++ [x]).
Proof.
  intros A l x ND. induction ND as [|a l Ha ND IH]; intros Hx; simpl.
  - constructor; [tauto|constructor].
  - constructor.
    + rewrite in_app_iff. simpl. intros [H|[H|[]]]; [tauto|]. subst. apply Hx. left. reflexivity.
    + apply IH. intros H. apply Hx. right. exact H.
Qed.

Lemma uniq_enter_fn : forall x id m, uniq m -> uniq (enter_fn x id m).
Proof.
  intros x id [i nm c t ct ks] U. apply uniq_inv in U. destruct U as [U1 U2].
  unfold enter_fn. simpl n_kids. destruct (find_child x ks) eqn:F.
  - constructor.
    + rewrite upd_child_names; [exact U1|exact inc_calls_name].
    + apply upd_child_forall; [|exact U2]. intros [i' m' c' t' ct' ks'] Uk. apply uniq_inv in Uk. destruct Uk. constructor; assumption.
  - simpl. constructor.
    + rewrite map_app. simpl. apply NoDup_snoc; [exact U1|]. apply find_child_none. exact F.
    + apply Forall_app. split; [exact U2|]. constructor; [|constructor]. constructor; constructor.
Qed.

Lemma uniq_add_times : forall a b m, uniq m -> uniq (add_times a b m).
Proof. intros a b [i nm c t ct ks] U. apply uniq_inv in U. destruct U. constructor; assumption. Qed.
Lemma uniq_adjust_child : forall a b m, uniq m -> uniq (adjust_child a b m).
Proof. intros a b [i nm c t ct ks] U. apply uniq_inv in U. destruct U. constructor; assumption. Qed.

Lemma uniq_g_enter : forall p x g, uniq (g_root g) -> uniq (g_root (g_enter p x g)).
Proof.
  intros p x g U. destruct (find_path p (g_root g)) as [m|] eqn:F.
  - rewrite (g_enter_root p x g m F). apply uniq_upd_path; [apply enter_fn_name|apply uniq_enter_fn|exact U].
  - unfold g_enter. rewrite F. exact U.
Qed.
Lemma uniq_g_exit : forall sample p a b g, uniq (g_root g) -> uniq (g_root (g_exit sample p a b g)).
Proof.
  intros sample p a b g U. unfold g_exit. simpl.
  assert (U1 : uniq (upd_path p (add_times a b) (g_root g))).
  { apply uniq_upd_path; [apply add_times_name|apply uniq_add_times|exact U]. }
  destruct (sample =? 0); [exact U1|]. destruct p; [exact U1|].
  apply uniq_upd_path; [apply adjust_child_name|apply uniq_adjust_child|exact U1].
Qed.
Lemma uniq_step : forall sample m r, uniq (g_root (m_g m)) -> uniq (g_root (m_g (step sample m r))).
Proof.
  intros sample m [tid [x t|x t]] U; unfold step.
  - cbn [m_g]. apply uniq_g_enter, U.
  - destruct (ts_stack (t_get tid (m_t m))); cbn [m_g]; [exact U|apply uniq_g_exit, U].
Qed.
Lemma uniq_run : forall sample s m, uniq (g_root (m_g m)) -> uniq (g_root (m_g (fold_left (step sample) s m))).
Proof. intros sample. induction s as [|r s IH]; intros m U; simpl; [exact U|]. apply IH, uniq_step, U. Qed.
Lemma uniq_close_frames : forall sample last st carry p g, uniq (g_root g) ->
  uniq (g_root (fst (close_frames sample last carry st p g))).
Proof.
  intros sample last. induction st as [|f r IH]; intros carry p g U; simpl; [exact U|].
  destruct (last <? f_start f); [apply IH, U|]. apply IH, uniq_g_exit, U.
Qed.
Lemma uniq_close_tasks : forall sample tids m, uniq (g_root (m_g m)) -> uniq (g_root (m_g (close_tasks sample tids m))).
Proof.
  intros sample. induction tids as [|tid r IH]; intros m U; simpl; [exact U|].
  pose proof (uniq_close_frames sample (ts_last (t_get tid (m_t m))) (ts_stack (t_get tid (m_t m))) 0
                                (ts_path (t_get tid (m_t m))) (m_g m) U) as U1.
  destruct (close_frames sample (ts_last (t_get tid (m_t m))) 0 (ts_stack (t_get tid (m_t m)))
                         (ts_path (t_get tid (m_t m))) (m_g m)) as [g' p']. simpl in U1.
  apply IH. cbn [m_g]. exact U1.
Qed.
Theorem uniq_graph_build : forall sample rootname tids s, uniq (graph_build sample rootname tids s).
Proof.
  intros. unfold graph_build. apply uniq_close_tasks, uniq_run. simpl. constructor; constructor.
Qed.

(* ---- the walk ---- *)
Lemma last_cons : forall (A : Type) (a : A) l d, last (a :: l) d = last l a.
Proof. intros A a l. revert a. induction l as [|b l IH]; intros a d; [reflexivity|]. simpl in *. destruct l; [reflexivity|]. apply IH. Qed.

(* entry e of [walk par prefix n]: its path is prefix ++ name n :: r where r leads from n to its node,
   and its parent component is the node one step above *)
Definition parent_at (par n : node) (r : path) : option node :=
  match r with [] => Some par | _ => find_path (removelast r) n end.
Definition walk_entry (par : node) (prefix : path) (n : node) (e : path * node * node) : Prop :=
  exists r, w_path e = prefix ++ n_name n :: r /\ find_path r n = Some (w_node e)
            /\ parent_at par n r = Some (w_par e).

Lemma parent_at_cons : forall par i nm c t ct ks k r, find_child (n_name k) ks = Some k ->
  parent_at par (Node i nm c t ct ks) (n_name k :: r) = parent_at (Node i nm c t ct ks) k r.
Proof.
  intros par i nm c t ct ks k r F. destruct r as [|y r]; [reflexivity|].
  unfold parent_at. change (removelast (n_name k :: y :: r)) with (n_name k :: removelast (y :: r)).
  simpl find_path. rewrite F. reflexivity.
Qed.

Lemma walk_spec : forall n, uniq n -> forall par prefix e, In e (walk par prefix n) <-> walk_entry par prefix n e.
Proof.
  induction n as [i nm c t ct ks IH] using node_ind'. intros U par prefix e.
  apply uniq_inv in U. destruct U as [U1 U2].
  simpl walk. simpl In. rewrite in_flat_map. unfold walk_entry. simpl n_name.
  rewrite Forall_forall in IH, U2.
  split.
  - intros [He|[k [Hk He]]].
    + subst e. exists []. simpl. repeat split; reflexivity.
    + apply (IH k Hk (U2 k Hk)) in He.
      destruct He as [r [E1 [E2 E3]]]. exists (n_name k :: r). repeat split.
      * rewrite E1, <- app_assoc. reflexivity.
      * simpl. rewrite (find_child_in ks k U1 Hk). exact E2.
      * rewrite parent_at_cons; [exact E3|apply find_child_in; assumption].
  - intros [r [E1 [E2 E3]]]. destruct r as [|y r].
    + left. simpl in E2, E3. destruct e as [[q pa] m]. unfold w_path, w_node, w_par in *. simpl in *.
      inversion E2; inversion E3; subst. reflexivity.
    + right. simpl in E2. destruct (find_child y ks) as [k|] eqn:F; [|discriminate].
      destruct (find_child_some y ks k F) as [Hk Hy]. subst y.
      exists k. split; [exact Hk|]. apply (IH k Hk (U2 k Hk)).
      exists r. repeat split.
      * rewrite E1, <- app_assoc. reflexivity.
      * exact E2.
      * rewrite <- parent_at_cons with (par := par); [exact E3|exact F].
Qed.

(* the printers' walk lists exactly the nodes below the root, each with its name path and its parent *)
Theorem walk_root_spec : forall root e, uniq root ->
  (In e (walk_root root) <->
   w_path e <> [] /\ find_path (w_path e) root = Some (w_node e) /\ find_path (removelast (w_path e)) root = Some (w_par e)).
Proof.
  intros [i nm c t ct ks] e U. pose proof U as U0. apply uniq_inv in U. destruct U as [U1 U2].
  rewrite Forall_forall in U2.
  unfold walk_root. simpl n_kids. rewrite in_flat_map. split.
  - intros [k [Hk He]]. apply (walk_spec k (U2 k Hk)) in He. destruct He as [r [E1 [E2 E3]]]. simpl in E1.
    rewrite E1. split; [discriminate|]. split.
    + simpl. rewrite (find_child_in ks k U1 Hk). exact E2.
    + change (find_path (removelast (n_name k :: r)) (Node i nm c t ct ks))
        with (parent_at (Node i nm c t ct ks) (Node i nm c t ct ks) (n_name k :: r)).
      rewrite parent_at_cons by (apply find_child_in; assumption). exact E3.
  - intros [Hne [E2 E3]]. destruct (w_path e) as [|y r] eqn:Ep; [contradiction|].
    simpl in E2. destruct (find_child y ks) as [k|] eqn:F; [|discriminate].
    destruct (find_child_some y ks k F) as [Hk Hy]. subst y.
    exists k. split; [exact Hk|]. apply (walk_spec k (U2 k Hk)).
    exists r. repeat split.
    + exact Ep.
    + exact E2.
    + rewrite <- (parent_at_cons (Node i nm c t ct ks) i nm c t ct ks k r F).
      unfold parent_at. exact E3.
Qed.

(* ---- every path is listed once ---- *)
Lemma NoDup_app_intro : forall (A : Type) (a b : list A),
  NoDup a -> NoDup b -> (forall x, In x a -> ~ In x b) -> NoDup (a ++ b).
Proof.
  intros A a b Ha Hb Hd. induction Ha as [|x a Hx Ha IH]; simpl; [exact Hb|].
  constructor.
  - rewrite in_app_iff. intros [H|H]; [tauto|]. apply (Hd x); [left; reflexivity|exact H].
  - apply IH. intros y Hy. apply Hd. right. exact Hy.
Qed.
Lemma NoDup_flat_map_keys : forall (A B K : Type) (key : A -> K) (g : A -> list B) (kb : B -> K) (l : list A),
  NoDup (map key l) -> (forall x, In x l -> NoDup (g x)) -> (forall x b, In x l -> In b (g x) -> kb b = key x) ->
  NoDup (flat_map g l).
Proof.
  intros A B K key g kb l. induction l as [|a r IH]; intros Hk Hg Hkb; simpl; [constructor|].
  inversion Hk as [|? ? Hnot Hk']; subst.
  apply NoDup_app_intro.
  - apply Hg. left. reflexivity.
  - apply IH; [exact Hk'|intros; apply Hg; right; assumption|intros x b Hx; apply Hkb; right; exact Hx].
  - intros b Hb Hb'. apply in_flat_map in Hb'. destruct Hb' as [x [Hx Hbx]].
    apply Hnot. rewrite <- (Hkb a b (or_introl eq_refl) Hb), (Hkb x b (or_intror Hx) Hbx).
    apply in_map. exact Hx.
Qed.
Lemma map_flat_map' : forall (A B C : Type) (f : B -> C) (g : A -> list B) l,
  map f (flat_map g l) = flat_map (fun x => map f (g x)) l.
Proof. intros. induction l as [|a r IH]; simpl; [reflexivity|]. rewrite map_app, IH. reflexivity. Qed.

Lemma walk_paths_form : forall n, uniq n -> forall par prefix q, In q (map w_path (walk par prefix n)) ->
  exists r, q = prefix ++ n_name n :: r.
Proof.
  intros n U par prefix q H. apply in_map_iff in H. destruct H as [e [E H]]. apply (walk_spec n U) in H.
  destruct H as [r [E1 _]]. exists r. congruence.
Qed.

Lemma walk_nodup : forall n, uniq n -> forall par prefix, NoDup (map w_path (walk par prefix n)).
Proof.
  induction n as [i nm c t ct ks IH] using node_ind'. intros U par prefix.
  pose proof U as U0. apply uniq_inv in U. destruct U as [U1 U2]. rewrite Forall_forall in IH, U2.
  simpl walk. simpl map. rewrite map_flat_map'. constructor.
  - intros H. apply in_flat_map in H. destruct H as [k [Hk H]].
    apply (walk_paths_form k (U2 k Hk)) in H. destruct H as [r H].
    unfold w_path in H. simpl in H. apply (f_equal (@length name)) in H. rewrite !app_length in H. simpl in H. lia.
  - apply (NoDup_flat_map_keys node path name n_name _ (fun q => nth (length (prefix ++ [nm])) q [])).
    + exact U1.
    + intros k Hk. apply IH; [exact Hk|apply U2, Hk].
    + intros k q Hk Hq. apply (walk_paths_form k (U2 k Hk)) in Hq. destruct Hq as [r ->]. apply nth_middle.
Qed.

Theorem walk_root_nodup : forall root, uniq root -> NoDup (map w_path (walk_root root)).
Proof.
  intros [i nm c t ct ks] U. apply uniq_inv in U. destruct U as [U1 U2]. rewrite Forall_forall in U2.
  unfold walk_root. simpl n_kids. rewrite map_flat_map'.
  apply (NoDup_flat_map_keys node path name n_name _ (fun q => nth 0 q [])).
  - exact U1.
  - intros k Hk. apply walk_nodup, U2, Hk.
  - intros k q Hk Hq. apply (walk_paths_form k (U2 k Hk)) in Hq. destruct Hq as [r ->]. reflexivity.
Qed.
