(* C15 - callees run inside their caller: the time charged to a node's children never exceeds the node's time,
   so the subtraction in the sampled flame count never wraps *)
From Coq Require Import NArith ZArith List Bool Lia.
From Coq Require Import ZifyBool ZifyN ZifyNat.
Import ListNotations.
Require Import UV.C15.Model UV.C15.ProofsTree UV.C15.ProofsRun UV.C15.ProofsSample.
Local Open Scope N_scope.

Definition ind (b : bool) (v : N) : N := if b then v else 0.

Lemma child_time_cons : forall q c cs,
  child_time_of q (c :: cs) = child_time_of q cs + ind (path_eqb q (removelast (rc_path c))) (rc_dur c).
Proof. intros. unfold child_time_of, ind. simpl. destruct (path_eqb q (removelast (rc_path c))); lia. Qed.
Lemma child_time_app : forall q a b, child_time_of q (a ++ b) = child_time_of q a + child_time_of q b.
Proof.
  intros q a b. induction a as [|c a IH]; [reflexivity|]. simpl app. rewrite !child_time_cons, IH. lia.
Qed.
Lemma time_path_cons' : forall q c cs, time_path q (c :: cs) = time_path q cs + ind (path_eqb q (rc_path c)) (rc_dur c).
Proof. intros. rewrite time_path_cons. unfold ind. destruct (path_eqb q (rc_path c)); lia. Qed.

(* ---- one EXIT record: what happens to the child time held in the open frames ---- *)
Lemma step_ext_O : forall sample tids m st ls tid x t y t0 k,
  rel m st ls -> NoDup tids -> In tid tids -> r_get tid st = (y, t0) :: k -> l_get tid ls <= t -> t < W64 ->
  exists fc, fc <= t - t0 /\
    forall q, q <> [] ->
      Osum q tids (m_t (step sample m (tid, Ext x t))) + ind (path_eqb q (rpath ((y, t0) :: k))) fc
      = Osum q tids (m_t m) + ind (path_eqb q (rpath k)) (t - t0).
Proof.
  intros sample tids m st ls tid x t y t0 k R ND Hin Hk Hl Ht.
  pose proof (R tid) as [Hf [Hp [Hv [Hs [Hlast Hw]]]]]. rewrite Hk in Hf, Hp.
  unfold step.
  destruct (ts_stack (t_get tid (m_t m))) as [|f rest] eqn:Est; [discriminate Hf|].
  simpl in Hf. injection Hf as Hn H0 Hrest.
  simpl in Hs. destruct Hs as [Hs1 Hs2].
  assert (Hd : sub64 t (f_start f) = t - t0) by (rewrite H0; apply sub64_small; lia).
  rewrite Hd. cbn [m_t].
  exists (f_child f). split; [lia|]. intros q Hq.
  set (p := ts_path (t_get tid (m_t m))) in *.
  assert (Hpk : removelast p = rpath k) by (rewrite Hp, rpath_cons; apply removelast_last).
  match goal with |- context [t_set tid ?ts' (m_t m)] => pose proof (Osum_t_set q tids tid ts' (m_t m) ND Hin) as F2; set (tsn := ts') in * end.
  assert (O1 : open_ts q (t_get tid (m_t m)) = ind (path_eqb q p) (f_child f) + open_in q (rpath k) rest).
  { unfold open_ts. fold p. rewrite Est. simpl. rewrite Hpk. reflexivity. }
  assert (O2 : open_ts q tsn = open_in q (rpath k) rest
               + match rest with [] => 0 | _ => ind (path_eqb q (rpath k)) (t - t0) end).
  { unfold open_ts, tsn. cbn [ts_path ts_stack]. rewrite Hpk. unfold ind. apply open_in_bump.
    destruct rest as [|f2 r2]; [exact I|]. simpl in Hs2. lia. }
  rewrite O1, O2 in F2. rewrite <- Hp.
  destruct rest as [|f2 r2].
  - (* no caller frame: then the caller path is empty, q is not *)
    simpl in Hrest. subst k.
    assert (E : path_eqb q (rpath []) = false) by (apply path_eqb_neq; exact Hq).
    rewrite E. simpl open_in in F2. unfold ind at 2. lia.
  - lia.
Qed.

(* ---- the stream ---- *)
Lemma run_inv_d : forall sample tids s m st ls Kf Df Tf,
  NoDup tids -> (forall r, In r s -> In (fst r) tids) ->
  rel m st ls -> wf_run st s = true -> mono_run ls s = true ->
  (forall q, q <> [] -> Df q = Kf q + Osum q tids (m_t m)) -> (forall q, Kf q <= Tf q) ->
  exists Kf',
    (forall q, q <> [] -> Df q + child_time_of q (fst (ref_calls_run st s))
                          = Kf' q + Osum q tids (m_t (fold_left (step sample) s m)))
    /\ (forall q, Kf' q <= Tf q + time_path q (fst (ref_calls_run st s))).
Proof.
  intros sample tids. induction s as [|[tid e] s IH]; intros m st ls Kf Df Tf ND Hcov R Hwf Hmono HD HK.
  - exists Kf. simpl. split; intros q; [intros Hq; rewrite N.add_0_r; apply HD, Hq|rewrite N.add_0_r; apply HK].
  - simpl in Hmono. apply andb_prop in Hmono. destruct Hmono as [Hm1 Hmono].
    apply andb_prop in Hm1. destruct Hm1 as [Hle Hlt]. apply N.leb_le in Hle. apply N.ltb_lt in Hlt.
    assert (Hin : In tid tids) by (apply (Hcov (tid, e)); left; reflexivity).
    assert (Hcov' : forall r, In r s -> In (fst r) tids) by (intros r Hr; apply Hcov; right; exact Hr).
    destruct e as [x t|x t]; simpl in Hle, Hlt, Hmono.
    + simpl in Hwf. destruct (step_ent sample m st ls tid x t R Hle Hlt) as [R' _].
      change (fold_left (step sample) ((tid, Ent x t) :: s) m) with (fold_left (step sample) s (step sample m (tid, Ent x t))).
      simpl ref_calls_run.
      apply (IH _ _ _ Kf Df Tf ND Hcov' R' Hwf Hmono); [|exact HK].
      intros q Hq. destruct (step_ent_c sample tids m st ls tid x t R ND Hin q) as [_ E2]. rewrite E2. apply HD, Hq.
    + simpl in Hwf. destruct (r_get tid st) as [|[y t0] k] eqn:Hk; [discriminate|].
      apply andb_prop in Hwf. destruct Hwf as [_ Hwf].
      destruct (step_ext sample m st ls tid x t y t0 k R Hk Hle Hlt) as [R' _].
      destruct (step_ext_O sample tids m st ls tid x t y t0 k R ND Hin Hk Hle Hlt) as [fc [Hfc HO]].
      change (fold_left (step sample) ((tid, Ext x t) :: s) m) with (fold_left (step sample) s (step sample m (tid, Ext x t))).
      simpl ref_calls_run. rewrite Hk.
      destruct (ref_calls_run (r_set tid k st) s) as [cs st'] eqn:Ers. simpl fst.
      destruct (IH _ _ _ (fun q => Kf q + ind (path_eqb q (rpath ((y, t0) :: k))) fc)
                   (fun q => Df q + ind (path_eqb q (rpath k)) (t - t0))
                   (fun q => Tf q + ind (path_eqb q (rpath ((y, t0) :: k))) (t - t0))
                   ND Hcov' R' Hwf Hmono) as [Kf' [D' K']].
      * intros q Hq. specialize (HO q Hq). specialize (HD q Hq). lia.
      * intros q. specialize (HK q). unfold ind. destruct (path_eqb q _); lia.
      * rewrite Ers in D', K'. simpl fst in D', K'. exists Kf'. split; intros q.
        -- intros Hq. rewrite child_time_cons. simpl rc_path. rewrite (rpath_cons y t0 k), removelast_last.
           unfold rc_dur. simpl rc_t0. simpl rc_t1. pose proof (D' q Hq) as E. cbv beta in E. lia.
        -- rewrite time_path_cons'. simpl rc_path. unfold rc_dur. simpl rc_t0. simpl rc_t1. specialize (K' q). lia.
Qed.

(* ---- the calls still open at the end ---- *)
Lemma close_ref_d : forall tid last st carry p (Oo : path -> N) Kf Df Tf,
  stack_ok_c last carry st -> p = rpath (frames_of st) ->
  (forall q, q <> [] -> Df q = Kf q + (Oo q + open_c q p carry st)) -> (forall q, Kf q <= Tf q) ->
  exists Kf',
    (forall q, q <> [] -> Df q + child_time_of q (close_ref tid last (frames_of st)) = Kf' q + Oo q)
    /\ (forall q, Kf' q <= Tf q + time_path q (close_ref tid last (frames_of st))).
Proof.
  intros tid last. induction st as [|f rest IH]; intros carry p Oo Kf Df Tf Hs Hp HD HK.
  - exists Kf. simpl. split; intros q; [intros Hq; specialize (HD q Hq); unfold open_c in HD; simpl in HD; lia|rewrite N.add_0_r; apply HK].
  - simpl in Hs. destruct Hs as [Hs1 Hs2].
    simpl frames_of in Hp. rewrite rpath_cons in Hp.
    set (delta := last - f_start f).
    assert (Hpk : removelast p = rpath (frames_of rest)) by (rewrite Hp; apply removelast_last).
    assert (Hs' : stack_ok_c last delta rest).
    { destruct rest as [|f2 r2]; [exact I|]. simpl in Hs2. destruct Hs2 as [Hs3 Hs4]. simpl. split; [unfold delta; lia|exact Hs4]. }
    destruct (IH delta (rpath (frames_of rest)) Oo
                 (fun q => Kf q + ind (path_eqb q p) (f_child f + carry))
                 (fun q => Df q + ind (path_eqb q (rpath (frames_of rest))) delta)
                 (fun q => Tf q + ind (path_eqb q p) delta) Hs' eq_refl) as [Kf' [D' K']].
    + intros q Hq. specialize (HD q Hq). unfold open_c in HD |- *. simpl open_in in HD. rewrite Hpk in HD.
      destruct (path_eqb q p) eqn:Eqp.
      * apply path_eqb_eq in Eqp.
        assert (Eqk : path_eqb q (rpath (frames_of rest)) = false).
        { rewrite Eqp, Hp. apply path_eqb_neq. intros E. apply (f_equal (@length name)) in E. rewrite app_length in E. simpl in E. lia. }
        rewrite Eqk. unfold ind. destruct rest; lia.
      * destruct (path_eqb q (rpath (frames_of rest))) eqn:Eqk.
        -- apply path_eqb_eq in Eqk. destruct rest as [|f2 r2]; [simpl in Eqk; contradiction|]. unfold ind. lia.
        -- unfold ind. destruct rest; lia.
    + intros q. specialize (HK q). unfold ind. destruct (path_eqb q p); [unfold delta|]; lia.
    + exists Kf'. simpl frames_of. simpl close_ref. split; intros q.
      * intros Hq. rewrite child_time_cons. simpl rc_path. rewrite rpath_cons, removelast_last.
        unfold rc_dur. simpl rc_t0. simpl rc_t1. fold delta. rewrite <- (D' q Hq). lia.
      * rewrite time_path_cons'. simpl rc_path. rewrite rpath_cons, <- Hp. unfold rc_dur. simpl rc_t0. simpl rc_t1. fold delta.
        specialize (K' q). lia.
Qed.

Lemma close_all_d : forall (mt : list (N * tstate)) g st ls tids Kf Df Tf,
  (forall tid, In tid tids -> rel_task g (t_get tid mt) (r_get tid st) (l_get tid ls)) ->
  (forall q, q <> [] -> Df q = Kf q + Osum q tids mt) -> (forall q, Kf q <= Tf q) ->
  exists Kf',
    (forall q, q <> [] -> Df q + child_time_of q (flat_map (fun tid => close_ref tid (l_get tid ls) (r_get tid st)) tids) = Kf' q)
    /\ (forall q, Kf' q <= Tf q + time_path q (flat_map (fun tid => close_ref tid (l_get tid ls) (r_get tid st)) tids)).
Proof.
  intros mt g st ls. induction tids as [|a r IH]; intros Kf Df Tf R HD HK.
  - exists Kf. simpl. split; intros q; [intros Hq; specialize (HD q Hq); simpl in HD; lia|rewrite N.add_0_r; apply HK].
  - pose proof (R a (or_introl eq_refl)) as [Hf [Hp [_ [Hs [Hlast _]]]]].
    assert (Hs0 : stack_ok_c (l_get a ls) 0 (ts_stack (t_get a mt))).
    { rewrite <- Hlast. destruct (ts_stack (t_get a mt)) as [|f rest]; [exact I|]. simpl in *. destruct Hs. split; [lia|assumption]. }
    destruct (close_ref_d a (l_get a ls) (ts_stack (t_get a mt)) 0 (ts_path (t_get a mt)) (fun q => Osum q r mt) Kf Df Tf Hs0)
      as [K1 [D1 T1]].
    + rewrite Hf. exact Hp.
    + intros q Hq. rewrite open_c_zero. specialize (HD q Hq). simpl in HD. unfold open_ts in HD. lia.
    + exact HK.
    + rewrite Hf in D1, T1.
      destruct (IH K1 (fun q => Df q + child_time_of q (close_ref a (l_get a ls) (r_get a st)))
                   (fun q => Tf q + time_path q (close_ref a (l_get a ls) (r_get a st)))
                   (fun tid Ht => R tid (or_intror Ht)) D1 T1) as [K2 [D2 T2]].
      exists K2. simpl flat_map. split; intros q.
      * intros Hq. rewrite child_time_app, <- (D2 q Hq). lia.
      * rewrite time_path_app. specialize (T2 q). lia.
Qed.

(* CALLEES RUN INSIDE THEIR CALLER: along every non-empty name path, the total duration of the calls made from the
   calls on that path is at most the total duration of those calls *)
Theorem child_le_time : forall tids s q,
  wf_stream s = true -> NoDup tids -> (forall r, In r s -> In (fst r) tids) -> q <> [] ->
  child_time_of q (ref_calls tids s) <= time_path q (ref_calls tids s).
Proof.
  intros tids s q Hwf ND Hcov Hq. unfold wf_stream in Hwf. apply andb_prop in Hwf. destruct Hwf as [Hwf Hmono].
  destruct (run_inv 0 s (m_init []) [] [] (fun _ => 0) (fun _ => 0) (rel_init []) Hwf Hmono) as [R _].
  { intros q'. apply stat_root0. reflexivity. }
  { intros q'. change (g_root (m_g (m_init []))) with (root0 []). unfold time_at. rewrite stat_root0; reflexivity. }
  destruct (run_inv_d 0 tids s (m_init []) [] [] (fun _ => 0) (fun _ => 0) (fun _ => 0) ND Hcov (rel_init []) Hwf Hmono)
    as [K1 [D1 T1]].
  { intros q' _. simpl m_t. rewrite Osum_nil. reflexivity. }
  { intros q'. lia. }
  destruct (close_all_d _ _ _ _ tids K1 _ _ (fun tid _ => R tid) D1 T1) as [K2 [D2 T2]].
  unfold ref_calls. destruct (ref_calls_run [] s) as [cs st'] eqn:E. simpl fst in *. simpl snd in *.
  rewrite child_time_app, time_path_app.
  assert (F : forall tid, last_time tid s 0 = l_get tid (lasts_run [] s)) by (intros tid; rewrite lasts_run_last_time; reflexivity).
  rewrite (flat_map_ext _ _ (fun tid => f_equal (fun l => close_ref tid l (r_get tid st')) (F tid))).
  specialize (D2 q Hq). specialize (T2 q). lia.
Qed.

Lemma sampled_le_child : forall sample q cs, sampled_child_time sample q cs <= child_time_of q cs.
Proof.
  intros sample q cs. induction cs as [|c cs IH]; [apply N.le_refl|].
  unfold sampled_child_time, child_time_of in *. simpl.
  destruct (path_eqb q (removelast (rc_path c))); [|exact IH].
  assert (rc_dur c / sample * sample <= rc_dur c).
  { destruct (N.eq_dec sample 0) as [->|Hs]; [rewrite N.mul_0_r; lia|]. rewrite N.mul_comm. apply N.mul_div_le. exact Hs. }
  lia.
Qed.
