(* C15 - what graph / flame graph / graphviz / mermaid print, in terms of the trace *)
From Coq Require Import NArith List Bool Lia PeanoNat.
Import ListNotations.
Require Import UV.C15.Model UV.C15.ProofsTree UV.C15.ProofsRun UV.C15.ProofsWalk.
Local Open Scope N_scope.

(* ---- names ---- *)
Lemma find_path_name : forall p n m, find_path p n = Some m -> p <> [] -> n_name m = last p [].
Proof.
  induction p as [|x p IH]; intros n m H Hne; [contradiction|].
  simpl in H. destruct (find_child x (n_kids n)) as [k|] eqn:F; [|discriminate].
  destruct (find_child_some _ _ _ F) as [_ Hk].
  destruct p as [|y p].
  - simpl in H. inversion H; subst. reflexivity.
  - rewrite (IH k m H) by discriminate. reflexivity.
Qed.

Lemma upd_path_root_name : forall p f n, name_pres f -> n_name (upd_path p f n) = n_name n.
Proof. intros. apply upd_path_name_pres. assumption. Qed.
Lemma name_g_enter : forall p x g, n_name (g_root (g_enter p x g)) = n_name (g_root g).
Proof.
  intros p x g. destruct (find_path p (g_root g)) as [m|] eqn:F.
  - rewrite (g_enter_root p x g m F). apply upd_path_root_name, enter_fn_name.
  - unfold g_enter. rewrite F. reflexivity.
Qed.
Lemma name_g_exit : forall sample p a b g, n_name (g_root (g_exit sample p a b g)) = n_name (g_root g).
Proof.
  intros. unfold g_exit. simpl.
  assert (E : n_name (upd_path p (add_times a b) (g_root g)) = n_name (g_root g)) by (apply upd_path_root_name, add_times_name).
  destruct (sample =? 0); [exact E|]. destruct p; [exact E|].
  rewrite upd_path_root_name by apply adjust_child_name. exact E.
Qed.
Lemma name_step : forall sample m r, n_name (g_root (m_g (step sample m r))) = n_name (g_root (m_g m)).
Proof.
  intros sample m [tid [x t|x t]]; unfold step.
  - cbn [m_g]. apply name_g_enter.
  - destruct (ts_stack (t_get tid (m_t m))); cbn [m_g]; [reflexivity|apply name_g_exit].
Qed.
Lemma name_run : forall sample s m, n_name (g_root (m_g (fold_left (step sample) s m))) = n_name (g_root (m_g m)).
Proof. intros sample. induction s as [|r s IH]; intros m; simpl; [reflexivity|]. rewrite IH. apply name_step. Qed.
Lemma name_close_frames : forall sample last st carry p g,
  n_name (g_root (fst (close_frames sample last carry st p g))) = n_name (g_root g).
Proof.
  intros sample last. induction st as [|f r IH]; intros carry p g; simpl; [reflexivity|].
  destruct (last <? f_start f); [apply IH|]. rewrite IH. apply name_g_exit.
Qed.
Lemma name_close_tasks : forall sample tids m, n_name (g_root (m_g (close_tasks sample tids m))) = n_name (g_root (m_g m)).
Proof.
  intros sample. induction tids as [|tid r IH]; intros m; simpl; [reflexivity|].
  pose proof (name_close_frames sample (ts_last (t_get tid (m_t m))) (ts_stack (t_get tid (m_t m))) 0
                                (ts_path (t_get tid (m_t m))) (m_g m)) as E.
  destruct (close_frames sample (ts_last (t_get tid (m_t m))) 0 (ts_stack (t_get tid (m_t m)))
                         (ts_path (t_get tid (m_t m))) (m_g m)) as [g' p']. simpl in E.
  rewrite IH. cbn [m_g]. exact E.
Qed.
Lemma name_graph_build : forall sample rootname tids s, n_name (graph_build sample rootname tids s) = rootname.
Proof. intros. unfold graph_build. rewrite name_close_tasks, name_run. reflexivity. Qed.

Lemma last_default : forall (A : Type) (l : list A) d d', l <> [] -> last l d = last l d'.
Proof.
  intros A l d d'. induction l as [|a l IH]; intros H; [contradiction|].
  destruct l as [|b l]; [reflexivity|]. change (last (a :: b :: l) d) with (last (b :: l) d).
  change (last (a :: b :: l) d') with (last (b :: l) d'). apply IH. discriminate.
Qed.

(* ---- the reference lists ---- *)
Lemma count_path_in : forall q l, count_path q l <> 0 -> In q l.
Proof.
  intros q l. induction l as [|p l IH]; simpl; intros H; [contradiction|].
  destruct (path_eqb q p) eqn:E; [left; symmetry; apply path_eqb_eq; exact E|right; apply IH; exact H].
Qed.
Lemma ref_entries_nonempty : forall s st q, In q (ref_entries st s) -> q <> [].
Proof.
  induction s as [|[tid [x t|x t]] s IH]; intros st q H; simpl in H; [contradiction| |].
  - destruct H as [H|H]; [|apply (IH _ _ H)]. subst q. rewrite rpath_cons. destruct (rpath (r_get tid st)); discriminate.
  - apply (IH _ _ H).
Qed.

Lemma stat_some : forall sel q n, stat sel q n <> 0 -> exists m, find_path q n = Some m /\ sel m = stat sel q n.
Proof. intros sel q n H. unfold stat in *. destruct (find_path q n) as [m|]; [exists m; split; reflexivity|contradiction]. Qed.

(* ---- every printed entry, and every path of the trace ---- *)
Section Outputs.
  Variables (rootname : name) (tids : list N) (s : stream).
  Hypothesis Hwf : wf_stream s = true.
  Hypothesis Hnd : NoDup tids.
  Let g := graph_build 0 rootname tids s.

  (* what the walk visits is a node of the aggregation: right count, right time, right names *)
  Theorem walk_faithful : forall e, In e (walk_root g) ->
    n_calls (w_node e) = count_path (w_path e) (ref_entries [] s)
    /\ n_time (w_node e) = time_path (w_path e) (ref_calls tids s) mod W64
    /\ n_name (w_node e) = last (w_path e) []
    /\ n_name (w_par e) = last (removelast (w_path e)) rootname.
  Proof.
    intros e He. apply (walk_root_spec g e (uniq_graph_build 0 rootname tids s)) in He.
    destruct He as [Hne [Hn Hp]].
    destruct (graph_sums rootname tids s (w_path e) Hwf Hnd) as [C T]. fold g in C, T.
    unfold calls_at, time_at, stat in C, T. rewrite Hn in C, T.
    repeat split; try assumption.
    - apply (find_path_name _ _ _ Hn Hne).
    - destruct (removelast (w_path e)) as [|y r] eqn:E.
      + simpl in Hp. inversion Hp. subst. apply name_graph_build.
      + rewrite (find_path_name _ _ _ Hp) by discriminate. apply last_default. discriminate.
  Qed.

  (* every name path along which the trace has a call is visited, exactly once *)
  Theorem walk_complete : forall p, count_path p (ref_entries [] s) <> 0 ->
    exists e, In e (walk_root g) /\ w_path e = p.
  Proof.
    intros p Hc.
    assert (Hne : p <> []) by (apply (ref_entries_nonempty s [] p), count_path_in, Hc).
    destruct (graph_sums rootname tids s p Hwf Hnd) as [C _]. fold g in C.
    assert (Hc' : calls_at p g <> 0) by (rewrite C; exact Hc).
    destruct (stat_some n_calls p g Hc') as [m [Hm _]].
    assert (Hpar : exists par, find_path (removelast p) g = Some par).
    { rewrite (app_removelast_last [] Hne) in Hm. apply (valid_prefix _ _ _ _ Hm). }
    destruct Hpar as [par Hpar].
    exists (p, par, m). split; [|reflexivity].
    apply (walk_root_spec g _ (uniq_graph_build 0 rootname tids s)). repeat split; assumption.
  Qed.
  Theorem walk_once : NoDup (map w_path (walk_root g)).
  Proof. apply walk_root_nodup, uniq_graph_build. Qed.

  (* ---- dump --flame-graph without sampling: one line per call path, count = number of calls ---- *)
  Lemma flame_count0 : forall n, flame_count 0 n = n_calls n.
  Proof. intros n. unfold flame_count. change (0 =? 0) with true. rewrite orb_true_r. reflexivity. Qed.
  Lemma flame_rows_in : forall p c, In (p, c) (flame_rows 0 g) <->
    exists e, In e (walk_root g) /\ w_path e = p /\ n_calls (w_node e) = c /\ c <> 0.
  Proof.
    intros p c. unfold flame_rows. rewrite in_flat_map. split.
    - intros [e [He H]]. rewrite flame_count0 in H. destruct (n_calls (w_node e) =? 0) eqn:Z; [contradiction|].
      destruct H as [H|[]]. inversion H; subst. exists e. apply N.eqb_neq in Z. repeat split; assumption.
    - intros [e [He [Hp [Hc Hz]]]]. exists e. split; [exact He|]. rewrite flame_count0.
      apply N.eqb_neq in Hz. rewrite <- Hc in Hz. rewrite Hz. left. congruence.
  Qed.
  Theorem flame_count_lines : forall p c,
    In (p, c) (flame_rows 0 g) <-> (c = count_path p (ref_entries [] s) /\ c <> 0).
  Proof.
    intros p c. rewrite flame_rows_in. split.
    - intros [e [He [Hp [Hc Hz]]]]. destruct (walk_faithful e He) as [C _]. subst. split; [exact C|exact Hz].
    - intros [Hc Hz]. subst c. destruct (walk_complete p Hz) as [e [He Hp]]. exists e.
      destruct (walk_faithful e He) as [C _]. rewrite Hp in C. repeat split; assumption.
  Qed.
  Lemma nodup_filter_map : forall (A B C : Type) (f : A -> B) (v : A -> C) (b : A -> bool) (l : list A),
    NoDup (map f l) -> NoDup (map fst (flat_map (fun e => if b e then [] else [(f e, v e)]) l)).
  Proof.
    intros A B C f v b l. induction l as [|a r IH]; simpl; intros H; [constructor|].
    inversion H as [|? ? Hnot H']; subst. destruct (b a); simpl; [apply IH, H'|].
    constructor; [|apply IH, H'].
    intros Hin. apply Hnot. clear -Hin. induction r as [|x r IHr]; simpl in *; [contradiction|].
    destruct (b x); simpl in Hin; [right; apply IHr, Hin|]. destruct Hin as [E|Hin]; [left; exact E|right; apply IHr, Hin].
  Qed.
  Theorem flame_one_line_per_path : NoDup (map fst (flame_rows 0 g)).
  Proof.
    unfold flame_rows.
    apply (nodup_filter_map _ _ _ w_path (fun e => flame_count 0 (w_node e)) (fun e => flame_count 0 (w_node e) =? 0)).
    exact walk_once.
  Qed.

  (* ---- dump --graphviz: one edge line per call path, labelled with the number of calls along it ---- *)
  Theorem dot_edges : forall a b c, In (a, b, c) (dot_rows g) <->
    exists p, c = count_path p (ref_entries [] s) /\ c <> 0 /\ b = last p [] /\ a = last (removelast p) rootname.
  Proof.
    intros a b c. unfold dot_rows. rewrite in_flat_map. split.
    - intros [e [He H]]. destruct (n_calls (w_node e) =? 0) eqn:Z; [contradiction|].
      destruct H as [H|[]]. inversion H; subst. apply N.eqb_neq in Z.
      destruct (walk_faithful e He) as [C [_ [N1 N2]]]. exists (w_path e). rewrite <- C. repeat split; assumption.
    - intros [p [Hc [Hz [Hb Ha]]]]. subst c. destruct (walk_complete p Hz) as [e [He Hp]]. exists e. split; [exact He|].
      destruct (walk_faithful e He) as [C [_ [N1 N2]]]. rewrite Hp in C, N1, N2.
      apply N.eqb_neq in Hz. rewrite <- C in Hz. rewrite Hz. left. rewrite C, N1, N2. subst. reflexivity.
  Qed.

  (* ---- dump --mermaid: the |n| label of every edge line ---- *)
  Theorem mermaid_edges : forall e, In e (walk_root g) ->
    n_calls (w_node e) = count_path (w_path e) (ref_entries [] s)
    /\ n_name (w_node e) = last (w_path e) [] /\ n_name (w_par e) = last (removelast (w_path e)) rootname.
  Proof. intros e He. destruct (walk_faithful e He) as [C [_ [N1 N2]]]. repeat split; assumption. Qed.

  (* ---- uftrace graph: the rows below the root line: depth, name, nr_calls and TOTAL TIME field ---- *)
  Theorem graph_rows_faithful : forall d x c t, In (d, x, c, t) (tl (graph_rows g)) ->
    exists p, d = N.of_nat (length p) /\ x = last p [] /\ c = count_path p (ref_entries [] s)
              /\ t = time_unit (time_path p (ref_calls tids s) mod W64).
  Proof.
    intros d x c t H. unfold graph_rows in H. simpl tl in H. apply in_map_iff in H. destruct H as [e [E He]].
    inversion E; subst. destruct (walk_faithful e He) as [C [T [N1 _]]].
    exists (w_path e). repeat split; try assumption; congruence.
  Qed.
  Theorem graph_rows_complete : forall p, count_path p (ref_entries [] s) <> 0 ->
    In (N.of_nat (length p), last p [], count_path p (ref_entries [] s),
        time_unit (time_path p (ref_calls tids s) mod W64)) (tl (graph_rows g)).
  Proof.
    intros p Hc. destruct (walk_complete p Hc) as [e [He Hp]]. destruct (walk_faithful e He) as [C [T [N1 _]]].
    unfold graph_rows. simpl tl. apply in_map_iff. exists e. split; [|exact He].
    rewrite C, T, N1, Hp. reflexivity.
  Qed.
End Outputs.

(* ---- the count field of a flame line: cut to the number of characters of the path text ---- *)
Theorem flame_text_fits : forall l, flame_fits l = true -> flame_text l = flame_text_full l.
Proof.
  intros [j c] H. unfold flame_fits, flame_text, flame_text_full in *. simpl in *.
  apply PeanoNat.Nat.leb_le in H. rewrite firstn_all2 by exact H. reflexivity.
Qed.
(* f called 13 times (1 us each): the graph has the right count, the printed line says 1 *)
Definition trunc_witness : stream :=
  flat_map (fun i => [(100, Ent [102] (5000 + 2000 * i)); (100, Ext [102] (6000 + 2000 * i))])
           (map N.of_nat (seq 0 13)).
Theorem flame_truncation_refuted :
  wf_stream trunc_witness = true
  /\ flame_rows 0 (graph_build 0 [] [100] trunc_witness) = [([[102]], 13)]
  /\ map flame_text (flame_lines 0 (graph_build 0 [] [100] trunc_witness)) = [[102; 32; 49]]       (* f 1 *)
  /\ map flame_text_full (flame_lines 0 (graph_build 0 [] [100] trunc_witness)) = [[102; 32; 49; 51]].   (* f 13 *)
Proof. vm_compute. repeat split; reflexivity. Qed.
