(* C15 - the whole text of dump --chrome is a JSON document *)
From Coq Require Import NArith ZArith List Bool Lia.
From Coq Require Import ZifyBool ZifyN ZifyNat.
Import ListNotations.
Require Import UV.C15.Model UV.C15.Doc UV.C15.ProofsJson.
Local Open Scope N_scope.
Ltac Zify.zify_post_hook ::= Z.div_mod_to_equations.

Lemma jrun_app : forall a b st,
  jrun st (a ++ b) = match jrun st a with Some st' => jrun st' b | None => None end.
Proof.
  induction a as [|c a IH]; intros b st; simpl; [reflexivity|].
  destruct (jstep st c); [apply IH|reflexivity].
Qed.

(* ---- strings ---- *)
Lemma lex_run_done : forall s, lex_run S_done s = match s with [] => Some S_done | _ => None end.
Proof. destruct s; reflexivity. Qed.

Lemma jrun_str : forall k stk body l l',
  lex_run l body = Some l' -> l' <> S_done -> jrun (M_str k l, stk) body = Some (M_str k l', stk).
Proof.
  intros k stk. induction body as [|c body IH]; intros l l' H Hn; simpl in *.
  - inversion H. reflexivity.
  - destruct (lex_step l c) as [l1|] eqn:E; [|discriminate].
    destruct l1; try (apply IH; assumption).
    rewrite lex_run_done in H. destruct body; [inversion H; congruence|discriminate].
Qed.
Lemma jrun_str_body : forall k stk body, lex_run S_body body = Some S_body ->
  jrun (M_str k S_body, stk) body = Some (M_str k S_body, stk).
Proof. intros. apply jrun_str; [assumption|discriminate]. Qed.

Lemma escape_bounded_body : forall s room, lex_run S_body (escape_bounded room s) = Some S_body.
Proof.
  induction s as [|c s IH]; intros room; simpl; [reflexivity|].
  destruct (room <=? 5); [reflexivity|]. rewrite lex_run_app, esc_char_body. apply IH.
Qed.
Lemma escape_quoted_cons2 : forall c d r,
  escape_quoted (c :: d :: r) = if (c =? 92) && (d =? 34) then 92 :: 34 :: escape_quoted r
                                else json_escape_char c ++ escape_quoted (d :: r).
Proof. reflexivity. Qed.
Lemma escape_quoted_body : forall n s, (length s <= n)%nat -> lex_run S_body (escape_quoted s) = Some S_body.
Proof.
  induction n as [|n IH]; intros s H.
  - destruct s; [reflexivity|simpl in H; lia].
  - destruct s as [|c [|d r]]; [reflexivity| |].
    + simpl. apply esc_char_body.
    + rewrite escape_quoted_cons2. destruct ((c =? 92) && (d =? 34)) eqn:E.
      * apply andb_prop in E. destruct E as [E1 E2]. apply N.eqb_eq in E1, E2. subst.
        change (lex_run S_body (92 :: 34 :: escape_quoted r)) with (lex_run S_body (escape_quoted r)).
        apply IH. simpl in H. lia.
      * rewrite lex_run_app, esc_char_body. apply IH. simpl in H |- *. lia.
Qed.
Definition plain2 (c : N) : bool := plain_byte c && negb (c =? 34).
Lemma plain2_body : forall s, forallb plain2 s = true -> lex_run S_body s = Some S_body.
Proof.
  induction s as [|c s IH]; intros H; [reflexivity|]. simpl in H.
  apply andb_prop in H. destruct H as [Hc Hs]. unfold plain2, plain_byte in Hc.
  assert (E : lex_step S_body c = Some S_body).
  { unfold lex_step.
    destruct (c =? 34) eqn:Q; [rewrite andb_false_r in Hc; discriminate|].
    destruct (c =? 92) eqn:B; [simpl in Hc; rewrite andb_false_r in Hc; discriminate|].
    assert (c <? 32 = false) as -> by lia. assert (c <? 128 = true) as -> by lia. reflexivity. }
  change (lex_run S_body (c :: s)) with (match lex_step S_body c with Some st' => lex_run st' s | None => None end).
  rewrite E. apply IH, Hs.
Qed.

(* ---- numbers ---- *)
Definition numz (n : nst) : Prop := n = N_zero \/ n = N_int.
Definition all_digits (l : list N) : Prop := Forall (fun c => is_digit c = true) l.

Lemma jrun_digits : forall stk l, all_digits l -> jrun (M_num N_int, stk) l = Some (M_num N_int, stk).
Proof.
  intros stk l H. induction H as [|c l Hc Hl IH]; simpl; [reflexivity|]. rewrite Hc. exact IH.
Qed.

Lemma dec_aux_S : forall f n acc,
  dec_aux (S f) n acc = if n / 10 =? 0 then (48 + n mod 10) :: acc else dec_aux f (n / 10) ((48 + n mod 10) :: acc).
Proof. reflexivity. Qed.
Lemma dec_aux_shape : forall fuel n acc, 0 < n -> n < 10 ^ N.of_nat fuel ->
  exists d ds, dec_aux fuel n acc = d :: ds ++ acc /\ is_digit19 d = true /\ all_digits ds.
Proof.
  induction fuel as [|f IH]; intros n acc Hp Hb.
  - simpl in Hb. lia.
  - rewrite dec_aux_S. destruct (n / 10 =? 0) eqn:Z.
    + exists (48 + n mod 10), []. split; [reflexivity|]. split; [|constructor].
      unfold is_digit19. lia.
    + assert (Hb' : n / 10 < 10 ^ N.of_nat f).
      { rewrite Nat2N.inj_succ, N.pow_succ_r' in Hb. apply N.div_lt_upper_bound; lia. }
      destruct (IH (n / 10) ((48 + n mod 10) :: acc)) as [d [ds [E [Hd Hds]]]]; [lia|exact Hb'|].
      exists d, (ds ++ [48 + n mod 10]). split; [rewrite E, <- app_assoc; reflexivity|]. split; [exact Hd|].
      apply Forall_app. split; [exact Hds|]. constructor; [|constructor]. unfold is_digit. lia.
Qed.

Definition BIG : N := 10 ^ 40.
Lemma jrun_dec : forall n b stk, n < BIG ->
  exists nz, numz nz /\ jrun (M_val b, stk) (dec n) = Some (M_num nz, stk).
Proof.
  intros n b stk Hb. destruct (N.eq_dec n 0) as [->|Hn].
  - exists N_zero. split; [left; reflexivity|]. reflexivity.
  - destruct (dec_aux_shape 40 n [] ltac:(lia) Hb) as [d [ds [E [Hd Hds]]]].
    exists N_int. split; [right; reflexivity|]. unfold dec. rewrite E, app_nil_r.
    simpl jrun. unfold is_digit19 in Hd.
    assert (is_ws d = false) as -> by (unfold is_ws; lia).
    assert (d =? 34 = false) as -> by lia. assert (d =? 123 = false) as -> by lia.
    assert (d =? 91 = false) as -> by lia. assert (d =? 93 = false) as -> by lia.
    assert (d =? 45 = false) as -> by lia. assert (d =? 48 = false) as -> by lia.
    unfold is_digit19. rewrite Hd. apply jrun_digits, Hds.
Qed.

Lemma d3_digits : forall r, r < 1000 -> all_digits (d3 r).
Proof. intros r H. unfold d3, all_digits. repeat constructor; unfold is_digit; lia. Qed.
Lemma jrun_cons : forall st c r, jrun st (c :: r) = match jstep st c with Some st' => jrun st' r | None => None end.
Proof. reflexivity. Qed.
Lemma jrun_digits_frac : forall stk l, all_digits l -> jrun (M_num N_frac, stk) l = Some (M_num N_frac, stk).
Proof.
  intros stk l H. induction H as [|c l Hc Hl IH]; [reflexivity|]. rewrite jrun_cons. unfold jstep, num_step. rewrite Hc. exact IH.
Qed.
Lemma jrun_frac_gen : forall nz stk ds, numz nz -> ds <> [] -> all_digits ds ->
  jrun (M_num nz, stk) (46 :: ds) = Some (M_num N_frac, stk).
Proof.
  intros nz stk ds Hz Hne D. destruct D as [|d ds D1 D']; [contradiction|].
  rewrite jrun_cons.
  assert (E : jstep (M_num nz, stk) 46 = Some (M_num N_dot, stk)) by (destruct Hz as [-> | ->]; reflexivity).
  rewrite E, jrun_cons. unfold jstep, num_step. rewrite D1. apply jrun_digits_frac, D'.
Qed.
Lemma jrun_frac : forall nz stk r, numz nz -> r < 1000 ->
  jrun (M_num nz, stk) (46 :: d3 r) = Some (M_num N_frac, stk).
Proof.
  intros nz stk r Hz Hr. apply jrun_frac_gen; [exact Hz|unfold d3; discriminate|apply d3_digits, Hr].
Qed.

Lemma jrun_app_some : forall st a b st', jrun st a = Some st' -> jrun st (a ++ b) = jrun st' b.
Proof. intros st a b st' H. rewrite jrun_app, H. reflexivity. Qed.
Lemma jrun_frac_app : forall nz stk r rest, numz nz -> r < 1000 ->
  jrun (M_num nz, stk) (46 :: d3 r ++ rest) = jrun (M_num N_frac, stk) rest.
Proof.
  intros nz stk r rest Hz Hr. change (46 :: d3 r ++ rest) with ((46 :: d3 r) ++ rest).
  apply jrun_app_some, jrun_frac; assumption.
Qed.
Lemma jrun_body_app : forall k stk body rest, lex_run S_body body = Some S_body ->
  jrun (M_str k S_body, stk) (body ++ rest) = jrun (M_str k S_body, stk) rest.
Proof. intros. apply jrun_app_some, jrun_str_body. assumption. Qed.

Lemma digits_body : forall l, all_digits l -> lex_run S_body l = Some S_body.
Proof.
  intros l H. induction H as [|c l Hc Hl IH]; [reflexivity|].
  change (lex_run S_body (c :: l)) with (match lex_step S_body c with Some st' => lex_run st' l | None => None end).
  assert (E : lex_step S_body c = Some S_body).
  { unfold lex_step. unfold is_digit in Hc.
    assert (c =? 34 = false) as -> by lia. assert (c =? 92 = false) as -> by lia.
    assert (c <? 32 = false) as -> by lia. assert (c <? 128 = true) as -> by lia. reflexivity. }
  rewrite E. exact IH.
Qed.
Lemma dec_all_digits : forall n, n < BIG -> all_digits (dec n).
Proof.
  intros n Hb. destruct (N.eq_dec n 0) as [->|Hn].
  - repeat constructor.
  - destruct (dec_aux_shape 40 n [] ltac:(lia) Hb) as [d [ds [E [Hd Hds]]]]. unfold dec. rewrite E, app_nil_r.
    constructor; [|exact Hds]. unfold is_digit19 in Hd. unfold is_digit. lia.
Qed.
(* ---- the containers the events live in: the traceEvents array inside the top-level object ---- *)
Definition ARR : list bool := [false; true].
Definition OBJ : list bool := true :: ARR.

Lemma fr_ts : forall b, jrun (M_val b, ARR) s_ts = Some (M_val false, OBJ).
Proof. intros [|]; reflexivity. Qed.
Lemma fr_ph : forall b, jrun (M_num N_frac, OBJ) (s_ph b) = Some (M_val false, OBJ).
Proof. intros [|]; reflexivity. Qed.
Lemma fr_tid : forall nz, numz nz -> jrun (M_num nz, OBJ) s_tid = Some (M_val false, OBJ).
Proof. intros nz [-> | ->]; reflexivity. Qed.
Lemma fr_name : forall nz, numz nz -> jrun (M_num nz, OBJ) s_name = Some (M_str false S_body, OBJ).
Proof. intros nz [-> | ->]; reflexivity. Qed.
Lemma fr_end1 : jrun (M_str false S_body, OBJ) [34; 125] = Some (M_after, ARR).
Proof. reflexivity. Qed.
Lemma fr_args : forall b : bool, jrun (M_str false S_body, OBJ) (if b then s_arguments else s_retval) = Some (M_str false S_body, true :: OBJ).
Proof. intros [|]; reflexivity. Qed.
Lemma fr_end2 : jrun (M_str false S_body, true :: OBJ) [34; 125; 125] = Some (M_after, ARR).
Proof. reflexivity. Qed.
Lemma fr_m1 : forall b, jrun (M_val b, ARR) s_m1 = Some (M_val false, OBJ).
Proof. intros [|]; reflexivity. Qed.
Lemma fr_pname : forall nz (p : bool), numz nz ->
  jrun (M_num nz, OBJ) (if p then s_pname else s_tname) = Some (M_str false S_body, true :: OBJ).
Proof. intros nz [|] [-> | ->]; reflexivity. Qed.

Definition evt_bounded (e : cevt) : Prop :=
  e_time e / 1000 < BIG /\ e_pid e < BIG /\ match e_tid e with Some t => t < BIG | None => True end.

(* one function event is a JSON object *)
Lemma evt_ok : forall e b, evt_bounded e -> jrun (M_val b, ARR) (evt_text e) = Some (M_after, ARR).
Proof.
  intros e b [Ht [Hp Htid]]. unfold evt_text.
  rewrite (jrun_app_some _ _ _ _ (fr_ts b)).
  destruct (jrun_dec (e_time e / 1000) false OBJ Ht) as [nz [Hz E]]. rewrite (jrun_app_some _ _ _ _ E).
  rewrite jrun_frac_app by (try exact Hz; apply N.mod_lt; discriminate).
  rewrite (jrun_app_some _ _ _ _ (fr_ph _)).
  destruct (jrun_dec (e_pid e) false OBJ Hp) as [nz1 [Hz1 E1]]. rewrite (jrun_app_some _ _ _ _ E1).
  assert (T : exists nz2, numz nz2 /\
     forall rest, jrun (M_num nz1, OBJ) (match e_tid e with Some t => s_tid ++ dec t | None => [] end ++ rest)
                  = jrun (M_num nz2, OBJ) rest).
  { destruct (e_tid e) as [t|].
    - destruct (jrun_dec t false OBJ Htid) as [nz2 [Hz2 E2]]. exists nz2. split; [exact Hz2|]. intros rest.
      rewrite <- app_assoc. rewrite (jrun_app_some _ _ _ _ (fr_tid nz1 Hz1)). apply jrun_app_some, E2.
    - exists nz1. split; [exact Hz1|]. reflexivity. }
  destruct T as [nz2 [Hz2 T]]. rewrite T.
  rewrite (jrun_app_some _ _ _ _ (fr_name nz2 Hz2)).
  rewrite jrun_body_app by apply escape_bounded_body.
  destruct (e_arg e) as [raw|].
  - rewrite (jrun_app_some _ _ _ _ (fr_args _)). rewrite jrun_body_app by apply args_text_lex. apply fr_end2.
  - apply fr_end1.
Qed.

(* one metadata event is a JSON object *)
Lemma meta_ok : forall p tid comm b, tid < BIG -> jrun (M_val b, ARR) (meta_text p tid comm) = Some (M_after, ARR).
Proof.
  intros p tid comm b Ht. unfold meta_text.
  rewrite (jrun_app_some _ _ _ _ (fr_m1 b)).
  destruct (jrun_dec tid false OBJ Ht) as [nz [Hz E]]. rewrite (jrun_app_some _ _ _ _ E).
  rewrite (jrun_app_some _ _ _ _ (fr_pname nz p Hz)).
  rewrite jrun_body_app by (apply digits_body, dec_all_digits, Ht).
  change ([93; 32] ++ escape_bounded 80 (cstr comm) ++ [34; 125; 125])
    with (([93; 32] ++ escape_bounded 80 (cstr comm)) ++ [34; 125; 125]) || rewrite app_assoc.
  rewrite jrun_body_app; [apply fr_end2|].
  rewrite lex_run_app. change (lex_run S_body [93; 32]) with (Some S_body). apply escape_bounded_body.
Qed.

(* ---- a list of objects separated by ,\n ---- *)
Definition item_ok (x : list N) : Prop := forall b, jrun (M_val b, ARR) x = Some (M_after, ARR).
Lemma join_sep_ok : forall items, Forall item_ok items -> items <> [] ->
  forall b, jrun (M_val b, ARR) (join_sep items) = Some (M_after, ARR).
Proof.
  induction items as [|x r IH]; intros H Hne b; [contradiction|].
  inversion H as [|? ? Hx Hr]; subst. destruct r as [|y r'].
  - simpl. apply Hx.
  - change (join_sep (x :: y :: r')) with (x ++ sep ++ join_sep (y :: r')).
    rewrite (jrun_app_some _ _ _ _ (Hx b)).
    assert (S : jrun (M_after, ARR) sep = Some (M_val false, ARR)) by reflexivity.
    rewrite (jrun_app_some _ _ _ _ S). apply IH; [exact Hr|discriminate].
Qed.

(* ---- the whole document ---- *)
Definition MET : list bool := [true; true].       (* the metadata object inside the top-level object *)
Lemma fr_head : jrun (M_val false, []) s_head = Some (M_val true, ARR).
Proof. reflexivity. Qed.
Lemma fr_foot1_empty : jrun (M_val true, ARR) s_foot1 = Some (M_str false S_body, MET).
Proof. reflexivity. Qed.
Lemma fr_foot1 : jrun (M_after, ARR) s_foot1 = Some (M_str false S_body, MET).
Proof. reflexivity. Qed.
Lemma fr_foot2 : jrun (M_str false S_body, MET) s_foot2 = Some (M_str false S_body, MET).
Proof. reflexivity. Qed.
Lemma fr_quote : jrun (M_str false S_body, MET) [34] = Some (M_after, MET).
Proof. reflexivity. Qed.
Lemma fr_foot3 : jrun (M_after, MET) s_foot3 = Some (M_str false S_body, MET).
Proof. reflexivity. Qed.
Lemma fr_foot4 : jrun (M_after, MET) s_foot4 = Some (M_after, []).
Proof. reflexivity. Qed.

Lemma metas_ok : forall comms, (forall tc, In tc comms -> fst tc < BIG) ->
  Forall item_ok (flat_map (fun tc => [meta_text true (fst tc) (snd tc); meta_text false (fst tc) (snd tc)]) comms).
Proof.
  induction comms as [|tc r IH]; intros H; [constructor|]. simpl.
  assert (Ht : fst tc < BIG) by (apply H; left; reflexivity).
  constructor; [intros b; apply meta_ok, Ht|]. constructor; [intros b; apply meta_ok, Ht|].
  apply IH. intros x Hx. apply H. right. exact Hx.
Qed.
Lemma evs_ok : forall evts, Forall evt_bounded evts -> Forall item_ok (map evt_text evts).
Proof.
  intros evts H. induction H as [|e r He Hr IH]; [constructor|]. simpl. constructor; [|exact IH].
  intros b. apply evt_ok, He.
Qed.

(* THE TEXT dump --chrome WRITES IS A JSON DOCUMENT - for every list of tasks (also none), every list of function
   events (also none: all records filtered out), every function name, argument string, task name and stored
   command line; the version and the date must not contain a quote, a backslash or a control byte *)
Theorem texts_doc_valid : forall comms evs version date cmdline,
  (forall tc, In tc comms -> fst tc < BIG) -> Forall item_ok evs ->
  forallb plain2 version = true -> forallb plain2 date = true ->
  json_ok (chrome_doc_texts true comms evs version date cmdline) = true.
Proof.
  intros comms evs version date cmdline Hc He Hv Hd. unfold json_ok, chrome_doc_texts.
  rewrite (jrun_app_some _ _ _ _ fr_head).
  set (items := flat_map (fun tc => [meta_text true (fst tc) (snd tc); meta_text false (fst tc) (snd tc)]) comms ++ evs).
  assert (Hi : Forall item_ok items) by (apply Forall_app; split; [apply metas_ok, Hc|exact He]).
  assert (S1 : forall rest, jrun (M_val true, ARR) (join_sep items ++ s_foot1 ++ rest) = jrun (M_str false S_body, MET) rest).
  { intros rest. destruct items as [|x r] eqn:Ei.
    - simpl join_sep. simpl app. apply (jrun_app_some _ _ _ _ fr_foot1_empty).
    - rewrite (jrun_app_some _ _ _ _ (join_sep_ok (x :: r) Hi ltac:(discriminate) true)).
      apply (jrun_app_some _ _ _ _ fr_foot1). }
  rewrite S1.
  rewrite jrun_body_app by (apply plain2_body, Hv).
  rewrite (jrun_app_some _ _ _ _ fr_foot2).
  rewrite jrun_body_app by (apply plain2_body, Hd).
  rewrite (jrun_app_some _ _ _ _ fr_quote).
  destruct cmdline as [c|].
  - rewrite <- !app_assoc. rewrite (jrun_app_some _ _ _ _ fr_foot3).
    rewrite jrun_body_app by (apply (escape_quoted_body (length (cstr c))); apply Nat.le_refl).
    rewrite (jrun_app_some _ _ _ _ fr_quote). simpl app. rewrite fr_foot4. reflexivity.
  - simpl app. rewrite fr_foot4. reflexivity.
Qed.

Theorem chrome_doc_valid : forall comms evts version date cmdline,
  (forall tc, In tc comms -> fst tc < BIG) -> Forall evt_bounded evts ->
  forallb plain2 version = true -> forallb plain2 date = true ->
  json_ok (chrome_doc true comms evts version date cmdline) = true.
Proof. intros. unfold chrome_doc. apply texts_doc_valid; try assumption. apply evs_ok. assumption. Qed.

(* ---- renamed tasks: the metadata events in the middle of the list ---- *)
Lemma fr_pname0 : forall nz (p : bool), numz nz ->
  jrun (M_num nz, OBJ) (if p then s_pname0 else s_tname0) = Some (M_str false S_body, true :: OBJ).
Proof. intros nz [|] [-> | ->]; reflexivity. Qed.
Lemma comm_obj_ok : forall (p : bool) tid esc b, tid < BIG -> lex_run S_body esc = Some S_body ->
  jrun (M_val b, ARR) (s_m1 ++ dec tid ++ (if p then s_pname0 else s_tname0) ++ esc ++ [34; 125; 125]) = Some (M_after, ARR).
Proof.
  intros p tid esc b Ht He.
  rewrite (jrun_app_some _ _ _ _ (fr_m1 b)).
  destruct (jrun_dec tid false OBJ Ht) as [nz [Hz E]]. rewrite (jrun_app_some _ _ _ _ E).
  rewrite (jrun_app_some _ _ _ _ (fr_pname0 nz p Hz)).
  rewrite jrun_body_app by exact He. apply fr_end2.
Qed.
Lemma comm_ok : forall pid tid comm, pid < BIG -> tid < BIG -> item_ok (comm_text pid tid comm).
Proof.
  intros pid tid comm Hp Ht b. unfold comm_text.
  pose proof (escape_bounded_body (cstr comm) 80) as He.
  destruct (pid =? tid).
  - rewrite (jrun_app_some _ _ _ _ (comm_obj_ok true tid _ b Ht He)).
    assert (S : jrun (M_after, ARR) sep = Some (M_val false, ARR)) by reflexivity.
    rewrite (jrun_app_some _ _ _ _ S). apply (comm_obj_ok false tid _ false Ht He).
  - rewrite (jrun_app_some _ _ _ _ (fr_m1 b)).
    destruct (jrun_dec pid false OBJ Hp) as [nz [Hz E]]. rewrite (jrun_app_some _ _ _ _ E).
    rewrite (jrun_app_some _ _ _ _ (fr_tid nz Hz)).
    destruct (jrun_dec tid false OBJ Ht) as [nz1 [Hz1 E1]]. rewrite (jrun_app_some _ _ _ _ E1).
    rewrite (jrun_app_some _ _ _ _ (fr_pname nz1 false Hz1)).
    rewrite jrun_body_app by (apply digits_body, dec_all_digits, Ht).
    rewrite app_assoc. rewrite jrun_body_app; [apply fr_end2|].
    rewrite lex_run_app. change (lex_run S_body [93; 32]) with (Some S_body). exact He.
Qed.
Definition item_bounded (it : ditem) : Prop :=
  match it with DEvt e => evt_bounded e | DComm pid tid _ => pid < BIG /\ tid < BIG end.
Lemma items_ok : forall items, Forall item_bounded items -> Forall item_ok (map item_text items).
Proof.
  intros items H. induction H as [|it r Hi Hr IH]; [constructor|]. simpl. constructor; [|exact IH].
  destruct it as [e|pid tid comm]; simpl in *; [intros b; apply evt_ok, Hi|apply comm_ok; tauto].
Qed.
(* the document with renamed tasks among the events *)
Theorem chrome_doc_items_valid : forall comms items version date cmdline,
  (forall tc, In tc comms -> fst tc < BIG) -> Forall item_bounded items ->
  forallb plain2 version = true -> forallb plain2 date = true ->
  json_ok (chrome_doc_items true comms items version date cmdline) = true.
Proof. intros. unfold chrome_doc_items. apply texts_doc_valid; try assumption. apply items_ok. assumption. Qed.

(* the code as it was before 44f79e4: with tasks but no function event the array ends with a comma *)
Theorem chrome_doc_legacy_refuted :
  json_ok (chrome_doc false [(100, [112])] [] [118] [100] None) = false
  /\ json_ok (chrome_doc true [(100, [112])] [] [118] [100] None) = true.
Proof. vm_compute. split; reflexivity. Qed.

(* non-vacuity: a document with two tasks, three events (one with an argument string), a command line *)
Example chrome_doc_example :
  json_ok (chrome_doc true [(100, [112; 34]); (101, [113])]
             [{| e_begin := true; e_pid := 100; e_tid := None; e_name := [109; 34; 10]; e_time := 1234567; e_arg := Some [AStr [97; 9; 0]; AChr 34] |};
              {| e_begin := false; e_pid := 100; e_tid := Some 101; e_name := [102]; e_time := 0; e_arg := None |}]
             [118; 48] [84; 104; 117] (Some [112; 32; 92; 34; 120; 92])) = true.
Proof. vm_compute. reflexivity. Qed.

(* ---- the events of a record stream are bounded when its numbers are ---- *)
Require Import UV.C15.ProofsTree UV.C15.ProofsRun UV.C15.ProofsWalk.

Lemma step_last_bound : forall sample B m r, ev_time (snd r) < B ->
  (forall tid, ts_last (t_get tid (m_t m)) < B) ->
  forall tid, ts_last (t_get tid (m_t (step sample m r))) < B.
Proof.
  intros sample B m [k e] Hr H tid. simpl in Hr. unfold step.
  destruct e as [x t|x t].
  - cbn [m_t]. rewrite t_get_set. destruct (k =? tid); [exact Hr|apply H].
  - destruct (ts_stack (t_get k (m_t m))); cbn [m_t]; rewrite t_get_set; (destruct (k =? tid); [exact Hr|apply H]).
Qed.
Lemma run_last_bound : forall sample B s m, (forall r, In r s -> ev_time (snd r) < B) ->
  (forall tid, ts_last (t_get tid (m_t m)) < B) ->
  forall tid, ts_last (t_get tid (m_t (fold_left (step sample) s m))) < B.
Proof.
  intros sample B. induction s as [|r s IH]; intros m Hs H tid; [apply H|]. simpl.
  apply IH; [intros x Hx; apply Hs; right; exact Hx|].
  apply step_last_bound; [apply Hs; left; reflexivity|exact H].
Qed.

Lemma mk_cevt_bounded : forall tasks tid b x t a,
  (forall tp, In tp tasks -> snd tp < BIG) -> tid < BIG -> t < BIG -> evt_bounded (mk_cevt tasks tid b x t a).
Proof.
  intros tasks tid b x t a Ht Htid Htm. unfold evt_bounded, mk_cevt. simpl.
  assert (Hp : match find (fun p => fst p =? tid) tasks with Some (_, p) => p | None => tid end < BIG).
  { destruct (find (fun p => fst p =? tid) tasks) as [[k p]|] eqn:F; [|exact Htid].
    apply find_some in F. destruct F as [F _]. apply (Ht _ F). }
  split; [|split].
  - apply N.le_lt_trans with t; [|exact Htm]. apply N.div_le_upper_bound; lia.
  - exact Hp.
  - destruct (_ =? tid); [exact I|exact Htid].
Qed.

Lemma close_raw_bounded : forall tasks tid last st,
  (forall tp, In tp tasks -> snd tp < BIG) -> tid < BIG -> last < BIG ->
  Forall evt_bounded (chrome_close_raw tasks tid last st).
Proof.
  intros tasks tid last st Ht Htid Hl. induction st as [|f r IH]; simpl; [constructor|].
  destruct (last <? f_start f); [exact IH|]. constructor; [apply mk_cevt_bounded; assumption|exact IH].
Qed.

Theorem chrome_evts_bounded : forall tasks s args,
  (forall tp, In tp tasks -> fst tp < BIG /\ snd tp < BIG) ->
  (forall r, In r s -> fst r < BIG /\ ev_time (snd r) < BIG) ->
  Forall evt_bounded (chrome_evts tasks s args).
Proof.
  intros tasks s args Ht Hs. unfold chrome_evts, chrome_rec_evts, chrome_close_evts. apply Forall_app. split.
  - apply Forall_forall. intros e He. apply in_map_iff in He. destruct He as [[[tid ev] a] [<- Hin]].
    apply in_combine_l in Hin. destruct (Hs _ Hin) as [H1 H2]. simpl in H1, H2.
    destruct ev as [x t|x t]; apply mk_cevt_bounded; try assumption; intros tp Htp; apply (Ht tp Htp).
  - apply Forall_forall. intros e He. apply in_flat_map in He. destruct He as [tp [Htp He]].
    assert (B : Forall evt_bounded (chrome_close_raw tasks (fst tp)
                 (ts_last (t_get (fst tp) (m_t (fold_left (step 0) s (m_init [])))))
                 (ts_stack (t_get (fst tp) (m_t (fold_left (step 0) s (m_init []))))))).
    { apply close_raw_bounded.
      - intros x Hx. apply (Ht x Hx).
      - apply (Ht tp Htp).
      - apply run_last_bound; [intros r Hr; apply (Hs r Hr)|]. intros tid. simpl. unfold BIG. lia. }
    rewrite Forall_forall in B. apply B, He.
Qed.

(* dump --chrome of a record stream (events as chrome_evts builds them, incl. the closing events) *)
Theorem chrome_stream_doc_valid : forall tasks comms s args version date cmdline,
  (forall tp, In tp tasks -> fst tp < BIG /\ snd tp < BIG) -> (forall tc, In tc comms -> fst tc < BIG) ->
  (forall r, In r s -> fst r < BIG /\ ev_time (snd r) < BIG) ->
  forallb plain2 version = true -> forallb plain2 date = true ->
  json_ok (chrome_doc true comms (chrome_evts tasks s args) version date cmdline) = true.
Proof.
  intros. apply chrome_doc_valid; try assumption. apply chrome_evts_bounded; assumption.
Qed.

(* ---- the events written into the document are the events of the structure theorem ---- *)
Definition cev_of (e : cevt) : cev :=
  {| c_begin := e_begin e; c_pid := e_pid e; c_tid := e_tid e; c_name := shown (e_name e);
     c_q := e_time e / 1000; c_r := e_time e mod 1000 |}.

Lemma combine_fst : forall (A B : Type) (s : list A) (l : list B), (length s <= length l)%nat -> map fst (combine s l) = s.
Proof.
  induction s as [|x s IH]; intros l H; [reflexivity|]. destruct l as [|y l]; [simpl in H; lia|].
  simpl. f_equal. apply IH. simpl in H. lia.
Qed.
Lemma close_raw_decoded : forall tasks tid last st,
  map cev_of (chrome_close_raw tasks tid last st) = chrome_close tasks tid last st.
Proof.
  intros tasks tid last. induction st as [|f r IH]; [reflexivity|]. simpl.
  destruct (last <? f_start f); [exact IH|]. simpl. f_equal. exact IH.
Qed.
Theorem chrome_evts_decoded : forall tasks s args, map cev_of (chrome_evts tasks s args) = chrome_events tasks s.
Proof.
  intros tasks s args. unfold chrome_evts, chrome_rec_evts, chrome_close_evts, chrome_events. rewrite map_app. f_equal.
  - rewrite map_map.
    transitivity (map (chrome_of_record tasks) (map fst (combine s (args ++ repeat None (length s - length args))))).
    + rewrite map_map. apply map_ext. intros [[tid e] a]. destruct e; reflexivity.
    + rewrite combine_fst; [reflexivity|]. rewrite app_length, repeat_length. lia.
  - rewrite map_flat_map'. apply flat_map_ext. intros tp. apply close_raw_decoded.
Qed.

(* a name whose escaped form leaves 5 bytes of the 2047 is written in full *)
Lemma escape_bounded_full : forall s room, N.of_nat (length (json_escape s)) + 5 < room ->
  escape_bounded room s = json_escape s.
Proof.
  induction s as [|c s IH]; intros room H; [reflexivity|].
  change (json_escape (c :: s)) with (json_escape_char c ++ json_escape s) in *.
  rewrite app_length, Nat2N.inj_add in H.
  change (escape_bounded room (c :: s))
    with (if room <=? 5 then [] else json_escape_char c ++ escape_bounded (room - N.of_nat (length (json_escape_char c))) s).
  assert (E : room <=? 5 = false) by (apply N.leb_gt; lia). rewrite E. f_equal. apply IH. lia.
Qed.

(* ---- the items of a record stream with renames ---- *)
Lemma insert_comm_forall : forall (P : ditem -> Prop) tm it l, Forall P l -> P it -> Forall P (insert_comm tm it l).
Proof.
  intros P tm it l H Hi. induction H as [|x r Hx Hr IH]; simpl; [repeat constructor; exact Hi|].
  destruct x as [e|pid tid c].
  - destruct (tm <? e_time e); repeat constructor; assumption.
  - constructor; assumption.
Qed.
Theorem chrome_items_bounded : forall tasks s args renames,
  (forall tp, In tp tasks -> fst tp < BIG /\ snd tp < BIG) ->
  (forall r, In r s -> fst r < BIG /\ ev_time (snd r) < BIG) ->
  (forall r, In r renames -> snd (fst r) < BIG) ->
  Forall item_bounded (chrome_items tasks s args renames).
Proof.
  intros tasks s args renames Ht Hs Hr.
  pose proof (chrome_evts_bounded tasks s args Ht Hs) as B. unfold chrome_evts in B. apply Forall_app in B. destruct B as [B1 B2].
  unfold chrome_items. apply Forall_app. split.
  - assert (G : forall l, Forall item_bounded l ->
              Forall item_bounded (fold_left (fun l r => let '(tm, tid, nm) := r in
                 let pid := match find (fun p => fst p =? tid) tasks with Some (_, p) => p | None => tid end in
                 insert_comm tm (DComm pid tid nm) l) renames l)).
    { induction renames as [|[[tm tid] nm] rs IH]; intros l Hl; [exact Hl|]. simpl. apply IH.
      - intros r Hin. apply Hr. right. exact Hin.
      - apply insert_comm_forall; [exact Hl|]. simpl.
        assert (Htid : tid < BIG) by (apply (Hr (tm, tid, nm)); left; reflexivity).
        split; [|exact Htid].
        destruct (find (fun p => fst p =? tid) tasks) as [[k p]|] eqn:F; [|exact Htid].
        apply find_some in F. destruct F as [F _]. apply (Ht _ F). }
    apply G. apply Forall_forall. intros it Hit. apply in_map_iff in Hit. destruct Hit as [e [<- He]].
    rewrite Forall_forall in B1. apply (B1 e He).
  - apply Forall_forall. intros it Hit. apply in_map_iff in Hit. destruct Hit as [e [<- He]].
    rewrite Forall_forall in B2. apply (B2 e He).
Qed.
Theorem chrome_stream_items_valid : forall tasks comms s args renames version date cmdline,
  (forall tp, In tp tasks -> fst tp < BIG /\ snd tp < BIG) -> (forall tc, In tc comms -> fst tc < BIG) ->
  (forall r, In r s -> fst r < BIG /\ ev_time (snd r) < BIG) -> (forall r, In r renames -> snd (fst r) < BIG) ->
  forallb plain2 version = true -> forallb plain2 date = true ->
  json_ok (chrome_doc_items true comms (chrome_items tasks s args renames) version date cmdline) = true.
Proof. intros. apply chrome_doc_items_valid; try assumption. apply chrome_items_bounded; assumption. Qed.

(* the code as found (before 30262fc) printed the new task name raw *)
Definition comm_text_legacy (tid : N) (comm : list N) : list N :=
  s_m1 ++ dec tid ++ s_pname0 ++ comm ++ [34; 125; 125].
Theorem chrome_comm_legacy_refuted :
  json_ok (chrome_doc_texts true [(100, [112])] [comm_text_legacy 100 [97; 34; 98]] [118] [100] None) = false
  /\ json_ok (chrome_doc_items true [(100, [112])] [DComm 100 100 [97; 34; 98]] [118] [100] None) = true.
Proof. vm_compute. split; reflexivity. Qed.
