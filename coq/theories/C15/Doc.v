(* C15 - the whole text `uftrace dump --chrome` writes, and a JSON validator (RFC 8259) to judge it.
   Model of cmds/dump.c dump_chrome_header / dump_chrome_task_rstack / dump_chrome_footer / json_escape_str
   as they are after the fixes 30fcadd, 42bc68e, 44f79e4.  No proofs in this file. *)
From Coq Require Import NArith List Bool.
Import ListNotations.
Require Import UV.C15.Model.
Local Open Scope N_scope.

(* ------------------------------------------------------------------------------------------ *)
(* 1. JSON validator: a deterministic push-down automaton over the bytes of the document       *)
(* ------------------------------------------------------------------------------------------ *)
Inductive nst := N_minus | N_zero | N_int | N_dot | N_frac | N_e | N_esign | N_exp.
Inductive jmode :=
| M_val (close_ok : bool)        (* a value must follow; ']' may follow instead right after '[' *)
| M_after                        (* a value was completed *)
| M_key (close_ok : bool)        (* a member name must follow; '}' may follow instead right after '{' *)
| M_colon
| M_str (iskey : bool) (l : lst)
| M_num (n : nst)
| M_lit (rest : list N).
(* the stack of open containers, innermost first: true = object, false = array *)
Definition jstate := (jmode * list bool)%type.

Definition is_ws (c : N) : bool := (c =? 32) || (c =? 9) || (c =? 10) || (c =? 13).
Definition is_digit (c : N) : bool := (48 <=? c) && (c <=? 57).
Definition is_digit19 (c : N) : bool := (49 <=? c) && (c <=? 57).

Definition num_step (n : nst) (c : N) : option nst :=
  match n with
  | N_minus => if c =? 48 then Some N_zero else if is_digit19 c then Some N_int else None
  | N_zero => if c =? 46 then Some N_dot else if (c =? 101) || (c =? 69) then Some N_e else None
  | N_int => if is_digit c then Some N_int else if c =? 46 then Some N_dot
             else if (c =? 101) || (c =? 69) then Some N_e else None
  | N_dot => if is_digit c then Some N_frac else None
  | N_frac => if is_digit c then Some N_frac else if (c =? 101) || (c =? 69) then Some N_e else None
  | N_e => if (c =? 43) || (c =? 45) then Some N_esign else if is_digit c then Some N_exp else None
  | N_esign => if is_digit c then Some N_exp else None
  | N_exp => if is_digit c then Some N_exp else None
  end.
Definition num_acc (n : nst) : bool :=
  match n with N_zero | N_int | N_frac | N_exp => true | _ => false end.

Definition after_step (stk : list bool) (c : N) : option jstate :=
  if is_ws c then Some (M_after, stk)
  else match stk with
       | [] => None
       | true :: r => if c =? 44 then Some (M_key false, stk) else if c =? 125 then Some (M_after, r) else None
       | false :: r => if c =? 44 then Some (M_val false, stk) else if c =? 93 then Some (M_after, r) else None
       end.

Definition jstep (st : jstate) (c : N) : option jstate :=
  let '(m, stk) := st in
  match m with
  | M_val close_ok =>
      if is_ws c then Some (M_val close_ok, stk)
      else if c =? 34 then Some (M_str false S_body, stk)
      else if c =? 123 then Some (M_key true, true :: stk)
      else if c =? 91 then Some (M_val true, false :: stk)
      else if c =? 93 then (if close_ok then match stk with false :: r => Some (M_after, r) | _ => None end else None)
      else if c =? 45 then Some (M_num N_minus, stk)
      else if c =? 48 then Some (M_num N_zero, stk)
      else if is_digit19 c then Some (M_num N_int, stk)
      else if c =? 116 then Some (M_lit [114; 117; 101], stk)
      else if c =? 102 then Some (M_lit [97; 108; 115; 101], stk)
      else if c =? 110 then Some (M_lit [117; 108; 108], stk)
      else None
  | M_after => after_step stk c
  | M_key close_ok =>
      if is_ws c then Some (M_key close_ok, stk)
      else if c =? 34 then Some (M_str true S_body, stk)
      else if c =? 125 then (if close_ok then match stk with true :: r => Some (M_after, r) | _ => None end else None)
      else None
  | M_colon => if is_ws c then Some (M_colon, stk) else if c =? 58 then Some (M_val false, stk) else None
  | M_str iskey l =>
      match lex_step l c with
      | Some S_done => Some (if iskey then M_colon else M_after, stk)
      | Some l' => Some (M_str iskey l', stk)
      | None => None
      end
  | M_num n =>
      match num_step n c with
      | Some n' => Some (M_num n', stk)
      | None => if num_acc n then after_step stk c else None
      end
  | M_lit rest =>
      match rest with
      | x :: r => if c =? x then Some (match r with [] => M_after | _ => M_lit r end, stk) else None
      | [] => None
      end
  end.
Fixpoint jrun (st : jstate) (s : list N) : option jstate :=
  match s with
  | [] => Some st
  | c :: r => match jstep st c with Some st' => jrun st' r | None => None end
  end.
(* [s] is exactly one JSON text *)
Definition json_ok (s : list N) : bool :=
  match jrun (M_val false, []) s with
  | Some (M_after, []) => true
  | Some (M_num n, []) => num_acc n
  | _ => false
  end.

(* ------------------------------------------------------------------------------------------ *)
(* 2. the text of dump --chrome                                                               *)
(* ------------------------------------------------------------------------------------------ *)
(* print_json_escaped_char in a loop that stops when no more than 5 bytes of the buffer are left *)
Fixpoint escape_bounded (room : N) (s : list N) : list N :=
  match s with
  | [] => []
  | c :: r => if room <=? 5 then []
              else let e := json_escape_char c in e ++ escape_bounded (room - N.of_nat (length e)) r
  end.
(* json_escape_str(..., quoted = true) on info.cmdline (the buffer is always large enough): a backslash
   directly in front of a double quote was put there by json_quote and is kept *)
Fixpoint escape_quoted (s : list N) : list N :=
  match s with
  | [] => []
  | c :: r =>
      match r with
      | d :: r' => if (c =? 92) && (d =? 34) then 92 :: 34 :: escape_quoted r'
                   else json_escape_char c ++ escape_quoted r
      | [] => json_escape_char c
      end
  end.

Definition d3 (r : N) : list N := [48 + r / 100; 48 + (r / 10) mod 10; 48 + r mod 10].     (* %03d, r < 1000 *)

(* one function record as dump_chrome_task_rstack prints it *)
Record cevt := { e_begin : bool; e_pid : N; e_tid : option N; e_name : list N; e_time : N;
                 e_arg : option (list argv) }.
Definition s_ts : list N := [123; 34; 116; 115; 34; 58].                                   (* {'ts': *)
Definition s_ph (b : bool) : list N := [44; 34; 112; 104; 34; 58; 34; (if b then 66 else 69); 34;
                                        44; 34; 112; 105; 100; 34; 58].                   (* ,'ph':'B','pid': *)
Definition s_tid : list N := [44; 34; 116; 105; 100; 34; 58].                              (* ,'tid': *)
Definition s_name : list N := [44; 34; 110; 97; 109; 101; 34; 58; 34].                    (* ,'name':' *)
Definition s_arguments : list N :=                                                         (* ','args':{'arguments':' *)
  [34; 44; 34; 97; 114; 103; 115; 34; 58; 123; 34; 97; 114; 103; 117; 109; 101; 110; 116; 115; 34; 58; 34].
Definition s_retval : list N :=                                                            (* ','args':{'retval':' *)
  [34; 44; 34; 97; 114; 103; 115; 34; 58; 123; 34; 114; 101; 116; 118; 97; 108; 34; 58; 34].
Definition evt_text (e : cevt) : list N :=
  s_ts ++ dec (e_time e / 1000) ++ 46 :: d3 (e_time e mod 1000) ++ s_ph (e_begin e) ++ dec (e_pid e)
  ++ match e_tid e with Some t => s_tid ++ dec t | None => [] end
  ++ s_name ++ escape_bounded 2047 (e_name e)
  ++ match e_arg e with
     | Some a => (if e_begin e then s_arguments else s_retval) ++ args_text (e_begin e) a ++ [34; 125; 125]
     | None => [34; 125]
     end.

(* the two metadata events of a task in dump_chrome_header; comm = task->comm (at most 15 bytes) *)
Definition s_m1 : list N := [123; 34; 116; 115; 34; 58; 48; 44; 34; 112; 104; 34; 58; 34; 77; 34; 44; 34; 112; 105; 100; 34; 58].
                                                                                           (* {'ts':0,'ph':'M','pid': *)
Definition s_pname : list N :=    (* ,'name':'process_name','args':{'name':'[ *)
  [44; 34; 110; 97; 109; 101; 34; 58; 34; 112; 114; 111; 99; 101; 115; 115; 95; 110; 97; 109; 101; 34; 44;
   34; 97; 114; 103; 115; 34; 58; 123; 34; 110; 97; 109; 101; 34; 58; 34; 91].
Definition s_tname : list N :=    (* ,'name':'thread_name','args':{'name':'[ *)
  [44; 34; 110; 97; 109; 101; 34; 58; 34; 116; 104; 114; 101; 97; 100; 95; 110; 97; 109; 101; 34; 44;
   34; 97; 114; 103; 115; 34; 58; 123; 34; 110; 97; 109; 101; 34; 58; 34; 91].
Definition meta_text (proc : bool) (tid : N) (comm : list N) : list N :=
  s_m1 ++ dec tid ++ (if proc then s_pname else s_tname) ++ dec tid ++ [93; 32]
  ++ escape_bounded 80 (cstr comm) ++ [34; 125; 125].

Definition sep : list N := [44; 10].                                                       (* ,\n *)
Fixpoint join_sep (items : list (list N)) : list N :=
  match items with
  | [] => []
  | [x] => x
  | x :: r => x ++ sep ++ join_sep r
  end.

Definition s_head : list N := [123; 34; 116; 114; 97; 99; 101; 69; 118; 101; 110; 116; 115; 34; 58; 91; 10].  (* {'traceEvents':[\n *)
Definition s_foot1 : list N :=    (* \n], 'displayTimeUnit': 'ns', 'metadata': {\n'version':'uftrace  *)
  [10; 93; 44; 32; 34; 100; 105; 115; 112; 108; 97; 121; 84; 105; 109; 101; 85; 110; 105; 116; 34; 58; 32; 34; 110; 115; 34; 44; 32;
   34; 109; 101; 116; 97; 100; 97; 116; 97; 34; 58; 32; 123; 10;
   34; 118; 101; 114; 115; 105; 111; 110; 34; 58; 34; 117; 102; 116; 114; 97; 99; 101; 32].
Definition s_foot2 : list N :=    (* ',\n'recorded_time':' *)
  [34; 44; 10; 34; 114; 101; 99; 111; 114; 100; 101; 100; 95; 116; 105; 109; 101; 34; 58; 34].
Definition s_foot3 : list N :=    (* ,\n'command_line':' *)
  [44; 10; 34; 99; 111; 109; 109; 97; 110; 100; 95; 108; 105; 110; 101; 34; 58; 34].
Definition s_foot4 : list N := [10; 125; 32; 125; 10].                                     (* \n} }\n *)

(* [fixed] = the separator is written in front of every entry (44f79e4); false = the code as found: every
   metadata event is followed by a comma and the first function event has none in front *)
Definition chrome_doc_texts (fixed : bool) (comms : list (N * list N)) (evs : list (list N))
                            (version date : list N) (cmdline : option (list N)) : list N :=
  let metas := flat_map (fun tc => [meta_text true (fst tc) (snd tc); meta_text false (fst tc) (snd tc)]) comms in
  s_head
  ++ (if fixed then join_sep (metas ++ evs)
      else flat_map (fun m => m ++ sep) metas ++ join_sep evs)
  ++ s_foot1 ++ version ++ s_foot2 ++ date
  ++ [34] ++ match cmdline with Some c => s_foot3 ++ escape_quoted (cstr c) ++ [34] | None => [] end
  ++ s_foot4.
Definition chrome_doc (fixed : bool) (comms : list (N * list N)) (evts : list cevt)
                      (version date : list N) (cmdline : option (list N)) : list N :=
  chrome_doc_texts fixed comms (map evt_text evts) version date cmdline.

(* a task renamed while it runs (perf COMM event; dump_chrome_perf_event after fix 30262fc): metadata events in the
   middle of the list - two for a process, one for a thread *)
Definition s_pname0 : list N := removelast s_pname.          (* ... 'args':{'name':'   without the bracket *)
Definition s_tname0 : list N := removelast s_tname.
Definition comm_text (pid tid : N) (comm : list N) : list N :=
  let esc := escape_bounded 80 (cstr comm) in
  if pid =? tid
  then (s_m1 ++ dec tid ++ s_pname0 ++ esc ++ [34; 125; 125]) ++ sep ++ (s_m1 ++ dec tid ++ s_tname0 ++ esc ++ [34; 125; 125])
  else s_m1 ++ dec pid ++ s_tid ++ dec tid ++ s_tname ++ dec tid ++ [93; 32] ++ esc ++ [34; 125; 125].
Inductive ditem := DEvt (e : cevt) | DComm (pid tid : N) (comm : list N).
Definition item_text (it : ditem) : list N :=
  match it with DEvt e => evt_text e | DComm pid tid comm => comm_text pid tid comm end.
Definition chrome_doc_items (fixed : bool) (comms : list (N * list N)) (items : list ditem)
                            (version date : list N) (cmdline : option (list N)) : list N :=
  chrome_doc_texts fixed comms (map item_text items) version date cmdline.

(* the function records of a stream as events, then the closing events (cf. chrome_events) *)
Definition mk_cevt (tasks : list (N * N)) (tid : N) (b : bool) (x : name) (t : N) (a : option (list argv)) : cevt :=
  let pid := match find (fun p => fst p =? tid) tasks with Some (_, p) => p | None => tid end in
  {| e_begin := b; e_pid := pid; e_tid := (if pid =? tid then None else Some tid); e_name := x; e_time := t; e_arg := a |}.
Fixpoint chrome_close_raw (tasks : list (N * N)) (tid last : N) (st : list frame) : list cevt :=
  match st with
  | [] => []
  | f :: rest => if last <? f_start f then chrome_close_raw tasks tid last rest
                 else mk_cevt tasks tid false (f_name f) last None :: chrome_close_raw tasks tid last rest
  end.
Definition chrome_rec_evts (tasks : list (N * N)) (s : stream) (args : list (option (list argv))) : list cevt :=
  map (fun ra : (N * ev) * option (list argv) =>
         let '((tid, e), a) := ra in
         match e with Ent x t => mk_cevt tasks tid true x t a | Ext x t => mk_cevt tasks tid false x t a end)
      (combine s (args ++ repeat None (length s - length args))).
Definition chrome_close_evts (tasks : list (N * N)) (s : stream) : list cevt :=
  let m := fold_left (step 0) s (m_init []) in
  flat_map (fun tp => let ts := t_get (fst tp) (m_t m) in
                      chrome_close_raw tasks (fst tp) (ts_last ts) (ts_stack ts)) tasks.
Definition chrome_evts (tasks : list (N * N)) (s : stream) (args : list (option (list argv))) : list cevt :=
  chrome_rec_evts tasks s args ++ chrome_close_evts tasks s.
(* the renames (time, tid, new name) take their place among the records by time *)
Fixpoint insert_comm (tm : N) (it : ditem) (l : list ditem) : list ditem :=
  match l with
  | [] => [it]
  | DEvt e :: r => if tm <? e_time e then it :: l else DEvt e :: insert_comm tm it r
  | c :: r => c :: insert_comm tm it r
  end.
Definition chrome_items (tasks : list (N * N)) (s : stream) (args : list (option (list argv)))
                        (renames : list (N * N * list N)) : list ditem :=
  fold_left (fun l r => let '(tm, tid, nm) := r in
                        let pid := match find (fun p => fst p =? tid) tasks with Some (_, p) => p | None => tid end in
                        insert_comm tm (DComm pid tid nm) l)
            renames (map DEvt (chrome_rec_evts tasks s args))
  ++ map DEvt (chrome_close_evts tasks s).

(* ------------------------------------------------------------------------------------------ *)
(* 3. one differential case for the whole document                                            *)
(* ------------------------------------------------------------------------------------------ *)
Record dcase := {
  d_case : case;
  d_comms : list (N * list N);          (* (tid, task->comm) in the order of info.tids *)
  d_version : list N;
  d_date : list N;                      (* as found in the output (mtime of the info file) *)
  d_cmdline : option (list N);          (* the stored command line, None: not in the info mask *)
  d_noev : bool;                        (* run with a filter that removes every record *)
  d_renames : list (N * N * list N);    (* perf COMM events: (time, tid, new name) in time order *)
  d_doc : list N                        (* stdout of the real uftrace dump --chrome *)
}.
Definition model_doc (d : dcase) : list N :=
  let k := d_case d in
  chrome_doc_items true (d_comms d)
             (if d_noev d then [] else chrome_items (k_tasks k) (k_cstream k) (k_args k) (d_renames d))
             (d_version d) (d_date d) (d_cmdline d).
Definition agree_doc (d : dcase) : bool := bytes_eqb (model_doc d) (d_doc d).
Definition okc_doc (d : dcase) : bool := json_ok (d_doc d).
