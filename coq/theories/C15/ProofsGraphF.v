(* C15 - `uftrace graph FUNC`: the graph below FUNC aggregates the calls below the outermost FUNC *)
From Coq Require Import NArith ZArith List Bool Lia.
Import ListNotations.
Require Import UV.C15.Model UV.C15.GraphF UV.C15.ProofsTree UV.C15.ProofsRun.
Local Open Scope N_scope.

(* ---- association list ---- *)
Lemma ft_get_set : forall tid tid' v l, ft_get tid' (ft_set tid v l) = if tid =? tid' then v else ft_get tid' l.
Proof.
  intros tid tid' v l. induction l as [|[k s0] r IH]; simpl.
  - rewrite N.eqb_sym. destruct (tid' =? tid); reflexivity.
  - destruct (k =? tid) eqn:E; simpl.
    + apply N.eqb_eq in E. subst k. destruct (tid =? tid'); reflexivity.
    + destruct (k =? tid') eqn:E'.
      * apply N.eqb_eq in E'. subst k. rewrite N.eqb_sym, E. reflexivity.
      * exact IH.
Qed.

(* ---- relative paths ---- *)
Lemma rel_path_snoc : forall func p x,
  rel_path func (p ++ [x]) =
  match rel_path func p with
  | Some r => Some (r ++ [x])
  | None => if name_eqb x func then Some [] else None
  end.
Proof.
  intros func p x. induction p as [|y p IH]; simpl.
  - destruct (name_eqb x func); reflexivity.
  - destruct (name_eqb y func); [reflexivity|exact IH].
Qed.

(* tg->enabled = number of FUNC frames on the stack *)
Definition fcount (func : name) (k : rstack) : N :=
  fold_right (fun e a => if name_eqb (fst e) func then a + 1 else a) 0 k.
Lemma fcount_rel : forall func k, (fcount func k =? 0) = match rel_path func (rpath k) with None => true | Some _ => false end.
Proof.
  intros func k. induction k as [|[x t] k IH]; [reflexivity|].
  rewrite rpath_cons, rel_path_snoc. simpl fcount. 
  destruct (rel_path func (rpath k)) as [r|].
  - destruct (name_eqb x func); [|exact IH]. apply N.eqb_neq. lia.
  - apply N.eqb_eq in IH. rewrite IH. destruct (name_eqb x func); reflexivity.
Qed.

(* ---- the invariant ---- *)
Definition rel_ftask (func : name) (root : node) (ts : fts) (k : rstack) (last : N) : Prop :=
  frames_of (ft_stack ts) = k /\ ft_en ts = fcount func k
  /\ (forall r, rel_path func (rpath k) = Some r -> ft_path ts = r /\ valid_at r root = 1)
  /\ stack_ok (ft_last ts) (ft_stack ts) /\ ft_last ts = last /\ last < W64.
Definition relf (func : name) (m : gstate * list (N * fts)) (st : list (N * rstack)) (ls : list (N * N)) : Prop :=
  forall tid, rel_ftask func (g_root (fst m)) (ft_get tid (snd m)) (r_get tid st) (l_get tid ls).

Lemma root_inc_calls : forall g q, calls_at q (g_root (root_inc g)) = calls_at q (g_root g) + (if path_eqb q [] then 1 else 0).
Proof.
  intros g q. unfold root_inc. simpl. destruct (g_root g) as [i nm c t ct ks]. destruct q as [|y q]; unfold calls_at, stat; simpl; [reflexivity|].
  destruct (find_child y ks); lia.
Qed.
Lemma root_inc_time : forall g q, time_at q (g_root (root_inc g)) = time_at q (g_root g).
Proof.
  intros g q. unfold root_inc. simpl. destruct (g_root g) as [i nm c t ct ks]. destruct q as [|y q]; unfold time_at, stat; simpl; [reflexivity|].
  destruct (find_child y ks); reflexivity.
Qed.
Lemma root_inc_valid : forall g q, valid_at q (g_root (root_inc g)) = valid_at q (g_root g).
Proof.
  intros g q. unfold root_inc. simpl. destruct (g_root g) as [i nm c t ct ks]. destruct q as [|y q]; unfold valid_at, stat; simpl; [reflexivity|].
  destruct (find_child y ks); reflexivity.
Qed.

Definition countf_cons : forall func q p l,
  countf func q (p :: l) = countf func q l + (if opath_eqb q (rel_path func p) then 1 else 0).
Proof. intros. unfold countf. simpl. destruct (opath_eqb q (rel_path func p)); lia. Qed.
Definition timef_cons : forall func q c l,
  timef func q (c :: l) = timef func q l + (if opath_eqb q (rel_path func (rc_path c)) then rc_dur c else 0).
Proof. intros. unfold timef. simpl. destruct (opath_eqb q (rel_path func (rc_path c))); lia. Qed.
Lemma timef_app : forall func q a b, timef func q (a ++ b) = timef func q a + timef func q b.
Proof. intros func q a b. induction a as [|c a IH]; [reflexivity|]. simpl app. rewrite !timef_cons, IH. lia. Qed.

(* ---- ENTRY ---- *)
Lemma fstep_ent : forall func m st ls tid x t,
  relf func m st ls -> l_get tid ls <= t -> t < W64 ->
  let m' := fstep func m (tid, Ent x t) in
  relf func m' (r_set tid ((x, t) :: r_get tid st) st) (l_set tid t ls)
  /\ (forall q, calls_at q (g_root (fst m')) = calls_at q (g_root (fst m))
                + (if opath_eqb q (rel_path func (rpath ((x, t) :: r_get tid st))) then 1 else 0))
  /\ (forall q, time_at q (g_root (fst m')) = time_at q (g_root (fst m))).
Proof.
  intros func [g l] st ls tid x t R Hl Ht. pose proof (R tid) as [Hf [He [Hp [Hs [Hlast Hw]]]]].
  simpl fst in *. simpl snd in *. cbv zeta. unfold fstep, f_entry.
  set (ts := ft_get tid l) in *. set (k := r_get tid st) in *.
  pose proof (fcount_rel func k) as FR. rewrite <- He in FR.
  rewrite rpath_cons, rel_path_snoc.
  destruct (rel_path func (rpath k)) as [r|] eqn:Erel.
  - (* inside FUNC *)
    assert (Hon : (0 <? ft_en ts) = true) by (apply N.eqb_neq in FR; apply N.ltb_lt; lia).
    rewrite Hon. destruct (Hp r eq_refl) as [Hpath Hval]. apply valid_at_1 in Hval. destruct Hval as [cur Hcur].
    rewrite Hpath in *.
    assert (G : forall en', relf func (g_enter r x g, ft_set tid {| ft_path := r ++ [x]; ft_stack := {| f_name := x; f_start := t; f_child := 0 |} :: ft_stack ts; ft_last := t; ft_en := en' |} l)
                       (r_set tid ((x, t) :: k) st) (l_set tid t ls) \/ True) by (intros; right; exact I).
    clear G.
    assert (Rnew : forall en', en' = fcount func ((x, t) :: k) ->
       relf func (g_enter r x g, ft_set tid {| ft_path := r ++ [x]; ft_stack := {| f_name := x; f_start := t; f_child := 0 |} :: ft_stack ts; ft_last := t; ft_en := en' |} l)
            (r_set tid ((x, t) :: k) st) (l_set tid t ls)).
    { intros en' Hen tid'. simpl fst. simpl snd. rewrite ft_get_set, r_get_set, l_get_set.
      destruct (tid =? tid') eqn:E.
      - unfold rel_ftask. cbn [ft_path ft_stack ft_last ft_en]. repeat split.
        + simpl. fold ts. rewrite Hf. reflexivity.
        + exact Hen.
        + rewrite rpath_cons, rel_path_snoc, Erel in H. inversion H. reflexivity.
        + rewrite rpath_cons, rel_path_snoc, Erel in H. inversion H; subst.
          rewrite (g_enter_valid _ _ _ _ _ Hcur), path_eqb_refl. reflexivity.
        + simpl. lia.
        + apply (stack_ok_mono _ (ft_last ts)); [exact Hs|simpl; lia].
        + exact Ht.
      - pose proof (R tid') as [Hf' [He' [Hp' [Hs' [Hlast' Hw']]]]]. simpl fst in *. simpl snd in *.
        unfold rel_ftask. repeat split; try assumption.
        + apply (Hp' r0 H).
        + destruct (Hp' r0 H) as [_ V]. rewrite (g_enter_valid _ _ _ _ _ Hcur), V. destruct (path_eqb _ _); reflexivity. }
    assert (Stats : (forall q, calls_at q (g_root (g_enter r x g)) = calls_at q (g_root g) + (if opath_eqb q (Some (r ++ [x])) then 1 else 0))
                    /\ (forall q, time_at q (g_root (g_enter r x g)) = time_at q (g_root g))).
    { split; intros q; [apply (g_enter_calls _ _ _ _ _ Hcur)|apply (g_enter_time _ _ _ _ _ Hcur)]. }
    destruct (name_eqb x func) eqn:Ex; simpl fst; simpl snd; (split; [apply Rnew; simpl fcount; simpl fst; rewrite Ex, He; reflexivity|exact Stats]).
  - (* outside FUNC *)
    assert (Hoff : (0 <? ft_en ts) = false) by (apply N.eqb_eq in FR; apply N.ltb_ge; lia).
    rewrite Hoff. apply N.eqb_eq in FR.
    destruct (name_eqb x func) eqn:Ex; simpl fst; simpl snd.
    + (* the outermost FUNC is entered: start_graph *)
      split; [|split].
      * intros tid'. simpl fst. simpl snd. rewrite ft_get_set, r_get_set, l_get_set.
        destruct (tid =? tid') eqn:E.
        -- unfold rel_ftask. cbn [ft_path ft_stack ft_last ft_en]. repeat split.
           ++ simpl. fold ts. rewrite Hf. reflexivity.
           ++ simpl fcount. simpl fst. rewrite Ex. fold k. lia.
           ++ rewrite rpath_cons, rel_path_snoc, Erel, Ex in H. inversion H. reflexivity.
           ++ rewrite rpath_cons, rel_path_snoc, Erel, Ex in H. inversion H. reflexivity.
           ++ simpl. lia.
           ++ apply (stack_ok_mono _ (ft_last ts)); [exact Hs|simpl; lia].
           ++ exact Ht.
        -- pose proof (R tid') as [Hf' [He' [Hp' [Hs' [Hlast' Hw']]]]]. simpl fst in *. simpl snd in *.
           unfold rel_ftask. repeat split; try assumption.
           ++ apply (Hp' r H).
           ++ rewrite root_inc_valid. apply (Hp' r H).
      * intros q. rewrite root_inc_calls. destruct q; reflexivity.
      * intros q. apply root_inc_time.
    + split; [|split].
      * intros tid'. simpl fst. simpl snd. rewrite ft_get_set, r_get_set, l_get_set.
        destruct (tid =? tid') eqn:E.
        -- unfold rel_ftask. cbn [ft_path ft_stack ft_last ft_en]. repeat split.
           ++ simpl. fold ts. rewrite Hf. reflexivity.
           ++ simpl fcount. simpl fst. rewrite Ex. exact He.
           ++ rewrite rpath_cons, rel_path_snoc, Erel, Ex in H. discriminate.
           ++ rewrite rpath_cons, rel_path_snoc, Erel, Ex in H. discriminate.
           ++ simpl. lia.
           ++ apply (stack_ok_mono _ (ft_last ts)); [exact Hs|simpl; lia].
           ++ exact Ht.
        -- apply (R tid').
      * intros q. simpl. lia.
      * intros q. reflexivity.
Qed.

(* ---- EXIT ---- *)
Lemma fstep_ext : forall func m st ls tid t y t0 k,
  relf func m st ls -> r_get tid st = (y, t0) :: k -> l_get tid ls <= t -> t < W64 ->
  let m' := fstep func m (tid, Ext y t) in
  relf func m' (r_set tid k st) (l_set tid t ls)
  /\ (forall q, calls_at q (g_root (fst m')) = calls_at q (g_root (fst m)))
  /\ (forall q, time_at q (g_root (fst m')) =
                if opath_eqb q (rel_path func (rpath ((y, t0) :: k))) then add64 (time_at q (g_root (fst m))) (t - t0)
                else time_at q (g_root (fst m))).
Proof.
  intros func [g l] st ls tid t y t0 k R Hk Hl Ht. pose proof (R tid) as [Hf [He [Hp [Hs [Hlast Hw]]]]].
  simpl fst in *. simpl snd in *. rewrite Hk in Hf, He, Hp. cbv zeta. unfold fstep.
  set (ts := ft_get tid l) in *.
  destruct (ft_stack ts) as [|f rest] eqn:Est; [discriminate Hf|].
  simpl in Hf. injection Hf as Hn H0 Hrest.
  simpl in Hs. destruct Hs as [Hs1 Hs2].
  assert (Hd : sub64 t (f_start f) = t - t0) by (rewrite H0; apply sub64_small; lia).
  rewrite Hd. unfold f_exit.
  pose proof (fcount_rel func ((y, t0) :: k)) as FR. rewrite <- He in FR.
  pose proof (fcount_rel func k) as FRk.
  assert (Hbump : stack_ok t (bump_child (t - t0) rest)).
  { destruct rest as [|f2 r2]; [exact I|]. simpl in Hs2. destruct Hs2 as [Hs3 Hs4]. simpl. split; [|exact Hs4].
    rewrite add64_small; lia. }
  rewrite rpath_cons, rel_path_snoc in FR, Hp |- *.
  destruct (rel_path func (rpath k)) as [r0|] eqn:Erel.
  - (* the caller is inside FUNC as well *)
    assert (Hon : (0 <? ft_en ts) = true) by (apply N.eqb_neq in FR; apply N.ltb_lt; lia). rewrite Hon.
    destruct (Hp (r0 ++ [y]) eq_refl) as [Hpath Hval]. apply valid_at_1 in Hval. destruct Hval as [cur Hcur].
    rewrite Hpath. simpl fst. simpl snd.
    destruct (valid_prefix _ _ _ _ Hcur) as [m0 Hm0].
    split; [|split].
    + intros tid'. simpl fst. simpl snd. rewrite ft_get_set, r_get_set, l_get_set.
      destruct (tid =? tid') eqn:E.
      * unfold rel_ftask. cbn [ft_path ft_stack ft_last ft_en]. repeat split.
        -- rewrite frames_of_bump. exact Hrest.
        -- simpl fcount in He. simpl fst in He. rewrite andb_true_r. destruct (name_eqb y func); lia.
        -- rewrite Erel in H. inversion H; subst. apply removelast_last.
        -- rewrite Erel in H. inversion H; subst. rewrite (g_exit_valid _ _ _ _ _ _ _ Hcur). apply valid_at_1. exists m0. exact Hm0.
        -- exact Hbump.
        -- exact Ht.
      * pose proof (R tid') as [Hf' [He' [Hp' [Hs' [Hlast' Hw']]]]]. simpl fst in *. simpl snd in *.
        unfold rel_ftask. repeat split; try assumption.
        -- apply (Hp' r H).
        -- rewrite (g_exit_valid _ _ _ _ _ _ _ Hcur). apply (Hp' r H).
    + intros q. apply (g_exit_calls _ _ _ _ _ _ _ Hcur).
    + intros q. rewrite (g_exit_time _ _ _ _ _ _ _ Hcur). reflexivity.
  - destruct (name_eqb y func) eqn:Ey.
    + (* the outermost FUNC returns: end_graph *)
      assert (Hon : (0 <? ft_en ts) = true) by (apply N.eqb_neq in FR; apply N.ltb_lt; lia). rewrite Hon.
      destruct (Hp [] eq_refl) as [Hpath Hval]. apply valid_at_1 in Hval. destruct Hval as [cur Hcur].
      rewrite Hpath. simpl fst. simpl snd.
      split; [|split].
      * intros tid'. simpl fst. simpl snd. rewrite ft_get_set, r_get_set, l_get_set.
        destruct (tid =? tid') eqn:E.
        -- unfold rel_ftask. cbn [ft_path ft_stack ft_last ft_en]. repeat split.
           ++ rewrite frames_of_bump. exact Hrest.
           ++ simpl fcount in He. simpl fst in He. rewrite Ey in He. simpl andb. lia.
           ++ rewrite Erel in H. discriminate.
           ++ rewrite Erel in H. discriminate.
           ++ exact Hbump.
           ++ exact Ht.
        -- pose proof (R tid') as [Hf' [He' [Hp' [Hs' [Hlast' Hw']]]]]. simpl fst in *. simpl snd in *.
           unfold rel_ftask. repeat split; try assumption.
           ++ apply (Hp' r H).
           ++ rewrite (g_exit_valid _ _ _ _ _ _ _ Hcur). apply (Hp' r H).
      * intros q. apply (g_exit_calls _ _ _ _ _ _ _ Hcur).
      * intros q. rewrite (g_exit_time _ _ _ _ _ _ _ Hcur). reflexivity.
    + (* outside FUNC *)
      assert (Hoff : (0 <? ft_en ts) = false) by (apply N.eqb_eq in FR; apply N.ltb_ge; lia). rewrite Hoff.
      rewrite andb_false_r. simpl fst. simpl snd.
      split; [|split].
      * intros tid'. simpl fst. simpl snd. rewrite ft_get_set, r_get_set, l_get_set.
        destruct (tid =? tid') eqn:E.
        -- unfold rel_ftask. cbn [ft_path ft_stack ft_last ft_en]. repeat split.
           ++ rewrite frames_of_bump. exact Hrest.
           ++ simpl fcount in He. simpl fst in He. rewrite Ey in He. exact He.
           ++ rewrite Erel in H. discriminate.
           ++ rewrite Erel in H. discriminate.
           ++ exact Hbump.
           ++ exact Ht.
        -- apply (R tid').
      * intros q. reflexivity.
      * intros q. reflexivity.
Qed.

(* ---- the stream ---- *)
Lemma run_inv_f : forall func s m st ls C T,
  relf func m st ls -> wf_run st s = true -> mono_run ls s = true ->
  (forall q, calls_at q (g_root (fst m)) = C q) -> (forall q, time_at q (g_root (fst m)) = T q mod W64) ->
  relf func (fold_left (fstep func) s m) (snd (ref_calls_run st s)) (lasts_run ls s)
  /\ (forall q, calls_at q (g_root (fst (fold_left (fstep func) s m))) = C q + countf func q (ref_entries st s))
  /\ (forall q, time_at q (g_root (fst (fold_left (fstep func) s m))) = (T q + timef func q (fst (ref_calls_run st s))) mod W64).
Proof.
  intros func. induction s as [|[tid e] s IH]; intros m st ls C T R Hwf Hmono HC HT.
  - simpl. split; [exact R|]. split; intros q; [rewrite HC|rewrite HT, N.add_0_r]; [unfold countf; simpl; lia|reflexivity].
  - simpl in Hmono. apply andb_prop in Hmono. destruct Hmono as [Hm1 Hmono].
    apply andb_prop in Hm1. destruct Hm1 as [Hle Hlt]. apply N.leb_le in Hle. apply N.ltb_lt in Hlt.
    change (fold_left (fstep func) ((tid, e) :: s) m) with (fold_left (fstep func) s (fstep func m (tid, e))).
    destruct e as [x t|x t]; simpl in Hle, Hlt, Hmono.
    + simpl in Hwf. destruct (fstep_ent func m st ls tid x t R Hle Hlt) as [R' [Hc Ht]].
      destruct (IH (fstep func m (tid, Ent x t)) _ _
                   (fun q => C q + (if opath_eqb q (rel_path func (rpath ((x, t) :: r_get tid st))) then 1 else 0)) T
                   R' Hwf Hmono) as [R2 [C2 T2]].
      * intros q. rewrite Hc, HC. reflexivity.
      * intros q. rewrite Ht, HT. reflexivity.
      * simpl ref_calls_run. simpl ref_entries. simpl lasts_run. split; [exact R2|]. split; intros q.
        -- rewrite C2, countf_cons. lia.
        -- apply T2.
    + simpl in Hwf. destruct (r_get tid st) as [|[y t0] k] eqn:Hk; [discriminate|].
      apply andb_prop in Hwf. destruct Hwf as [Hxy Hwf]. apply name_eqb_eq in Hxy. subst x.
      destruct (fstep_ext func m st ls tid t y t0 k R Hk Hle Hlt) as [R' [Hc Ht]].
      destruct (IH (fstep func m (tid, Ext y t)) _ _ C
                   (fun q => if opath_eqb q (rel_path func (rpath ((y, t0) :: k))) then T q + (t - t0) else T q)
                   R' Hwf Hmono) as [R2 [C2 T2]].
      * intros q. rewrite Hc, HC. reflexivity.
      * intros q. rewrite Ht, HT. destruct (opath_eqb q _); [apply add64_mod|reflexivity].
      * simpl ref_calls_run. rewrite Hk. simpl ref_entries. simpl lasts_run.
        destruct (ref_calls_run (r_set tid k st) s) as [cs st'] eqn:Ers. simpl fst in *. simpl snd in *.
        split; [exact R2|]. split; intros q.
        -- rewrite C2, Hk. reflexivity.
        -- rewrite T2, timef_cons. unfold rc_dur. simpl. destruct (opath_eqb q _); f_equal; lia.
Qed.

(* ---- the open calls ---- *)
Lemma fclose_frames_inv : forall func tid last st carry p en g T,
  last < W64 -> stack_ok_c last carry st -> en = fcount func (frames_of st) ->
  (forall r, rel_path func (rpath (frames_of st)) = Some r -> p = r /\ valid_at r (g_root g) = 1) ->
  (forall q, time_at q (g_root g) = T q mod W64) ->
  (forall q, time_at q (g_root (fclose_frames func last carry st p en g))
             = (T q + timef func q (close_ref tid last (frames_of st))) mod W64)
  /\ (forall q, calls_at q (g_root (fclose_frames func last carry st p en g)) = calls_at q (g_root g))
  /\ (forall q, valid_at q (g_root g) = 1 -> valid_at q (g_root (fclose_frames func last carry st p en g)) = 1).
Proof.
  intros func tid last. induction st as [|f rest IH]; intros carry p en g T Hw Hs He Hp HT.
  - simpl. split; [|split]; intros q; [rewrite HT, N.add_0_r| |]; auto.
  - simpl in Hs. destruct Hs as [Hs1 Hs2].
    assert (Hfc : add64 (f_child f) carry = f_child f + carry) by (apply add64_small; lia).
    simpl fclose_frames. rewrite Hfc.
    assert (E1 : last <? f_start f = false) by (apply N.ltb_ge; lia). rewrite E1.
    assert (E2 : last - f_start f <? f_child f + carry = false) by (apply N.ltb_ge; lia). rewrite E2.
    set (delta := last - f_start f) in *.
    assert (Hs' : stack_ok_c last delta rest).
    { destruct rest as [|f2 r2]; [exact I|]. simpl in Hs2. destruct Hs2 as [Hs3 Hs4]. simpl. split; [unfold delta; lia|exact Hs4]. }
    simpl frames_of in He, Hp |- *. set (y := f_name f) in *. set (k := frames_of rest) in *.
    pose proof (fcount_rel func ((y, f_start f) :: k)) as FR. rewrite <- He in FR.
    rewrite rpath_cons, rel_path_snoc in FR, Hp.
    simpl close_ref. unfold f_exit.
    destruct (rel_path func (rpath k)) as [r0|] eqn:Erel.
    + assert (Hon : (0 <? en) = true) by (apply N.eqb_neq in FR; apply N.ltb_lt; lia). rewrite Hon.
      destruct (Hp (r0 ++ [y]) eq_refl) as [Hpath Hval]. apply valid_at_1 in Hval. destruct Hval as [cur Hcur]. subst p.
      destruct (valid_prefix _ _ _ _ Hcur) as [m0 Hm0].
      set (g1 := g_exit 0 (r0 ++ [y]) delta (f_child f + carry) g).
      destruct (IH delta (removelast (r0 ++ [y])) (if name_eqb y func && true then en - 1 else en) g1
                   (fun q => if path_eqb q (r0 ++ [y]) then T q + delta else T q) Hw Hs') as [I1 [I2 I3]].
      * simpl fcount in He. simpl fst in He. fold k in He. rewrite andb_true_r. destruct (name_eqb y func); lia.
      * intros r Hr. inversion Hr; subst. split; [apply removelast_last|].
        unfold g1. rewrite (g_exit_valid _ _ _ _ _ _ _ Hcur). apply valid_at_1. exists m0. exact Hm0.
      * intros q. unfold g1. rewrite (g_exit_time _ _ _ _ _ _ _ Hcur), HT. destruct (path_eqb q _); [apply add64_mod|reflexivity].
      * split; [|split]; intros q.
        -- rewrite I1, timef_cons. simpl rc_path. rewrite rpath_cons, rel_path_snoc. fold k. rewrite Erel.
           unfold rc_dur. simpl rc_t0. simpl rc_t1. fold delta. simpl opath_eqb. destruct (path_eqb q (r0 ++ [y])); f_equal; lia.
        -- rewrite I2. unfold g1. apply (g_exit_calls _ _ _ _ _ _ _ Hcur).
        -- intros Hq. apply I3. unfold g1. rewrite (g_exit_valid _ _ _ _ _ _ _ Hcur). exact Hq.
    + destruct (name_eqb y func) eqn:Ey.
      * assert (Hon : (0 <? en) = true) by (apply N.eqb_neq in FR; apply N.ltb_lt; lia). rewrite Hon.
        destruct (Hp [] eq_refl) as [Hpath Hval]. apply valid_at_1 in Hval. destruct Hval as [cur Hcur]. subst p.
        set (g1 := g_exit 0 [] delta (f_child f + carry) g).
        destruct (IH delta (removelast []) (if true && true then en - 1 else en) g1
                     (fun q => if path_eqb q [] then T q + delta else T q) Hw Hs') as [I1 [I2 I3]].
        -- simpl fcount in He. simpl fst in He. fold k in He. rewrite Ey in He. simpl andb. cbv iota.
           pose proof (fcount_rel func k) as FRk. rewrite Erel in FRk. apply N.eqb_eq in FRk. lia.
        -- intros r Hr. discriminate.
        -- intros q. unfold g1. rewrite (g_exit_time _ _ _ _ _ _ _ Hcur), HT. destruct (path_eqb q _); [apply add64_mod|reflexivity].
        -- split; [|split]; intros q.
           ++ rewrite I1, timef_cons. simpl rc_path. rewrite rpath_cons, rel_path_snoc. fold k. rewrite Erel, Ey.
              unfold rc_dur. simpl rc_t0. simpl rc_t1. fold delta. simpl opath_eqb. destruct (path_eqb q []); f_equal; lia.
           ++ rewrite I2. unfold g1. apply (g_exit_calls _ _ _ _ _ _ _ Hcur).
           ++ intros Hq. apply I3. unfold g1. rewrite (g_exit_valid _ _ _ _ _ _ _ Hcur). exact Hq.
      * assert (Hoff : (0 <? en) = false) by (apply N.eqb_eq in FR; apply N.ltb_ge; lia). rewrite Hoff.
        rewrite andb_false_r.
        destruct (IH delta p en g T Hw Hs') as [I1 [I2 I3]].
        -- simpl fcount in He. simpl fst in He. fold k in He. rewrite Ey in He. exact He.
        -- intros r Hr. discriminate.
        -- exact HT.
        -- split; [|split]; intros q.
           ++ rewrite I1, timef_cons. simpl rc_path. rewrite rpath_cons, rel_path_snoc. fold k. rewrite Erel, Ey.
              simpl opath_eqb. cbv iota. f_equal. lia.
           ++ apply I2.
           ++ apply I3.
Qed.

Lemma fclose_tasks_inv : forall func tids g l st ls T,
  NoDup tids ->
  (forall tid, In tid tids ->
     frames_of (ft_stack (ft_get tid l)) = r_get tid st /\ ft_en (ft_get tid l) = fcount func (r_get tid st)
     /\ (forall r, rel_path func (rpath (r_get tid st)) = Some r -> ft_path (ft_get tid l) = r /\ valid_at r (g_root g) = 1)
     /\ stack_ok (ft_last (ft_get tid l)) (ft_stack (ft_get tid l)) /\ ft_last (ft_get tid l) = l_get tid ls /\ l_get tid ls < W64) ->
  (forall q, time_at q (g_root g) = T q mod W64) ->
  (forall q, time_at q (g_root (fclose_tasks func tids g l))
             = (T q + timef func q (flat_map (fun tid => close_ref tid (l_get tid ls) (r_get tid st)) tids)) mod W64)
  /\ (forall q, calls_at q (g_root (fclose_tasks func tids g l)) = calls_at q (g_root g)).
Proof.
  intros func. induction tids as [|tid r IH]; intros g l st ls T ND R HT.
  - simpl. split; intros q; [rewrite HT, N.add_0_r|]; reflexivity.
  - inversion ND as [|? ? Hnot ND']; subst.
    destruct (R tid (or_introl eq_refl)) as [Hf [He [Hp [Hs [Hlast Hw]]]]].
    simpl fclose_tasks.
    assert (Hs0 : stack_ok_c (ft_last (ft_get tid l)) 0 (ft_stack (ft_get tid l))).
    { destruct (ft_stack (ft_get tid l)) as [|f rest]; [exact I|]. simpl in *. destruct Hs. split; [lia|assumption]. }
    assert (Hw0 : ft_last (ft_get tid l) < W64) by (rewrite Hlast; exact Hw).
    destruct (fclose_frames_inv func tid (ft_last (ft_get tid l)) (ft_stack (ft_get tid l)) 0 (ft_path (ft_get tid l))
                                (ft_en (ft_get tid l)) g T Hw0 Hs0) as [C1 [C2 C3]].
    + rewrite Hf. exact He.
    + rewrite Hf. intros r0 Hr0. destruct (Hp r0 Hr0) as [A B]. split; [exact A|exact B].
    + exact HT.
    + set (g1 := fclose_frames func (ft_last (ft_get tid l)) 0 (ft_stack (ft_get tid l)) (ft_path (ft_get tid l)) (ft_en (ft_get tid l)) g) in *.
      destruct (IH g1 l st ls (fun q => T q + timef func q (close_ref tid (l_get tid ls) (r_get tid st))) ND') as [D1 D2].
      * intros tid' Hin. destruct (R tid' (or_intror Hin)) as [Hf' [He' [Hp' [Hs' [Hlast' Hw']]]]].
        repeat split; try assumption.
        -- apply (Hp' r0 H).
        -- apply C3. apply (Hp' r0 H).
      * intros q. rewrite C1, Hf, Hlast. reflexivity.
      * split; intros q.
        -- rewrite D1. simpl flat_map. rewrite timef_app. f_equal. lia.
        -- rewrite D2. apply C2.
Qed.

Lemma relf_init : forall func, relf func ({| g_root := root0 func; g_next := 1 |}, []) [] [].
Proof.
  intros func tid. unfold rel_ftask. simpl. repeat split; try reflexivity; try discriminate.
Qed.

(* `uftrace graph FUNC`: the node found by walking the name path q below the root (= FUNC) counts the calls
   whose path, cut after the OUTERMOST FUNC on it, is q, and sums their durations; the root itself (q = []) counts
   and times the outermost calls of FUNC *)
Theorem graphf_sums : forall func tids s q, wf_stream s = true -> NoDup tids ->
  calls_at q (graphf_build func tids s) = countf func q (ref_entries [] s)
  /\ time_at q (graphf_build func tids s) = timef func q (ref_calls tids s) mod W64.
Proof.
  intros func tids s q Hwf ND. unfold wf_stream in Hwf. apply andb_prop in Hwf. destruct Hwf as [Hwf Hmono].
  destruct (run_inv_f func s _ [] [] (fun _ => 0) (fun _ => 0) (relf_init func) Hwf Hmono) as [R [C T]].
  { intros q'. apply stat_root0. reflexivity. }
  { intros q'. simpl fst. simpl g_root. unfold time_at. rewrite stat_root0; reflexivity. }
  unfold graphf_build.
  destruct (fold_left (fstep func) s ({| g_root := root0 func; g_next := 1 |}, [])) as [g l] eqn:Efold.
  simpl fst in *. simpl snd in *.
  destruct (fclose_tasks_inv func tids g l _ _ _ ND (fun tid _ => R tid) T) as [D1 D2].
  split.
  - rewrite D2, C. reflexivity.
  - rewrite D1. unfold ref_calls. destruct (ref_calls_run [] s) as [cs st']. simpl fst. simpl snd.
    rewrite timef_app. f_equal. f_equal. f_equal.
    apply flat_map_ext. intros tid. rewrite lasts_run_last_time. reflexivity.
Qed.

(* non-vacuity: main { f { g } f { f { g } } } , graph below f *)
Example graphf_example :
  let s := [(1, Ent [109] 10); (1, Ent [102] 20); (1, Ent [103] 30); (1, Ext [103] 40); (1, Ext [102] 50);
            (1, Ent [102] 60); (1, Ent [102] 70); (1, Ent [103] 80)] in
  wf_stream s = true
  /\ graphf_rows (graphf_build [102] [1] s)
     = Some [(0, [102], 2, Some (0, 50, 0)); (1, [103], 1, Some (0, 10, 0)); (1, [102], 1, Some (0, 10, 0)); (2, [103], 1, None)].
Proof. vm_compute. split; reflexivity. Qed.

(* ---- the printed rows ---- *)
Require Import UV.C15.ProofsWalk UV.C15.ProofsOut.

Lemma uniq_root_inc : forall g, uniq (g_root g) -> uniq (g_root (root_inc g)).
Proof. intros g U. unfold root_inc. simpl. destruct (g_root g) as [i nm c t ct ks]. apply uniq_inv in U. destruct U. constructor; assumption. Qed.
Lemma uniq_fstep : forall func m r, uniq (g_root (fst m)) -> uniq (g_root (fst (fstep func m r))).
Proof.
  intros func [g l] [tid [x t|x t]] U; unfold fstep; simpl fst in *.
  - unfold f_entry. destruct (0 <? ft_en (ft_get tid l)); destruct (name_eqb x func); simpl fst;
      try apply uniq_root_inc; try apply uniq_g_enter; exact U.
  - destruct (ft_stack (ft_get tid l)); [exact U|]. unfold f_exit.
    destruct (0 <? ft_en (ft_get tid l)); simpl fst; [apply uniq_g_exit|]; exact U.
Qed.
Lemma uniq_frun : forall func s m, uniq (g_root (fst m)) -> uniq (g_root (fst (fold_left (fstep func) s m))).
Proof. intros func. induction s as [|r s IH]; intros m U; simpl; [exact U|]. apply IH, uniq_fstep, U. Qed.
Lemma uniq_fclose_frames : forall func last st carry p en g, uniq (g_root g) -> uniq (g_root (fclose_frames func last carry st p en g)).
Proof.
  intros func last. induction st as [|f r IH]; intros carry p en g U; simpl; [exact U|].
  destruct (last <? f_start f); [apply IH, U|]. unfold f_exit. destruct (0 <? en); apply IH; [apply uniq_g_exit|]; exact U.
Qed.
Lemma uniq_fclose_tasks : forall func tids g l, uniq (g_root g) -> uniq (g_root (fclose_tasks func tids g l)).
Proof. intros func. induction tids as [|tid r IH]; intros g l U; simpl; [exact U|]. apply IH, uniq_fclose_frames, U. Qed.
Theorem uniq_graphf_build : forall func tids s, uniq (graphf_build func tids s).
Proof.
  intros. unfold graphf_build.
  pose proof (uniq_frun func s ({| g_root := root0 func; g_next := 1 |}, [])) as U.
  destruct (fold_left (fstep func) s ({| g_root := root0 func; g_next := 1 |}, [])) as [g l].
  apply uniq_fclose_tasks. apply U. simpl. constructor; constructor.
Qed.

Lemma countf_in : forall func q l, countf func q l <> 0 -> exists p, In p l /\ rel_path func p = Some q.
Proof.
  intros func q l. induction l as [|p l IH]; intros H; [contradiction H; reflexivity|].
  rewrite countf_cons in H. destruct (opath_eqb q (rel_path func p)) eqn:E.
  - exists p. split; [left; reflexivity|]. unfold opath_eqb in E. destruct (rel_path func p) as [r|]; [|discriminate].
    apply path_eqb_eq in E. subst. reflexivity.
  - destruct IH as [p' [Hin Hr]]; [lia|]. exists p'. split; [right; exact Hin|exact Hr].
Qed.

Section RowsF.
  Variables (func : name) (tids : list N) (s : stream).
  Hypothesis Hwf : wf_stream s = true.
  Hypothesis Hnd : NoDup tids.
  Let g := graphf_build func tids s.

  (* every row below the FUNC line is a node of the aggregation relative to FUNC *)
  Theorem graphf_walk_faithful : forall e, In e (walk_root g) ->
    n_calls (w_node e) = countf func (w_path e) (ref_entries [] s)
    /\ n_time (w_node e) = timef func (w_path e) (ref_calls tids s) mod W64
    /\ n_name (w_node e) = last (w_path e) [].
  Proof.
    intros e He. apply (walk_root_spec g e (uniq_graphf_build func tids s)) in He. destruct He as [Hne [Hn _]].
    destruct (graphf_sums func tids s (w_path e) Hwf Hnd) as [C T]. fold g in C, T.
    unfold calls_at, time_at, stat in C, T. rewrite Hn in C, T. repeat split; try assumption.
    apply (find_path_name _ _ _ Hn Hne).
  Qed.
  (* every relative path along which there is a call has its row *)
  Theorem graphf_walk_complete : forall q, q <> [] -> countf func q (ref_entries [] s) <> 0 ->
    exists e, In e (walk_root g) /\ w_path e = q.
  Proof.
    intros q Hne Hc. destruct (graphf_sums func tids s q Hwf Hnd) as [C _]. fold g in C.
    assert (Hc' : calls_at q g <> 0) by (rewrite C; exact Hc).
    destruct (stat_some n_calls q g Hc') as [m [Hm _]].
    assert (Hpar : exists par, find_path (removelast q) g = Some par).
    { rewrite (app_removelast_last [] Hne) in Hm. apply (valid_prefix _ _ _ _ Hm). }
    destruct Hpar as [par Hpar]. exists (q, par, m). split; [|reflexivity].
    apply (walk_root_spec g _ (uniq_graphf_build func tids s)). repeat split; assumption.
  Qed.
  (* the FUNC line itself *)
  Theorem graphf_root : n_calls g = countf func [] (ref_entries [] s)
                        /\ n_time g = timef func [] (ref_calls tids s) mod W64.
  Proof. destruct (graphf_sums func tids s [] Hwf Hnd) as [C T]. exact (conj C T). Qed.
End RowsF.

(* ---- re-entry: the FUNC line counts the OUTERMOST entries only ---- *)
Definition outer_entry (func : name) (p : path) : bool :=
  match rel_path func p with Some [] => true | _ => false end.
Lemma rel_path_nil_spec : forall func p, rel_path func p = Some [] <-> exists pre, p = pre ++ [func] /\ ~ In func pre.
Proof.
  intros func. induction p as [|x p IH]; simpl.
  - split; [discriminate|]. intros [pre [H _]]. destruct pre; discriminate.
  - destruct (name_eqb x func) eqn:E.
    + apply name_eqb_eq in E. subst x. split.
      * intros H. inversion H; subst. exists []. split; [reflexivity|intros []].
      * intros [pre [H Hn]]. destruct pre as [|y pre]; [inversion H; reflexivity|].
        inversion H; subst. exfalso. apply Hn. left. reflexivity.
    + apply name_eqb_neq in E. rewrite IH. split.
      * intros [pre [H Hn]]. exists (x :: pre). split; [rewrite H; reflexivity|]. intros [A|A]; [congruence|contradiction].
      * intros [pre [H Hn]]. destruct pre as [|y pre]; [inversion H; congruence|].
        inversion H; subst. exists pre. split; [reflexivity|]. intros A. apply Hn. right. exact A.
Qed.
Lemma countf_root : forall func l, countf func [] l = N.of_nat (length (filter (outer_entry func) l)).
Proof.
  intros func l. induction l as [|p l IH]; [reflexivity|].
  rewrite countf_cons, IH. simpl filter. unfold outer_entry, opath_eqb.
  destruct (rel_path func p) as [[|y r]|]; simpl; lia.
Qed.
(* nr_calls of the FUNC line = number of entries of FUNC made while no FUNC was running in that task *)
Theorem graphf_root_outermost : forall func tids s, wf_stream s = true -> NoDup tids ->
  n_calls (graphf_build func tids s) = N.of_nat (length (filter (outer_entry func) (ref_entries [] s))).
Proof.
  intros func tids s Hwf ND. destruct (graphf_sums func tids s [] Hwf ND) as [C _].
  unfold calls_at, stat in C. simpl in C. rewrite C. apply countf_root.
Qed.

(* f { f { f { g } g } } f : one task, direct recursion three deep, then FUNC again *)
Example graphf_reentry_example :
  let s := [(1, Ent [102] 10); (1, Ent [102] 20); (1, Ent [102] 30); (1, Ent [103] 40); (1, Ext [103] 50);
            (1, Ext [102] 60); (1, Ent [103] 70); (1, Ext [103] 80); (1, Ext [102] 90); (1, Ext [102] 100);
            (1, Ent [102] 110); (1, Ext [102] 125)] in
  wf_stream s = true
  /\ length (filter (outer_entry [102]) (ref_entries [] s)) = 2%nat
  /\ graphf_rows (graphf_build [102] [1] s)
     = Some [(0, [102], 2, Some (0, 105, 0)); (1, [102], 1, Some (0, 70, 0)); (2, [102], 1, Some (0, 30, 0));
             (3, [103], 1, Some (0, 10, 0)); (2, [103], 1, Some (0, 10, 0))].
Proof. vm_compute. repeat split; reflexivity. Qed.
