(* C15 - `uftrace graph FUNC`: the call graph below one function (cmds/graph.c build_graph_node / start_graph /
   end_graph with full_graph = false).  The BACKTRACE section is not modelled.  No proofs in this file. *)
From Coq Require Import NArith List Bool.
Import ListNotations.
Require Import UV.C15.Model.
Local Open Scope N_scope.

(* per task: the fstack as before, the node pointer (as a path below the root = FUNC) and tg->enabled *)
Record fts := { ft_path : path; ft_stack : list frame; ft_last : N; ft_en : N }.
Definition ft_init : fts := {| ft_path := []; ft_stack := []; ft_last := 0; ft_en := 0 |}.
Fixpoint ft_get (tid : N) (l : list (N * fts)) : fts :=
  match l with [] => ft_init | (k, s) :: r => if k =? tid then s else ft_get tid r end.
Fixpoint ft_set (tid : N) (s : fts) (l : list (N * fts)) : list (N * fts) :=
  match l with
  | [] => [(tid, s)]
  | (k, s0) :: r => if k =? tid then (k, s) :: r else (k, s0) :: ft_set tid s r
  end.
Definition root_inc (g : gstate) : gstate := {| g_root := inc_calls (g_root g); g_next := g_next g |}.

(* build_graph_node for an ENTRY: graph_add_node if enabled, then start_graph if the name is FUNC *)
Definition f_entry (func x : name) (t : N) (g : gstate) (ts : fts) : gstate * fts :=
  let on := 0 <? ft_en ts in
  let g1 := if on then g_enter (ft_path ts) x g else g in
  let p1 := if on then ft_path ts ++ [x] else ft_path ts in
  let st := {| f_name := x; f_start := t; f_child := 0 |} :: ft_stack ts in
  if name_eqb x func
  then if on then (g1, {| ft_path := p1; ft_stack := st; ft_last := t; ft_en := ft_en ts + 1 |})
       else (root_inc g1, {| ft_path := []; ft_stack := st; ft_last := t; ft_en := 1 |})
  else (g1, {| ft_path := p1; ft_stack := st; ft_last := t; ft_en := ft_en ts |}).
(* ... for an EXIT (also the synthetic ones of the closing loop): graph_add_node if enabled, then end_graph *)
Definition f_exit (func x : name) (total child : N) (g : gstate) (p : path) (en : N) : gstate * path * N :=
  let on := 0 <? en in
  let g1 := if on then g_exit 0 p total child g else g in
  let p1 := if on then removelast p else p in
  (g1, p1, if name_eqb x func && on then en - 1 else en).

Definition fstep (func : name) (m : gstate * list (N * fts)) (r : N * ev) : gstate * list (N * fts) :=
  let '(g, l) := m in
  let '(tid, e) := r in
  let ts := ft_get tid l in
  match e with
  | Ent x t => let '(g', ts') := f_entry func x t g ts in (g', ft_set tid ts' l)
  | Ext x t =>
      match ft_stack ts with
      | [] => (g, ft_set tid {| ft_path := ft_path ts; ft_stack := []; ft_last := t; ft_en := ft_en ts |} l)
      | f :: rest =>
          let delta := sub64 t (f_start f) in
          let child := N.min (f_child f) delta in
          let '(g', p', en') := f_exit func x delta child g (ft_path ts) (ft_en ts) in
          (g', ft_set tid {| ft_path := p'; ft_stack := bump_child delta rest; ft_last := t; ft_en := en' |} l)
      end
  end.
Fixpoint fclose_frames (func : name) (last carry : N) (st : list frame) (p : path) (en : N) (g : gstate) : gstate :=
  match st with
  | [] => g
  | f :: rest =>
      let fc := add64 (f_child f) carry in
      if last <? f_start f then fclose_frames func last 0 rest p en g
      else
        let delta := last - f_start f in
        let total := if delta <? fc then fc else delta in
        let '(g', p', en') := f_exit func (f_name f) total fc g p en in
        fclose_frames func last total rest p' en' g'
  end.
Fixpoint fclose_tasks (func : name) (tids : list N) (g : gstate) (l : list (N * fts)) : gstate :=
  match tids with
  | [] => g
  | tid :: r => let ts := ft_get tid l in
                fclose_tasks func r (fclose_frames func (ft_last ts) 0 (ft_stack ts) (ft_path ts) (ft_en ts) g) l
  end.
Definition graphf_build (func : name) (tids : list N) (s : stream) : node :=
  let '(g, l) := fold_left (fstep func) s ({| g_root := root0 func; g_next := 1 |}, []) in
  g_root (fclose_tasks func tids g l).

(* what is printed: None = 'cannot find graph'; Some [] = only the backtrace section (root.time = 0, no edge) *)
Definition graphf_rows (root : node) : option (list grow) :=
  if (n_calls root =? 0) then None
  else if (n_time root =? 0) && (match n_kids root with [] => true | _ => false end) then Some []
  else Some ((0, n_name root, n_calls root, time_unit (n_time root))
             :: map (fun e => (N.of_nat (length (w_path e)), n_name (w_node e), n_calls (w_node e), time_unit (n_time (w_node e))))
                    (walk_root root)).

(* ---- reference: the calls below the outermost FUNC, by their path relative to it ---- *)
Fixpoint rel_path (func : name) (p : path) : option path :=
  match p with
  | [] => None
  | x :: r => if name_eqb x func then Some r else rel_path func r
  end.
Definition opath_eqb (q : path) (o : option path) : bool :=
  match o with Some r => path_eqb q r | None => false end.
Definition countf (func : name) (q : path) (l : list path) : N :=
  fold_right (fun p acc => if opath_eqb q (rel_path func p) then acc + 1 else acc) 0 l.
Definition timef (func : name) (q : path) (l : list rcall) : N :=
  fold_right (fun c acc => if opath_eqb q (rel_path func (rc_path c)) then acc + rc_dur c else acc) 0 l.
Definition rel_paths (func : name) (s : stream) : list path :=
  nodup_paths (flat_map (fun p => match rel_path func p with Some r => [r] | None => [] end) (ref_entries [] s)) [].

Definition ok_graphf_rows (func : name) (tids : list N) (s : stream) (rows : option (list grow)) : bool :=
  let es := ref_entries [] s in
  let cs := ref_calls tids s in
  let ps := rel_paths func s in                  (* contains [] iff FUNC was called *)
  match rows with
  | None => match ps with [] => true | _ => false end
  | Some [] => mem_path [] ps && (timef func [] cs =? 0) && (Nat.eqb (length ps) 1)
  | Some ((d0, _, c0, t0) :: body) =>
      let rp := rows_paths [] body in
      (d0 =? 0) && (c0 =? countf func [] es) && tu_eqb t0 (time_unit (timef func [] cs))
      && Nat.eqb (S (length rp)) (length ps)
      && forallb (fun p => match p with [] => true | _ => Nat.eqb (length (filter (fun r => path_eqb p (fst (fst r))) rp)) 1 end) ps
      && forallb (fun r => let '(p, c, t) := r in
                           mem_path p ps && (c =? countf func p es) && tu_eqb t (time_unit (timef func p cs))) rp
  end.

Definition orows_eqb (a b : option (list grow)) : bool :=
  match a, b with
  | None, None => true
  | Some x, Some y => grows_eqb x y
  | _, _ => false
  end.

Record fcase := { fk_case : case; fk_func : name; fk_rows : option (list grow) }.
Definition agree_graphf (f : fcase) : bool :=
  let k := fk_case f in
  orows_eqb (graphf_rows (graphf_build (fk_func f) (k_tids k) (k_stream k))) (fk_rows f).
Definition okc_graphf (f : fcase) : bool :=
  let k := fk_case f in ok_graphf_rows (fk_func f) (k_tids k) (k_stream k) (fk_rows f).
