(* C15 - dump --chrome: per thread the B/E events are the records in order, closed at the end, properly nested *)
From Coq Require Import NArith ZArith List Bool Lia.
From Coq Require Import ZifyBool ZifyN ZifyNat.
Import ListNotations.
Require Import UV.C15.Model UV.C15.ProofsTree UV.C15.ProofsRun.
Local Open Scope N_scope.
Ltac Zify.zify_post_hook ::= Z.div_mod_to_equations.

Definition pid_of (tasks : list (N * N)) (tid : N) : N :=
  match find (fun p => fst p =? tid) tasks with Some (_, p) => p | None => tid end.

Lemma thread_of_mk : forall tasks tid b x t, thread_of (mk_cev tasks tid b x t) = (pid_of tasks tid, tid).
Proof.
  intros. unfold mk_cev, thread_of, pid_of. simpl.
  destruct (find (fun p => fst p =? tid) tasks) as [[a p]|]; simpl.
  - destruct (p =? tid) eqn:E; [apply N.eqb_eq in E; subst|]; reflexivity.
  - rewrite N.eqb_refl. reflexivity.
Qed.
Lemma same_thread_tid : forall tasks a b,
  same_thread (pid_of tasks a, a) (pid_of tasks b, b) = (a =? b).
Proof.
  intros. unfold same_thread. simpl. destruct (a =? b) eqn:E.
  - apply N.eqb_eq in E. subst. rewrite N.eqb_refl. reflexivity.
  - apply andb_false_r.
Qed.
Lemma thread_of_record : forall tasks r, thread_of (chrome_of_record tasks r) = (pid_of tasks (fst r), fst r).
Proof. intros tasks [tid [x t|x t]]; apply thread_of_mk. Qed.

Lemma cev_eqb_refl : forall c, cev_eqb c c = true.
Proof.
  intros [b p t x q r]. unfold cev_eqb. simpl.
  rewrite eqb_reflx, !N.eqb_refl. simpl.
  assert (B : forall l, bytes_eqb l l = true) by (induction l as [|a l IH]; simpl; [reflexivity|rewrite N.eqb_refl; exact IH]).
  rewrite B. destruct t; [rewrite N.eqb_refl|]; reflexivity.
Qed.
Lemma is_prefix_app : forall a b, is_prefix a (a ++ b) = true.
Proof. induction a as [|x a IH]; intros b; simpl; [reflexivity|]. rewrite cev_eqb_refl. apply IH. Qed.
Lemma skipn_app_exact : forall (A : Type) (a b : list A), skipn (length a) (a ++ b) = b.
Proof. induction a as [|x a IH]; intros b; simpl; [reflexivity|apply IH]. Qed.

(* ---- one task's records ---- *)
Definition proj (tid : N) (s : stream) : list ev := map snd (filter (fun r => fst r =? tid) s).

Fixpoint run1 (k : rstack) (es : list ev) : rstack :=
  match es with
  | [] => k
  | Ent x t :: r => run1 ((x, t) :: k) r
  | Ext x t :: r => run1 (tl k) r
  end.
Fixpoint wf1 (k : rstack) (es : list ev) : bool :=
  match es with
  | [] => true
  | Ent x t :: r => wf1 ((x, t) :: k) r
  | Ext x t :: r => match k with [] => false | (y, _) :: k' => name_eqb x y && wf1 k' r end
  end.
Fixpoint mono1 (prev : N) (es : list ev) : bool :=
  match es with
  | [] => true
  | e :: r => (prev <=? ev_time e) && (ev_time e <? W64) && mono1 (ev_time e) r
  end.
Fixpoint last1 (prev : N) (es : list ev) : N :=
  match es with [] => prev | e :: r => last1 (ev_time e) r end.

Lemma proj_cons : forall tid k e s,
  proj tid ((k, e) :: s) = if k =? tid then e :: proj tid s else proj tid s.
Proof. intros. unfold proj. simpl. destruct (k =? tid); reflexivity. Qed.

Lemma proj_wf : forall s st tid, wf_run st s = true ->
  wf1 (r_get tid st) (proj tid s) = true
  /\ r_get tid (snd (ref_calls_run st s)) = run1 (r_get tid st) (proj tid s).
Proof.
  induction s as [|[k e] s IH]; intros st tid H; [split; reflexivity|].
  rewrite proj_cons. destruct e as [x t|x t]; simpl in H.
  - specialize (IH _ tid H). rewrite r_get_set in IH. simpl ref_calls_run.
    destruct (k =? tid) eqn:E; [apply N.eqb_eq in E; subst k|]; exact IH.
  - destruct (r_get k st) as [|[y t0] kk] eqn:Hk; [discriminate|].
    apply andb_prop in H. destruct H as [Hn H].
    specialize (IH _ tid H). rewrite r_get_set in IH. simpl ref_calls_run. rewrite Hk.
    destruct (ref_calls_run (r_set k kk st) s) as [cs st'] eqn:Ers. simpl snd in *.
    destruct (k =? tid) eqn:E.
    + apply N.eqb_eq in E. subst k. rewrite Hk. simpl. rewrite Hn. exact IH.
    + exact IH.
Qed.
Lemma proj_mono : forall s ls tid, mono_run ls s = true ->
  mono1 (l_get tid ls) (proj tid s) = true /\ last_time tid s (l_get tid ls) = last1 (l_get tid ls) (proj tid s).
Proof.
  induction s as [|[k e] s IH]; intros ls tid H; [split; reflexivity|].
  rewrite proj_cons. simpl in H. apply andb_prop in H. destruct H as [H1 H].
  specialize (IH _ tid H). rewrite l_get_set in IH. simpl last_time.
  destruct (k =? tid) eqn:E.
  - apply N.eqb_eq in E. subst k. simpl. rewrite H1. exact IH.
  - exact IH.
Qed.

(* ---- nesting of one task's events ---- *)
Definition stamp (t : N) : N * N := (t / 1000, t mod 1000).
Lemma stamp_mono : forall a b, a <= b ->
  ((fst (stamp a) <? fst (stamp b)) || ((fst (stamp a) =? fst (stamp b)) && (snd (stamp a) <=? snd (stamp b)))) = true.
Proof. intros a b H. unfold stamp. simpl. lia. Qed.
Lemma stamp_r : forall t, (snd (stamp t) <? 1000) = true.
Proof. intros. unfold stamp. simpl. lia. Qed.

Definition cev1 (tasks : list (N * N)) (tid : N) (e : ev) : cev := chrome_of_record tasks (tid, e).
Definition closes (tasks : list (N * N)) (tid last : N) (k : rstack) : list cev :=
  map (fun f => mk_cev tasks tid false (fst f) last) k.

Lemma bytes_eqb_refl : forall l, bytes_eqb l l = true.
Proof. induction l as [|a l IH]; simpl; [reflexivity|rewrite N.eqb_refl; exact IH]. Qed.

Lemma mk_begin : forall tasks tid b x t, c_begin (mk_cev tasks tid b x t) = b. Proof. reflexivity. Qed.
Lemma mk_name : forall tasks tid b x t, c_name (mk_cev tasks tid b x t) = shown x. Proof. reflexivity. Qed.
Lemma mk_q : forall tasks tid b x t, c_q (mk_cev tasks tid b x t) = t / 1000. Proof. reflexivity. Qed.
Lemma mk_r : forall tasks tid b x t, c_r (mk_cev tasks tid b x t) = t mod 1000. Proof. reflexivity. Qed.
Lemma nested_cons : forall open prev c r,
  nested open prev (c :: r) =
  ((c_r c <? 1000) && ((fst prev <? c_q c) || ((fst prev =? c_q c) && (snd prev <=? c_r c))) &&
   (if c_begin c then nested (c_name c :: open) (c_q c, c_r c) r
    else match open with [] => false | x :: o => bytes_eqb x (c_name c) && nested o (c_q c, c_r c) r end)).
Proof. reflexivity. Qed.

Lemma nested_mk : forall tasks tid b x t open prev r, prev <= t ->
  nested open (stamp prev) (mk_cev tasks tid b x t :: r) =
  (if b then nested (shown x :: open) (stamp t) r
   else match open with [] => false | y :: o => bytes_eqb y (shown x) && nested o (stamp t) r end).
Proof.
  intros. rewrite nested_cons, mk_begin, mk_name, mk_q, mk_r.
  pose proof (stamp_mono prev t H) as M. pose proof (stamp_r t) as R. unfold stamp in *. simpl in M, R. simpl fst. simpl snd.
  rewrite R, M. reflexivity.
Qed.

Lemma nested_closes : forall tasks tid last k prev, prev <= last ->
  nested (map (fun f => shown (fst f)) k) (stamp prev) (closes tasks tid last k) = true.
Proof.
  intros tasks tid last. induction k as [|[x t0] k IH]; intros prev H; [reflexivity|].
  change (closes tasks tid last ((x, t0) :: k)) with (mk_cev tasks tid false x last :: closes tasks tid last k).
  change (map (fun f : name * N => shown (fst f)) ((x, t0) :: k)) with (shown x :: map (fun f : name * N => shown (fst f)) k).
  rewrite nested_mk by exact H. cbn [map fst]. rewrite bytes_eqb_refl. simpl andb. apply IH. lia.
Qed.

Lemma nested_task : forall tasks tid es k prev,
  wf1 k es = true -> mono1 prev es = true ->
  nested (map (fun f => shown (fst f)) k) (stamp prev)
         (map (cev1 tasks tid) es ++ closes tasks tid (last1 prev es) (run1 k es)) = true.
Proof.
  intros tasks tid. induction es as [|e es IH]; intros k prev Hwf Hm.
  - simpl. apply nested_closes. lia.
  - simpl in Hm. apply andb_prop in Hm. destruct Hm as [Hm1 Hm]. apply andb_prop in Hm1. destruct Hm1 as [Hle _].
    apply N.leb_le in Hle.
    destruct e as [x t|x t]; simpl in Hle, Hm, Hwf.
    + change (map (cev1 tasks tid) (Ent x t :: es) ++ closes tasks tid (last1 prev (Ent x t :: es)) (run1 k (Ent x t :: es)))
        with (mk_cev tasks tid true x t :: (map (cev1 tasks tid) es ++ closes tasks tid (last1 t es) (run1 ((x, t) :: k) es))).
      rewrite nested_mk by exact Hle.
      apply (IH ((x, t) :: k) t Hwf Hm).
    + destruct k as [|[y t0] k]; [discriminate|]. apply andb_prop in Hwf. destruct Hwf as [Hn Hwf].
      apply name_eqb_eq in Hn. subst y.
      change (map (cev1 tasks tid) (Ext x t :: es) ++ closes tasks tid (last1 prev (Ext x t :: es)) (run1 ((x, t0) :: k) (Ext x t :: es)))
        with (mk_cev tasks tid false x t :: (map (cev1 tasks tid) es ++ closes tasks tid (last1 t es) (run1 k es))).
      rewrite nested_mk by exact Hle.
      change (map (fun f : name * N => shown (fst f)) ((x, t0) :: k)) with (shown x :: map (fun f : name * N => shown (fst f)) k).
      cbn [map fst]. rewrite bytes_eqb_refl. simpl andb.
      apply (IH k t Hwf Hm).
Qed.

(* ---- picking one thread's events out of the output ---- *)
Definition of_thread (tasks : list (N * N)) (tid : N) (c : cev) : bool :=
  same_thread (thread_of c) (pid_of tasks tid, tid).

Lemma filter_records : forall tasks tid s,
  filter (of_thread tasks tid) (map (chrome_of_record tasks) s) = records_of tasks tid s.
Proof.
  intros tasks tid s. unfold records_of. induction s as [|r s IH]; [reflexivity|].
  simpl. unfold of_thread at 1. rewrite thread_of_record, same_thread_tid.
  destruct (fst r =? tid); simpl; rewrite IH; reflexivity.
Qed.
Lemma records_as_proj : forall tasks tid s, records_of tasks tid s = map (cev1 tasks tid) (proj tid s).
Proof.
  intros tasks tid s. unfold records_of, proj. induction s as [|[k e] s IH]; [reflexivity|].
  simpl. destruct (k =? tid) eqn:E; [|exact IH]. apply N.eqb_eq in E. subst k. simpl. rewrite IH. reflexivity.
Qed.

Lemma chrome_close_thread : forall tasks tid last st c, In c (chrome_close tasks tid last st) ->
  thread_of c = (pid_of tasks tid, tid).
Proof.
  intros tasks tid last. induction st as [|f r IH]; intros c H; simpl in H; [contradiction|].
  destruct (last <? f_start f); [apply IH, H|]. destruct H as [<-|H]; [apply thread_of_mk|apply IH, H].
Qed.
Lemma filter_all : forall (A : Type) (P : A -> bool) l, (forall x, In x l -> P x = true) -> filter P l = l.
Proof.
  intros A P l. induction l as [|a l IH]; intros H; [reflexivity|]. simpl.
  rewrite (H a (or_introl eq_refl)). f_equal. apply IH. intros x Hx. apply H. right. exact Hx.
Qed.
Lemma filter_none : forall (A : Type) (P : A -> bool) l, (forall x, In x l -> P x = false) -> filter P l = [].
Proof.
  intros A P l. induction l as [|a l IH]; intros H; [reflexivity|]. simpl.
  rewrite (H a (or_introl eq_refl)). apply IH. intros x Hx. apply H. right. exact Hx.
Qed.

Lemma filter_closings : forall tasks0 (g : N -> list cev) (tasks : list (N * N)) tid,
  (forall t c, In c (g t) -> thread_of c = (pid_of tasks0 t, t)) ->
  NoDup (map fst tasks) -> In tid (map fst tasks) ->
  filter (of_thread tasks0 tid) (flat_map (fun tp => g (fst tp)) tasks) = g tid.
Proof.
  intros tasks0 g tasks tid Hg. induction tasks as [|[a p] r IH]; intros ND Hin; [contradiction|].
  simpl flat_map. rewrite filter_app. simpl in ND, Hin. inversion ND as [|? ? Hnot ND']; subst.
  destruct (N.eq_dec a tid) as [->|Hne].
  - rewrite filter_all.
    + rewrite filter_none; [apply app_nil_r|].
      intros c Hc. apply in_flat_map in Hc. destruct Hc as [[b q] [Hb Hc]]. simpl in Hc.
      unfold of_thread. rewrite (Hg b c Hc), same_thread_tid. apply N.eqb_neq. intros ->.
      apply Hnot. apply in_map_iff. exists (tid, q). split; [reflexivity|exact Hb].
    + intros c Hc. unfold of_thread. rewrite (Hg tid c Hc), same_thread_tid. apply N.eqb_refl.
  - rewrite filter_none.
    + simpl. apply IH; [exact ND'|]. destruct Hin as [H|H]; [contradiction|exact H].
    + intros c Hc. unfold of_thread. rewrite (Hg a c Hc), same_thread_tid. apply N.eqb_neq. exact Hne.
Qed.

Lemma stack_ok_starts : forall st u, stack_ok u st -> forall f, In f st -> f_start f <= u.
Proof.
  induction st as [|a r IH]; intros u H f Hf; [contradiction|]. simpl in H. destruct H as [H1 H2].
  destruct Hf as [<-|Hf]; [lia|]. specialize (IH _ H2 f Hf). lia.
Qed.
Lemma chrome_close_closes : forall tasks tid last st, (forall f, In f st -> f_start f <= last) ->
  chrome_close tasks tid last st = closes tasks tid last (frames_of st).
Proof.
  intros tasks tid last. induction st as [|f r IH]; intros H; [reflexivity|].
  simpl. assert (E : last <? f_start f = false) by (apply N.ltb_ge, H; left; reflexivity). rewrite E.
  unfold closes in *. simpl. f_equal. apply IH. intros x Hx. apply H. right. exact Hx.
Qed.

(* THE CHROME EVENTS OF A WELL-FORMED TRACE: for every task its thread's events are exactly its records (in
   order, B for ENTRY / E for EXIT, named [shown name], stamped time/1000 . time mod 1000) followed by E events
   at the task's last time stamp for the calls still open, and this sequence is balanced and properly nested
   with every E carrying the name of the innermost open B *)
Theorem chrome_structure : forall tasks s,
  wf_stream s = true -> NoDup (map fst tasks) -> (forall r, In r s -> In (fst r) (map fst tasks)) ->
  ok_chrome tasks s (chrome_events tasks s) = true.
Proof.
  intros tasks s Hwf ND Hcover. unfold wf_stream in Hwf. apply andb_prop in Hwf. destruct Hwf as [Hwf Hmono].
  destruct (run_inv 0 s (m_init []) [] [] (fun _ => 0) (fun _ => 0) (rel_init []) Hwf Hmono) as [R _].
  { intros q. apply stat_root0. reflexivity. }
  { intros q. change (g_root (m_g (m_init []))) with (root0 []). unfold time_at. rewrite stat_root0; reflexivity. }
  set (m := fold_left (step 0) s (m_init [])) in *.
  set (g := fun tid => chrome_close tasks tid (ts_last (t_get tid (m_t m))) (ts_stack (t_get tid (m_t m)))).
  assert (Hev : chrome_events tasks s = map (chrome_of_record tasks) s ++ flat_map (fun tp => g (fst tp)) tasks) by reflexivity.
  assert (Hg : forall t c, In c (g t) -> thread_of c = (pid_of tasks t, t)).
  { intros t c Hc. apply (chrome_close_thread _ _ _ _ _ Hc). }
  unfold ok_chrome. rewrite Hev. apply andb_true_intro. split.
  - apply forallb_forall. intros [tid pid] Htp. simpl fst.
    assert (Hin : In tid (map fst tasks)) by (apply in_map_iff; exists (tid, pid); split; [reflexivity|exact Htp]).
    rewrite thread_of_mk.
    change (fun c : cev => same_thread (thread_of c) (pid_of tasks tid, tid)) with (of_thread tasks tid).
    rewrite filter_app, filter_records, (filter_closings tasks g tasks tid Hg ND Hin).
    pose proof (R tid) as [Hf [_ [_ [Hs [Hlast _]]]]].
    rewrite lasts_run_last_time in Hlast. simpl l_get in Hlast.
    unfold g. rewrite (chrome_close_closes _ _ _ _ (stack_ok_starts _ _ Hs)), Hf, Hlast.
    destruct (proj_wf s [] tid Hwf) as [W1 W2]. destruct (proj_mono s [] tid Hmono) as [M1 M2].
    simpl r_get in W1, W2. simpl l_get in M1, M2.
    rewrite is_prefix_app, skipn_app_exact. simpl andb.
    apply andb_true_intro. split.
    + apply forallb_forall. intros c Hc. unfold closes in Hc. apply in_map_iff in Hc. destruct Hc as [f [<- _]].
      rewrite mk_begin, mk_q, mk_r, !N.eqb_refl. reflexivity.
    + rewrite records_as_proj, W2, M2.
      change (0, 0) with (stamp 0).
      apply (nested_task tasks tid (proj tid s) [] 0 W1 M1).
  - apply forallb_forall. intros c Hc. apply existsb_exists. apply in_app_iff in Hc. destruct Hc as [Hc|Hc].
    + apply in_map_iff in Hc. destruct Hc as [r [<- Hr]]. specialize (Hcover r Hr).
      apply in_map_iff in Hcover. destruct Hcover as [[tid pid] [E Htp]]. exists (tid, pid). split; [exact Htp|].
      simpl in E. simpl fst. rewrite thread_of_record, thread_of_mk, same_thread_tid, E. apply N.eqb_refl.
    + apply in_flat_map in Hc. destruct Hc as [[tid pid] [Htp Hc]]. exists (tid, pid). split; [exact Htp|].
      simpl fst in *. rewrite (Hg tid c Hc), thread_of_mk, same_thread_tid. apply N.eqb_refl.
Qed.

(* ---- scheduler events: dump --chrome names a pre-empted switch like a voluntary one ---- *)
Definition map_rstack (k : rstack) : rstack := map (fun e => (chrome_name (fst e), snd e)) k.
Definition map_rst (st : list (N * rstack)) : list (N * rstack) := map (fun p => (fst p, map_rstack (snd p))) st.
Lemma r_get_map : forall tid st, r_get tid (map_rst st) = map_rstack (r_get tid st).
Proof. intros tid st. induction st as [|[k s] r IH]; [reflexivity|]. simpl. destruct (k =? tid); [reflexivity|exact IH]. Qed.
Lemma r_set_map : forall tid v st, r_set tid (map_rstack v) (map_rst st) = map_rst (r_set tid v st).
Proof. intros tid v st. induction st as [|[k s] r IH]; [reflexivity|]. simpl. destruct (k =? tid); simpl; [reflexivity|rewrite IH; reflexivity]. Qed.
Lemma wf_run_chrome : forall s st, wf_run st s = true -> wf_run (map_rst st) (chrome_stream s) = true.
Proof.
  induction s as [|[tid e] s IH]; intros st H; [reflexivity|]. destruct e as [x t|x t]; simpl in *.
  - rewrite r_get_map. change ((chrome_name x, t) :: map_rstack (r_get tid st)) with (map_rstack ((x, t) :: r_get tid st)).
    rewrite r_set_map. apply IH, H.
  - rewrite r_get_map. destruct (r_get tid st) as [|[y t0] k]; [discriminate|]. simpl.
    apply andb_prop in H. destruct H as [Hn H]. apply name_eqb_eq in Hn. subst y. rewrite name_eqb_refl. simpl.
    rewrite r_set_map. apply IH, H.
Qed.
Lemma mono_run_chrome : forall s ls, mono_run ls (chrome_stream s) = mono_run ls s.
Proof.
  induction s as [|[tid e] s IH]; intros ls; [reflexivity|]. destruct e; simpl; rewrite IH; reflexivity.
Qed.
Theorem chrome_stream_wf : forall s, wf_stream s = true -> wf_stream (chrome_stream s) = true.
Proof.
  intros s H. unfold wf_stream in *. apply andb_prop in H. destruct H as [H1 H2].
  rewrite mono_run_chrome, H2, andb_true_r. apply (wf_run_chrome s [] H1).
Qed.
