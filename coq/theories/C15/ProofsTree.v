(* C15 - the path tree of utils/graph.c: lookups after updates *)
From Coq Require Import NArith List Bool Lia.
Import ListNotations.
Require Import UV.C15.Model.
Local Open Scope N_scope.

Lemma name_eqb_refl : forall a, name_eqb a a = true.
Proof. induction a as [|x a IH]; simpl; [reflexivity|]. rewrite N.eqb_refl. exact IH. Qed.
Lemma name_eqb_eq : forall a b, name_eqb a b = true <-> a = b.
Proof.
  induction a as [|x a IH]; destruct b as [|y b]; simpl; split; intros H; try discriminate; try reflexivity.
  - apply andb_prop in H. destruct H as [E H]. apply N.eqb_eq in E. apply IH in H. subst. reflexivity.
  - inversion H; subst. rewrite N.eqb_refl. apply name_eqb_refl.
Qed.
Lemma name_eqb_neq : forall a b, name_eqb a b = false <-> a <> b.
Proof.
  intros a b. split; intros H.
  - intros E. apply name_eqb_eq in E. congruence.
  - destruct (name_eqb a b) eqn:E; [|reflexivity]. apply name_eqb_eq in E. contradiction.
Qed.
Lemma path_eqb_refl : forall a, path_eqb a a = true.
Proof. induction a as [|x a IH]; simpl; [reflexivity|]. rewrite name_eqb_refl. exact IH. Qed.
Lemma path_eqb_eq : forall a b, path_eqb a b = true <-> a = b.
Proof.
  induction a as [|x a IH]; destruct b as [|y b]; simpl; split; intros H; try discriminate; try reflexivity.
  - apply andb_prop in H. destruct H as [E H]. apply name_eqb_eq in E. apply IH in H. subst. reflexivity.
  - inversion H; subst. rewrite name_eqb_refl. apply path_eqb_refl.
Qed.
Lemma path_eqb_neq : forall a b, path_eqb a b = false <-> a <> b.
Proof.
  intros a b. split; intros H.
  - intros E. apply path_eqb_eq in E. congruence.
  - destruct (path_eqb a b) eqn:E; [|reflexivity]. apply path_eqb_eq in E. contradiction.
Qed.

(* q = p ++ r ? *)
Fixpoint strip_prefix (p q : path) : option path :=
  match p, q with
  | [], _ => Some q
  | x :: p', y :: q' => if name_eqb x y then strip_prefix p' q' else None
  | _ :: _, [] => None
  end.
Lemma strip_prefix_some : forall p q r, strip_prefix p q = Some r <-> q = p ++ r.
Proof.
  induction p as [|x p IH]; intros q r; simpl.
  - split; intros H; [inversion H|subst]; reflexivity.
  - destruct q as [|y q].
    + split; intros H; discriminate.
    + destruct (name_eqb x y) eqn:E.
      * apply name_eqb_eq in E. subst y. rewrite IH. split; intros H; [subst|inversion H]; reflexivity.
      * apply name_eqb_neq in E. split; intros H; [discriminate|]. inversion H. congruence.
Qed.
Lemma strip_prefix_app : forall p r, strip_prefix p (p ++ r) = Some r.
Proof. intros. apply strip_prefix_some. reflexivity. Qed.

(* a statistic of the node at a path; 0 when there is no such node *)
Definition stat (sel : node -> N) (q : path) (n : node) : N :=
  match find_path q n with Some m => sel m | None => 0 end.
Definition calls_at := stat n_calls.
Definition time_at := stat n_time.
Definition ctime_at := stat n_ctime.
Definition valid_at := stat (fun _ => 1).

Definition kids_indep (sel : node -> N) : Prop :=
  forall i m c t ct ks ks', sel (Node i m c t ct ks) = sel (Node i m c t ct ks').
Definition name_pres (f : node -> node) : Prop := forall n, n_name (f n) = n_name n.

Lemma find_child_upd_same : forall x f ks, name_pres f ->
  find_child x (upd_child x f ks) = option_map f (find_child x ks).
Proof.
  intros x f ks Hf. induction ks as [|k r IH]; simpl; [reflexivity|].
  destruct (name_eqb x (n_name k)) eqn:E; simpl.
  - rewrite Hf, E. reflexivity.
  - rewrite E. exact IH.
Qed.
Lemma find_child_upd_other : forall x y f ks, name_pres f -> x <> y ->
  find_child x (upd_child y f ks) = find_child x ks.
Proof.
  intros x y f ks Hf Hxy. induction ks as [|k r IH]; simpl; [reflexivity|].
  destruct (name_eqb y (n_name k)) eqn:E; simpl.
  - rewrite Hf. apply name_eqb_eq in E. subst y.
    apply name_eqb_neq in Hxy. rewrite Hxy. reflexivity.
  - destruct (name_eqb x (n_name k)); [reflexivity|exact IH].
Qed.
Lemma find_child_app : forall y ks k,
  find_child y (ks ++ [k]) =
  match find_child y ks with Some a => Some a | None => if name_eqb y (n_name k) then Some k else None end.
Proof.
  intros y ks k. induction ks as [|a r IH]; simpl; [reflexivity|].
  destruct (name_eqb y (n_name a)); [reflexivity|exact IH].
Qed.

Lemma upd_path_name_pres : forall p f, name_pres f -> name_pres (upd_path p f).
Proof.
  intros p f Hf. destruct p as [|x p]; intros n; simpl; [apply Hf|]. destruct n; reflexivity.
Qed.

Lemma stat_nil : forall sel n, stat sel [] n = sel n.
Proof. reflexivity. Qed.
Lemma stat_cons : forall sel x q n,
  stat sel (x :: q) n = match find_child x (n_kids n) with Some k => stat sel q k | None => 0 end.
Proof. intros. unfold stat. simpl. destruct (find_child x (n_kids n)); reflexivity. Qed.

(* the key lemma: a local change [f] of the node at [p] (a change that is described by [h] on the
   statistics below that node) changes the statistics of the whole tree exactly at the paths p ++ r *)
Lemma stat_upd_path : forall sel f h, kids_indep sel -> name_pres f ->
  forall p n q m, find_path p n = Some m ->
  (forall r, stat sel r (f m) = h r (stat sel r m)) ->
  stat sel q (upd_path p f n) =
  match strip_prefix p q with Some r => h r (stat sel q n) | None => stat sel q n end.
Proof.
  intros sel f h Hsel Hf. induction p as [|x p IH]; intros n q m Hp Hm.
  - simpl in Hp. inversion Hp; subst m. simpl. apply Hm.
  - destruct n as [i nm c t ct ks]. simpl in Hp. simpl upd_path.
    destruct (find_child x ks) as [k|] eqn:Fk; [|discriminate].
    destruct q as [|y q].
    + simpl strip_prefix. unfold stat. simpl. apply Hsel.
    + simpl strip_prefix. rewrite !stat_cons. simpl n_kids.
      destruct (name_eqb x y) eqn:E.
      * apply name_eqb_eq in E. subst y.
        rewrite find_child_upd_same by (apply upd_path_name_pres; exact Hf).
        rewrite Fk. simpl. apply (IH k q m Hp Hm).
      * apply name_eqb_neq in E.
        rewrite find_child_upd_other; [reflexivity|apply upd_path_name_pres; exact Hf|congruence].
Qed.

(* ---- the two updates of utils/graph.c ---- *)
Definition enter_fn (x : name) (id : N) (m : node) : node :=
  match find_child x (n_kids m) with
  | Some _ => match m with Node i nm c t ct ks => Node i nm c t ct (upd_child x inc_calls ks) end
  | None => add_kid (Node id x 1 0 0 []) m
  end.
Lemma enter_fn_name : forall x id, name_pres (enter_fn x id).
Proof. intros x id [i nm c t ct ks]. unfold enter_fn. simpl. destruct (find_child x ks); reflexivity. Qed.
Lemma inc_calls_name : name_pres inc_calls.
Proof. intros [i nm c t ct ks]. reflexivity. Qed.
Lemma add_times_name : forall a b, name_pres (add_times a b).
Proof. intros a b [i nm c t ct ks]. reflexivity. Qed.
Lemma adjust_child_name : forall a b, name_pres (adjust_child a b).
Proof. intros a b [i nm c t ct ks]. reflexivity. Qed.

Lemma g_enter_root : forall p x g m, find_path p (g_root g) = Some m ->
  g_root (g_enter p x g) = upd_path p (enter_fn x (g_next g)) (g_root g).
Proof.
  intros p x g m Hp. unfold g_enter. rewrite Hp.
  assert (E : forall n, find_path p n = Some m ->
     upd_path p (enter_fn x (g_next g)) n =
     match find_child x (n_kids m) with
     | Some _ => upd_path p (fun n => match n with Node i nm c t ct ks => Node i nm c t ct (upd_child x inc_calls ks) end) n
     | None => upd_path p (add_kid (Node (g_next g) x 1 0 0 [])) n
     end).
  { clear Hp. induction p as [|y p IH]; intros n Hn.
    - simpl in Hn. inversion Hn; subst. simpl. unfold enter_fn. destruct (find_child x (n_kids m)); reflexivity.
    - destruct n as [i nm c t ct ks]. simpl in Hn. destruct (find_child y ks) as [k|] eqn:Fk; [|discriminate].
      simpl upd_path.
      assert (U : forall g1 g2, g1 k = g2 k -> upd_child y g1 ks = upd_child y g2 ks).
      { clear -Fk. induction ks as [|a r IHr]; intros g1 g2 Hg; simpl in *; [reflexivity|].
        destruct (name_eqb y (n_name a)); [inversion Fk; subst; rewrite Hg; reflexivity|].
        f_equal. apply IHr; assumption. }
      specialize (IH k Hn). destruct (find_child x (n_kids m)); f_equal; apply U; exact IH. }
  rewrite (E _ Hp). destruct (find_child x (n_kids m)); reflexivity.
Qed.

(* effect of add_graph_entry on a statistic that the new node starts with [v0] and that inc_calls changes by [bump] *)
Lemma enter_fn_stat : forall sel x id m (bump : N -> N) (v0 : N), kids_indep sel ->
  (forall k, sel (inc_calls k) = bump (sel k)) -> sel (Node id x 1 0 0 []) = v0 -> bump 0 = v0 ->
  forall r, stat sel r (enter_fn x id m) = (if path_eqb r [x] then bump (stat sel r m) else stat sel r m).
Proof.
  intros sel x id [i nm c t ct ks] bump v0 Hsel Hb Hn Hb0 r. unfold enter_fn. simpl n_kids.
  destruct r as [|y r].
  - simpl path_eqb. destruct (find_child x ks); unfold stat; simpl; apply Hsel.
  - rewrite !stat_cons. simpl n_kids.
    destruct (find_child x ks) as [kx|] eqn:Fx; simpl n_kids.
    + (* existing child: nr_calls++ *)
      destruct (name_eqb y x) eqn:E.
      * apply name_eqb_eq in E. subst y.
        rewrite find_child_upd_same by exact inc_calls_name. rewrite Fx. simpl option_map.
        simpl path_eqb. rewrite name_eqb_refl. simpl.
        destruct r as [|z r]; simpl.
        -- unfold stat. simpl. apply Hb.
        -- destruct kx as [i' nm' c' t' ct' ks']. rewrite !stat_cons. reflexivity.
      * assert (Hyx : y <> x) by (apply name_eqb_neq; exact E).
        rewrite find_child_upd_other by (try exact inc_calls_name; exact Hyx).
        simpl path_eqb. rewrite E. reflexivity.
    + (* new child appended *)
      rewrite find_child_app. simpl n_name.
      destruct (find_child y ks) as [ky|] eqn:Fy.
      * assert (Hyx : name_eqb y x = false).
        { apply name_eqb_neq. intros ->. congruence. }
        simpl path_eqb. rewrite Hyx. reflexivity.
      * destruct (name_eqb y x) eqn:E; simpl path_eqb; rewrite E; simpl.
        -- destruct r as [|z r]; simpl.
           ++ unfold stat. simpl. rewrite Hn, Hb0. reflexivity.
           ++ rewrite stat_cons. reflexivity.
        -- reflexivity.
Qed.

Lemma add_times_stat_time : forall a b m r,
  stat n_time r (add_times a b m) = (if path_eqb r [] then add64 (stat n_time r m) a else stat n_time r m).
Proof. intros a b [i nm c t ct ks] [|y r]; unfold stat; simpl; [reflexivity|]. destruct (find_child y ks); reflexivity. Qed.
Lemma add_times_stat_ctime : forall a b m r,
  stat n_ctime r (add_times a b m) = (if path_eqb r [] then add64 (stat n_ctime r m) b else stat n_ctime r m).
Proof. intros a b [i nm c t ct ks] [|y r]; unfold stat; simpl; [reflexivity|]. destruct (find_child y ks); reflexivity. Qed.
Lemma add_times_stat_other : forall sel a b m r, (forall k, sel (add_times a b k) = sel k) ->
  stat sel r (add_times a b m) = stat sel r m.
Proof. intros sel a b [i nm c t ct ks] [|y r] H; unfold stat; simpl; [apply (H (Node i nm c t ct ks))|]. destruct (find_child y ks); reflexivity. Qed.

Lemma kids_indep_calls : kids_indep n_calls. Proof. intros i m c t ct ks ks'. reflexivity. Qed.
Lemma kids_indep_time : kids_indep n_time. Proof. intros i m c t ct ks ks'. reflexivity. Qed.
Lemma kids_indep_ctime : kids_indep n_ctime. Proof. intros i m c t ct ks ks'. reflexivity. Qed.
Lemma kids_indep_one : kids_indep (fun _ => 1). Proof. intros i m c t ct ks ks'. reflexivity. Qed.

Lemma path_eqb_strip : forall p q x, (match strip_prefix p q with Some r => path_eqb r [x] | None => false end) = path_eqb q (p ++ [x]).
Proof.
  induction p as [|y p IH]; intros q x; simpl; [reflexivity|].
  destruct q as [|z q]; [reflexivity|]. simpl.
  destruct (name_eqb y z) eqn:E.
  - assert (E' : name_eqb z y = true) by (apply name_eqb_eq; apply name_eqb_eq in E; congruence).
    rewrite E'. simpl. apply IH.
  - assert (E' : name_eqb z y = false) by (apply name_eqb_neq; apply name_eqb_neq in E; congruence).
    rewrite E'. reflexivity.
Qed.
Lemma path_eqb_strip_nil : forall p q, (match strip_prefix p q with Some r => path_eqb r [] | None => false end) = path_eqb q p.
Proof.
  induction p as [|y p IH]; intros q; simpl.
  - destruct q; reflexivity.
  - destruct q as [|z q]; [reflexivity|]. simpl.
    destruct (name_eqb y z) eqn:E.
    + assert (E' : name_eqb z y = true) by (apply name_eqb_eq; apply name_eqb_eq in E; congruence).
      rewrite E'. simpl. apply IH.
    + assert (E' : name_eqb z y = false) by (apply name_eqb_neq; apply name_eqb_neq in E; congruence).
      rewrite E'. reflexivity.
Qed.

(* ---- add_graph_entry ---- *)
Lemma g_enter_stat : forall sel (bump : N -> N) v0 p x g m q, kids_indep sel ->
  (forall k, sel (inc_calls k) = bump (sel k)) -> (forall id, sel (Node id x 1 0 0 []) = v0) -> bump 0 = v0 ->
  find_path p (g_root g) = Some m ->
  stat sel q (g_root (g_enter p x g)) =
  (if path_eqb q (p ++ [x]) then bump (stat sel q (g_root g)) else stat sel q (g_root g)).
Proof.
  intros sel bump v0 p x g m q Hsel Hb Hn Hb0 Hp.
  rewrite (g_enter_root p x g m Hp).
  rewrite (stat_upd_path sel _ (fun r v => if path_eqb r [x] then bump v else v) Hsel (enter_fn_name x _) p _ q m Hp).
  - rewrite <- path_eqb_strip. destruct (strip_prefix p q); reflexivity.
  - intros r. apply (enter_fn_stat sel x _ m bump v0 Hsel Hb (Hn _) Hb0).
Qed.

Lemma g_enter_calls : forall p x g m q, find_path p (g_root g) = Some m ->
  calls_at q (g_root (g_enter p x g)) = calls_at q (g_root g) + (if path_eqb q (p ++ [x]) then 1 else 0).
Proof.
  intros p x g m q Hp. unfold calls_at.
  rewrite (g_enter_stat n_calls (fun v => v + 1) 1 p x g m q kids_indep_calls); try exact Hp; try reflexivity.
  - destruct (path_eqb q (p ++ [x])); lia.
  - intros [i nm c t ct ks]. reflexivity.
Qed.
Lemma g_enter_time : forall p x g m q, find_path p (g_root g) = Some m ->
  time_at q (g_root (g_enter p x g)) = time_at q (g_root g).
Proof.
  intros p x g m q Hp. unfold time_at.
  rewrite (g_enter_stat n_time (fun v => v) 0 p x g m q kids_indep_time); try exact Hp; try reflexivity.
  - destruct (path_eqb q (p ++ [x])); reflexivity.
  - intros [i nm c t ct ks]. reflexivity.
Qed.
Lemma g_enter_ctime : forall p x g m q, find_path p (g_root g) = Some m ->
  ctime_at q (g_root (g_enter p x g)) = ctime_at q (g_root g).
Proof.
  intros p x g m q Hp. unfold ctime_at.
  rewrite (g_enter_stat n_ctime (fun v => v) 0 p x g m q kids_indep_ctime); try exact Hp; try reflexivity.
  - destruct (path_eqb q (p ++ [x])); reflexivity.
  - intros [i nm c t ct ks]. reflexivity.
Qed.
Lemma g_enter_valid : forall p x g m q, find_path p (g_root g) = Some m ->
  valid_at q (g_root (g_enter p x g)) = (if path_eqb q (p ++ [x]) then 1 else valid_at q (g_root g)).
Proof.
  intros p x g m q Hp. unfold valid_at.
  rewrite (g_enter_stat (fun _ => 1) (fun _ => 1) 1 p x g m q kids_indep_one); try exact Hp; reflexivity.
Qed.

(* ---- add_graph_exit (no sampling) ---- *)
Lemma g_exit0_stat : forall sel (h : N -> N) p a b g m q, kids_indep sel ->
  (forall r k, stat sel r (add_times a b k) = (if path_eqb r [] then h (stat sel r k) else stat sel r k)) ->
  find_path p (g_root g) = Some m ->
  stat sel q (g_root (g_exit 0 p a b g)) = (if path_eqb q p then h (stat sel q (g_root g)) else stat sel q (g_root g)).
Proof.
  intros sel h p a b g m q Hsel Hh Hp. unfold g_exit. simpl.
  rewrite (stat_upd_path sel _ (fun r v => if path_eqb r [] then h v else v) Hsel (add_times_name a b) p _ q m Hp).
  - rewrite <- path_eqb_strip_nil. destruct (strip_prefix p q); reflexivity.
  - intros r. apply Hh.
Qed.
Lemma g_exit0_time : forall p a b g m q, find_path p (g_root g) = Some m ->
  time_at q (g_root (g_exit 0 p a b g)) = (if path_eqb q p then add64 (time_at q (g_root g)) a else time_at q (g_root g)).
Proof.
  intros. unfold time_at. apply (g_exit0_stat n_time (fun v => add64 v a) p a b g m q kids_indep_time); [|assumption].
  intros r k. apply add_times_stat_time.
Qed.
Lemma g_exit0_calls : forall p a b g m q, find_path p (g_root g) = Some m ->
  calls_at q (g_root (g_exit 0 p a b g)) = calls_at q (g_root g).
Proof.
  intros. unfold calls_at.
  rewrite (g_exit0_stat n_calls (fun v => v) p a b g m q kids_indep_calls); [destruct (path_eqb q p); reflexivity| |assumption].
  intros r k. rewrite add_times_stat_other; [destruct (path_eqb r []); reflexivity|]. intros [i nm c t ct ks]. reflexivity.
Qed.
Lemma g_exit0_valid : forall p a b g m q, find_path p (g_root g) = Some m ->
  valid_at q (g_root (g_exit 0 p a b g)) = valid_at q (g_root g).
Proof.
  intros. unfold valid_at.
  rewrite (g_exit0_stat (fun _ => 1) (fun v => v) p a b g m q kids_indep_one); [destruct (path_eqb q p); reflexivity| |assumption].
  intros r k. rewrite add_times_stat_other; [destruct (path_eqb r []); reflexivity|]. reflexivity.
Qed.

(* validity as a proposition *)
Lemma valid_at_1 : forall q n, valid_at q n = 1 <-> exists m, find_path q n = Some m.
Proof.
  intros q n. unfold valid_at, stat. destruct (find_path q n) as [m|]; split; intros H.
  - exists m. reflexivity.
  - reflexivity.
  - discriminate.
  - destruct H as [m H]. discriminate.
Qed.
Lemma valid_prefix : forall p r n m, find_path (p ++ r) n = Some m -> exists m', find_path p n = Some m'.
Proof.
  induction p as [|x p IH]; intros r n m H; simpl in *.
  - exists n. reflexivity.
  - destruct (find_child x (n_kids n)) as [k|]; [|discriminate]. apply (IH r k m H).
Qed.

(* ---- add_graph_exit with the flame graph's adjust_fg_time callback (any sample time) ---- *)
Lemma adjust_child_stat_other : forall sel a b m r, (forall k, sel (adjust_child a b k) = sel k) ->
  stat sel r (adjust_child a b m) = stat sel r m.
Proof. intros sel a b [i nm c t ct ks] [|y r] H; unfold stat; simpl; [apply (H (Node i nm c t ct ks))|]. destruct (find_child y ks); reflexivity. Qed.
Lemma adjust_child_stat_ctime : forall a b m r,
  stat n_ctime r (adjust_child a b m) = (if path_eqb r [] then add64 (sub64 (stat n_ctime r m) a) b else stat n_ctime r m).
Proof. intros a b [i nm c t ct ks] [|y r]; unfold stat; simpl; [reflexivity|]. destruct (find_child y ks); reflexivity. Qed.

Lemma removelast_valid : forall p n m, find_path p n = Some m -> exists m', find_path (removelast p) n = Some m'.
Proof.
  intros p n m H. destruct p as [|x p] using rev_ind.
  - exists n. reflexivity.
  - rewrite removelast_last. apply (valid_prefix _ _ _ _ H).
Qed.

(* a statistic the adjustment does not touch (calls, time, validity) *)
Lemma g_exit_stat : forall sample sel (h : N -> N) p a b g m q, kids_indep sel ->
  (forall r k, stat sel r (add_times a b k) = (if path_eqb r [] then h (stat sel r k) else stat sel r k)) ->
  (forall x y k, sel (adjust_child x y k) = sel k) ->
  find_path p (g_root g) = Some m ->
  stat sel q (g_root (g_exit sample p a b g)) = (if path_eqb q p then h (stat sel q (g_root g)) else stat sel q (g_root g)).
Proof.
  intros sample sel h p a b g m q Hsel Hh Hadj Hp.
  pose proof (g_exit0_stat sel h p a b g m q Hsel Hh Hp) as E0. unfold g_exit in *. simpl in *.
  destruct (sample =? 0); [exact E0|]. destruct p as [|x p']; [exact E0|].
  set (p := x :: p') in *.
  set (r1 := upd_path p (add_times a b) (g_root g)) in *.
  destruct (removelast_valid p _ _ Hp) as [m0 Hm0].
  assert (V1 : exists m1, find_path (removelast p) r1 = Some m1).
  { apply valid_at_1. unfold valid_at, r1.
    rewrite (stat_upd_path (fun _ => 1) _ (fun _ v => v) kids_indep_one (add_times_name a b) p _ (removelast p) m Hp).
    - destruct (strip_prefix p (removelast p)); apply valid_at_1; exists m0; exact Hm0.
    - intros r. apply add_times_stat_other. reflexivity. }
  destruct V1 as [m1 Hm1].
  rewrite (stat_upd_path sel _ (fun _ v => v) Hsel (adjust_child_name _ _) (removelast p) r1 q m1 Hm1).
  - destruct (strip_prefix (removelast p) q); exact E0.
  - intros r. apply adjust_child_stat_other. apply Hadj.
Qed.
Lemma g_exit_time : forall sample p a b g m q, find_path p (g_root g) = Some m ->
  time_at q (g_root (g_exit sample p a b g)) = (if path_eqb q p then add64 (time_at q (g_root g)) a else time_at q (g_root g)).
Proof.
  intros. unfold time_at. apply (g_exit_stat sample n_time (fun v => add64 v a) p a b g m q kids_indep_time); try assumption.
  - intros r k. apply add_times_stat_time.
  - intros x y [i nm c t ct ks]. reflexivity.
Qed.
Lemma g_exit_calls : forall sample p a b g m q, find_path p (g_root g) = Some m ->
  calls_at q (g_root (g_exit sample p a b g)) = calls_at q (g_root g).
Proof.
  intros. unfold calls_at.
  rewrite (g_exit_stat sample n_calls (fun v => v) p a b g m q kids_indep_calls); try assumption.
  - destruct (path_eqb q p); reflexivity.
  - intros r k. rewrite add_times_stat_other; [destruct (path_eqb r []); reflexivity|]. intros [i nm c t ct ks]. reflexivity.
  - intros x y [i nm c t ct ks]. reflexivity.
Qed.
Lemma g_exit_valid : forall sample p a b g m q, find_path p (g_root g) = Some m ->
  valid_at q (g_root (g_exit sample p a b g)) = valid_at q (g_root g).
Proof.
  intros. unfold valid_at.
  rewrite (g_exit_stat sample (fun _ => 1) (fun v => v) p a b g m q kids_indep_one); try assumption.
  - destruct (path_eqb q p); reflexivity.
  - intros r k. rewrite add_times_stat_other; [destruct (path_eqb r []); reflexivity|]. reflexivity.
  - reflexivity.
Qed.
