(* C15 - model of the 'projection' outputs of uftrace:

     utils/graph.c   add_graph_entry / add_graph_exit        (path tree keyed by NAME under the parent)
     cmds/graph.c    build_graph (full graph) + print_graph_node  (calls, total time per path)
     cmds/dump.c     do_dump_replay (incl. the 'remaining functions' loop), flame graph
                     (count or self-time/sample with adjust_fg_time), graphviz, mermaid, chrome
     cmds/replay.c   print_json_escaped_char
     utils/utils.c   json_quote   (applied to the command line at record time, cmds/info.c)
     utils/fstack.c  fstack_account_time  (total_time / child_time of a call)
     utils/debug.c   __print_time_unit

   Input of the model: the record stream in the order read_rstack() delivers it, i.e. a list of
   (tid, ENTRY name time | EXIT name time).  Names are byte strings (symbol names as loaded).
   No proofs in this file.                                                                      *)
From Coq Require Import NArith List Bool.
Import ListNotations.
Local Open Scope N_scope.

Definition name := list N.                      (* bytes *)
Definition path := list name.                   (* names from the first call below the root *)

Fixpoint name_eqb (a b : name) : bool :=
  match a, b with
  | [], [] => true
  | x :: a', y :: b' => (x =? y) && name_eqb a' b'
  | _, _ => false
  end.
Fixpoint path_eqb (a b : path) : bool :=
  match a, b with
  | [], [] => true
  | x :: a', y :: b' => name_eqb x y && path_eqb a' b'
  | _, _ => false
  end.

(* ------------------------------------------------------------------------------------------ *)
(* 1. escaping                                                                                *)
(* ------------------------------------------------------------------------------------------ *)
Definition hex_digit (d : N) : N := if d <? 10 then 48 + d else 87 + d.        (* %x *)
(* isprint() in the 'C' locale (uftrace dump never calls setlocale) *)
Definition isprint (c : N) : bool := (32 <=? c) && (c <=? 126).

(* print_json_escaped_char for one byte 0..255 *)
Definition json_escape_byte (c : N) : list N :=
  if c =? 10 then [92; 92; 110]                                  (* '\\n'  : backslash backslash n *)
  else if c =? 9 then [92; 92; 116]                              (* '\\t' *)
  else if c =? 92 then [92; 92]                                  (* '\\'  *)
  else if c =? 34 then [92; 34]                                  (* '\''  *)
  else if isprint c then [c]
  else [92; 92; 120; hex_digit (c / 16); hex_digit (c mod 16)].  (* '\\x%02hhx' *)
(* the argument is a C `char`: only the low 8 bits exist *)
Definition json_escape_char (c : N) : list N := json_escape_byte (c mod 256).
Definition json_escape (s : list N) : list N := flat_map json_escape_char s.

(* what a JSON parser makes of json_escape s (the name the viewer shows) *)
Definition shown_byte (c : N) : list N :=
  if c =? 10 then [92; 110]
  else if c =? 9 then [92; 116]
  else if c =? 92 then [92]
  else if c =? 34 then [34]
  else if isprint c then [c]
  else [92; 120; hex_digit (c / 16); hex_digit (c mod 16)].
Definition shown (s : list N) : list N := flat_map (fun c => shown_byte (c mod 256)) s.

(* json_quote: only the double quote is escaped *)
Definition json_quote (s : list N) : list N :=
  flat_map (fun c => if c =? 34 then [92; 34] else [c]) s.
(* fill_cmdline: /proc/self/cmdline with NUL and NL turned into spaces, then json_quote
   (the trailing separator becomes the line's newline) *)
Definition cmdline_info (raw : list N) : list N :=
  json_quote (map (fun c => if (c =? 0) || (c =? 10) then 32 else c) raw).

(* ---- JSON string token: RFC 8259 section 7 over UTF-8 (RFC 3629) ---- *)
Inductive lst :=
| S_body
| S_esc
| S_u (n : N)                       (* hex digits still expected: 4..1 *)
| S_utf (lo hi more : N)            (* next byte in [lo,hi], then [more] plain continuation bytes *)
| S_done.
Definition is_hex (c : N) : bool :=
  ((48 <=? c) && (c <=? 57)) || ((65 <=? c) && (c <=? 70)) || ((97 <=? c) && (c <=? 102)).
Definition simple_escape (c : N) : bool :=
  (c =? 34) || (c =? 92) || (c =? 47) || (c =? 98) || (c =? 102) || (c =? 110) || (c =? 114) || (c =? 116).
Definition lex_step (st : lst) (c : N) : option lst :=
  match st with
  | S_body =>
      if c =? 34 then Some S_done
      else if c =? 92 then Some S_esc
      else if c <? 32 then None
      else if c <? 128 then Some S_body
      else if (194 <=? c) && (c <=? 223) then Some (S_utf 128 191 0)
      else if c =? 224 then Some (S_utf 160 191 1)
      else if c =? 237 then Some (S_utf 128 159 1)
      else if (225 <=? c) && (c <=? 239) then Some (S_utf 128 191 1)
      else if c =? 240 then Some (S_utf 144 191 2)
      else if (241 <=? c) && (c <=? 243) then Some (S_utf 128 191 2)
      else if c =? 244 then Some (S_utf 128 143 2)
      else None
  | S_esc => if simple_escape c then Some S_body else if c =? 117 then Some (S_u 4) else None
  | S_u n => if is_hex c then (if n <=? 1 then Some S_body else Some (S_u (n - 1))) else None
  | S_utf lo hi more =>
      if (lo <=? c) && (c <=? hi)
      then (if more =? 0 then Some S_body else Some (S_utf 128 191 (more - 1)))
      else None
  | S_done => None
  end.
Fixpoint lex_run (st : lst) (s : list N) : option lst :=
  match s with
  | [] => Some st
  | c :: r => match lex_step st c with Some st' => lex_run st' r | None => None end
  end.
(* [s] is exactly one JSON string token, quotes included *)
Definition json_string_ok (s : list N) : bool :=
  match s with
  | 34 :: r => match lex_run S_body r with Some S_done => true | _ => false end
  | _ => false
  end.
Definition quoted (body : list N) : list N := 34 :: body ++ [34].

(* ------------------------------------------------------------------------------------------ *)
(* 2. numbers, time units                                                                     *)
(* ------------------------------------------------------------------------------------------ *)
Definition W64 : N := 18446744073709551616.
Definition add64 (a b : N) : N := (a + b) mod W64.
Definition sub64 (a b : N) : N := (a + W64 - b mod W64) mod W64.

Fixpoint dec_aux (fuel : nat) (n : N) (acc : list N) : list N :=
  match fuel with
  | O => acc
  | S f => let acc' := (48 + n mod 10) :: acc in
           if n / 10 =? 0 then acc' else dec_aux f (n / 10) acc'
  end.
Definition dec (n : N) : list N := dec_aux 40 n [].             (* '%lu' / '%d' of a non-negative number *)

(* __print_time_unit: None = the blank field printed for 0 *)
Definition time_unit (d : N) : option (N * N * N) :=
  if d =? 0 then None else
  let clamp (x : N * N * N) := let '(a, b, u) := x in if 999 <? a then (999, 999, u) else x in
  let s0 := d mod 1000 in let d0 := d / 1000 in
  if d0 <? 1000 then Some (clamp (d0, s0, 0)) else
  let s1 := d0 mod 1000 in let d1 := d0 / 1000 in
  if d1 <? 1000 then Some (clamp (d1, s1, 1)) else
  let s2 := d1 mod 1000 in let d2 := d1 / 1000 in
  if d2 <? 60 then Some (clamp (d2, s2, 2)) else
  let s3 := d2 mod 60 in let d3 := d2 / 60 in
  if d3 <? 24 then Some (clamp (d3, s3, 3)) else
  let s4 := d3 mod 24 in let d4 := d3 / 24 in
  Some (clamp (d4, s4, 4)).

(* ------------------------------------------------------------------------------------------ *)
(* 3. the record stream and the per-task function stack (fstack_account_time)                 *)
(* ------------------------------------------------------------------------------------------ *)
Inductive ev :=
| Ent (x : name) (t : N)
| Ext (x : name) (t : N).          (* x = name of the symbol at the EXIT record's address *)
Definition stream := list (N * ev).        (* (tid, record) *)
Definition ev_time (e : ev) : N := match e with Ent _ t | Ext _ t => t end.

Record frame := { f_name : name; f_start : N; f_child : N }.

(* ------------------------------------------------------------------------------------------ *)
(* 4. the graph (utils/graph.c)                                                               *)
(* ------------------------------------------------------------------------------------------ *)
Inductive node := Node (nid : N) (nm : name) (calls tm ctm : N) (kids : list node).
Definition n_id (n : node) := match n with Node i _ _ _ _ _ => i end.
Definition n_name (n : node) := match n with Node _ m _ _ _ _ => m end.
Definition n_calls (n : node) := match n with Node _ _ c _ _ _ => c end.
Definition n_time (n : node) := match n with Node _ _ _ t _ _ => t end.
Definition n_ctime (n : node) := match n with Node _ _ _ _ ct _ => ct end.
Definition n_kids (n : node) := match n with Node _ _ _ _ _ ks => ks end.

(* list_for_each_entry(node, &curr->head, list) if (!strcmp(name, node->name)) break; *)
Fixpoint find_child (x : name) (ks : list node) : option node :=
  match ks with
  | [] => None
  | k :: r => if name_eqb x (n_name k) then Some k else find_child x r
  end.
Fixpoint upd_child (x : name) (f : node -> node) (ks : list node) : list node :=
  match ks with
  | [] => []
  | k :: r => if name_eqb x (n_name k) then f k :: r else k :: upd_child x f r
  end.
(* a task's current node (tg->node) is represented by its path from the root *)
Fixpoint find_path (p : path) (n : node) : option node :=
  match p with
  | [] => Some n
  | x :: p' => match find_child x (n_kids n) with Some k => find_path p' k | None => None end
  end.
Fixpoint upd_path (p : path) (f : node -> node) (n : node) : node :=
  match p with
  | [] => f n
  | x :: p' => match n with Node i m c t ct ks => Node i m c t ct (upd_child x (upd_path p' f) ks) end
  end.

Definition inc_calls (n : node) : node :=
  match n with Node i m c t ct ks => Node i m (c + 1) t ct ks end.
Definition add_kid (k : node) (n : node) : node :=
  match n with Node i m c t ct ks => Node i m c t ct (ks ++ [k]) end.
Definition add_times (dt dc : N) (n : node) : node :=
  match n with Node i m c t ct ks => Node i m c (add64 t dt) (add64 ct dc) ks end.
(* adjust_fg_time on the parent: child_time -= curr_time; child_time += accounted_time *)
Definition adjust_child (curr acc : N) (n : node) : node :=
  match n with Node i m c t ct ks => Node i m c t (add64 (sub64 ct curr) acc) ks end.

Record gstate := { g_root : node; g_next : N }.      (* next_id of add_graph_entry *)

(* add_graph_entry with curr = node at [p]; returns the new state (curr == NULL: -1, nothing done) *)
Definition g_enter (p : path) (x : name) (g : gstate) : gstate :=
  match find_path p (g_root g) with
  | None => g
  | Some cur =>
      match find_child x (n_kids cur) with
      | Some _ => {| g_root := upd_path p (fun n => match n with Node i m c t ct ks =>
                                  Node i m c t ct (upd_child x inc_calls ks) end) (g_root g);
                     g_next := g_next g |}
      | None => {| g_root := upd_path p (add_kid (Node (g_next g) x 1 0 0 [])) (g_root g);
                   g_next := g_next g + 1 |}
      end
  end.
(* add_graph_exit (+ the flame graph's exit callback when sample > 0) on the node at [p] *)
Definition g_exit (sample : N) (p : path) (total child : N) (g : gstate) : gstate :=
  let r1 := upd_path p (add_times total child) (g_root g) in
  let r2 := if (sample =? 0) then r1
            else match p with
                 | [] => r1                                      (* tg->node->parent == NULL *)
                 | _ => upd_path (removelast p) (adjust_child total ((total / sample) * sample)) r1
                 end in
  {| g_root := r2; g_next := g_next g |}.

(* ------------------------------------------------------------------------------------------ *)
(* 5. the replay loop shared by `graph` and `dump --flame-graph/--graphviz/--mermaid/--chrome` *)
(* ------------------------------------------------------------------------------------------ *)
Record tstate := { ts_path : path; ts_stack : list frame; ts_last : N }.
Definition t_init : tstate := {| ts_path := []; ts_stack := []; ts_last := 0 |}.

Fixpoint t_get (tid : N) (l : list (N * tstate)) : tstate :=
  match l with
  | [] => t_init
  | (k, s) :: r => if k =? tid then s else t_get tid r
  end.
Fixpoint t_set (tid : N) (s : tstate) (l : list (N * tstate)) : list (N * tstate) :=
  match l with
  | [] => [(tid, s)]
  | (k, s0) :: r => if k =? tid then (k, s) :: r else (k, s0) :: t_set tid s r
  end.

Record mstate := { m_g : gstate; m_t : list (N * tstate) }.

Definition bump_child (d : N) (st : list frame) : list frame :=
  match st with
  | [] => []
  | f :: r => {| f_name := f_name f; f_start := f_start f; f_child := add64 (f_child f) d |} :: r
  end.

Definition step (sample : N) (m : mstate) (r : N * ev) : mstate :=
  let '(tid, e) := r in
  let ts := t_get tid (m_t m) in
  match e with
  | Ent x t =>
      let g' := g_enter (ts_path ts) x (m_g m) in
      let ts' := {| ts_path := match find_path (ts_path ts) (g_root (m_g m)) with
                               | Some _ => ts_path ts ++ [x] | None => ts_path ts end;
                    ts_stack := {| f_name := x; f_start := t; f_child := 0 |} :: ts_stack ts;
                    ts_last := t |} in
      {| m_g := g'; m_t := t_set tid ts' (m_t m) |}
  | Ext x t =>
      match ts_stack ts with
      | [] => (* EXIT without a frame: outside the modelled (well-formed) inputs; only the time is noted *)
          {| m_g := m_g m; m_t := t_set tid {| ts_path := ts_path ts; ts_stack := []; ts_last := t |} (m_t m) |}
      | f :: rest =>
          let delta := sub64 t (f_start f) in
          let child := N.min (f_child f) delta in
          let g' := g_exit sample (ts_path ts) delta child (m_g m) in
          let ts' := {| ts_path := removelast (ts_path ts); ts_stack := bump_child delta rest; ts_last := t |} in
          {| m_g := g'; m_t := t_set tid ts' (m_t m) |}
      end
  end.

(* 'add duration of remaining functions': one task, frames popped from the top *)
Fixpoint close_frames (sample : N) (last : N) (carry : N) (st : list frame) (p : path) (g : gstate) : gstate * path :=
  match st with
  | [] => (g, p)
  | f :: rest =>
      let fc := add64 (f_child f) carry in           (* fstack[-1].child_time += total of the frame above *)
      if last <? f_start f then close_frames sample last 0 rest p g          (* `continue` *)
      else
        let delta := last - f_start f in
        let total := if delta <? fc then fc else delta in
        let g' := g_exit sample p total fc g in
        close_frames sample last total rest (removelast p) g'
  end.
Fixpoint close_tasks (sample : N) (tids : list N) (m : mstate) : mstate :=
  match tids with
  | [] => m
  | tid :: r =>
      let ts := t_get tid (m_t m) in
      let '(g', p') := close_frames sample (ts_last ts) 0 (ts_stack ts) (ts_path ts) (m_g m) in
      close_tasks sample r {| m_g := g'; m_t := t_set tid {| ts_path := p'; ts_stack := []; ts_last := ts_last ts |} (m_t m) |}
  end.

Definition root0 (rootname : name) : node := Node 0 rootname 0 0 0 [].
Definition m_init (rootname : name) : mstate := {| m_g := {| g_root := root0 rootname; g_next := 1 |}; m_t := [] |}.

(* the graph after the whole data was replayed; [tids] in the order of handle->tasks *)
Definition graph_build (sample : N) (rootname : name) (tids : list N) (s : stream) : node :=
  g_root (m_g (close_tasks sample tids (fold_left (step sample) s (m_init rootname)))).

(* ------------------------------------------------------------------------------------------ *)
(* 6. printers                                                                                *)
(* ------------------------------------------------------------------------------------------ *)
Fixpoint sum_time (ks : list node) : N :=
  match ks with [] => 0 | k :: r => add64 (n_time k) (sum_time r) end.

(* All four printers walk the tree depth first, children in list (= creation) order.  [walk] lists the
   nodes below the root in that order with their name path and their parent node. *)
Fixpoint walk (par : node) (prefix : path) (n : node) : list (path * node * node) :=
  match n with
  | Node _ m _ _ _ ks => (prefix ++ [m], par, n) :: flat_map (walk n (prefix ++ [m])) ks
  end.
Definition walk_root (root : node) : list (path * node * node) := flat_map (walk root []) (n_kids root).
Definition w_path (e : path * node * node) : path := fst (fst e).
Definition w_par (e : path * node * node) : node := snd (fst e).
Definition w_node (e : path * node * node) : node := snd e.

(* `uftrace graph` (full graph), print_graph_node: rows in print order: tree depth, name, nr_calls, total time *)
Definition grow := (N * name * N * option (N * N * N))%type.
Definition graph_rows (root : node) : list grow :=
  (* root: printed as '(1) <exename>', its time is the sum over the first-level nodes *)
  (0, n_name root, 1, time_unit (sum_time (n_kids root)))
  :: map (fun e => (N.of_nat (length (w_path e)), n_name (w_node e), n_calls (w_node e), time_unit (n_time (w_node e))))
         (walk_root root).

Fixpoint join (sep : N) (l : list name) : list N :=
  match l with
  | [] => []
  | [x] => x
  | x :: r => x ++ sep :: join sep r
  end.

(* print_flame_graph: (name path, count) of every printed line; the root has no name and nr_calls = 0 *)
Definition flame_count (sample : N) (n : node) : N :=
  if (n_calls n =? 0) || (sample =? 0) then n_calls n else sub64 (n_time n) (n_ctime n) / sample.
Definition flame_rows (sample : N) (root : node) : list (path * N) :=
  flat_map (fun e => let cnt := flame_count sample (w_node e) in
                     if cnt =? 0 then [] else [(w_path e, cnt)]) (walk_root root).
Definition flame_lines (sample : N) (root : node) : list (list N * N) :=
  map (fun r => (join 59 (fst r), snd r)) (flame_rows sample root).
(* the count is written with snprintf(ptr, len, '%lu', sample) where len = sum over the names of
   strlen + 1 = length of the joined text + 1: at most [length (fst l)] digits survive *)
Definition flame_text (l : list N * N) : list N := fst l ++ 32 :: firstn (length (fst l)) (dec (snd l)).
Definition flame_text_full (l : list N * N) : list N := fst l ++ 32 :: dec (snd l).
Definition flame_fits (l : list N * N) : bool := Nat.leb (length (dec (snd l))) (length (fst l)).

(* print_graph_to_graphviz: (parent name, name, nr_calls) per printed edge; the root itself has nr_calls 0 *)
Definition dot_rows (root : node) : list (name * name * N) :=
  flat_map (fun e => if n_calls (w_node e) =? 0 then []
                     else [(n_name (w_par e), n_name (w_node e), n_calls (w_node e))]) (walk_root root).
Definition dq (s : list N) : list N := 34 :: s ++ [34].
Definition s_arrow : list N := [32; 45; 62; 32].                                     (* ' -> ' *)
Definition s_xlabel : list N := [32; 91; 120; 108; 97; 98; 101; 108; 32; 61; 32; 34].   (* ' [xlabel = ' + quote *)
Definition dot_text (r : name * name * N) : list N :=      (* the line without the leading blanks *)
  let '(a, b, c) := r in dq a ++ s_arrow ++ dq b ++ s_xlabel ++ dec c ++ [34; 93].
Definition dot_lines (root : node) : list (list N) := map dot_text (dot_rows root).

(* print_graph_node_mermaid: '  D_ID[name] -->|calls| D+1_ID[child];' - one line per node below the root,
   printed right before its subtree *)
Definition mm_ref (d id : N) (m : name) : list N :=
  dec d ++ 95 :: dec id ++ [91; 34] ++ m ++ [34; 93].
Definition mermaid_text (e : path * node * node) : list N :=
  let d := N.of_nat (length (w_path e)) in
  [32; 32] ++ mm_ref (d - 1) (n_id (w_par e)) (n_name (w_par e)) ++ [32; 45; 45; 62; 124]
  ++ dec (n_calls (w_node e)) ++ [124; 32] ++ mm_ref d (n_id (w_node e)) (n_name (w_node e)) ++ [59].
Definition mermaid_lines (root : node) : list (list N) := map mermaid_text (walk_root root).

(* ------------------------------------------------------------------------------------------ *)
(* 7. chrome trace events                                                                      *)
(* ------------------------------------------------------------------------------------------ *)
(* ph: true = 'B', false = 'E';  pid ; optional tid ; name as a JSON parser returns it ; ts = q.rrr *)
Record cev := { c_begin : bool; c_pid : N; c_tid : option N; c_name : list N; c_q : N; c_r : N }.
Definition mk_cev (tasks : list (N * N)) (tid : N) (b : bool) (x : name) (t : N) : cev :=
  let pid := match find (fun p => fst p =? tid) tasks with Some (_, p) => p | None => tid end in
  {| c_begin := b; c_pid := pid;
     c_tid := (if pid =? tid then None else Some tid);
     c_name := shown x; c_q := t / 1000; c_r := t mod 1000 |}.
Definition chrome_of_record (tasks : list (N * N)) (r : N * ev) : cev :=
  match snd r with
  | Ent x t => mk_cev tasks (fst r) true x t
  | Ext x t => mk_cev tasks (fst r) false x t
  end.
(* the frames still open at the end, closed at the task's last time stamp, innermost first *)
Fixpoint chrome_close (tasks : list (N * N)) (tid last : N) (st : list frame) : list cev :=
  match st with
  | [] => []
  | f :: rest => if last <? f_start f then chrome_close tasks tid last rest
                 else mk_cev tasks tid false (f_name f) last :: chrome_close tasks tid last rest
  end.
Definition chrome_events (tasks : list (N * N)) (s : stream) : list cev :=
  let m := fold_left (step 0) s (m_init []) in
  map (chrome_of_record tasks) s
  ++ flat_map (fun tp => let ts := t_get (fst tp) (m_t m) in chrome_close tasks (fst tp) (ts_last ts) (ts_stack ts)) tasks.

(* string argument / return value of a record (--show-args is the default): get_argspec_string with NEEDS_JSON.
   [raw] = the bytes of the payload string (its 2-byte length field says how many); the C code treats them as
   a C string.  arg_json = the text put between the quotes of the 'arguments' / 'retval' member,
   arg_shown = what a JSON parser returns for it. *)
Fixpoint cstr (s : list N) : list N :=
  match s with [] => [] | c :: r => if c mod 256 =? 0 then [] else c :: cstr r end.
Definition is_null_str (raw : list N) : bool :=
  match raw with [255; 255; 255; 255] => true | _ => false end.
Definition arg_json (entry : bool) (raw : list N) : list N :=
  let body := if is_null_str raw then [78; 85; 76; 76]
              else [92; 34] ++ json_escape (cstr raw) ++ [92; 34] in
  if entry then 40 :: body ++ [41] else body.
Definition arg_shown (entry : bool) (raw : list N) : list N :=
  let body := if is_null_str raw then [78; 85; 76; 76]
              else [34] ++ shown (cstr raw) ++ [34] in
  if entry then 40 :: body ++ [41] else body.

(* ---- the argument text with its buffer (cmds/replay.c print_args / print_char after 618ee80) ----
   The text is written piece by piece (one print_args call = one piece: a separator, a quote, ONE escaped character)
   into a buffer of [room] bytes: a piece that does not fit (its length >= what is left, one byte is kept for the NUL)
   is dropped as a whole and nothing more is taken. *)
Definition put (st : list N * N) (piece : list N) : list N * N :=
  let '(out, room) := st in
  if room <=? 1 then st
  else if room <=? N.of_nat (length piece) then (out, 1)
  else (out ++ piece, room - N.of_nat (length piece)).
Definition put_all (st : list N * N) (pieces : list (list N)) : list N * N := fold_left put pieces st.
Fixpoint hex_aux (fuel : nat) (n : N) (acc : list N) : list N :=
  match fuel with
  | O => acc
  | S f => let acc' := hex_digit (n mod 16) :: acc in
           if n / 16 =? 0 then acc' else hex_aux f (n / 16) acc'
  end.
Definition hex (n : N) : list N := hex_aux 40 n [].               (* '%lx' *)
Fixpoint oct_aux (fuel : nat) (n : N) (acc : list N) : list N :=
  match fuel with
  | O => acc
  | S f => let acc' := (48 + n mod 8) :: acc in
           if n / 8 =? 0 then acc' else oct_aux f (n / 8) acc'
  end.
Definition oct (n : N) : list N := oct_aux 40 n [].               (* '%llo' *)
(* six decimals *)
Definition d6 (n : N) : list N :=
  [48 + n / 100000 mod 10; 48 + n / 10000 mod 10; 48 + n / 1000 mod 10; 48 + n / 100 mod 10; 48 + n / 10 mod 10; 48 + n mod 10].
(* '%lld' of the 64-bit pattern v *)
Definition sdec (v : N) : list N := if v <? 9223372036854775808 then dec v else 45 :: dec (W64 - v).
(* the arguments of a record: strings (payload bytes, a C string), chars, pointers (with the name of the symbol
   at that address, if any: task_find_sym_addr), 64-bit integers in the formats u, d (auto), i, x, o, structs
   passed by value (type name from the argument spec, size) and doubles of the form k/64 (sign, k) *)
Inductive argv := AStr (raw : list N) | AChr (c : N) | APtr (sym : option name) (v : N) | AUint (v : N)
  | AStruct (tn : option name) (size : N) | AFlt (neg : bool) (k : N)
  | AAuto (v : N) | ASint (v : N) | AHex (v : N) | AOct (v : N).
Definition lambda_name : name := [60; 108; 97; 109; 98; 100; 97].        (* <lambda *)
Definition struct_tail (size : N) : list N := if size =? 0 then [123; 125] else [123; 46; 46; 46; 125].
Definition arg_pieces (a : argv) : list (list N) :=
  match a with
  | AStr raw => if is_null_str raw then [[78; 85; 76; 76]]
                else [92; 34] :: map json_escape_char (cstr raw) ++ [[92; 34]]
  | AChr c => [39] :: json_escape_char c :: [[39]]
  | APtr (Some nm) _ => [38] :: map json_escape_char (cstr nm)       (* '&' + the escaped name (fix 767f11d) *)
  | APtr None v => if v =? 0 then [[48]] else [[48; 120] ++ hex v]     (* '0' / '%p' *)
  | AUint v => if 100000 <? v then [[48; 120] ++ hex v] else [dec v]  (* '%#llx' above 100000, else '%#llu' *)
  | AStruct tn size =>                        (* the escaped type name (not gcc's '<lambda'), then '{...}' or '{}' *)
      match tn with
      | Some nm => if name_eqb (cstr nm) lambda_name then [] else map json_escape_char (cstr nm)
      | None => []
      end ++ [struct_tail size]
  | AFlt neg k => [(if neg then [45] else []) ++ dec (k / 64) ++ 46 :: d6 (k mod 64 * 15625)]       (* '%#f' *)
  | AAuto v =>                      (* within +-100000: '%lld'; 0xffff0001..0xffffffff: '%d'; else '%#llx' *)
      if (v <=? 100000) || (W64 - 100000 <=? v) then [sdec v]
      else if (4294901760 <? v) && (v <=? 4294967295) then [45 :: dec (4294967296 - v)]
      else [[48; 120] ++ hex v]
  | ASint v => [sdec v]
  | AHex v => if v =? 0 then [[48]] else [[48; 120] ++ hex v]         (* '%#llx' *)
  | AOct v => if v =? 0 then [[48]] else [48 :: oct v]                (* '%#llo' *)
  end.
(* the code as found printed the type name of a struct raw, in one piece *)
Definition struct_text_legacy (nm : name) (size : N) : list N := nm ++ struct_tail size.
(* the code as found printed the symbol name of a pointer raw: '&' + name in one piece *)
Definition ptr_text_legacy (nm : name) : list N := 38 :: nm.
(* the argument loop of get_argspec_string: ', ' between arguments, `if (len <= 2) break` after each *)
Fixpoint args_loop (first : bool) (args : list argv) (st : list N * N) : list N * N :=
  match args with
  | [] => st
  | a :: r =>
      let st1 := if first then st else put st [44; 32] in
      let st2 := put_all st1 (arg_pieces a) in
      if snd st2 <=? 2 then st2 else args_loop false r st2
  end.
Definition SPEC_BUF : N := 2048.                     (* char spec_buf[2048] in dump_chrome_task_rstack *)
(* ENTRY: '(' a1, a2, ... ')' ; EXIT: the return value alone (the first retval spec) *)
Definition args_text (entry : bool) (args : list argv) : list N :=
  if entry then fst (put (args_loop true args (put ([], SPEC_BUF) [40])) [41])
  else match args with [] => [] | a :: _ => fst (put_all ([], SPEC_BUF) (arg_pieces a)) end.

(* decoding the two-byte escapes backslash-backslash and backslash-quote (all that these texts contain) *)
Fixpoint unesc (pending : bool) (s : list N) : list N :=
  match s with
  | [] => []
  | c :: r => if pending then c :: unesc false r
              else if c =? 92 then unesc true r else c :: unesc false r
  end.
Definition unescape (s : list N) : list N := unesc false s.

(* dump_chrome_footer: the text after the last event *)
Definition bytes_version : list N := [34; 118; 101; 114; 115; 105; 111; 110; 34; 58; 34; 117; 102; 116; 114; 97; 99; 101; 32].
Definition chrome_metadata_members (version date : list N) (cmdline : option (list N)) : list N :=
  (* 'version':'uftrace V',\n 'recorded_time':'D',\n ['command_line':'C'\n] *)
  bytes_version ++ version ++ [34; 44; 10]
  ++ [34; 114; 101; 99; 111; 114; 100; 101; 100; 95; 116; 105; 109; 101; 34; 58; 34] ++ date ++ [34; 44; 10]
  ++ match cmdline with
     | Some c => [34; 99; 111; 109; 109; 97; 110; 100; 95; 108; 105; 110; 101; 34; 58; 34] ++ c ++ [34; 10]
     | None => []
     end.

(* ------------------------------------------------------------------------------------------ *)
(* 8. the reference aggregation (what the property text says) and the executable checkers       *)
(* ------------------------------------------------------------------------------------------ *)
(* per task: the stack of open calls, innermost first, as (name, entry time) *)
Definition rstack := list (name * N).
Fixpoint r_get (tid : N) (l : list (N * rstack)) : rstack :=
  match l with [] => [] | (k, s) :: r => if k =? tid then s else r_get tid r end.
Fixpoint r_set (tid : N) (s : rstack) (l : list (N * rstack)) : list (N * rstack) :=
  match l with
  | [] => [(tid, s)]
  | (k, s0) :: r => if k =? tid then (k, s) :: r else (k, s0) :: r_set tid s r
  end.
Definition rpath (st : rstack) : path := rev (map fst st).

(* one finished call: task, name path (own name last), entry and exit time *)
Record rcall := { rc_tid : N; rc_path : path; rc_t0 : N; rc_t1 : N }.
Definition rc_dur (c : rcall) : N := rc_t1 c - rc_t0 c.

(* calls in the order of their ENTRY records *)
Fixpoint ref_entries (st : list (N * rstack)) (s : stream) : list path :=
  match s with
  | [] => []
  | (tid, Ent x t) :: r => let k := r_get tid st in
                           rpath ((x, t) :: k) :: ref_entries (r_set tid ((x, t) :: k) st) r
  | (tid, Ext x t) :: r => ref_entries (r_set tid (tl (r_get tid st)) st) r
  end.
(* the last record time of a task *)
Fixpoint last_time (tid : N) (s : stream) (acc : N) : N :=
  match s with
  | [] => acc
  | (k, e) :: r => last_time tid r (if k =? tid then ev_time e else acc)
  end.
Fixpoint close_ref (tid last : N) (k : rstack) : list rcall :=
  match k with
  | [] => []
  | (x, t0) :: r => {| rc_tid := tid; rc_path := rpath k; rc_t0 := t0; rc_t1 := last |} :: close_ref tid last r
  end.
(* finished calls in the order of their EXIT records, then the calls still open at the end,
   closed at the task's last time stamp (the property's 'open calls') *)
Fixpoint ref_calls_run (st : list (N * rstack)) (s : stream) : list rcall * list (N * rstack) :=
  match s with
  | [] => ([], st)
  | (tid, Ent x t) :: r => ref_calls_run (r_set tid ((x, t) :: r_get tid st) st) r
  | (tid, Ext x t) :: r =>
      match r_get tid st with
      | [] => ref_calls_run st r
      | (y, t0) :: k => let '(cs, st') := ref_calls_run (r_set tid k st) r in
                        ({| rc_tid := tid; rc_path := rpath ((y, t0) :: k); rc_t0 := t0; rc_t1 := t |} :: cs, st')
      end
  end.
Definition ref_calls (tids : list N) (s : stream) : list rcall :=
  let '(cs, st) := ref_calls_run [] s in
  cs ++ flat_map (fun tid => close_ref tid (last_time tid s 0) (r_get tid st)) tids.

Definition count_path (p : path) (l : list path) : N :=
  fold_right (fun q acc => if path_eqb p q then acc + 1 else acc) 0 l.
Definition time_path (p : path) (l : list rcall) : N :=
  fold_right (fun c acc => if path_eqb p (rc_path c) then acc + rc_dur c else acc) 0 l.
(* flame graph with sampling: the part of the children's time that was turned into samples *)
Definition sampled_child_time (sample : N) (p : path) (l : list rcall) : N :=
  fold_right (fun c acc => if path_eqb p (removelast (rc_path c)) then acc + (rc_dur c / sample) * sample else acc) 0 l.

Fixpoint mem_path (p : path) (l : list path) : bool :=
  match l with [] => false | q :: r => path_eqb p q || mem_path p r end.
Fixpoint nodup_paths (l : list path) (seen : list path) : list path :=
  match l with
  | [] => []
  | p :: r => if mem_path p seen then nodup_paths r seen else p :: nodup_paths r (p :: seen)
  end.
(* distinct call paths in the order of their first ENTRY (= creation order of the graph nodes) *)
Definition ref_paths (s : stream) : list path := nodup_paths (ref_entries [] s) [].

(* well-formed input: every EXIT closes the innermost open call of its task and carries its name;
   time stamps do not go backwards inside a task and fit 64 bits *)
Fixpoint wf_run (st : list (N * rstack)) (s : stream) : bool :=
  match s with
  | [] => true
  | (tid, Ent x t) :: r => wf_run (r_set tid ((x, t) :: r_get tid st) st) r
  | (tid, Ext x t) :: r =>
      match r_get tid st with
      | [] => false
      | (y, t0) :: k => name_eqb x y && wf_run (r_set tid k st) r
      end
  end.
Fixpoint l_get (tid : N) (l : list (N * N)) : N :=
  match l with [] => 0 | (k, v) :: r => if k =? tid then v else l_get tid r end.
Fixpoint l_set (tid : N) (v : N) (l : list (N * N)) : list (N * N) :=
  match l with
  | [] => [(tid, v)]
  | (k, v0) :: r => if k =? tid then (k, v) :: r else (k, v0) :: l_set tid v r
  end.
Fixpoint mono_run (ls : list (N * N)) (s : stream) : bool :=
  match s with
  | [] => true
  | (tid, e) :: r => (l_get tid ls <=? ev_time e) && (ev_time e <? W64) && mono_run (l_set tid (ev_time e) ls) r
  end.
Definition wf_stream (s : stream) : bool := wf_run [] s && mono_run [] s.

(* ---- byte-string multisets ---- *)
Fixpoint bytes_eqb (a b : list N) : bool :=
  match a, b with
  | [], [] => true
  | x :: a', y :: b' => (x =? y) && bytes_eqb a' b'
  | _, _ => false
  end.
Definition count_bytes (x : list N) (l : list (list N)) : nat :=
  fold_right (fun y acc => if bytes_eqb x y then S acc else acc) O l.
Definition same_lines (a b : list (list N)) : bool :=
  Nat.eqb (length a) (length b) && forallb (fun x => Nat.eqb (count_bytes x a) (count_bytes x b)) a.
Fixpoint lines_eqb (a b : list (list N)) : bool :=
  match a, b with
  | [], [] => true
  | x :: a', y :: b' => bytes_eqb x y && lines_eqb a' b'
  | _, _ => false
  end.

Definition index_of (p : path) (l : list path) : N :=
  (fix go (l : list path) (i : N) : N :=
     match l with [] => i | q :: r => if path_eqb p q then i else go r (i + 1) end) l 0.

(* ---- expected lines computed from the reference aggregation only ---- *)
(* [adjust] = true: the children's time is rounded down to whole samples before it is subtracted
   (adjust_fg_time: time that gave no sample to a child is shown in the parent);
   [adjust] = false: plain self time / sample time *)
Definition child_time_of (p : path) (l : list rcall) : N :=
  fold_right (fun c acc => if path_eqb p (removelast (rc_path c)) then acc + rc_dur c else acc) 0 l.
Definition ref_flame_gen (adjust : bool) (sample : N) (tids : list N) (s : stream) : list (list N * N) :=
  let es := ref_entries [] s in
  let cs := ref_calls tids s in
  flat_map (fun p =>
              let cnt := if sample =? 0 then count_path p es
                         else (time_path p cs - (if adjust then sampled_child_time sample p cs else child_time_of p cs)) / sample in
              if cnt =? 0 then [] else [(join 59 p, cnt)]) (ref_paths s).
Definition ref_flame := ref_flame_gen true.
Definition ref_dot (rootname : name) (s : stream) : list (list N) :=
  let es := ref_entries [] s in
  map (fun p => dq (last (removelast p) rootname) ++ s_arrow ++ dq (last p []) ++ s_xlabel
                ++ dec (count_path p es) ++ [34; 93]) (ref_paths s).
Definition ref_mermaid (rootname : name) (s : stream) : list (list N) :=
  let es := ref_entries [] s in
  let ps := ref_paths s in
  let idof (p : path) := match p with [] => 0 | _ => 1 + index_of p ps end in
  let refn (p : path) := dec (N.of_nat (length p)) ++ 95 :: dec (idof p) ++ [91; 34] ++ last p rootname ++ [34; 93] in
  map (fun p => [32; 32] ++ refn (removelast p) ++ [32; 45; 45; 62; 124] ++ dec (count_path p es) ++ [124; 32]
                ++ refn p ++ [59]) ps.

(* `uftrace graph` rows -> (path, calls, time field): paths rebuilt from the pre-order depths *)
Fixpoint rows_paths (cur : path) (rows : list grow) : list (path * N * option (N * N * N)) :=
  match rows with
  | [] => []
  | (d, x, c, t) :: r =>
      let p := firstn (N.to_nat d - 1) cur ++ [x] in
      (p, c, t) :: rows_paths p r
  end.
Definition tu_eqb (a b : option (N * N * N)) : bool :=
  match a, b with
  | None, None => true
  | Some (x, y, z), Some (x', y', z') => (x =? x') && (y =? y') && (z =? z')
  | _, _ => false
  end.
(* property C15, graph part, for the rows the implementation printed *)
Definition ok_graph_rows (tids : list N) (s : stream) (rows : list grow) : bool :=
  let es := ref_entries [] s in
  let cs := ref_calls tids s in
  let ps := ref_paths s in
  match rows with
  | [] => match ps with [] => true | _ => false end      (* 'cannot find graph' is printed instead *)
  | (d0, _, c0, t0) :: body =>
      let rp := rows_paths [] body in
      (d0 =? 0) && (c0 =? 1)
      && tu_eqb t0 (time_unit (fold_right (fun c acc => match rc_path c with [_] => acc + rc_dur c | _ => acc end) 0 cs))
      && Nat.eqb (length rp) (length ps)
      && forallb (fun p => Nat.eqb (length (filter (fun r => path_eqb p (fst (fst r))) rp)) 1) ps
      && forallb (fun r => let '(p, c, t) := r in
                           mem_path p ps && (c =? count_path p es) && tu_eqb t (time_unit (time_path p cs))) rp
  end.

(* property C15, flame / graphviz / mermaid part: the printed lines are, as a multiset, the expected ones *)
Definition ok_flame (sample : N) (tids : list N) (s : stream) (lines : list (list N)) : bool :=
  same_lines lines (map flame_text_full (ref_flame_gen true sample tids s))
  || same_lines lines (map flame_text_full (ref_flame_gen false sample tids s)).
(* every expected count fits the space print_flame_graph gives it (outside: defect flame-count-truncated) *)
Definition flame_all_fit (sample : N) (tids : list N) (s : stream) : bool :=
  forallb flame_fits (ref_flame sample tids s).
Definition ok_dot (rootname : name) (s : stream) (lines : list (list N)) : bool :=
  same_lines lines (ref_dot rootname s).
Definition ok_mermaid (rootname : name) (s : stream) (lines : list (list N)) : bool :=
  same_lines lines (ref_mermaid rootname s).

(* ---- chrome: per thread balanced, properly nested, named and stamped after the records ---- *)
Definition thread_of (c : cev) : N * N := (c_pid c, match c_tid c with Some t => t | None => c_pid c end).
Definition same_thread (a b : N * N) : bool := (fst a =? fst b) && (snd a =? snd b).
(* stack discipline for one thread's events: every E closes the innermost open B of the same name,
   nothing stays open, time stamps do not go backwards *)
Fixpoint nested (open : list (list N)) (prev : N * N) (l : list cev) : bool :=
  match l with
  | [] => match open with [] => true | _ => false end
  | c :: r =>
      let ts := (c_q c, c_r c) in
      let mono := (fst prev <? fst ts) || ((fst prev =? fst ts) && (snd prev <=? snd ts)) in
      (c_r c <? 1000) && mono &&
      (if c_begin c then nested (c_name c :: open) ts r
       else match open with
            | [] => false
            | x :: o => bytes_eqb x (c_name c) && nested o ts r
            end)
  end.
Definition cev_eqb (a b : cev) : bool :=
  Bool.eqb (c_begin a) (c_begin b) && (c_pid a =? c_pid b)
  && match c_tid a, c_tid b with None, None => true | Some x, Some y => x =? y | _, _ => false end
  && bytes_eqb (c_name a) (c_name b) && (c_q a =? c_q b) && (c_r a =? c_r b).
Fixpoint cevs_eqb (a b : list cev) : bool :=
  match a, b with
  | [], [] => true
  | x :: a', y :: b' => cev_eqb x y && cevs_eqb a' b'
  | _, _ => false
  end.
(* the records of one task as events (spec side: straight from the stream) *)
Definition records_of (tasks : list (N * N)) (tid : N) (s : stream) : list cev :=
  map (chrome_of_record tasks) (filter (fun r => fst r =? tid) s).
Fixpoint is_prefix (a b : list cev) : bool :=
  match a, b with
  | [], _ => true
  | x :: a', y :: b' => cev_eqb x y && is_prefix a' b'
  | _, _ => false
  end.
Definition ok_chrome (tasks : list (N * N)) (s : stream) (evs : list cev) : bool :=
  forallb (fun tp =>
    let th := thread_of (mk_cev tasks (fst tp) true [] 0) in
    let mine := filter (fun c => same_thread (thread_of c) th) evs in
    let recs := records_of tasks (fst tp) s in
    let lt := last_time (fst tp) s 0 in
    (* every record of the task is there, in order, named and stamped after it ... *)
    is_prefix recs mine
    (* ... whatever follows are the closing events of the open calls at the task's last time *)
    && forallb (fun c => negb (c_begin c) && (c_q c =? lt / 1000) && (c_r c =? lt mod 1000)) (skipn (length recs) mine)
    && nested [] (0, 0) mine) tasks
  && forallb (fun c => existsb (fun tp => same_thread (thread_of c) (thread_of (mk_cev tasks (fst tp) true [] 0))) tasks) evs.

Fixpoint bad_indices {A} (f : A -> bool) (l : list A) (i : nat) : list nat :=
  match l with
  | [] => []
  | x :: r => if f x then bad_indices f r (S i) else i :: bad_indices f r (S i)
  end.

(* ------------------------------------------------------------------------------------------ *)
(* 9. one differential case: inputs + what the real uftrace printed                           *)
(* ------------------------------------------------------------------------------------------ *)
Record case := {
  k_tasks : list (N * N);                       (* (tid, pid) in the order of handle->tasks *)
  k_root : name;                                (* basename of the executable *)
  k_syms : list name;
  k_recs : list (N * bool * N * N);             (* tid, is-entry, symbol index, time *)
  k_sample : N;                                 (* --sample-time of the second flame run *)
  k_graph : list grow;
  k_flame0 : list (list N);
  k_flameS : list (list N);
  k_dot : list (list N);
  k_mermaid : list (list N);
  k_chrome : list cev;
  k_json_ok : bool;                             (* the whole --chrome output parsed as JSON *)
  k_args : list (option (list argv));           (* per record: its argument payload, if it has one *)
  k_chrome_args : list (option (list N))        (* per printed event: the decoded arguments / retval member *)
}.
Definition k_stream (k : case) : stream :=
  map (fun r : N * bool * N * N => let '(tid, b, i, t) := r in
                let x : name := nth (N.to_nat i) (k_syms k) (@nil N) in
                (tid, if b then Ent x t else Ext x t)) (k_recs k).
Definition k_tids (k : case) : list N := map fst (k_tasks k).
(* scheduler events are calls of pseudo functions: the graphs tell 'linux:schedule (pre-empted)' from
   'linux:schedule' (utils/graph.c add_graph_event); dump --chrome names both 'linux:schedule' (the sched-in event
   that closes them cannot know) *)
Definition s_sched : name := [108; 105; 110; 117; 120; 58; 115; 99; 104; 101; 100; 117; 108; 101].
Definition s_sched_pre : name := s_sched ++ [32; 40; 112; 114; 101; 45; 101; 109; 112; 116; 101; 100; 41].
Definition chrome_name (x : name) : name := if name_eqb x s_sched_pre then s_sched else x.
Definition chrome_stream (s : stream) : stream :=
  map (fun r => (fst r, match snd r with Ent x t => Ent (chrome_name x) t | Ext x t => Ext (chrome_name x) t end)) s.
Definition k_cstream (k : case) : stream := chrome_stream (k_stream k).

(* the code as found (before feda1db): `graph` took the end time of the calls still open at the end of the data from
   task->rstack->time; for a task whose last record was a scheduler (perf) event that pointer is the one static record
   of get_perf_record(), which holds the LAST scheduler event of any task by then *)
Definition is_sched (x : name) : bool := name_eqb x s_sched || name_eqb x s_sched_pre.
Definition ev_name (e : ev) : name := match e with Ent x _ | Ext x _ => x end.
Fixpoint last_sched_time (s : stream) (acc : N) : N :=
  match s with
  | [] => acc
  | (_, e) :: r => last_sched_time r (if is_sched (ev_name e) then ev_time e else acc)
  end.
Fixpoint last_is_sched (tid : N) (s : stream) (acc : bool) : bool :=
  match s with
  | [] => acc
  | (k, e) :: r => last_is_sched tid r (if k =? tid then is_sched (ev_name e) else acc)
  end.
Definition legacy_last (s : stream) (tid own : N) : N :=
  if last_is_sched tid s false then last_sched_time s own else own.
Definition patch_last (s : stream) (m : mstate) : mstate :=
  {| m_g := m_g m;
     m_t := map (fun p => (fst p, {| ts_path := ts_path (snd p); ts_stack := ts_stack (snd p);
                                     ts_last := legacy_last s (fst p) (ts_last (snd p)) |})) (m_t m) |}.
(* the code as found (before bc8d6cc): the loop of do_dump_replay closing the open calls ended an open linux:schedule
   as a function EXIT at the 'address' EVENT_ID_PERF_SCHED_OUT (200002 = 0x30d42) / ..._PREEMPT (200007 = 0x30d47),
   which no symbol covers: dump --chrome named the E event after the number *)
Definition legacy_close_name (x : name) : name :=
  if name_eqb x s_sched then [60; 51; 48; 100; 52; 50; 62]                 (* <30d42> *)
  else if name_eqb x s_sched_pre then [60; 51; 48; 100; 52; 55; 62]        (* <30d47> *)
  else x.
Fixpoint chrome_close_legacy (tasks : list (N * N)) (tid last : N) (st : list frame) : list cev :=
  match st with
  | [] => []
  | f :: rest => if last <? f_start f then chrome_close_legacy tasks tid last rest
                 else mk_cev tasks tid false (legacy_close_name (f_name f)) last :: chrome_close_legacy tasks tid last rest
  end.
(* [s]: the records with the graph names ('linux:schedule (pre-empted)' told apart) *)
Definition chrome_events_legacy (tasks : list (N * N)) (s : stream) : list cev :=
  let m := fold_left (step 0) s (m_init []) in
  map (chrome_of_record tasks) (chrome_stream s)
  ++ flat_map (fun tp => let ts := t_get (fst tp) (m_t m) in
                         chrome_close_legacy tasks (fst tp) (ts_last ts) (ts_stack ts)) tasks.
Definition graph_build_legacy (sample : N) (rootname : name) (tids : list N) (s : stream) : node :=
  g_root (m_g (close_tasks sample tids (patch_last s (fold_left (step sample) s (m_init rootname))))).

Definition grow_eqb (a b : grow) : bool :=
  let '(d, x, c, t) := a in let '(d', x', c', t') := b in
  (d =? d') && bytes_eqb x x' && (c =? c') && tu_eqb t t'.
Fixpoint grows_eqb (a b : list grow) : bool :=
  match a, b with
  | [], [] => true
  | x :: a', y :: b' => grow_eqb x y && grows_eqb a' b'
  | _, _ => false
  end.

(* model = implementation, output by output *)
Definition agree_graph (k : case) : bool :=
  match k_recs k with
  | [] => match k_graph k with [] => true | _ => false end
  | _ => grows_eqb (graph_rows (graph_build 0 (k_root k) (k_tids k) (k_stream k))) (k_graph k)
  end.
(* [fixed]: the count of a flame line is printed in full (the code after proposed fix C15-2);
   the tie finds out which of the two the tree under test does from the dedicated witness *)
Definition flame_text_v (fixed : bool) (l : list N * N) : list N :=
  if fixed then flame_text_full l else flame_text l.
Definition agree_flame0 (fixed : bool) (k : case) : bool :=
  lines_eqb (map (flame_text_v fixed) (flame_lines 0 (graph_build 0 [] (k_tids k) (k_stream k)))) (k_flame0 k).
Definition agree_flameS (fixed : bool) (k : case) : bool :=
  lines_eqb (map (flame_text_v fixed) (flame_lines (k_sample k) (graph_build (k_sample k) [] (k_tids k) (k_stream k)))) (k_flameS k).
Definition agree_dot (k : case) : bool :=
  lines_eqb (dot_lines (graph_build 0 (k_root k) (k_tids k) (k_stream k))) (k_dot k).
Definition agree_mermaid (k : case) : bool :=
  lines_eqb (mermaid_lines (graph_build 0 (k_root k) (k_tids k) (k_stream k))) (k_mermaid k).
Fixpoint opts_eqb (a b : list (option (list N))) : bool :=
  match a, b with
  | [], [] => true
  | None :: a', None :: b' => opts_eqb a' b'
  | Some x :: a', Some y :: b' => bytes_eqb x y && opts_eqb a' b'
  | _, _ => false
  end.
(* the i-th printed event belongs to the i-th record; the closing events at the end carry nothing *)
Definition chrome_args (k : case) : list (option (list N)) :=
  map (fun ra : (N * bool * N * N) * option (list argv) =>
         let '((_, b, _, _), a) := ra in option_map (fun l => unescape (args_text b l)) a) (combine (k_recs k) (k_args k))
  ++ repeat None (length (k_chrome k) - length (k_recs k)).
Definition agree_chrome (k : case) : bool :=
  cevs_eqb (chrome_events (k_tasks k) (k_cstream k)) (k_chrome k)
  && opts_eqb (chrome_args k) (k_chrome_args k).

(* the property, judged on what the implementation printed (reference aggregation only) *)
Definition okc_graph (k : case) : bool := ok_graph_rows (k_tids k) (k_stream k) (k_graph k).
Definition okc_flame0 (k : case) : bool := ok_flame 0 (k_tids k) (k_stream k) (k_flame0 k).
Definition okc_flameS (k : case) : bool := ok_flame (k_sample k) (k_tids k) (k_stream k) (k_flameS k).
Definition okc_dot (k : case) : bool := ok_dot (k_root k) (k_stream k) (k_dot k).
Definition okc_mermaid (k : case) : bool := ok_mermaid (k_root k) (k_stream k) (k_mermaid k).
Definition okc_chrome (k : case) : bool := k_json_ok k && ok_chrome (k_tasks k) (k_cstream k) (k_chrome k).
Definition wf_case (k : case) : bool := wf_stream (k_stream k).
Definition fits_flame0 (k : case) : bool := flame_all_fit 0 (k_tids k) (k_stream k).
Definition fits_flameS (k : case) : bool := flame_all_fit (k_sample k) (k_tids k) (k_stream k).

(* escape function: (input bytes, what the implementation produced) *)
Definition agree_escape (c : list N * list N) : bool := bytes_eqb (json_escape (fst c)) (snd c).
Definition okc_escape (c : list N * list N) : bool := json_string_ok (quoted (snd c)).
Definition agree_quote (c : list N * list N) : bool := bytes_eqb (cmdline_info (fst c)) (snd c).
Definition okc_quote (c : list N * list N) : bool := json_string_ok (quoted (snd c)).
