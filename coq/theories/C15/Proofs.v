(* C15 - entry point of the proofs *)
Require Export UV.C15.ProofsJson UV.C15.ProofsTree UV.C15.ProofsRun UV.C15.ProofsWalk UV.C15.ProofsOut
               UV.C15.ProofsChrome UV.C15.ProofsSample UV.C15.ProofsBound UV.C15.ProofsFlame UV.C15.ProofsDoc UV.C15.ProofsGraphF UV.C15.ProofsBT.
