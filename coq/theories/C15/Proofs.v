(* C15 - entry point of the proofs (split over ProofsJson / ProofsGraph / ProofsChrome) *)
Require Export UV.C15.ProofsJson.
