(* C15 - child time of the graph nodes and the sampled flame graph (adjust_fg_time) *)
From Coq Require Import NArith ZArith List Bool Lia.
From Coq Require Import ZifyBool ZifyN ZifyNat.
Import ListNotations.
Require Import UV.C15.Model UV.C15.ProofsTree UV.C15.ProofsRun.
Local Open Scope N_scope.
Ltac Zify.zify_post_hook ::= Z.div_mod_to_equations.

(* the part of a child's duration its parent node is charged with *)
Definition acc (s d : N) : N := if s =? 0 then d else (d / s) * s.
Definition Asum (s : N) (q : path) (cs : list rcall) : N :=
  fold_right (fun c a => if path_eqb q (removelast (rc_path c)) then a + acc s (rc_dur c) else a) 0 cs.
Lemma Asum_cons : forall s q c cs,
  Asum s q (c :: cs) = if path_eqb q (removelast (rc_path c)) then Asum s q cs + acc s (rc_dur c) else Asum s q cs.
Proof. reflexivity. Qed.
Lemma Asum_app : forall s q a b, Asum s q (a ++ b) = Asum s q a + Asum s q b.
Proof.
  intros s q a b. induction a as [|c a IH]; [reflexivity|]. simpl app. rewrite !Asum_cons, IH.
  destruct (path_eqb q (removelast (rc_path c))); lia.
Qed.

(* child time collected so far in the open frames whose node is q *)
Fixpoint open_in (q p : path) (st : list frame) : N :=
  match st with
  | [] => 0
  | f :: r => (if path_eqb q p then f_child f else 0) + open_in q (removelast p) r
  end.
Definition open_ts (q : path) (ts : tstate) : N := open_in q (ts_path ts) (ts_stack ts).
(* ... summed over the tasks of the data *)
Fixpoint Osum (q : path) (tids : list N) (l : list (N * tstate)) : N :=
  match tids with [] => 0 | a :: r => open_ts q (t_get a l) + Osum q r l end.

Lemma Osum_t_set_notin : forall q tids tid v l, ~ In tid tids -> Osum q tids (t_set tid v l) = Osum q tids l.
Proof.
  intros q tids tid v l. induction tids as [|a r IH]; intros H; [reflexivity|]. simpl.
  rewrite t_get_set. assert (E : tid =? a = false) by (apply N.eqb_neq; intros ->; apply H; left; reflexivity).
  rewrite E, IH; [reflexivity|]. intros Hin. apply H. right. exact Hin.
Qed.
Lemma Osum_t_set : forall q tids tid v l, NoDup tids -> In tid tids ->
  Osum q tids (t_set tid v l) + open_ts q (t_get tid l) = Osum q tids l + open_ts q v.
Proof.
  intros q tids tid v l. induction tids as [|a r IH]; intros ND Hin; [contradiction|].
  inversion ND as [|? ? Hnot ND']; subst. simpl. rewrite t_get_set.
  destruct (N.eq_dec tid a) as [->|Hne].
  - rewrite N.eqb_refl, Osum_t_set_notin by exact Hnot. lia.
  - assert (E : tid =? a = false) by (apply N.eqb_neq; exact Hne). rewrite E.
    destruct Hin as [H|H]; [congruence|]. specialize (IH ND' H). lia.
Qed.

(* ---- add_graph_exit: the child_time field ---- *)
Lemma g_exit_ctime : forall sample p a b g m q, find_path p (g_root g) = Some m ->
  ctime_at q (g_root (g_exit sample p a b g)) =
  (let c1 := if path_eqb q p then add64 (ctime_at q (g_root g)) b else ctime_at q (g_root g) in
   if sample =? 0 then c1
   else match p with
        | [] => c1
        | _ => if path_eqb q (removelast p) then add64 (sub64 c1 a) ((a / sample) * sample) else c1
        end).
Proof.
  intros sample p a b g m q Hp. cbv zeta.
  assert (E0 : ctime_at q (upd_path p (add_times a b) (g_root g)) =
               (if path_eqb q p then add64 (ctime_at q (g_root g)) b else ctime_at q (g_root g))).
  { unfold ctime_at.
    rewrite (stat_upd_path n_ctime _ (fun r v => if path_eqb r [] then add64 v b else v) kids_indep_ctime
                           (add_times_name a b) p _ q m Hp).
    - rewrite <- path_eqb_strip_nil. destruct (strip_prefix p q); reflexivity.
    - intros r. apply add_times_stat_ctime. }
  unfold g_exit. simpl. destruct (sample =? 0); [exact E0|]. destruct p as [|x p']; [exact E0|].
  set (p := x :: p') in *.
  set (r1 := upd_path p (add_times a b) (g_root g)) in *.
  destruct (removelast_valid p _ _ Hp) as [m0 Hm0].
  assert (V1 : exists m1, find_path (removelast p) r1 = Some m1).
  { apply valid_at_1. unfold valid_at, r1.
    rewrite (stat_upd_path (fun _ => 1) _ (fun _ v => v) kids_indep_one (add_times_name a b) p _ (removelast p) m Hp).
    - destruct (strip_prefix p (removelast p)); apply valid_at_1; exists m0; exact Hm0.
    - intros r. apply add_times_stat_other. reflexivity. }
  destruct V1 as [m1 Hm1]. unfold ctime_at in *.
  rewrite (stat_upd_path n_ctime _ (fun r v => if path_eqb r [] then add64 (sub64 v a) (a / sample * sample) else v)
                         kids_indep_ctime (adjust_child_name _ _) (removelast p) r1 q m1 Hm1).
  - rewrite <- path_eqb_strip_nil. destruct (strip_prefix (removelast p) q) as [r|]; [|exact E0].
    destruct (path_eqb r []); rewrite E0; reflexivity.
  - intros r. apply adjust_child_stat_ctime.
Qed.

(* ---- modular bookkeeping ---- *)
Lemma mod_move_child : forall X Y c K, (X + (c + Y)) mod W64 = K mod W64 -> (add64 X c + Y) mod W64 = K mod W64.
Proof. intros. unfold add64, W64 in *. lia. Qed.
Lemma mod_adjust : forall X Y d a K, (X + Y) mod W64 = K mod W64 ->
  (add64 (sub64 X d) a + (Y + d)) mod W64 = (K + a) mod W64.
Proof. intros. unfold add64, sub64, W64 in *. lia. Qed.
Lemma mod_plain : forall X Y d K, (X + Y) mod W64 = K mod W64 -> (X + (Y + d)) mod W64 = (K + d) mod W64.
Proof. intros. unfold W64 in *. lia. Qed.

Lemma mod_adjust' : forall X O Y d a K, (X + (O + Y)) mod W64 = K mod W64 ->
  (add64 (sub64 X d) a + (O + (Y + d))) mod W64 = (K + a) mod W64.
Proof. intros. replace (O + (Y + d)) with ((O + Y) + d) by lia. apply mod_adjust. assumption. Qed.
Lemma mod_plain' : forall X O Y d K, (X + (O + Y)) mod W64 = K mod W64 -> (X + (O + (Y + d))) mod W64 = (K + d) mod W64.
Proof. intros. replace (O + (Y + d)) with ((O + Y) + d) by lia. apply mod_plain. assumption. Qed.

(* ---- one record ---- *)
Lemma step_ent_c : forall sample tids m st ls tid x t, rel m st ls -> NoDup tids -> In tid tids ->
  forall q, ctime_at q (g_root (m_g (step sample m (tid, Ent x t)))) = ctime_at q (g_root (m_g m))
            /\ Osum q tids (m_t (step sample m (tid, Ent x t))) = Osum q tids (m_t m).
Proof.
  intros sample tids m st ls tid x t R ND Hin q. pose proof (R tid) as [Hf [Hp [Hv _]]].
  apply valid_at_1 in Hv. destruct Hv as [cur Hcur].
  unfold step. rewrite Hcur. cbn [m_g m_t]. split.
  - apply (g_enter_ctime _ _ _ _ _ Hcur).
  - match goal with |- Osum q tids (t_set tid ?ts' _) = _ => pose proof (Osum_t_set q tids tid ts' (m_t m) ND Hin) as E; set (tsn := ts') in * end.
    assert (E2 : open_ts q tsn = open_ts q (t_get tid (m_t m))).
    { unfold open_ts, tsn. cbn [ts_path ts_stack open_in f_child]. rewrite removelast_last.
      destruct (path_eqb q (ts_path (t_get tid (m_t m)) ++ [x])); reflexivity. }
    lia.
Qed.

Lemma open_in_bump : forall q p d rest,
  match rest with [] => True | f2 :: _ => f_child f2 + d < W64 end ->
  open_in q p (bump_child d rest) =
  open_in q p rest + match rest with [] => 0 | _ => if path_eqb q p then d else 0 end.
Proof.
  intros q p d [|f2 r2] H; simpl; [reflexivity|]. rewrite add64_small by exact H.
  destruct (path_eqb q p); lia.
Qed.

Lemma rpath_nonempty : forall k, k <> [] -> rpath k <> [].
Proof. intros [|[x t] k] H; [contradiction|]. rewrite rpath_cons. destruct (rpath k); discriminate. Qed.

Lemma path_app_neq : forall (p : path) y, path_eqb p (p ++ [y]) = false.
Proof.
  intros p y. apply path_eqb_neq. intros E. apply (f_equal (@length name)) in E. rewrite app_length in E. simpl in E. lia.
Qed.

Lemma step_ext_c : forall sample tids m st ls tid x t y t0 k K,
  rel m st ls -> NoDup tids -> In tid tids -> r_get tid st = (y, t0) :: k -> l_get tid ls <= t -> t < W64 ->
  (forall q, q <> [] -> (ctime_at q (g_root (m_g m)) + Osum q tids (m_t m)) mod W64 = K q mod W64) ->
  forall q, q <> [] ->
    (ctime_at q (g_root (m_g (step sample m (tid, Ext x t)))) + Osum q tids (m_t (step sample m (tid, Ext x t)))) mod W64
    = (K q + (if path_eqb q (rpath k) then acc sample (t - t0) else 0)) mod W64.
Proof.
  intros sample tids m st ls tid x t y t0 k K R ND Hin Hk Hl Ht HK q Hq.
  pose proof (R tid) as [Hf [Hp [Hv [Hs [Hlast Hw]]]]]. rewrite Hk in Hf, Hp.
  apply valid_at_1 in Hv. destruct Hv as [cur Hcur].
  unfold step.
  destruct (ts_stack (t_get tid (m_t m))) as [|f rest] eqn:Est; [discriminate Hf|].
  simpl in Hf. injection Hf as Hn H0 Hrest.
  simpl in Hs. destruct Hs as [Hs1 Hs2].
  assert (Hd : sub64 t (f_start f) = t - t0) by (rewrite H0; apply sub64_small; lia).
  assert (Hmin : N.min (f_child f) (t - t0) = f_child f) by (apply N.min_l; lia).
  rewrite Hd, Hmin. cbn [m_g m_t].
  set (p := ts_path (t_get tid (m_t m))) in *.
  assert (Hpk : removelast p = rpath k) by (rewrite Hp, rpath_cons; apply removelast_last).
  (* the graph *)
  pose proof (g_exit_ctime sample p (t - t0) (f_child f) (m_g m) cur q Hcur) as F1. cbv zeta in F1.
  assert (Hpne : p <> []) by (rewrite Hp, rpath_cons; destruct (rpath k); discriminate).
  (* the frames *)
  match goal with |- context [t_set tid ?ts' (m_t m)] => pose proof (Osum_t_set q tids tid ts' (m_t m) ND Hin) as F2; set (tsn := ts') in * end.
  assert (O1 : open_ts q (t_get tid (m_t m)) = (if path_eqb q p then f_child f else 0) + open_in q (rpath k) rest).
  { unfold open_ts. fold p. rewrite Est. simpl. rewrite Hpk. reflexivity. }
  assert (O2 : open_ts q tsn = open_in q (rpath k) rest
               + match rest with [] => 0 | _ => if path_eqb q (rpath k) then t - t0 else 0 end).
  { unfold open_ts, tsn. cbn [ts_path ts_stack]. rewrite Hpk. apply open_in_bump.
    destruct rest as [|f2 r2]; [exact I|]. simpl in Hs2. lia. }
  rewrite O1, O2 in F2. specialize (HK q Hq).
  destruct (path_eqb q p) eqn:Eqp.
  - (* q is the node that is left: its child time moves from the frame into the node *)
    apply path_eqb_eq in Eqp.
    assert (Eqk : path_eqb q (rpath k) = false).
    { rewrite Eqp. apply path_eqb_neq. rewrite <- Hpk. intros E. rewrite Hp, rpath_cons, removelast_last in E.
      apply (f_equal (@length name)) in E. rewrite app_length in E. simpl in E. lia. }
    rewrite Eqk in *. rewrite N.add_0_r.
    assert (F1' : ctime_at q (g_root (g_exit sample p (t - t0) (f_child f) (m_g m))) = add64 (ctime_at q (g_root (m_g m))) (f_child f)).
    { rewrite F1. destruct (sample =? 0); [reflexivity|]. destruct p; [contradiction|]. rewrite Hpk, Eqk. reflexivity. }
    rewrite F1'. apply mod_move_child. rewrite <- HK. f_equal.
    destruct rest; lia.
  - destruct (path_eqb q (rpath k)) eqn:Eqk.
    + (* q is the parent node *)
      apply path_eqb_eq in Eqk.
      assert (Hrne : rest <> []).
      { intros ->. simpl in Hrest. subst k. simpl in Eqk. contradiction. }
      destruct rest as [|f2 r2]; [contradiction|].
      assert (Y' : Osum q tids (t_set tid tsn (m_t m)) = Osum q tids (m_t m) + (t - t0)) by lia.
      rewrite Y'. unfold acc.
      destruct (sample =? 0) eqn:Es.
      * rewrite F1. apply mod_plain. exact HK.
      * assert (F1' : ctime_at q (g_root (g_exit sample p (t - t0) (f_child f) (m_g m)))
                      = add64 (sub64 (ctime_at q (g_root (m_g m))) (t - t0)) ((t - t0) / sample * sample)).
        { rewrite F1. destruct p; [contradiction|]. rewrite Hpk. rewrite <- Eqk, path_eqb_refl. reflexivity. }
        rewrite F1'. apply mod_adjust. exact HK.
    + (* some other node *)
      assert (F1' : ctime_at q (g_root (g_exit sample p (t - t0) (f_child f) (m_g m))) = ctime_at q (g_root (m_g m))).
      { rewrite F1. destruct (sample =? 0); [reflexivity|]. destruct p; [contradiction|]. rewrite Hpk, Eqk. reflexivity. }
      rewrite F1', N.add_0_r. rewrite <- HK. f_equal. destruct rest; lia.
Qed.

(* ---- the whole stream ---- *)
Lemma run_inv_c : forall sample tids s m st ls K,
  NoDup tids -> (forall r, In r s -> In (fst r) tids) ->
  rel m st ls -> wf_run st s = true -> mono_run ls s = true ->
  (forall q, q <> [] -> (ctime_at q (g_root (m_g m)) + Osum q tids (m_t m)) mod W64 = K q mod W64) ->
  forall q, q <> [] ->
    (ctime_at q (g_root (m_g (fold_left (step sample) s m))) + Osum q tids (m_t (fold_left (step sample) s m))) mod W64
    = (K q + Asum sample q (fst (ref_calls_run st s))) mod W64.
Proof.
  intros sample tids. induction s as [|[tid e] s IH]; intros m st ls K ND Hcov R Hwf Hmono HK q Hq.
  - simpl. rewrite N.add_0_r. apply HK, Hq.
  - simpl in Hmono. apply andb_prop in Hmono. destruct Hmono as [Hm1 Hmono].
    apply andb_prop in Hm1. destruct Hm1 as [Hle Hlt]. apply N.leb_le in Hle. apply N.ltb_lt in Hlt.
    assert (Hin : In tid tids) by (apply (Hcov (tid, e)); left; reflexivity).
    assert (Hcov' : forall r, In r s -> In (fst r) tids) by (intros r Hr; apply Hcov; right; exact Hr).
    destruct e as [x t|x t]; simpl in Hle, Hlt, Hmono.
    + simpl in Hwf. destruct (step_ent sample m st ls tid x t R Hle Hlt) as [R' _].
      simpl fold_left. simpl ref_calls_run.
      apply (IH _ _ _ K ND Hcov' R' Hwf Hmono); [|exact Hq].
      intros q' Hq'. destruct (step_ent_c sample tids m st ls tid x t R ND Hin q') as [E1 E2].
      rewrite E1, E2. apply HK, Hq'.
    + simpl in Hwf. destruct (r_get tid st) as [|[y t0] k] eqn:Hk; [discriminate|].
      apply andb_prop in Hwf. destruct Hwf as [_ Hwf].
      destruct (step_ext sample m st ls tid x t y t0 k R Hk Hle Hlt) as [R' _].
      simpl fold_left. simpl ref_calls_run. rewrite Hk.
      destruct (ref_calls_run (r_set tid k st) s) as [cs st'] eqn:Ers. simpl fst.
      pose proof (IH _ _ _ (fun q' => K q' + (if path_eqb q' (rpath k) then acc sample (t - t0) else 0))
                     ND Hcov' R' Hwf Hmono) as IH'.
      rewrite Ers in IH'. simpl fst in IH'. rewrite IH'; [| |exact Hq].
      * rewrite Asum_cons. simpl rc_path. rewrite rpath_cons, removelast_last. unfold rc_dur. simpl.
        f_equal. destruct (path_eqb q (rpath k)); lia.
      * intros q' Hq'. apply (step_ext_c sample tids m st ls tid x t y t0 k K R ND Hin Hk Hle Hlt HK q' Hq').
Qed.

(* ---- closing the open calls of one task ---- *)
Definition open_c (q p : path) (carry : N) (st : list frame) : N :=
  open_in q p st + match st with [] => 0 | _ => if path_eqb q p then carry else 0 end.

Lemma close_frames_c : forall sample tid last st carry p g K (Oo : path -> N),
  last < W64 -> stack_ok_c last carry st -> p = rpath (frames_of st) -> valid_at p (g_root g) = 1 ->
  (forall q, q <> [] -> (ctime_at q (g_root g) + (Oo q + open_c q p carry st)) mod W64 = K q mod W64) ->
  forall q, q <> [] ->
    (ctime_at q (g_root (fst (close_frames sample last carry st p g))) + Oo q) mod W64
    = (K q + Asum sample q (close_ref tid last (frames_of st))) mod W64.
Proof.
  intros sample tid last. induction st as [|f rest IH]; intros carry p g K Oo Hw Hs Hp Hv HK q Hq.
  - simpl. specialize (HK q Hq). unfold open_c in HK. simpl in HK. rewrite !N.add_0_r in *. exact HK.
  - simpl in Hs. destruct Hs as [Hs1 Hs2].
    assert (Hfc : add64 (f_child f) carry = f_child f + carry) by (apply add64_small; lia).
    simpl close_frames. rewrite Hfc.
    assert (E1 : last <? f_start f = false) by (apply N.ltb_ge; lia). rewrite E1.
    assert (E2 : last - f_start f <? f_child f + carry = false) by (apply N.ltb_ge; lia). rewrite E2.
    apply valid_at_1 in Hv. destruct Hv as [cur Hcur].
    simpl frames_of in Hp. rewrite rpath_cons in Hp.
    set (delta := last - f_start f) in *.
    set (g1 := g_exit sample p delta (f_child f + carry) g).
    assert (Hpk : removelast p = rpath (frames_of rest)) by (rewrite Hp; apply removelast_last).
    assert (Hpne : p <> []) by (rewrite Hp; destruct (rpath (frames_of rest)); discriminate).
    assert (Hv1 : valid_at (removelast p) (g_root g1) = 1).
    { unfold g1. rewrite (g_exit_valid _ _ _ _ _ _ _ Hcur). apply valid_at_1.
      rewrite Hp, removelast_last. rewrite Hp in Hcur. apply (valid_prefix _ _ _ _ Hcur). }
    assert (Hs' : stack_ok_c last delta rest).
    { destruct rest as [|f2 r2]; [exact I|]. simpl in Hs2. destruct Hs2 as [Hs3 Hs4]. simpl. split; [unfold delta; lia|exact Hs4]. }
    simpl frames_of. simpl close_ref. rewrite Asum_cons. simpl rc_path. rewrite rpath_cons, <- Hp, Hpk.
    unfold rc_dur. simpl rc_t0. simpl rc_t1. fold delta.
    rewrite Hpk in Hv1.
    rewrite (IH delta (rpath (frames_of rest)) g1
                (fun q' => K q' + (if path_eqb q' (rpath (frames_of rest)) then acc sample delta else 0)) Oo Hw Hs' eq_refl Hv1);
      [f_equal; destruct (path_eqb q (rpath (frames_of rest))); lia| |exact Hq].
    (* the invariant after this frame was closed *)
    clear q Hq. intros q Hq. specialize (HK q Hq).
    pose proof (g_exit_ctime sample p delta (f_child f + carry) g cur q Hcur) as F1. cbv zeta in F1. fold g1 in F1.
    unfold open_c in HK. simpl open_in in HK. rewrite Hpk in HK, F1.
    unfold open_c.
    destruct (path_eqb q p) eqn:Eqp.
    + apply path_eqb_eq in Eqp.
      assert (Eqk : path_eqb q (rpath (frames_of rest)) = false).
      { rewrite Eqp, Hp. apply path_eqb_neq. intros E. apply (f_equal (@length name)) in E. rewrite app_length in E. simpl in E. lia. }
      rewrite Eqk in *. rewrite N.add_0_r.
      assert (F1' : ctime_at q (g_root g1) = add64 (ctime_at q (g_root g)) (f_child f + carry)).
      { rewrite F1. destruct (sample =? 0); [reflexivity|]. destruct p; [contradiction|]. try rewrite Eqk; reflexivity. }
      rewrite F1'. apply mod_move_child. rewrite <- HK. f_equal. destruct rest; lia.
    + destruct (path_eqb q (rpath (frames_of rest))) eqn:Eqk.
      * apply path_eqb_eq in Eqk.
        assert (Hrne : rest <> []) by (intros ->; simpl in Eqk; contradiction).
        destruct rest as [|f2 r2]; [contradiction|].
        unfold acc. destruct (sample =? 0) eqn:Es.
        -- rewrite F1. apply mod_plain'. rewrite <- HK. f_equal. lia.
        -- assert (F1' : ctime_at q (g_root g1) = add64 (sub64 (ctime_at q (g_root g)) delta) (delta / sample * sample)).
           { rewrite F1. destruct p; [contradiction|]. try (rewrite <- Eqk, path_eqb_refl); reflexivity. }
           rewrite F1'. apply mod_adjust'. rewrite <- HK. f_equal. lia.
      * assert (F1' : ctime_at q (g_root g1) = ctime_at q (g_root g)).
        { rewrite F1. destruct (sample =? 0); [reflexivity|]. destruct p; [contradiction|]. try rewrite Eqk; reflexivity. }
        rewrite F1', N.add_0_r. rewrite <- HK. f_equal. destruct rest; lia.
Qed.

Lemma close_frames_valid : forall sample last st carry p g,
  last < W64 -> stack_ok_c last carry st -> p = rpath (frames_of st) -> valid_at p (g_root g) = 1 ->
  forall q, valid_at q (g_root g) = 1 -> valid_at q (g_root (fst (close_frames sample last carry st p g))) = 1.
Proof.
  intros sample last. induction st as [|f rest IH]; intros carry p g Hw Hs Hp Hv q Hq; [exact Hq|].
  simpl in Hs. destruct Hs as [Hs1 Hs2].
  assert (Hfc : add64 (f_child f) carry = f_child f + carry) by (apply add64_small; lia).
  simpl close_frames. rewrite Hfc.
  assert (E1 : last <? f_start f = false) by (apply N.ltb_ge; lia). rewrite E1.
  assert (E2 : last - f_start f <? f_child f + carry = false) by (apply N.ltb_ge; lia). rewrite E2.
  apply valid_at_1 in Hv. destruct Hv as [cur Hcur].
  simpl frames_of in Hp. rewrite rpath_cons in Hp.
  apply IH.
  - exact Hw.
  - destruct rest as [|f2 r2]; [exact I|]. simpl in Hs2. destruct Hs2 as [Hs3 Hs4]. simpl. split; [lia|exact Hs4].
  - rewrite Hp. apply removelast_last.
  - rewrite (g_exit_valid _ _ _ _ _ _ _ Hcur). apply valid_at_1.
    rewrite Hp, removelast_last. rewrite Hp in Hcur. apply (valid_prefix _ _ _ _ Hcur).
  - rewrite (g_exit_valid _ _ _ _ _ _ _ Hcur). exact Hq.
Qed.

(* ---- closing all tasks ---- *)
Lemma open_c_zero : forall q p st, open_c q p 0 st = open_in q p st.
Proof. intros. unfold open_c. destruct st; [|destruct (path_eqb q p)]; lia. Qed.

Lemma close_tasks_c : forall sample tids0 tids m st ls K,
  NoDup tids0 -> incl tids tids0 -> NoDup tids -> rel_on tids m st ls ->
  (forall q, q <> [] -> (ctime_at q (g_root (m_g m)) + Osum q tids0 (m_t m)) mod W64 = K q mod W64) ->
  forall q, q <> [] ->
   (ctime_at q (g_root (m_g (close_tasks sample tids m))) + Osum q tids0 (m_t (close_tasks sample tids m))) mod W64
   = (K q + Asum sample q (flat_map (fun tid => close_ref tid (l_get tid ls) (r_get tid st)) tids)) mod W64.
Proof.
  intros sample tids0. induction tids as [|tid r IH]; intros m st ls K ND0 Hincl ND R HK q Hq.
  - simpl. rewrite N.add_0_r. apply HK, Hq.
  - inversion ND as [|? ? Hnot ND']; subst.
    pose proof (R tid (or_introl eq_refl)) as [Hf [Hp [Hv [Hs [Hlast Hw]]]]].
    assert (Hin0 : In tid tids0) by (apply Hincl; left; reflexivity).
    simpl close_tasks.
    destruct (close_frames sample (ts_last (t_get tid (m_t m))) 0 (ts_stack (t_get tid (m_t m)))
                           (ts_path (t_get tid (m_t m))) (m_g m)) as [g' p'] eqn:Ecf.
    assert (Hs0 : stack_ok_c (ts_last (t_get tid (m_t m))) 0 (ts_stack (t_get tid (m_t m)))).
    { destruct (ts_stack (t_get tid (m_t m))) as [|f rest]; [exact I|]. simpl in *. destruct Hs. split; [lia|assumption]. }
    assert (Hp0 : ts_path (t_get tid (m_t m)) = rpath (frames_of (ts_stack (t_get tid (m_t m))))) by (rewrite Hf; exact Hp).
    assert (Hw0 : ts_last (t_get tid (m_t m)) < W64) by (rewrite Hlast; exact Hw).
    match goal with |- context [close_tasks sample r ?mm] => set (m1 := mm) end.
    set (tse := {| ts_path := p'; ts_stack := []; ts_last := ts_last (t_get tid (m_t m)) |}) in *.
    set (Oo := fun q' => Osum q' tids0 (t_set tid tse (m_t m))).
    assert (HO : forall q', Osum q' tids0 (m_t m) = Oo q' + open_c q' (ts_path (t_get tid (m_t m))) 0 (ts_stack (t_get tid (m_t m)))).
    { intros q'. unfold Oo. pose proof (Osum_t_set q' tids0 tid tse (m_t m) ND0 Hin0) as E.
      rewrite open_c_zero. unfold open_ts at 2 in E. simpl in E. unfold open_ts in E. lia. }
    pose proof (close_frames_c sample tid _ _ 0 _ (m_g m) K Oo Hw0 Hs0 Hp0 Hv) as CF.
    rewrite Ecf in CF. simpl fst in CF.
    pose proof (close_frames_valid sample _ _ 0 _ (m_g m) Hw0 Hs0 Hp0 Hv) as C3.
    rewrite Ecf in C3. simpl fst in C3.
    assert (R1 : rel_on r m1 st ls).
    { intros tid' Hin'. unfold m1. cbn [m_g m_t]. rewrite t_get_set.
      assert (Hne : tid =? tid' = false) by (apply N.eqb_neq; intros ->; contradiction).
      rewrite Hne. pose proof (R tid' (or_intror Hin')) as [Hf' [Hp' [Hv' [Hs' [Hlast' Hw']]]]].
      unfold rel_task. repeat split; try assumption. apply C3. exact Hv'. }
    rewrite (IH m1 st ls (fun q' => K q' + Asum sample q' (close_ref tid (l_get tid ls) (r_get tid st)))
                ND0 (fun x Hx => Hincl x (or_intror Hx)) ND' R1); [| |exact Hq].
    + simpl flat_map. rewrite Asum_app. f_equal. lia.
    + intros q' Hq'. unfold m1. cbn [m_g m_t]. fold (Oo q'). rewrite <- Hf, <- Hlast.
      apply CF; [|exact Hq']. intros q'' Hq''. rewrite <- HO. apply HK, Hq''.
Qed.

(* ---- after the closing loop no task has an open frame ---- *)
Lemma close_tasks_other : forall sample tids m tid, ~ In tid tids ->
  t_get tid (m_t (close_tasks sample tids m)) = t_get tid (m_t m).
Proof.
  intros sample. induction tids as [|a r IH]; intros m tid H; [reflexivity|]. simpl.
  destruct (close_frames sample (ts_last (t_get a (m_t m))) 0 (ts_stack (t_get a (m_t m))) (ts_path (t_get a (m_t m))) (m_g m)) as [g' p'].
  rewrite IH by (intros Hin; apply H; right; exact Hin). cbn [m_t]. rewrite t_get_set.
  assert (E : a =? tid = false) by (apply N.eqb_neq; intros ->; apply H; left; reflexivity). rewrite E. reflexivity.
Qed.
Lemma close_tasks_empty : forall sample tids m tid, NoDup tids -> In tid tids ->
  ts_stack (t_get tid (m_t (close_tasks sample tids m))) = [].
Proof.
  intros sample. induction tids as [|a r IH]; intros m tid ND H; [contradiction|]. simpl.
  inversion ND as [|? ? Hnot ND']; subst.
  destruct (close_frames sample (ts_last (t_get a (m_t m))) 0 (ts_stack (t_get a (m_t m))) (ts_path (t_get a (m_t m))) (m_g m)) as [g' p'].
  destruct (N.eq_dec a tid) as [->|Hne].
  - rewrite close_tasks_other by exact Hnot. cbn [m_t]. rewrite t_get_set, N.eqb_refl. reflexivity.
  - destruct H as [H|H]; [contradiction|]. apply IH; assumption.
Qed.
Lemma Osum_zero : forall q tids l, (forall tid, In tid tids -> ts_stack (t_get tid l) = []) -> Osum q tids l = 0.
Proof.
  intros q tids l. induction tids as [|a r IH]; intros H; [reflexivity|]. simpl.
  unfold open_ts. rewrite (H a (or_introl eq_refl)). simpl. apply IH. intros tid Ht. apply H. right. exact Ht.
Qed.
Lemma Osum_nil : forall q tids, Osum q tids [] = 0.
Proof. intros. apply Osum_zero. reflexivity. Qed.

(* THE CHILD TIME OF A NODE: for every non-empty name path q, child_time of the node at q is the sum over the calls
   whose CALLER's path is q of their duration - rounded down to whole samples when a sample time is given
   (adjust_fg_time), i.e. exactly the part of the children's time that is shown as samples of the children *)
Theorem graph_ctime : forall sample rootname tids s q,
  wf_stream s = true -> NoDup tids -> (forall r, In r s -> In (fst r) tids) -> q <> [] ->
  ctime_at q (graph_build sample rootname tids s) mod W64 = Asum sample q (ref_calls tids s) mod W64.
Proof.
  intros sample rootname tids s q Hwf ND Hcov Hq. unfold wf_stream in Hwf. apply andb_prop in Hwf. destruct Hwf as [Hwf Hmono].
  destruct (run_inv sample s (m_init rootname) [] [] (fun _ => 0) (fun _ => 0) (rel_init rootname) Hwf Hmono) as [R _].
  { intros q'. apply stat_root0. reflexivity. }
  { intros q'. change (g_root (m_g (m_init rootname))) with (root0 rootname). unfold time_at. rewrite stat_root0; reflexivity. }
  pose proof (run_inv_c sample tids s (m_init rootname) [] [] (fun _ => 0) ND Hcov (rel_init rootname) Hwf Hmono) as RC.
  assert (K0 : forall q', q' <> [] ->
            (ctime_at q' (g_root (m_g (m_init rootname))) + Osum q' tids (m_t (m_init rootname))) mod W64 = 0 mod W64).
  { intros q' _. change (g_root (m_g (m_init rootname))) with (root0 rootname). simpl m_t.
    unfold ctime_at. rewrite stat_root0 by reflexivity. rewrite Osum_nil. reflexivity. }
  specialize (RC K0).
  pose proof (close_tasks_c sample tids tids _ _ _ _ ND (fun x H => H) ND (fun tid _ => R tid) RC q Hq) as CT.
  unfold graph_build. rewrite Osum_zero in CT by (intros tid Ht; apply close_tasks_empty; assumption).
  rewrite N.add_0_r in CT. rewrite CT.
  unfold ref_calls. destruct (ref_calls_run [] s) as [cs st']. simpl fst. simpl snd.
  rewrite Asum_app. f_equal. simpl. f_equal. f_equal.
  apply flat_map_ext. intros tid. rewrite lasts_run_last_time. reflexivity.
Qed.

Lemma Asum_sampled : forall sample q cs, sample <> 0 -> Asum sample q cs = sampled_child_time sample q cs.
Proof.
  intros sample q cs H. unfold Asum, sampled_child_time, acc. apply N.eqb_neq in H. rewrite H. reflexivity.
Qed.
Lemma Asum_plain : forall q cs, Asum 0 q cs = child_time_of q cs.
Proof. reflexivity. Qed.

Lemma sub64_mod : forall a b a' b', a mod W64 = a' mod W64 -> b mod W64 = b' mod W64 -> sub64 a b = sub64 a' b'.
Proof. intros. unfold sub64, W64 in *. lia. Qed.
