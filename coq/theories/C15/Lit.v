(* C15 - compact literals for the generated case files (cases.v): byte strings are packed seven bytes to a
   primitive 63-bit integer (parsing lists of N numerals is an order of magnitude slower).  Used by the
   differential tie only; no theorem depends on this file. *)
From Coq Require Import NArith ZArith List Bool Uint63.
Import ListNotations.
Require Import UV.C15.Model.

Definition n_ (i : int) : N := Z.to_N (to_Z i).
Definition unpack7 (w : int) : list N :=
  [n_ (w land 255); n_ ((w >> 8) land 255); n_ ((w >> 16) land 255); n_ ((w >> 24) land 255);
   n_ ((w >> 32) land 255); n_ ((w >> 40) land 255); n_ ((w >> 48) land 255)]%uint63.
(* pk len words *)
Definition pk (len : int) (ws : list int) : list N := firstn (N.to_nat (n_ len)) (flat_map unpack7 ws).

Definition rc (tid : int) (b : bool) (i : int) (t : int) : N * bool * N * N := (n_ tid, b, n_ i, n_ t).
Definition rcN (tid : int) (b : bool) (i : int) (t : N) : N * bool * N * N := (n_ tid, b, n_ i, t).
Definition tk (tid pid : int) : N * N := (n_ tid, n_ pid).
Definition gr (d : int) (x : list N) (c : int) (a b u : int) : grow := (n_ d, x, n_ c, Some (n_ a, n_ b, n_ u)).
Definition gr0 (d : int) (x : list N) (c : int) : grow := (n_ d, x, n_ c, None).
Definition ce0 (b : bool) (pid : int) (x : list N) (q : N) (r : int) : cev :=
  {| c_begin := b; c_pid := n_ pid; c_tid := None; c_name := x; c_q := q; c_r := n_ r |}.
Definition ce1 (b : bool) (pid tid : int) (x : list N) (q : N) (r : int) : cev :=
  {| c_begin := b; c_pid := n_ pid; c_tid := Some (n_ tid); c_name := x; c_q := q; c_r := n_ r |}.
Definition mk_case (tasks : list (N * N)) (root : list N) (syms : list (list N)) (recs : list (N * bool * N * N))
  (sample : N) (g : list grow) (f0 fS dot mm : list (list N)) (ch : list cev) (ok : bool)
  (args : list (option (list argv))) (chargs : list (option (list N))) : case :=
  {| k_tasks := tasks; k_root := root; k_syms := syms; k_recs := recs; k_sample := sample; k_graph := g;
     k_flame0 := f0; k_flameS := fS; k_dot := dot; k_mermaid := mm; k_chrome := ch; k_json_ok := ok;
     k_args := args; k_chrome_args := chargs |}.

Require Import UV.C15.Doc.
Definition mk_dcase (k : case) (comms : list (N * list N)) (version date : list N) (cmdline : option (list N))
  (noev : bool) (renames : list (N * N * list N)) (doc : list N) : dcase :=
  {| d_case := k; d_comms := comms; d_version := version; d_date := date; d_cmdline := cmdline;
     d_noev := noev; d_renames := renames; d_doc := doc |}.
Definition rn (tm : N) (tid : int) (nm : list N) : N * N * list N := (tm, n_ tid, nm).
Definition cm (tid : int) (comm : list N) : N * list N := (n_ tid, comm).

Require Import UV.C15.GraphF.
Definition mk_fcase (k : case) (func : list N) (rows : option (list grow)) : fcase :=
  {| fk_case := k; fk_func := func; fk_rows := rows |}.

Require Import UV.C15.GraphText.
Definition mk_tcase (k : case) (func : option (list N)) (lines : list (list N)) : tcase :=
  {| tk_case := k; tk_func := func; tk_lines := lines |}.

Require Import UV.C15.BackTrace.
Definition bt_ (key : list int) (hit : int) (t : option (N * N * N)) : pbt := (map n_ key, n_ hit, t).
Definition mk_bcase (k : case) (func : list N) (printed : list pbt) : bcase :=
  {| bk_case := k; bk_func := func; bk_printed := printed |}.

Definition mk_acase (k : case) (total : N) (lines : list (list N)) : acase :=
  {| ak_case := k; ak_total := total; ak_lines := lines |}.
