(* C15 - the BACKTRACE section of `uftrace graph FUNC`: hits and times of the stacks at the outermost entries *)
From Coq Require Import NArith ZArith List Bool Lia.
Import ListNotations.
Require Import UV.C15.Model UV.C15.BackTrace UV.C15.ProofsTree UV.C15.ProofsRun.
Local Open Scope N_scope.

Lemma key_eqb_refl : forall a, key_eqb a a = true.
Proof. induction a as [|x a IH]; simpl; [reflexivity|]. rewrite N.eqb_refl. exact IH. Qed.
Lemma key_eqb_eq : forall a b, key_eqb a b = true <-> a = b.
Proof.
  induction a as [|x a IH]; destruct b as [|y b]; simpl; split; intros H; try discriminate; try reflexivity.
  - apply andb_prop in H. destruct H as [E H]. apply N.eqb_eq in E. apply IH in H. subst. reflexivity.
  - inversion H; subst. rewrite N.eqb_refl. apply key_eqb_refl.
Qed.
Lemma key_eqb_sym : forall a b, key_eqb a b = key_eqb b a.
Proof.
  intros a b. destruct (key_eqb a b) eqn:E.
  - apply key_eqb_eq in E. subst. symmetry. apply key_eqb_refl.
  - destruct (key_eqb b a) eqn:E'; [|reflexivity]. apply key_eqb_eq in E'. subst. rewrite key_eqb_refl in E. discriminate.
Qed.

(* ---- lookups in the backtrace list ---- *)
Fixpoint hit_of (key : list N) (l : list bt) : N :=
  match l with [] => 0 | (k, h, t) :: r => if key_eqb key k then h else hit_of key r end.
Fixpoint time_of (key : list N) (l : list bt) : N :=
  match l with [] => 0 | (k, h, t) :: r => if key_eqb key k then t else time_of key r end.
Fixpoint present (key : list N) (l : list bt) : bool :=
  match l with [] => false | (k, h, t) :: r => key_eqb key k || present key r end.

Lemma bt_hit_none : forall key l, bt_hit key l = None -> present key l = false.
Proof.
  intros key. induction l as [|[[k h] t] r IH]; simpl; intros H; [reflexivity|].
  destruct (key_eqb key k); [discriminate|]. destruct (bt_hit key r); [discriminate|]. apply IH. reflexivity.
Qed.
Lemma absent_zero : forall key l, present key l = false -> hit_of key l = 0 /\ time_of key l = 0.
Proof.
  intros key. induction l as [|[[k h] t] r IH]; simpl; intros H; [split; reflexivity|].
  destruct (key_eqb key k); [discriminate|]. apply IH. exact H.
Qed.
Lemma bt_hit_some : forall key l l', bt_hit key l = Some l' ->
  (forall q, hit_of q l' = hit_of q l + (if key_eqb q key then 1 else 0))
  /\ (forall q, time_of q l' = time_of q l) /\ (forall q, present q l' = present q l) /\ present key l = true.
Proof.
  intros key. induction l as [|[[k h] t] r IH]; simpl; intros l' H; [discriminate|].
  destruct (key_eqb key k) eqn:E.
  - inversion H; subst. apply key_eqb_eq in E. subst k. split; [|split; [|split]].
    + intros q. simpl. destruct (key_eqb q key); lia.
    + intros q. simpl. destruct (key_eqb q key); reflexivity.
    + intros q. reflexivity.
    + reflexivity.
  - destruct (bt_hit key r) as [r'|] eqn:Hr; [|discriminate]. inversion H; subst.
    destruct (IH r' eq_refl) as [I1 [I2 [I3 I4]]]. split; [|split; [|split]].
    + intros q. simpl. destruct (key_eqb q k) eqn:Q; [|apply I1].
      apply key_eqb_eq in Q. subst q. rewrite key_eqb_sym, E. lia.
    + intros q. simpl. destruct (key_eqb q k); [reflexivity|apply I2].
    + intros q. simpl. rewrite I3. reflexivity.
    + rewrite I4. apply orb_true_r.
Qed.
Lemma bt_enter_spec : forall key l,
  (forall q, hit_of q (bt_enter key l) = hit_of q l + (if key_eqb q key then 1 else 0))
  /\ (forall q, time_of q (bt_enter key l) = time_of q l)
  /\ (forall q, present q l = true -> present q (bt_enter key l) = true)
  /\ present key (bt_enter key l) = true.
Proof.
  intros key l. unfold bt_enter. destruct (bt_hit key l) as [l'|] eqn:H.
  - destruct (bt_hit_some key l l' H) as [I1 [I2 [I3 I4]]]. split; [exact I1|]. split; [exact I2|]. split.
    + intros q Hq. rewrite I3. exact Hq.
    + rewrite I3. exact I4.
  - apply bt_hit_none in H. destruct (absent_zero key l H) as [Z1 Z2]. split; [|split; [|split]].
    + intros q. simpl. destruct (key_eqb q key) eqn:Q; [|lia]. apply key_eqb_eq in Q. subst q. lia.
    + intros q. simpl. destruct (key_eqb q key) eqn:Q; [|reflexivity]. apply key_eqb_eq in Q. subst q. lia.
    + intros q Hq. simpl. rewrite Hq. apply orb_true_r.
    + simpl. rewrite key_eqb_refl. reflexivity.
Qed.
Lemma bt_time_spec : forall key d l, present key l = true ->
  (forall q, hit_of q (bt_time key d l) = hit_of q l)
  /\ (forall q, time_of q (bt_time key d l) = if key_eqb q key then add64 (time_of q l) d else time_of q l)
  /\ (forall q, present q (bt_time key d l) = present q l).
Proof.
  intros key d. induction l as [|[[k h] t] r IH]; simpl; intros H; [discriminate|].
  destruct (key_eqb key k) eqn:E.
  - apply key_eqb_eq in E. subst k. split; [|split]; intros q; simpl.
    + destruct (key_eqb q key); reflexivity.
    + destruct (key_eqb q key); reflexivity.
    + reflexivity.
  - simpl in H. destruct (IH H) as [I1 [I2 I3]]. split; [|split]; intros q; simpl.
    + destruct (key_eqb q k); [reflexivity|apply I1].
    + destruct (key_eqb q k) eqn:Q; [|apply I2].
      apply key_eqb_eq in Q. subst q. rewrite key_eqb_sym, E. reflexivity.
    + rewrite I3. reflexivity.
Qed.

(* ---- stacks of symbol indices ---- *)
Definition nofunc (isf : N -> bool) (p : list N) : bool := forallb (fun i => negb (isf i)) p.
Fixpoint okey (isf : N -> bool) (p : list N) : option (list N) :=
  match p with
  | [] => None
  | i :: r => if isf i then Some [i] else option_map (cons i) (okey isf r)
  end.
Lemma okey_snoc : forall isf p i,
  okey isf (p ++ [i]) = match okey isf p with Some k => Some k | None => if isf i then Some (p ++ [i]) else None end.
Proof.
  intros isf p i. induction p as [|j p IH]; simpl.
  - destruct (isf i); reflexivity.
  - destruct (isf j); [reflexivity|]. rewrite IH. destruct (okey isf p); [reflexivity|]. destruct (isf i); reflexivity.
Qed.
Lemma okey_none : forall isf p, okey isf p = None <-> nofunc isf p = true.
Proof.
  intros isf. induction p as [|j p IH]; simpl; [split; reflexivity|].
  destruct (isf j); simpl; [split; discriminate|]. rewrite <- IH. destruct (okey isf p); simpl; split; intros H; try discriminate; reflexivity.
Qed.
Lemma outermost_snoc : forall isf p i, outermost isf (p ++ [i]) = isf i && nofunc isf p.
Proof.
  intros isf p i. induction p as [|j p IH]; simpl; [rewrite andb_true_r; reflexivity|].
  destruct (p ++ [i]) as [|x r] eqn:E; [destruct p; discriminate|]. rewrite IH.
  destruct (isf j); simpl; [rewrite andb_false_r; reflexivity|reflexivity].
Qed.
Lemma outermost_nonempty : forall isf p, outermost isf p = true -> p <> [].
Proof. intros isf [|i p] H; [discriminate|discriminate]. Qed.

Definition frames3 (st : list (N * N * N)) : rstack := map (fun f => ([fst (fst f)], snd (fst f))) st.
Fixpoint stack_ok3 (upper : N) (st : list (N * N * N)) : Prop :=
  match st with
  | [] => True
  | (i, s, c) :: r => s + c <= upper /\ stack_ok3 s r
  end.
Lemma stack_ok3_mono : forall st u u', stack_ok3 u st -> u <= u' -> stack_ok3 u' st.
Proof. destruct st as [|[[i s] c] r]; simpl; intros u u' H L; [exact I|]. destruct H. split; [lia|assumption]. Qed.
Definition bcount (isf : N -> bool) (k : rstack) : N :=
  fold_right (fun e a => if isf (hd 0 (fst e)) then a + 1 else a) 0 k.
Definition ikey (k : rstack) : list N := ipath (rpath k).
Lemma ikey_cons : forall i t k, ikey (([i], t) :: k) = ikey k ++ [i].
Proof. intros. unfold ikey. rewrite rpath_cons. unfold ipath. rewrite map_app. reflexivity. Qed.
Lemma bcount_nofunc : forall isf k, (bcount isf k =? 0) = nofunc isf (ikey k).
Proof.
  intros isf k. induction k as [|[x t] k IH]; [reflexivity|].
  unfold ikey in *. rewrite rpath_cons. unfold ipath in *. rewrite map_app. unfold nofunc in *. rewrite forallb_app. simpl.
  destruct (isf (hd 0 x)); simpl.
  - rewrite andb_false_r. apply N.eqb_neq. lia.
  - rewrite andb_true_r. exact IH.
Qed.
Lemma stack_key : forall st, rev (map (fun f : N * N * N => fst (fst f)) st) = ikey (frames3 st).
Proof.
  intros st. unfold ikey, rpath, ipath, frames3. rewrite map_map, map_rev, map_map. reflexivity.
Qed.

(* ---- the invariant ---- *)
Definition rel_b (isf : N -> bool) (l : list bt) (b : bts) (k : rstack) (last : N) : Prop :=
  frames3 (b_stack b) = k /\ b_en b = bcount isf k
  /\ (forall key, okey isf (ikey k) = Some key -> b_cur b = Some key /\ present key l = true)
  /\ stack_ok3 (b_last b) (b_stack b) /\ b_last b = last /\ last < W64.
Definition relb (isf : N -> bool) (m : list bt * list (N * bts)) (st : list (N * rstack)) (ls : list (N * N)) : Prop :=
  forall tid, rel_b isf (fst m) (b_get tid (snd m)) (r_get tid st) (l_get tid ls).

Lemma b_get_set : forall tid tid' v l, b_get tid' (b_set tid v l) = if tid =? tid' then v else b_get tid' l.
Proof.
  intros tid tid' v l. induction l as [|[k s0] r IH]; simpl.
  - rewrite N.eqb_sym. destruct (tid' =? tid); reflexivity.
  - destruct (k =? tid) eqn:E; simpl.
    + apply N.eqb_eq in E. subst k. destruct (tid =? tid'); reflexivity.
    + destruct (k =? tid') eqn:E'.
      * apply N.eqb_eq in E'. subst k. rewrite N.eqb_sym, E. reflexivity.
      * exact IH.
Qed.

Lemma ref_bt_hit_cons : forall q k keys, ref_bt_hit q (k :: keys) = ref_bt_hit q keys + (if key_eqb q k then 1 else 0).
Proof. intros. unfold ref_bt_hit. simpl. destruct (key_eqb q k); lia. Qed.
Lemma ref_bt_time_cons : forall q c cs,
  ref_bt_time q (c :: cs) = ref_bt_time q cs + (if key_eqb q (ipath (rc_path c)) then rc_dur c else 0).
Proof. intros. unfold ref_bt_time. simpl. destruct (key_eqb q (ipath (rc_path c))); lia. Qed.
Lemma ref_bt_time_app : forall q a b, ref_bt_time q (a ++ b) = ref_bt_time q a + ref_bt_time q b.
Proof. intros q a b. induction a as [|c a IH]; [reflexivity|]. simpl app. rewrite !ref_bt_time_cons, IH. lia. Qed.

(* others keep their invariant when the list only grows / only times change *)
Lemma rel_b_weaken : forall isf l l' b k last,
  (forall q, present q l = true -> present q l' = true) -> rel_b isf l b k last -> rel_b isf l' b k last.
Proof.
  intros isf l l' b k last Hm [Hf [He [Hp [Hs [Hl Hw]]]]]. repeat split; try assumption.
  - apply (Hp key H).
  - apply Hm. apply (Hp key H).
Qed.

(* ---- ENTRY ---- *)
Lemma rel_b_intro : forall isf l b k last,
  frames3 (b_stack b) = k -> b_en b = bcount isf k ->
  (forall key, okey isf (ikey k) = Some key -> b_cur b = Some key /\ present key l = true) ->
  stack_ok3 (b_last b) (b_stack b) -> b_last b = last -> last < W64 -> rel_b isf l b k last.
Proof. intros. unfold rel_b. tauto. Qed.

Lemma bstep_ent : forall isf m st ls tid i t,
  relb isf m st ls -> l_get tid ls <= t -> t < W64 ->
  relb isf (bstep isf m (tid, IEnt i t)) (r_set tid (([i], t) :: r_get tid st) st) (l_set tid t ls)
  /\ (forall q, hit_of q (fst (bstep isf m (tid, IEnt i t))) = hit_of q (fst m)
                + (if outermost isf (ikey (([i], t) :: r_get tid st)) && key_eqb q (ikey (([i], t) :: r_get tid st)) then 1 else 0))
  /\ (forall q, time_of q (fst (bstep isf m (tid, IEnt i t))) = time_of q (fst m)).
Proof.
  intros isf [l ts] st ls tid i t R Hl Ht. pose proof (R tid) as [Hf [He [Hp [Hs [Hlast Hw]]]]].
  simpl fst in *. simpl snd in *. unfold bstep.
  set (b := b_get tid ts) in *. set (k := r_get tid st) in *.
  pose proof (bcount_nofunc isf k) as BN. rewrite <- He in BN.
  rewrite ikey_cons, outermost_snoc.
  assert (Hst : frames3 ((i, t, 0) :: b_stack b) = ([i], t) :: k) by (simpl; rewrite Hf; reflexivity).
  assert (Hok : stack_ok3 t ((i, t, 0) :: b_stack b)).
  { simpl. split; [lia|]. apply (stack_ok3_mono _ (b_last b)); [exact Hs|lia]. }
  assert (Others : forall l', (forall q, present q l = true -> present q l' = true) ->
            forall bnew, rel_b isf l' bnew (([i], t) :: k) t ->
            relb isf (l', b_set tid bnew ts) (r_set tid (([i], t) :: k) st) (l_set tid t ls)).
  { intros l' Hm bnew Hnew tid'. simpl fst. simpl snd. rewrite b_get_set, r_get_set, l_get_set.
    destruct (tid =? tid'); [exact Hnew|]. apply (rel_b_weaken isf l l'); [exact Hm|apply (R tid')]. }
  destruct (isf i) eqn:Fi.
  - destruct (b_en b =? 0) eqn:E0.
    + (* the outermost FUNC: a backtrace is hit *)
      rewrite <- BN. simpl andb.
      assert (Hkey : rev (map (fun f : N * N * N => fst (fst f)) (b_stack b)) = ikey k) by (rewrite stack_key, Hf; reflexivity).
      simpl rev. simpl map. rewrite Hkey.
      destruct (bt_enter_spec (ikey k ++ [i]) l) as [S1 [S2 [S3 S4]]].
      assert (N0 : okey isf (ikey k) = None) by (apply okey_none; rewrite <- BN; reflexivity).
      split; [|split].
      * apply Others; [exact S3|]. apply rel_b_intro; cbn [b_stack b_en b_cur b_last]; try assumption; try reflexivity.
        -- simpl bcount. simpl hd. rewrite Fi. apply N.eqb_eq in E0. fold k in He. lia.
        -- intros key H. rewrite ikey_cons, okey_snoc, N0, Fi in H. inversion H; subst. split; [reflexivity|exact S4].
      * intros q. simpl fst. rewrite S1. reflexivity.
      * intros q. simpl fst. apply S2.
    + (* FUNC inside FUNC *)
      rewrite <- BN. rewrite andb_false_r. simpl andb.
      split; [|split].
      * apply Others; [auto|]. apply rel_b_intro; cbn [b_stack b_en b_cur b_last]; try assumption; try reflexivity.
        -- simpl bcount. simpl hd. rewrite Fi. fold k in He. lia.
        -- intros key H. rewrite ikey_cons, okey_snoc in H. destruct (okey isf (ikey k)) as [k0|] eqn:Ok.
           ++ inversion H; subst. apply (Hp key eq_refl).
           ++ apply okey_none in Ok. rewrite <- BN in Ok. congruence.
      * intros q. simpl. lia.
      * intros q. reflexivity.
  - simpl andb. split; [|split].
    + apply Others; [auto|]. apply rel_b_intro; cbn [b_stack b_en b_cur b_last]; try assumption; try reflexivity.
      * simpl bcount. simpl hd. rewrite Fi. exact He.
      * intros key H. rewrite ikey_cons, okey_snoc, Fi in H. destruct (okey isf (ikey k)) as [k0|] eqn:Ok; [|discriminate].
        inversion H; subst. apply (Hp key eq_refl).
    + intros q. simpl. lia.
    + intros q. reflexivity.
Qed.

(* ---- EXIT ---- *)
Lemma frames3_bump : forall d st, frames3 (bump3 d st) = frames3 st.
Proof. intros d [|[[i s] c] r]; reflexivity. Qed.

Lemma bstep_ext : forall isf m st ls tid j t t0 k,
  relb isf m st ls -> r_get tid st = ([j], t0) :: k -> l_get tid ls <= t -> t < W64 ->
  relb isf (bstep isf m (tid, IExt j t)) (r_set tid k st) (l_set tid t ls)
  /\ (forall q, hit_of q (fst (bstep isf m (tid, IExt j t))) = hit_of q (fst m))
  /\ (forall q, outermost isf q = true ->
        time_of q (fst (bstep isf m (tid, IExt j t))) =
        if key_eqb q (ikey (([j], t0) :: k)) then add64 (time_of q (fst m)) (t - t0) else time_of q (fst m)).
Proof.
  intros isf [l ts] st ls tid j t t0 k R Hk Hl Ht. pose proof (R tid) as [Hf [He [Hp [Hs [Hlast Hw]]]]].
  simpl fst in *. simpl snd in *. rewrite Hk in Hf, He, Hp. unfold bstep.
  set (b := b_get tid ts) in *.
  destruct (b_stack b) as [|[[j' start] child] rest] eqn:Est; [discriminate Hf|].
  simpl in Hf. injection Hf as Hj H0 Hrest. subst j' start.
  simpl in Hs. destruct Hs as [Hs1 Hs2].
  assert (Hd : sub64 t t0 = t - t0) by (apply sub64_small; lia). rewrite Hd.
  assert (Hbump : stack_ok3 t (bump3 (t - t0) rest)).
  { destruct rest as [|[[i2 s2] c2] r2]; [exact I|]. simpl in Hs2. destruct Hs2 as [Hs3 Hs4]. simpl. split; [|exact Hs4].
    rewrite add64_small; lia. }
  pose proof (bcount_nofunc isf k) as BNk.
  simpl bcount in He. simpl hd in He.
  rewrite ikey_cons in Hp |- *.
  assert (Others : forall l', (forall q, present q l = true -> present q l' = true) ->
            forall bnew, rel_b isf l' bnew k t ->
            relb isf (l', b_set tid bnew ts) (r_set tid k st) (l_set tid t ls)).
  { intros l' Hm bnew Hnew tid'. simpl fst. simpl snd. rewrite b_get_set, r_get_set, l_get_set.
    destruct (tid =? tid'); [exact Hnew|]. apply (rel_b_weaken isf l l'); [exact Hm|apply (R tid')]. }
  unfold b_exit.
  destruct (isf j) eqn:Fj.
  - assert (Hon : (0 <? b_en b) = true) by (apply N.ltb_lt; lia). rewrite Hon. simpl andb.
    destruct (b_en b =? 1) eqn:E1.
    + (* the outermost FUNC returns *)
      apply N.eqb_eq in E1. assert (Hk0 : bcount isf k = 0) by lia.
      assert (NF : nofunc isf (ikey k) = true) by (rewrite <- BNk; apply N.eqb_eq; exact Hk0).
      assert (N0 : okey isf (ikey k) = None) by (apply okey_none; exact NF).
      destruct (Hp (ikey k ++ [j])) as [Hcur Hpres]; [rewrite okey_snoc, N0, Fj; reflexivity|].
      rewrite Hcur. destruct (bt_time_spec (ikey k ++ [j]) (t - t0) l Hpres) as [S1 [S2 S3]].
      split; [|split].
      * apply Others; [intros q Hq; rewrite S3; exact Hq|].
        apply rel_b_intro; cbn [b_stack b_en b_cur b_last]; try assumption; try reflexivity.
        -- rewrite frames3_bump. exact Hrest.
        -- lia.
        -- intros key H. rewrite N0 in H. discriminate.
      * intros q. simpl fst. apply S1.
      * intros q _. simpl fst. apply S2.
    + (* a nested FUNC returns *)
      apply N.eqb_neq in E1.
      assert (NF : nofunc isf (ikey k) = false) by (rewrite <- BNk; apply N.eqb_neq; lia).
      split; [|split].
      * apply Others; [auto|].
        apply rel_b_intro; cbn [b_stack b_en b_cur b_last]; try assumption; try reflexivity.
        -- rewrite frames3_bump. exact Hrest.
        -- lia.
        -- intros key H. apply Hp. rewrite okey_snoc, H. reflexivity.
      * intros q. reflexivity.
      * intros q Hq. simpl fst.
        assert (E : key_eqb q (ikey k ++ [j]) = false).
        { destruct (key_eqb q (ikey k ++ [j])) eqn:E; [|reflexivity]. apply key_eqb_eq in E. subst q.
          rewrite outermost_snoc, NF, andb_false_r in Hq. discriminate. }
        rewrite E. reflexivity.
  - simpl andb. split; [|split].
    + apply Others; [auto|].
      apply rel_b_intro; cbn [b_stack b_en b_cur b_last]; try assumption; try reflexivity.
      * rewrite frames3_bump. exact Hrest.
      * intros key H. apply Hp. rewrite okey_snoc, H. reflexivity.
    + intros q. reflexivity.
    + intros q Hq. simpl fst.
      assert (E : key_eqb q (ikey k ++ [j]) = false).
      { destruct (key_eqb q (ikey k ++ [j])) eqn:E; [|reflexivity]. apply key_eqb_eq in E. subst q.
        rewrite outermost_snoc, Fj in Hq. discriminate. }
      rewrite E. reflexivity.
Qed.

(* ---- the stream ---- *)
Definition as_ev (e : iev) : ev := match e with IEnt i t => Ent [i] t | IExt i t => Ext [i] t end.
Lemma as_stream_cons : forall tid e s, istream_as_stream ((tid, e) :: s) = (tid, as_ev e) :: istream_as_stream s.
Proof. reflexivity. Qed.

Definition keys_of (isf : N -> bool) (l : list path) : list (list N) := filter (outermost isf) (map ipath l).
Lemma keys_of_cons : forall isf p l, keys_of isf (p :: l) = if outermost isf (ipath p) then ipath p :: keys_of isf l else keys_of isf l.
Proof. reflexivity. Qed.

Lemma wf_run_ext : forall st tid x t s,
  wf_run st ((tid, Ext x t) :: s) = match r_get tid st with [] => false | (y, t0) :: k => name_eqb x y && wf_run (r_set tid k st) s end.
Proof. reflexivity. Qed.
Lemma wf_run_ent : forall st tid x t s,
  wf_run st ((tid, Ent x t) :: s) = wf_run (r_set tid ((x, t) :: r_get tid st) st) s.
Proof. reflexivity. Qed.

Lemma hit_step : forall q key keys (b : bool) c,
  c + (if b && key_eqb q key then 1 else 0) + ref_bt_hit q keys = c + ref_bt_hit q (if b then key :: keys else keys).
Proof. intros q key keys [|] c; [rewrite ref_bt_hit_cons; simpl andb; lia|]. change (false && key_eqb q key) with false. cbv iota. lia. Qed.

Lemma brun_inv : forall isf s m st ls C T,
  relb isf m st ls -> wf_run st (istream_as_stream s) = true -> mono_run ls (istream_as_stream s) = true ->
  (forall q, hit_of q (fst m) = C q) -> (forall q, outermost isf q = true -> time_of q (fst m) = T q mod W64) ->
  relb isf (fold_left (bstep isf) s m) (snd (ref_calls_run st (istream_as_stream s))) (lasts_run ls (istream_as_stream s))
  /\ (forall q, hit_of q (fst (fold_left (bstep isf) s m)) = C q + ref_bt_hit q (keys_of isf (ref_entries st (istream_as_stream s))))
  /\ (forall q, outermost isf q = true ->
        time_of q (fst (fold_left (bstep isf) s m)) = (T q + ref_bt_time q (fst (ref_calls_run st (istream_as_stream s)))) mod W64).
Proof.
  intros isf. induction s as [|[tid e] s IH]; intros m st ls C T R Hwf Hmono HC HT.
  - simpl. split; [exact R|]. split; intros q; [rewrite HC; unfold ref_bt_hit; simpl; lia|].
    intros Hq. rewrite (HT q Hq), N.add_0_r. reflexivity.
  - rewrite as_stream_cons in *. simpl in Hmono. apply andb_prop in Hmono. destruct Hmono as [Hm1 Hmono].
    apply andb_prop in Hm1. destruct Hm1 as [Hle Hlt]. apply N.leb_le in Hle. apply N.ltb_lt in Hlt.
    change (fold_left (bstep isf) ((tid, e) :: s) m) with (fold_left (bstep isf) s (bstep isf m (tid, e))).
    destruct e as [i t|i t]; simpl as_ev in *; simpl in Hle, Hlt.
    + rewrite wf_run_ent in Hwf. destruct (bstep_ent isf m st ls tid i t R Hle Hlt) as [R' [Hc Ht]].
      destruct (IH (bstep isf m (tid, IEnt i t)) _ _
                   (fun q => C q + (if outermost isf (ikey (([i], t) :: r_get tid st)) && key_eqb q (ikey (([i], t) :: r_get tid st)) then 1 else 0)) T
                   R' Hwf Hmono) as [R2 [C2 T2]].
      * intros q. rewrite Hc, HC. reflexivity.
      * intros q Hq. rewrite Ht. apply HT, Hq.
      * simpl ref_calls_run. simpl ref_entries. simpl lasts_run. split; [exact R2|]. split.
        -- intros q. rewrite C2, keys_of_cons. unfold ikey. apply hit_step.
        -- exact T2.
    + rewrite wf_run_ext in Hwf. destruct (r_get tid st) as [|[y t0] k] eqn:Hk; [discriminate|].
      apply andb_prop in Hwf. destruct Hwf as [Hxy Hwf]. apply name_eqb_eq in Hxy. subst y.
      destruct (bstep_ext isf m st ls tid i t t0 k R Hk Hle Hlt) as [R' [Hc Ht]].
      destruct (IH (bstep isf m (tid, IExt i t)) _ _ C
                   (fun q => if key_eqb q (ikey (([i], t0) :: k)) then T q + (t - t0) else T q)
                   R' Hwf Hmono) as [R2 [C2 T2]].
      * intros q. rewrite Hc, HC. reflexivity.
      * intros q Hq. rewrite (Ht q Hq), (HT q Hq). destruct (key_eqb q _); [apply add64_mod|reflexivity].
      * simpl ref_calls_run. rewrite Hk. simpl ref_entries. simpl lasts_run.
        destruct (ref_calls_run (r_set tid k st) (istream_as_stream s)) as [cs st'] eqn:Ers. simpl fst in *. simpl snd in *.
        split; [exact R2|]. split.
        -- intros q. rewrite C2, Hk. reflexivity.
        -- intros q Hq. rewrite (T2 q Hq), ref_bt_time_cons. unfold rc_dur. simpl rc_path. simpl rc_t0. simpl rc_t1.
           unfold ikey. destruct (key_eqb q _); f_equal; lia.
Qed.

(* ---- the calls still open at the end ---- *)
Definition stack_ok3c (last carry : N) (st : list (N * N * N)) : Prop :=
  match st with [] => True | (i, s, c) :: r => s + c + carry <= last /\ stack_ok3 s r end.

Lemma bclose_inv : forall isf tid last st carry en cur l T,
  last < W64 -> stack_ok3c last carry st -> en = bcount isf (frames3 st) ->
  (forall key, okey isf (ikey (frames3 st)) = Some key -> cur = Some key /\ present key l = true) ->
  (forall q, outermost isf q = true -> time_of q l = T q mod W64) ->
  (forall q, outermost isf q = true ->
     time_of q (bclose isf last carry st en cur l) = (T q + ref_bt_time q (close_ref tid last (frames3 st))) mod W64)
  /\ (forall q, hit_of q (bclose isf last carry st en cur l) = hit_of q l)
  /\ (forall q, present q l = true -> present q (bclose isf last carry st en cur l) = true).
Proof.
  intros isf tid last. induction st as [|[[i start] child] rest IH]; intros carry en cur l T Hw Hs He Hp HT.
  - simpl. split; [|split]; auto. intros q Hq. rewrite (HT q Hq), N.add_0_r. reflexivity.
  - simpl in Hs. destruct Hs as [Hs1 Hs2].
    assert (Hfc : add64 child carry = child + carry) by (apply add64_small; lia).
    simpl bclose. rewrite Hfc.
    assert (E1 : last <? start = false) by (apply N.ltb_ge; lia). rewrite E1.
    assert (E2 : last - start <? child + carry = false) by (apply N.ltb_ge; lia). rewrite E2.
    set (delta := last - start) in *.
    assert (Hs' : stack_ok3c last delta rest).
    { destruct rest as [|[[i2 s2] c2] r2]; [exact I|]. simpl in Hs2. destruct Hs2 as [Hs3 Hs4]. simpl. split; [unfold delta; lia|exact Hs4]. }
    simpl frames3 in He, Hp |- *. set (k := frames3 rest) in *.
    simpl bcount in He. simpl hd in He. rewrite ikey_cons in Hp.
    pose proof (bcount_nofunc isf k) as BNk.
    simpl close_ref. unfold b_exit.
    assert (Cons : forall q, ref_bt_time q ({| rc_tid := tid; rc_path := rpath (([i], start) :: k); rc_t0 := start; rc_t1 := last |}
                                            :: close_ref tid last k)
                             = ref_bt_time q (close_ref tid last k) + (if key_eqb q (ikey k ++ [i]) then delta else 0)).
    { intros q. rewrite ref_bt_time_cons. unfold rc_dur. simpl rc_path. simpl rc_t0. simpl rc_t1.
      change (ipath (rpath (([i], start) :: k))) with (ikey (([i], start) :: k)). rewrite ikey_cons. reflexivity. }
    destruct (isf i) eqn:Fi.
    + assert (Hon : (0 <? en) = true) by (apply N.ltb_lt; lia). rewrite Hon. simpl andb.
      destruct (en =? 1) eqn:En1.
      * apply N.eqb_eq in En1. assert (Hk0 : bcount isf k = 0) by lia.
        assert (NF : nofunc isf (ikey k) = true) by (rewrite <- BNk; apply N.eqb_eq; exact Hk0).
        assert (N0 : okey isf (ikey k) = None) by (apply okey_none; exact NF).
        destruct (Hp (ikey k ++ [i])) as [Hcur Hpres]; [rewrite okey_snoc, N0, Fi; reflexivity|].
        rewrite Hcur. destruct (bt_time_spec (ikey k ++ [i]) delta l Hpres) as [S1 [S2 S3]].
        destruct (IH delta 0 None (bt_time (ikey k ++ [i]) delta l)
                     (fun q => if key_eqb q (ikey k ++ [i]) then T q + delta else T q) Hw Hs') as [I1 [I2 I3]].
        -- fold k. lia.
        -- fold k. intros key H. rewrite N0 in H. discriminate.
        -- intros q Hq. rewrite S2, (HT q Hq). destruct (key_eqb q _); [apply add64_mod|reflexivity].
        -- split; [|split].
           ++ intros q Hq. rewrite (I1 q Hq), Cons. fold k. destruct (key_eqb q _); f_equal; lia.
           ++ intros q. rewrite I2. apply S1.
           ++ intros q Hq. apply I3. rewrite S3. exact Hq.
      * apply N.eqb_neq in En1.
        assert (NF : nofunc isf (ikey k) = false) by (rewrite <- BNk; apply N.eqb_neq; lia).
        destruct (IH delta (en - 1) cur l T Hw Hs') as [I1 [I2 I3]].
        -- fold k. lia.
        -- fold k. intros key H. apply Hp. rewrite okey_snoc, H. reflexivity.
        -- exact HT.
        -- split; [|split]; [|exact I2|exact I3].
           intros q Hq. rewrite (I1 q Hq), Cons. fold k.
           assert (E : key_eqb q (ikey k ++ [i]) = false).
           { destruct (key_eqb q (ikey k ++ [i])) eqn:E; [|reflexivity]. apply key_eqb_eq in E. subst q.
             rewrite outermost_snoc, NF, andb_false_r in Hq. discriminate. }
           rewrite E. f_equal. lia.
    + simpl andb.
      destruct (IH delta en cur l T Hw Hs') as [I1 [I2 I3]].
      * fold k. exact He.
      * fold k. intros key H. apply Hp. rewrite okey_snoc, H. reflexivity.
      * exact HT.
      * split; [|split]; [|exact I2|exact I3].
        intros q Hq. rewrite (I1 q Hq), Cons. fold k.
        assert (E : key_eqb q (ikey k ++ [i]) = false).
        { destruct (key_eqb q (ikey k ++ [i])) eqn:E; [|reflexivity]. apply key_eqb_eq in E. subst q.
          rewrite outermost_snoc, Fi in Hq. discriminate. }
        rewrite E. f_equal. lia.
Qed.

Lemma bclose_all : forall isf ts st ls tids l T,
  NoDup tids ->
  (forall tid, In tid tids -> rel_b isf l (b_get tid ts) (r_get tid st) (l_get tid ls)) ->
  (forall q, outermost isf q = true -> time_of q l = T q mod W64) ->
  let l' := fold_left (fun l tid => let b := b_get tid ts in bclose isf (b_last b) 0 (b_stack b) (b_en b) (b_cur b) l) tids l in
  (forall q, outermost isf q = true ->
     time_of q l' = (T q + ref_bt_time q (flat_map (fun tid => close_ref tid (l_get tid ls) (r_get tid st)) tids)) mod W64)
  /\ (forall q, hit_of q l' = hit_of q l).
Proof.
  intros isf ts st ls. induction tids as [|tid r IH]; intros l T ND R HT; cbv zeta.
  - simpl. split; [|reflexivity]. intros q Hq. rewrite (HT q Hq), N.add_0_r. reflexivity.
  - inversion ND as [|? ? Hnot ND']; subst. simpl fold_left.
    destruct (R tid (or_introl eq_refl)) as [Hf [He [Hp [Hs [Hlast Hw]]]]].
    set (b := b_get tid ts) in *.
    assert (Hs0 : stack_ok3c (b_last b) 0 (b_stack b)).
    { destruct (b_stack b) as [|[[i s] c] rest]; [exact I|]. simpl in *. destruct Hs. split; [lia|assumption]. }
    assert (Hw0 : b_last b < W64) by (rewrite Hlast; exact Hw).
    destruct (bclose_inv isf tid (b_last b) (b_stack b) 0 (b_en b) (b_cur b) l T Hw0 Hs0) as [C1 [C2 C3]].
    + rewrite Hf. exact He.
    + rewrite Hf. exact Hp.
    + exact HT.
    + set (l1 := bclose isf (b_last b) 0 (b_stack b) (b_en b) (b_cur b) l) in *.
      destruct (IH l1 (fun q => T q + ref_bt_time q (close_ref tid (l_get tid ls) (r_get tid st))) ND') as [D1 D2].
      * intros tid' Hin. apply (rel_b_weaken isf l l1 _ _ _ C3). apply R. right. exact Hin.
      * intros q Hq. rewrite (C1 q Hq), Hf, Hlast. reflexivity.
      * cbv zeta in D1, D2. split.
        -- intros q Hq. rewrite (D1 q Hq). simpl flat_map. rewrite ref_bt_time_app. f_equal. lia.
        -- intros q. rewrite D2. apply C2.
Qed.

Lemma relb_init : forall isf, relb isf ([], []) [] [].
Proof.
  intros isf tid. unfold rel_b. simpl. repeat split; try reflexivity; try discriminate.
Qed.

(* THE BACKTRACE SECTION: for every stack of symbols the hit count is the number of outermost entries of FUNC made
   with exactly that stack, and for the stacks that end in an outermost FUNC the time is the total duration of those
   calls (open ones last until the task's final time stamp) *)
Theorem backtraces_sums : forall isf tids s,
  wf_stream (istream_as_stream s) = true -> NoDup tids ->
  (forall q, hit_of q (backtraces isf tids s) = ref_bt_hit q (ref_bt_keys isf s))
  /\ (forall q, outermost isf q = true ->
        time_of q (backtraces isf tids s) = ref_bt_time q (ref_calls tids (istream_as_stream s)) mod W64).
Proof.
  intros isf tids s Hwf ND. unfold wf_stream in Hwf. apply andb_prop in Hwf. destruct Hwf as [Hwf Hmono].
  destruct (brun_inv isf s ([], []) [] [] (fun _ => 0) (fun _ => 0) (relb_init isf) Hwf Hmono) as [R [C T]].
  { intros q. reflexivity. }
  { intros q _. reflexivity. }
  unfold backtraces.
  destruct (fold_left (bstep isf) s ([], [])) as [l ts] eqn:Efold. simpl fst in *. simpl snd in *.
  destruct (bclose_all isf ts _ _ tids l _ ND (fun tid _ => R tid) T) as [D1 D2]. cbv zeta in D1, D2.
  split.
  - intros q. rewrite D2, C. reflexivity.
  - intros q Hq. rewrite (D1 q Hq). unfold ref_calls.
    destruct (ref_calls_run [] (istream_as_stream s)) as [cs st']. simpl fst. simpl snd.
    rewrite ref_bt_time_app. f_equal. f_equal. f_equal.
    apply flat_map_ext. intros tid. rewrite lasts_run_last_time. reflexivity.
Qed.

(* every listed backtrace ends in an outermost FUNC and was hit: nothing else is ever put on the list *)
Lemma present_hit_pos : forall isf (s : istream) q,
  ref_bt_hit q (ref_bt_keys isf s) <> 0 -> outermost isf q = true.
Proof.
  intros isf s q H. unfold ref_bt_keys in H.
  induction (map ipath (ref_entries [] (istream_as_stream s))) as [|k l IH]; [contradiction H; reflexivity|].
  simpl filter in H. destruct (outermost isf k) eqn:O.
  - rewrite ref_bt_hit_cons in H. destruct (key_eqb q k) eqn:E; [apply key_eqb_eq in E; subst; exact O|].
    apply IH. lia.
  - apply IH, H.
Qed.

Example backtraces_example :
  let isf := fun i => i =? 1 in
  let s := [(1, IEnt 0 10); (1, IEnt 1 20); (1, IEnt 1 30); (1, IExt 1 40); (1, IExt 1 50); (1, IEnt 1 60); (1, IExt 1 75);
            (2, IEnt 1 80)] in
  wf_stream (istream_as_stream s) = true
  /\ backtraces isf [1; 2] s = [([1], 1, 0); ([0; 1], 2, 45)].
Proof. vm_compute. split; reflexivity. Qed.
