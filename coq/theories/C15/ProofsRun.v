(* C15 - the replay loop builds the graph whose per-path statistics are the sums over the trace's calls *)
From Coq Require Import NArith List Bool Lia.
Import ListNotations.
Require Import UV.C15.Model UV.C15.ProofsTree.
Local Open Scope N_scope.

(* ---- association lists ---- *)
Lemma t_get_set : forall tid tid' v l, t_get tid' (t_set tid v l) = if tid =? tid' then v else t_get tid' l.
Proof.
  intros tid tid' v l. induction l as [|[k s0] r IH]; simpl.
  - rewrite N.eqb_sym. destruct (tid' =? tid); reflexivity.
  - destruct (k =? tid) eqn:E; simpl.
    + apply N.eqb_eq in E. subst k. destruct (tid =? tid'); reflexivity.
    + destruct (k =? tid') eqn:E'.
      * apply N.eqb_eq in E'. subst k. rewrite N.eqb_sym, E. reflexivity.
      * exact IH.
Qed.
Lemma r_get_set : forall tid tid' v l, r_get tid' (r_set tid v l) = if tid =? tid' then v else r_get tid' l.
Proof.
  intros tid tid' v l. induction l as [|[k s0] r IH]; simpl.
  - rewrite N.eqb_sym. destruct (tid' =? tid); reflexivity.
  - destruct (k =? tid) eqn:E; simpl.
    + apply N.eqb_eq in E. subst k. destruct (tid =? tid'); reflexivity.
    + destruct (k =? tid') eqn:E'.
      * apply N.eqb_eq in E'. subst k. rewrite N.eqb_sym, E. reflexivity.
      * exact IH.
Qed.
Lemma l_get_set : forall tid tid' v l, l_get tid' (l_set tid v l) = if tid =? tid' then v else l_get tid' l.
Proof.
  intros tid tid' v l. induction l as [|[k s0] r IH]; simpl.
  - rewrite N.eqb_sym. destruct (tid' =? tid); reflexivity.
  - destruct (k =? tid) eqn:E; simpl.
    + apply N.eqb_eq in E. subst k. destruct (tid =? tid'); reflexivity.
    + destruct (k =? tid') eqn:E'.
      * apply N.eqb_eq in E'. subst k. rewrite N.eqb_sym, E. reflexivity.
      * exact IH.
Qed.

(* ---- 64-bit arithmetic ---- *)
Lemma W64_pos : W64 <> 0. Proof. discriminate. Qed.
Lemma add64_small : forall a b, a + b < W64 -> add64 a b = a + b.
Proof. intros. unfold add64. apply N.mod_small. assumption. Qed.
Lemma sub64_small : forall a b, b <= a -> a < W64 -> sub64 a b = a - b.
Proof.
  intros a b H1 H2. unfold sub64. rewrite (N.mod_small b) by lia.
  replace (a + W64 - b) with ((a - b) + 1 * W64) by lia.
  rewrite N.mod_add by exact W64_pos. apply N.mod_small. lia.
Qed.
Lemma add64_mod : forall T d, add64 (T mod W64) d = (T + d) mod W64.
Proof. intros. unfold add64. rewrite N.add_mod_idemp_l by exact W64_pos. reflexivity. Qed.

(* ---- the invariant tying a task's state to the reference stack ---- *)
Definition frames_of (st : list frame) : rstack := map (fun f => (f_name f, f_start f)) st.

(* child-time accounting: the finished children of a frame lie between its start and the start of
   the frame above it (resp. the task's current time) *)
Fixpoint stack_ok (upper : N) (st : list frame) : Prop :=
  match st with
  | [] => True
  | f :: r => f_start f + f_child f <= upper /\ stack_ok (f_start f) r
  end.
Lemma stack_ok_mono : forall st u u', stack_ok u st -> u <= u' -> stack_ok u' st.
Proof. destruct st as [|f r]; simpl; intros u u' H L; [exact I|]. destruct H. split; [lia|assumption]. Qed.

Definition rel_task (root : node) (ts : tstate) (k : rstack) (last : N) : Prop :=
  frames_of (ts_stack ts) = k /\ ts_path ts = rpath k /\ valid_at (ts_path ts) root = 1
  /\ stack_ok (ts_last ts) (ts_stack ts) /\ ts_last ts = last /\ last < W64.
Definition rel (m : mstate) (st : list (N * rstack)) (ls : list (N * N)) : Prop :=
  forall tid, rel_task (g_root (m_g m)) (t_get tid (m_t m)) (r_get tid st) (l_get tid ls).

Lemma rpath_cons : forall x t k, rpath ((x, t) :: k) = rpath k ++ [x].
Proof. reflexivity. Qed.

Fixpoint lasts_run (ls : list (N * N)) (s : stream) : list (N * N) :=
  match s with [] => ls | (tid, e) :: r => lasts_run (l_set tid (ev_time e) ls) r end.

Lemma time_path_cons : forall q c cs,
  time_path q (c :: cs) = if path_eqb q (rc_path c) then time_path q cs + rc_dur c else time_path q cs.
Proof. reflexivity. Qed.
Lemma time_path_app : forall q a b, time_path q (a ++ b) = time_path q a + time_path q b.
Proof.
  intros q a b. induction a as [|c a IH]; [reflexivity|].
  simpl app. rewrite !time_path_cons, IH. destruct (path_eqb q (rc_path c)); lia.
Qed.
Lemma count_path_cons : forall q p l, count_path q (p :: l) = if path_eqb q p then count_path q l + 1 else count_path q l.
Proof. reflexivity. Qed.

(* one record *)
Lemma step_ent : forall sample m st ls tid x t,
  rel m st ls -> l_get tid ls <= t -> t < W64 ->
  let m' := step sample m (tid, Ent x t) in
  rel m' (r_set tid ((x, t) :: r_get tid st) st) (l_set tid t ls)
  /\ (forall q, calls_at q (g_root (m_g m')) = calls_at q (g_root (m_g m))
                + (if path_eqb q (rpath ((x, t) :: r_get tid st)) then 1 else 0))
  /\ (forall q, time_at q (g_root (m_g m')) = time_at q (g_root (m_g m))).
Proof.
  intros sample m st ls tid x t R Hl Ht. pose proof (R tid) as [Hf [Hp [Hv [Hs [Hlast Hw]]]]].
  apply valid_at_1 in Hv. destruct Hv as [cur Hcur].
  cbv zeta. unfold step. rewrite Hcur. cbn [m_g m_t].
  split; [|split].
  - intros tid'. cbn [m_g m_t]. rewrite t_get_set, r_get_set, l_get_set.
    destruct (tid =? tid') eqn:E.
    + unfold rel_task. cbn [ts_path ts_stack ts_last]. repeat split.
      * simpl. rewrite Hf. reflexivity.
      * rewrite rpath_cons, Hp. reflexivity.
      * rewrite (g_enter_valid _ _ _ _ _ Hcur), path_eqb_refl. reflexivity.
      * simpl. lia.
      * apply (stack_ok_mono _ (ts_last (t_get tid (m_t m)))); [exact Hs|simpl; lia].
      * exact Ht.
    + pose proof (R tid') as [Hf' [Hp' [Hv' [Hs' [Hlast' Hw']]]]].
      unfold rel_task. repeat split; try assumption.
      rewrite (g_enter_valid _ _ _ _ _ Hcur). rewrite Hv'. destruct (path_eqb _ _); reflexivity.
  - intros q. cbn [m_g m_t]. rewrite (g_enter_calls _ _ _ _ _ Hcur), rpath_cons, Hp. reflexivity.
  - intros q. cbn [m_g m_t]. apply (g_enter_time _ _ _ _ _ Hcur).
Qed.

Lemma frames_of_bump : forall d st, frames_of (bump_child d st) = frames_of st.
Proof. intros d [|f r]; reflexivity. Qed.

Lemma step_ext : forall sample m st ls tid x t y t0 k,
  rel m st ls -> r_get tid st = (y, t0) :: k -> l_get tid ls <= t -> t < W64 ->
  let m' := step sample m (tid, Ext x t) in
  rel m' (r_set tid k st) (l_set tid t ls)
  /\ (forall q, calls_at q (g_root (m_g m')) = calls_at q (g_root (m_g m)))
  /\ (forall q, time_at q (g_root (m_g m')) =
                if path_eqb q (rpath ((y, t0) :: k)) then add64 (time_at q (g_root (m_g m))) (t - t0)
                else time_at q (g_root (m_g m))).
Proof.
  intros sample m st ls tid x t y t0 k R Hk Hl Ht. pose proof (R tid) as [Hf [Hp [Hv [Hs [Hlast Hw]]]]].
  rewrite Hk in Hf, Hp.
  apply valid_at_1 in Hv. destruct Hv as [cur Hcur].
  cbv zeta. unfold step.
  destruct (ts_stack (t_get tid (m_t m))) as [|f rest] eqn:Est; [discriminate Hf|].
  simpl in Hf. injection Hf as Hn H0 Hrest.
  simpl in Hs. destruct Hs as [Hs1 Hs2].
  assert (Hd : sub64 t (f_start f) = t - t0) by (rewrite H0; apply sub64_small; lia).
  rewrite Hd. cbn [m_g m_t].
  assert (Hvk : exists mk, find_path (rpath k) (g_root (m_g m)) = Some mk).
  { rewrite Hp, rpath_cons in Hcur. apply (valid_prefix _ _ _ _ Hcur). }
  split; [|split].
  - intros tid'. cbn [m_g m_t]. rewrite t_get_set, r_get_set, l_get_set.
    destruct (tid =? tid') eqn:E.
    + unfold rel_task. cbn [ts_path ts_stack ts_last]. repeat split.
      * rewrite frames_of_bump. exact Hrest.
      * rewrite Hp, rpath_cons. apply removelast_last.
      * rewrite (g_exit_valid _ _ _ _ _ _ _ Hcur). rewrite Hp, rpath_cons, removelast_last.
        apply valid_at_1. exact Hvk.
      * destruct rest as [|f2 r2]; [exact I|]. simpl in Hs2. destruct Hs2 as [Hs3 Hs4]. simpl.
        split; [|exact Hs4].
        rewrite add64_small; lia.
      * exact Ht.
    + pose proof (R tid') as [Hf' [Hp' [Hv' [Hs' [Hlast' Hw']]]]].
      unfold rel_task. repeat split; try assumption.
      rewrite (g_exit_valid _ _ _ _ _ _ _ Hcur). exact Hv'.
  - intros q. cbn [m_g m_t]. apply (g_exit_calls _ _ _ _ _ _ _ Hcur).
  - intros q. cbn [m_g m_t]. rewrite (g_exit_time _ _ _ _ _ _ _ Hcur), Hp. reflexivity.
Qed.

(* the whole stream *)
Lemma run_inv : forall sample s m st ls C T,
  rel m st ls -> wf_run st s = true -> mono_run ls s = true ->
  (forall q, calls_at q (g_root (m_g m)) = C q) ->
  (forall q, time_at q (g_root (m_g m)) = T q mod W64) ->
  let m' := fold_left (step sample) s m in
  rel m' (snd (ref_calls_run st s)) (lasts_run ls s)
  /\ (forall q, calls_at q (g_root (m_g m')) = C q + count_path q (ref_entries st s))
  /\ (forall q, time_at q (g_root (m_g m')) = (T q + time_path q (fst (ref_calls_run st s))) mod W64).
Proof.
  intros sample. induction s as [|[tid e] s IH]; intros m st ls C T R Hwf Hmono HC HT; cbv zeta.
  - simpl. split; [exact R|]. split; intros q; [rewrite HC|rewrite HT, N.add_0_r]; [lia|reflexivity].
  - simpl in Hmono. apply andb_prop in Hmono. destruct Hmono as [Hm1 Hmono].
    apply andb_prop in Hm1. destruct Hm1 as [Hle Hlt].
    apply N.leb_le in Hle. apply N.ltb_lt in Hlt.
    destruct e as [x t|x t]; simpl in Hle, Hlt, Hmono.
    + (* ENTRY *)
      simpl in Hwf.
      destruct (step_ent sample m st ls tid x t R Hle Hlt) as [R' [Hc Ht]].
      simpl fold_left.
      specialize (IH (step sample m (tid, Ent x t)) _ _
                     (fun q => C q + (if path_eqb q (rpath ((x, t) :: r_get tid st)) then 1 else 0)) T
                     R' Hwf Hmono).
      cbv zeta in IH. destruct IH as [R2 [C2 T2]].
      * intros q. rewrite Hc, HC. reflexivity.
      * intros q. rewrite Ht, HT. reflexivity.
      * simpl ref_calls_run. simpl ref_entries. simpl lasts_run.
        split; [exact R2|]. split; intros q.
        -- rewrite C2, count_path_cons. destruct (path_eqb q _); lia.
        -- apply T2.
    + (* EXIT *)
      simpl in Hwf. destruct (r_get tid st) as [|[y t0] k] eqn:Hk; [discriminate|].
      apply andb_prop in Hwf. destruct Hwf as [_ Hwf].
      destruct (step_ext sample m st ls tid x t y t0 k R Hk Hle Hlt) as [R' [Hc Ht]].
      simpl fold_left.
      specialize (IH (step sample m (tid, Ext x t)) _ _ C
                     (fun q => if path_eqb q (rpath ((y, t0) :: k)) then T q + (t - t0) else T q)
                     R' Hwf Hmono).
      cbv zeta in IH. destruct IH as [R2 [C2 T2]].
      * intros q. rewrite Hc, HC. reflexivity.
      * intros q. rewrite Ht, HT. destruct (path_eqb q _); [apply add64_mod|reflexivity].
      * simpl ref_calls_run. rewrite Hk. simpl ref_entries. simpl lasts_run.
        destruct (ref_calls_run (r_set tid k st) s) as [cs st'] eqn:Ers. simpl fst in *. simpl snd in *.
        split; [exact R2|]. split; intros q.
        -- rewrite C2. rewrite Hk. reflexivity.
        -- rewrite T2, time_path_cons. unfold rc_dur. simpl.
           destruct (path_eqb q _); f_equal; lia.
Qed.

(* ---- "add duration of remaining functions" ---- *)
Definition stack_ok_c (last carry : N) (st : list frame) : Prop :=
  match st with
  | [] => True
  | f :: r => f_start f + f_child f + carry <= last /\ stack_ok (f_start f) r
  end.

Lemma close_frames_inv : forall sample tid last st carry p g T,
  last < W64 -> stack_ok_c last carry st -> p = rpath (frames_of st) -> valid_at p (g_root g) = 1 ->
  (forall q, time_at q (g_root g) = T q mod W64) ->
  (forall q, time_at q (g_root (fst (close_frames sample last carry st p g)))
             = (T q + time_path q (close_ref tid last (frames_of st))) mod W64)
  /\ (forall q, calls_at q (g_root (fst (close_frames sample last carry st p g))) = calls_at q (g_root g))
  /\ (forall q, valid_at q (g_root g) = 1 -> valid_at q (g_root (fst (close_frames sample last carry st p g))) = 1).
Proof.
  intros sample tid last. induction st as [|f rest IH]; intros carry p g T Hw Hs Hp Hv HT.
  - simpl. split; [|split]; intros q; [rewrite HT, N.add_0_r| |]; auto.
  - simpl in Hs. destruct Hs as [Hs1 Hs2].
    assert (Hfc : add64 (f_child f) carry = f_child f + carry) by (apply add64_small; lia).
    simpl close_frames. rewrite Hfc.
    assert (E1 : last <? f_start f = false) by (apply N.ltb_ge; lia). rewrite E1.
    assert (E2 : last - f_start f <? f_child f + carry = false) by (apply N.ltb_ge; lia). rewrite E2.
    apply valid_at_1 in Hv. destruct Hv as [cur Hcur].
    simpl frames_of in Hp. rewrite rpath_cons in Hp.
    set (g1 := g_exit sample p (last - f_start f) (f_child f + carry) g).
    assert (Hv1 : valid_at (removelast p) (g_root g1) = 1).
    { unfold g1. rewrite (g_exit_valid _ _ _ _ _ _ _ Hcur). apply valid_at_1.
      rewrite Hp, removelast_last. rewrite Hp in Hcur. apply (valid_prefix _ _ _ _ Hcur). }
    assert (Hs' : stack_ok_c last (last - f_start f) rest).
    { destruct rest as [|f2 r2]; [exact I|]. simpl in Hs2. destruct Hs2 as [Hs3 Hs4]. simpl. split; [lia|exact Hs4]. }
    assert (Hp' : removelast p = rpath (frames_of rest)) by (rewrite Hp; apply removelast_last).
    specialize (IH (last - f_start f) (removelast p) g1
                   (fun q => if path_eqb q p then T q + (last - f_start f) else T q) Hw Hs' Hp' Hv1).
    destruct IH as [I1 [I2 I3]].
    { intros q. unfold g1. rewrite (g_exit_time _ _ _ _ _ _ _ Hcur), HT.
      destruct (path_eqb q p); [apply add64_mod|reflexivity]. }
    split; [|split]; intros q.
    + rewrite I1. simpl frames_of. simpl close_ref. rewrite time_path_cons. unfold rc_dur. simpl rc_path. simpl rc_t0. simpl rc_t1.
      rewrite rpath_cons, <- Hp. destruct (path_eqb q p); f_equal; lia.
    + rewrite I2. unfold g1. apply (g_exit_calls _ _ _ _ _ _ _ Hcur).
    + intros Hq. apply I3. unfold g1. rewrite (g_exit_valid _ _ _ _ _ _ _ Hcur). exact Hq.
Qed.

Definition rel_on (l : list N) (m : mstate) (st : list (N * rstack)) (ls : list (N * N)) : Prop :=
  forall tid, In tid l -> rel_task (g_root (m_g m)) (t_get tid (m_t m)) (r_get tid st) (l_get tid ls).

Lemma close_tasks_inv : forall sample tids m st ls T,
  NoDup tids -> rel_on tids m st ls -> (forall q, time_at q (g_root (m_g m)) = T q mod W64) ->
  (forall q, time_at q (g_root (m_g (close_tasks sample tids m)))
             = (T q + time_path q (flat_map (fun tid => close_ref tid (l_get tid ls) (r_get tid st)) tids)) mod W64)
  /\ (forall q, calls_at q (g_root (m_g (close_tasks sample tids m))) = calls_at q (g_root (m_g m))).
Proof.
  intros sample. induction tids as [|tid r IH]; intros m st ls T Hnd R HT.
  - simpl. split; intros q; [rewrite HT, N.add_0_r|]; reflexivity.
  - inversion Hnd as [|? ? Hnot Hnd']; subst.
    pose proof (R tid (or_introl eq_refl)) as [Hf [Hp [Hv [Hs [Hlast Hw]]]]].
    simpl close_tasks.
    destruct (close_frames sample (ts_last (t_get tid (m_t m))) 0 (ts_stack (t_get tid (m_t m)))
                           (ts_path (t_get tid (m_t m))) (m_g m)) as [g' p'] eqn:Ecf.
    assert (Hs0 : stack_ok_c (ts_last (t_get tid (m_t m))) 0 (ts_stack (t_get tid (m_t m)))).
    { destruct (ts_stack (t_get tid (m_t m))) as [|f rest]; [exact I|]. simpl in *. destruct Hs. split; [lia|assumption]. }
    assert (Hp0 : ts_path (t_get tid (m_t m)) = rpath (frames_of (ts_stack (t_get tid (m_t m))))) by (rewrite Hf; exact Hp).
    assert (Hw0 : ts_last (t_get tid (m_t m)) < W64) by (rewrite Hlast; exact Hw).
    destruct (close_frames_inv sample tid _ _ 0 _ (m_g m) T Hw0 Hs0 Hp0 Hv HT) as [C1 [C2 C3]].
    rewrite Ecf in C1, C2, C3. simpl fst in C1, C2, C3.
    match goal with |- context [close_tasks sample r ?mm] => set (m1 := mm) end.
    assert (R1 : rel_on r m1 st ls).
    { intros tid' Hin. unfold m1. cbn [m_g m_t]. rewrite t_get_set.
      assert (Hne : tid =? tid' = false) by (apply N.eqb_neq; intros ->; contradiction).
      rewrite Hne. pose proof (R tid' (or_intror Hin)) as [Hf' [Hp' [Hv' [Hs' [Hlast' Hw']]]]].
      unfold rel_task. repeat split; try assumption. apply C3. exact Hv'. }
    destruct (IH m1 st ls (fun q => T q + time_path q (close_ref tid (l_get tid ls) (r_get tid st))) Hnd' R1) as [D1 D2].
    { intros q. unfold m1. cbn [m_g]. rewrite C1, Hf, Hlast. reflexivity. }
    split; intros q.
    + rewrite D1. simpl flat_map. rewrite time_path_app. f_equal. lia.
    + rewrite D2. unfold m1. cbn [m_g]. apply C2.
Qed.

Lemma lasts_run_last_time : forall s ls tid, l_get tid (lasts_run ls s) = last_time tid s (l_get tid ls).
Proof.
  induction s as [|[k e] s IH]; intros ls tid; simpl; [reflexivity|].
  rewrite IH, l_get_set. reflexivity.
Qed.

Lemma rel_init : forall rootname, rel (m_init rootname) [] [].
Proof. intros rootname tid. unfold rel_task. simpl. repeat split; try reflexivity. Qed.

Lemma stat_root0 : forall sel rootname q, sel (root0 rootname) = 0 -> stat sel q (root0 rootname) = 0.
Proof. intros sel rootname [|x q] H; unfold stat; simpl; [exact H|reflexivity]. Qed.

(* THE GRAPH IS THE AGGREGATION OF THE TRACE: for every name path q the node at q (if any) counts the calls
   whose name path is q and sums their durations (calls still open at the end last until the task's final
   time stamp); there is no node exactly when there is no such call (both sides are 0) *)
Theorem graph_sums_gen : forall sample rootname tids s q, wf_stream s = true -> NoDup tids ->
  calls_at q (graph_build sample rootname tids s) = count_path q (ref_entries [] s)
  /\ time_at q (graph_build sample rootname tids s) = time_path q (ref_calls tids s) mod W64.
Proof.
  intros sample rootname tids s q Hwf Hnd. unfold wf_stream in Hwf. apply andb_prop in Hwf. destruct Hwf as [Hwf Hmono].
  destruct (run_inv sample s (m_init rootname) [] [] (fun _ => 0) (fun _ => 0) (rel_init rootname) Hwf Hmono) as [R [C T]].
  { intros q'. apply stat_root0. reflexivity. }
  { intros q'. change (g_root (m_g (m_init rootname))) with (root0 rootname). unfold time_at. rewrite stat_root0; reflexivity. }
  unfold graph_build.
  destruct (close_tasks_inv sample tids _ _ _ _ Hnd (fun tid _ => R tid) T) as [D1 D2].
  split.
  - rewrite D2, C. reflexivity.
  - rewrite D1. unfold ref_calls. destruct (ref_calls_run [] s) as [cs st']. simpl fst. simpl snd.
    rewrite time_path_app. f_equal. f_equal. f_equal.
    apply flat_map_ext. intros tid. rewrite lasts_run_last_time. reflexivity.
Qed.

Theorem graph_sums : forall rootname tids s q, wf_stream s = true -> NoDup tids ->
  calls_at q (graph_build 0 rootname tids s) = count_path q (ref_entries [] s)
  /\ time_at q (graph_build 0 rootname tids s) = time_path q (ref_calls tids s) mod W64.
Proof. intros. apply graph_sums_gen; assumption. Qed.

(* ------------------------------------------------------------------------------------------ *)
(* the code as found closed the open calls of a task that was switched out for good at the time of the last
   scheduler event of ANY task (fix feda1db): task 100 runs main > f, is switched out at 1300 and never comes back,
   task 101 is switched out and in again at 2000 / 2100.  f ran from 1100 to (at most) 1300. *)
Definition wit_main : name := [109; 97; 105; 110].
Definition wit_f : name := [102].
Definition wit_last : stream :=
  [(100, Ent wit_main 1000); (101, Ent wit_main 1050); (100, Ent wit_f 1100); (100, Ent s_sched 1300);
   (101, Ent s_sched 2000); (101, Ext s_sched 2100); (101, Ext wit_main 2500)].
Theorem graph_last_time_legacy_refuted :
  wf_stream wit_last = true
  /\ time_path [wit_main; wit_f] (ref_calls [100; 101] wit_last) = 200
  /\ time_at [wit_main; wit_f] (graph_build 1 [112] [100; 101] wit_last) = 200
  /\ time_at [wit_main; wit_f] (graph_build_legacy 1 [112] [100; 101] wit_last) = 1000.
Proof. vm_compute. repeat split; reflexivity. Qed.

(* the code as found ended the linux:schedule call of a task that is switched out when the data ends under the name
   <30d42> (fix bc8d6cc): begin and end events of that thread are not named alike any more *)
Definition wit_stuck : stream := [(100, Ent wit_main 1000); (100, Ent s_sched 1300)].
Theorem chrome_close_sched_legacy_refuted :
  wf_stream wit_stuck = true
  /\ ok_chrome [(100, 100)] (chrome_stream wit_stuck) (chrome_events [(100, 100)] (chrome_stream wit_stuck)) = true
  /\ map c_name (chrome_events [(100, 100)] (chrome_stream wit_stuck)) = [wit_main; s_sched; s_sched; wit_main]
  /\ map c_name (chrome_events_legacy [(100, 100)] wit_stuck) = [wit_main; s_sched; [60; 51; 48; 100; 52; 50; 62]; wit_main]
  /\ ok_chrome [(100, 100)] (chrome_stream wit_stuck) (chrome_events_legacy [(100, 100)] wit_stuck) = false.
Proof. vm_compute. repeat split; reflexivity. Qed.
