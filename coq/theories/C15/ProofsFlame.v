(* C15 - dump --flame-graph with a sample time *)
From Coq Require Import NArith List Bool Lia.
Import ListNotations.
Require Import UV.C15.Model UV.C15.ProofsTree UV.C15.ProofsRun UV.C15.ProofsWalk UV.C15.ProofsOut UV.C15.ProofsSample.
Local Open Scope N_scope.

Section Sampled.
  Variables (sample : N) (rootname : name) (tids : list N) (s : stream).
  Hypothesis Hwf : wf_stream s = true.
  Hypothesis Hnd : NoDup tids.
  Hypothesis Hcov : forall r, In r s -> In (fst r) tids.
  Hypothesis Hs : sample <> 0.
  Let g := graph_build sample rootname tids s.
  Let T (p : path) := time_path p (ref_calls tids s).
  Let A (p : path) := sampled_child_time sample p (ref_calls tids s).

  (* the number printed for a node that is reached by the name path p *)
  Lemma flame_count_node : forall p m, p <> [] -> find_path p g = Some m ->
    n_calls m = count_path p (ref_entries [] s)
    /\ flame_count sample m = (if count_path p (ref_entries [] s) =? 0 then 0 else sub64 (T p) (A p) / sample).
  Proof.
    intros p m Hp Hm.
    destruct (graph_sums_gen sample rootname tids s p Hwf Hnd) as [C Tm]. fold g in C, Tm.
    pose proof (graph_ctime sample rootname tids s p Hwf Hnd Hcov Hp) as Cm. fold g in Cm.
    unfold calls_at, time_at, ctime_at, stat in C, Tm, Cm. rewrite Hm in C, Tm, Cm.
    split; [exact C|]. unfold flame_count. rewrite C.
    apply N.eqb_neq in Hs. rewrite Hs, orb_false_r.
    destruct (count_path p (ref_entries [] s) =? 0) eqn:Z; [apply N.eqb_eq in Z; exact Z|].
    f_equal. apply sub64_mod.
    - rewrite Tm. apply N.mod_mod. exact W64_pos.
    - rewrite Cm. unfold A. rewrite Asum_sampled; [reflexivity|]. apply N.eqb_neq. exact Hs.
  Qed.

  (* (p, c) is a printed line  iff  the trace has calls along p and c <> 0 is
     (total time of these calls - the whole samples shown for their callees) / sample time *)
  Theorem flame_sampled_lines : forall p c,
    In (p, c) (flame_rows sample g) <->
    (count_path p (ref_entries [] s) <> 0 /\ c = sub64 (T p) (A p) / sample /\ c <> 0).
  Proof.
    intros p c. unfold flame_rows. rewrite in_flat_map. split.
    - intros [e [He H]].
      apply (walk_root_spec g e (uniq_graph_build sample rootname tids s)) in He. destruct He as [Hne [Hn _]].
      destruct (flame_count_node (w_path e) (w_node e) Hne Hn) as [C F].
      destruct (flame_count sample (w_node e) =? 0) eqn:Z; [contradiction|]. destruct H as [H|[]].
      inversion H; subst. apply N.eqb_neq in Z. rewrite F in Z |- *.
      destruct (count_path (w_path e) (ref_entries [] s) =? 0) eqn:Zc; [contradiction Z; reflexivity|].
      apply N.eqb_neq in Zc. repeat split; assumption.
    - intros [Hc [Hv Hz]].
      assert (Hne : p <> []) by (apply (ref_entries_nonempty s [] p), count_path_in, Hc).
      destruct (graph_sums_gen sample rootname tids s p Hwf Hnd) as [C _]. fold g in C.
      assert (Hc' : calls_at p g <> 0) by (rewrite C; exact Hc).
      destruct (stat_some n_calls p g Hc') as [m [Hm _]].
      assert (Hpar : exists par, find_path (removelast p) g = Some par).
      { rewrite (app_removelast_last [] Hne) in Hm. apply (valid_prefix _ _ _ _ Hm). }
      destruct Hpar as [par Hpar].
      exists (p, par, m). split.
      + apply (walk_root_spec g _ (uniq_graph_build sample rootname tids s)). repeat split; assumption.
      + unfold w_node, w_path. simpl. destruct (flame_count_node p m Hne Hm) as [_ F]. rewrite F.
        apply N.eqb_neq in Hc. rewrite Hc, <- Hv. apply N.eqb_neq in Hz. rewrite Hz. left. reflexivity.
  Qed.

  Theorem flame_sampled_one_line_per_path : NoDup (map fst (flame_rows sample g)).
  Proof.
    unfold flame_rows.
    apply (nodup_filter_map _ _ _ w_path (fun e => flame_count sample (w_node e)) (fun e => flame_count sample (w_node e) =? 0)).
    apply walk_root_nodup, uniq_graph_build.
  Qed.
End Sampled.

Require Import UV.C15.ProofsBound.

(* ---- the sampled count without 64-bit caveat ---- *)
Lemma sub64_exact : forall a b, b <= a -> a < W64 -> sub64 a b = a - b.
Proof. intros. apply sub64_small; assumption. Qed.

Theorem flame_sampled_exact : forall sample rootname tids s,
  wf_stream s = true -> NoDup tids -> (forall r, In r s -> In (fst r) tids) -> sample <> 0 ->
  (forall p, time_path p (ref_calls tids s) < W64) ->
  forall p c, In (p, c) (flame_rows sample (graph_build sample rootname tids s)) <->
    (count_path p (ref_entries [] s) <> 0
     /\ c = (time_path p (ref_calls tids s) - sampled_child_time sample p (ref_calls tids s)) / sample
     /\ c <> 0).
Proof.
  intros sample rootname tids s Hwf ND Hcov Hs Hsmall p c.
  rewrite (flame_sampled_lines sample rootname tids s Hwf ND Hcov Hs p c).
  assert (E : count_path p (ref_entries [] s) <> 0 ->
              sub64 (time_path p (ref_calls tids s)) (sampled_child_time sample p (ref_calls tids s))
              = time_path p (ref_calls tids s) - sampled_child_time sample p (ref_calls tids s)).
  { intros Hc. apply sub64_exact; [|apply Hsmall].
    assert (Hne : p <> []) by (apply (ref_entries_nonempty s [] p), count_path_in, Hc).
    apply N.le_trans with (child_time_of p (ref_calls tids s)); [apply sampled_le_child|].
    apply child_le_time; assumption. }
  split; intros [Hc [Hv Hz]]; (split; [exact Hc|]); (split; [|exact Hz]); rewrite Hv; [apply f_equal2|symmetry; apply f_equal2]; auto.
Qed.

(* the total of the samples can EXCEED the run time: main runs 1.2 us and calls f twice for 0.6 us; at 1 us per
   sample the flame graph shows one sample for main (nothing was charged to the two short calls) and one for
   main;f (their durations are added up before the division) *)
Definition overcount_witness : stream :=
  [(100, Ent [109] 1000); (100, Ent [102] 1000); (100, Ext [102] 1600);
   (100, Ent [102] 1600); (100, Ext [102] 2200); (100, Ext [109] 2200)].
Theorem flame_total_bound_refuted :
  wf_stream overcount_witness = true
  /\ flame_rows 1000 (graph_build 1000 [] [100] overcount_witness) = [([[109]], 1); ([[109]; [102]], 1)]
  /\ time_path [[109]] (ref_calls [100] overcount_witness) = 1200.
Proof. vm_compute. repeat split; reflexivity. Qed.

(* ---- the automatic sample time ---- *)
Require Import UV.C15.GraphText.
Theorem auto_sample_spec : forall total,
  let s := auto_sample total in
  In s [1000; 10000; 100000; 1000000; 10000000; 100000000; 1000000000]
  /\ (total <= s * 1000000 \/ s = 1000000000)
  /\ (s = 1000 \/ (s / 10) * 1000000 < total).
Proof.
  intros total. cbv zeta. unfold auto_sample. cbn [auto_sample_loop].
  repeat match goal with
         | |- context [?a * 1000000 <? total] =>
             let E := fresh "E" in destruct (a * 1000000 <? total) eqn:E;
             [apply N.ltb_lt in E | apply N.ltb_ge in E]; cbn [andb negb N.eqb Pos.eqb]
         end;
  simpl; repeat split; auto 10; try (left; lia); try (right; lia); try lia.
Qed.
Example auto_sample_example : auto_sample 2500000000 = 10000 /\ auto_sample 12345 = 1000 /\ auto_sample (10 ^ 17) = 1000000000.
Proof. vm_compute. repeat split; reflexivity. Qed.

Lemma auto_sample_nonzero : forall total, auto_sample total <> 0.
Proof.
  intros total. destruct (auto_sample_spec total) as [H _]. cbv zeta in H.
  simpl in H. intros E. rewrite E in H. repeat (destruct H as [H|H]; [discriminate|]). exact H.
Qed.
(* what `dump --flame-graph` prints for recorded data when no --sample-time is given *)
Theorem flame_auto_lines : forall total rootname tids s,
  wf_stream s = true -> NoDup tids -> (forall r, In r s -> In (fst r) tids) ->
  (forall p, time_path p (ref_calls tids s) < W64) ->
  forall p c, In (p, c) (flame_rows (auto_sample total) (graph_build (auto_sample total) rootname tids s)) <->
    (count_path p (ref_entries [] s) <> 0
     /\ c = (time_path p (ref_calls tids s) - sampled_child_time (auto_sample total) p (ref_calls tids s)) / auto_sample total
     /\ c <> 0).
Proof. intros. apply flame_sampled_exact; try assumption. apply auto_sample_nonzero. Qed.
