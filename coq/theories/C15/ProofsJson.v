(* C15 - proofs about the escaping functions and the JSON string lexer *)
From Coq Require Import NArith List Bool Lia.
Import ListNotations.
Require Import UV.C15.Model.
Local Open Scope N_scope.

Lemma lex_run_app : forall a b st,
  lex_run st (a ++ b) = match lex_run st a with Some st' => lex_run st' b | None => None end.
Proof.
  induction a as [|c a IH]; intros b st; simpl; [reflexivity|].
  destruct (lex_step st c); [apply IH|reflexivity].
Qed.

(* ---- all 256 bytes, by computation ---- *)
Definition all_bytes : list N := map N.of_nat (seq 0 256).
Lemma all_bytes_complete : forall c, c < 256 -> In c all_bytes.
Proof.
  intros c H. unfold all_bytes. apply in_map_iff. exists (N.to_nat c). split.
  - apply N2Nat.id.
  - apply in_seq. lia.
Qed.

Definition esc_keeps_body (c : N) : bool :=
  match lex_run S_body (json_escape_byte c) with Some S_body => true | _ => false end.
Lemma esc_sweep : forallb esc_keeps_body all_bytes = true.
Proof. vm_compute. reflexivity. Qed.

Lemma esc_byte_body : forall c, c < 256 -> lex_run S_body (json_escape_byte c) = Some S_body.
Proof.
  intros c H. pose proof esc_sweep as S. rewrite forallb_forall in S.
  specialize (S c (all_bytes_complete c H)). unfold esc_keeps_body in S.
  destruct (lex_run S_body (json_escape_byte c)) as [[]|]; try discriminate; reflexivity.
Qed.

Lemma esc_char_body : forall c, lex_run S_body (json_escape_char c) = Some S_body.
Proof. intros c. unfold json_escape_char. apply esc_byte_body. apply N.mod_lt. discriminate. Qed.

Lemma escape_body : forall s, lex_run S_body (json_escape s) = Some S_body.
Proof.
  induction s as [|c s IH]; simpl; [reflexivity|].
  rewrite lex_run_app, esc_char_body. exact IH.
Qed.

(* every byte string, escaped by print_json_escaped_char and put between quotes, is one JSON string *)
Theorem json_names_valid : forall s, json_string_ok (quoted (json_escape s)) = true.
Proof.
  intros s. unfold quoted, json_string_ok.
  rewrite lex_run_app, escape_body. reflexivity.
Qed.

(* the escaped text is plain printable ASCII (no byte a terminal or a UTF-8 decoder could object to) *)
Definition esc_ascii (c : N) : bool := forallb (fun b => (32 <=? b) && (b <=? 126)) (json_escape_byte c).
Lemma esc_ascii_sweep : forallb esc_ascii all_bytes = true.
Proof. vm_compute. reflexivity. Qed.
Theorem json_escape_ascii : forall s b, In b (json_escape s) -> 32 <= b <= 126.
Proof.
  intros s b H. unfold json_escape in H. apply in_flat_map in H. destruct H as [c [_ H]].
  unfold json_escape_char in H.
  pose proof esc_ascii_sweep as S. rewrite forallb_forall in S.
  assert (L : c mod 256 < 256) by (apply N.mod_lt; discriminate).
  specialize (S _ (all_bytes_complete _ L)). unfold esc_ascii in S. rewrite forallb_forall in S.
  specialize (S b H). apply andb_prop in S. destruct S as [A B].
  apply N.leb_le in A. apply N.leb_le in B. lia.
Qed.

(* ---- json_quote: the command line ---- *)
(* bytes on which json_quote is enough: printable ASCII without the backslash *)
Definition plain_byte (c : N) : bool := (32 <=? c) && (c <=? 126) && negb (c =? 92).

Lemma quote_plain_body : forall s, forallb plain_byte s = true -> lex_run S_body (json_quote s) = Some S_body.
Proof.
  induction s as [|c s IH]; simpl; intros H; [reflexivity|].
  apply andb_prop in H. destruct H as [Hc Hs].
  rewrite lex_run_app.
  assert (E : lex_run S_body (if c =? 34 then [92; 34] else [c]) = Some S_body).
  { unfold plain_byte in Hc. apply andb_prop in Hc. destruct Hc as [Hc N92]. apply andb_prop in Hc.
    destruct Hc as [L H]. apply N.leb_le in L. apply N.leb_le in H. apply negb_true_iff in N92.
    destruct (c =? 34) eqn:Q; [reflexivity|].
    simpl. rewrite Q, N92.
    assert (c <? 32 = false) as -> by (apply N.ltb_ge; lia).
    assert (c <? 128 = true) as -> by (apply N.ltb_lt; lia). reflexivity. }
  rewrite E. apply IH. exact Hs.
Qed.

Theorem json_cmdline_plain_valid : forall s, forallb plain_byte s = true -> json_string_ok (quoted (json_quote s)) = true.
Proof.
  intros s H. unfold quoted, json_string_ok. rewrite lex_run_app, (quote_plain_body s H). reflexivity.
Qed.

(* the stored command line: NUL / NL separators become blanks first *)
Definition plain_or_sep (c : N) : bool := plain_byte c || (c =? 0) || (c =? 10).
Theorem json_cmdline_info_valid : forall raw, forallb plain_or_sep raw = true ->
  json_string_ok (quoted (cmdline_info raw)) = true.
Proof.
  intros raw H. unfold cmdline_info. apply json_cmdline_plain_valid.
  rewrite forallb_forall in *. intros c Hc. apply in_map_iff in Hc. destruct Hc as [x [E I]].
  specialize (H x I). unfold plain_or_sep in H. subst c.
  destruct (x =? 0) eqn:Z; [reflexivity|]. destruct (x =? 10) eqn:T; [reflexivity|].
  simpl. simpl in H. rewrite !orb_false_r in H. exact H.
Qed.

(* ... and it is NOT enough otherwise: a TAB, or a backslash in front of a quote *)
Theorem json_cmdline_refuted :
  json_string_ok (quoted (cmdline_info [112; 0; 97; 9; 98; 0])) = false            (* argv = p, a<TAB>b *)
  /\ json_string_ok (quoted (cmdline_info [112; 0; 97; 92; 34; 98; 0])) = false    (* argv = p, a backslash quote b *)
  /\ json_string_ok (quoted (cmdline_info [112; 0; 92; 0])) = false                 (* argv = p, \       *)
  /\ json_string_ok (quoted (cmdline_info [112; 0; 233; 0])) = false.              (* argv = p, latin-1 e-acute *)
Proof. vm_compute. repeat split; reflexivity. Qed.

(* what print_json_escaped_char would have made of the same command lines *)
Example json_cmdline_escape_would_do :
  json_string_ok (quoted (json_escape [112; 32; 97; 9; 98; 32])) = true.
Proof. apply json_names_valid. Qed.

(* the name a viewer shows: a JSON parser decoding json_escape s (only the two-byte escapes
   backslash-backslash and backslash-quote occur) returns [shown s] *)
Fixpoint unesc_end (pending : bool) (s : list N) : bool :=
  match s with
  | [] => pending
  | c :: r => if pending then unesc_end false r else unesc_end (c =? 92) r
  end.

Lemma unesc_app : forall a b p, unesc p (a ++ b) = unesc p a ++ unesc (unesc_end p a) b.
Proof.
  induction a as [|c a IH]; intros b p; simpl; [reflexivity|].
  destruct p; simpl.
  - rewrite IH. reflexivity.
  - destruct (c =? 92); simpl; rewrite IH; reflexivity.
Qed.

Definition unesc_ok (c : N) : bool :=
  negb (unesc_end false (json_escape_byte c)) && bytes_eqb (unesc false (json_escape_byte c)) (shown_byte c).
Lemma unesc_sweep : forallb unesc_ok all_bytes = true.
Proof. vm_compute. reflexivity. Qed.

Lemma bytes_eqb_eq : forall a b, bytes_eqb a b = true -> a = b.
Proof.
  induction a as [|x a IH]; destruct b as [|y b]; simpl; intros H; try discriminate; [reflexivity|].
  apply andb_prop in H. destruct H as [E H]. apply N.eqb_eq in E. subst. f_equal. apply IH, H.
Qed.

Theorem json_name_shown : forall s, unescape (json_escape s) = shown s.
Proof.
  unfold unescape. induction s as [|c s IH]; [reflexivity|].
  cbn [json_escape shown flat_map]. unfold json_escape_char.
  pose proof unesc_sweep as S. rewrite forallb_forall in S.
  assert (L : c mod 256 < 256) by (apply N.mod_lt; discriminate).
  specialize (S _ (all_bytes_complete _ L)). unfold unesc_ok in S.
  apply andb_prop in S. destruct S as [E B]. apply negb_true_iff in E. apply bytes_eqb_eq in B.
  rewrite unesc_app, E, B. f_equal. exact IH.
Qed.

(* ---- string arguments and return values in the chrome events ---- *)
Lemma unesc_end_app : forall a b p, unesc_end p (a ++ b) = unesc_end (unesc_end p a) b.
Proof.
  induction a as [|c a IH]; intros b p; simpl; [reflexivity|]. destruct p; apply IH.
Qed.
Lemma unesc_end_escape : forall s, unesc_end false (json_escape s) = false.
Proof.
  induction s as [|c s IH]; [reflexivity|].
  cbn [json_escape flat_map]. rewrite unesc_end_app. unfold json_escape_char.
  pose proof unesc_sweep as S. rewrite forallb_forall in S.
  assert (L : c mod 256 < 256) by (apply N.mod_lt; discriminate).
  specialize (S _ (all_bytes_complete _ L)). unfold unesc_ok in S.
  apply andb_prop in S. destruct S as [E _]. apply negb_true_iff in E. rewrite E. exact IH.
Qed.

Lemma ok_wrap : forall pre body post,
  lex_run S_body pre = Some S_body -> lex_run S_body body = Some S_body -> lex_run S_body post = Some S_body ->
  json_string_ok (quoted (pre ++ body ++ post)) = true.
Proof.
  intros pre body post H1 H2 H3. unfold quoted, json_string_ok.
  rewrite lex_run_app, lex_run_app, H1, lex_run_app, H2, H3. reflexivity.
Qed.
Definition arg_body (raw : list N) : list N :=
  if is_null_str raw then [78; 85; 76; 76] else [92; 34] ++ json_escape (cstr raw) ++ [92; 34].
Lemma arg_json_eq : forall entry raw,
  arg_json entry raw = (if entry then [40] else []) ++ arg_body raw ++ (if entry then [41] else []).
Proof. intros [|] raw; unfold arg_json, arg_body; simpl; [reflexivity|rewrite app_nil_r; reflexivity]. Qed.
Lemma arg_body_lex : forall raw, lex_run S_body (arg_body raw) = Some S_body.
Proof.
  intros raw. unfold arg_body. destruct (is_null_str raw); [reflexivity|]. cbv iota.
  rewrite lex_run_app. change (lex_run S_body [92; 34]) with (Some S_body). cbv iota beta.
  rewrite lex_run_app, escape_body. reflexivity.
Qed.
Theorem json_args_valid : forall entry raw, json_string_ok (quoted (arg_json entry raw)) = true.
Proof.
  intros entry raw. rewrite arg_json_eq. apply ok_wrap; [destruct entry; reflexivity|apply arg_body_lex|destruct entry; reflexivity].
Qed.

Definition arg_body_shown (raw : list N) : list N :=
  if is_null_str raw then [78; 85; 76; 76] else [34] ++ shown (cstr raw) ++ [34].
Lemma arg_body_unesc : forall raw, unesc false (arg_body raw) = arg_body_shown raw /\ unesc_end false (arg_body raw) = false.
Proof.
  intros raw. unfold arg_body, arg_body_shown. destruct (is_null_str raw); [split; reflexivity|]. cbv iota. split.
  - rewrite unesc_app. change (unesc false [92; 34]) with [34]. change (unesc_end false [92; 34]) with false.
    rewrite unesc_app, unesc_end_escape. change (unesc false [92; 34]) with [34].
    pose proof (json_name_shown (cstr raw)) as H. unfold unescape in H. rewrite H. reflexivity.
  - rewrite unesc_end_app. change (unesc_end false [92; 34]) with false.
    rewrite unesc_end_app, unesc_end_escape. reflexivity.
Qed.
Theorem json_args_shown : forall entry raw, unescape (arg_json entry raw) = arg_shown entry raw.
Proof.
  intros entry raw. unfold unescape. rewrite arg_json_eq. destruct (arg_body_unesc raw) as [B1 B2].
  destruct entry.
  - rewrite unesc_app. change (unesc false [40]) with [40]. change (unesc_end false [40]) with false.
    rewrite unesc_app, B1, B2. reflexivity.
  - simpl app. rewrite app_nil_r. exact B1.
Qed.

(* ---- the argument text with truncation (a piece that does not fit is dropped whole) ---- *)
Definition unit_ok (piece : list N) : Prop := lex_run S_body piece = Some S_body.
Lemma put_ok : forall st piece, unit_ok (fst st) -> unit_ok piece -> unit_ok (fst (put st piece)).
Proof.
  intros [out room] piece Ho Hp. unfold put. destruct (room <=? 1); [exact Ho|].
  destruct (room <=? N.of_nat (length piece)); [exact Ho|]. unfold unit_ok in *. simpl fst in *.
  rewrite lex_run_app, Ho. exact Hp.
Qed.
Lemma put_all_ok : forall pieces st, unit_ok (fst st) -> Forall unit_ok pieces -> unit_ok (fst (put_all st pieces)).
Proof.
  induction pieces as [|p r IH]; intros st Ho Hp; [exact Ho|]. inversion Hp; subst. simpl. apply IH; [apply put_ok; assumption|assumption].
Qed.
(* digits *)
Definition plainc (c : N) : bool := (32 <=? c) && (c <=? 126) && negb (c =? 34) && negb (c =? 92).
Lemma plainc_body : forall l, forallb plainc l = true -> lex_run S_body l = Some S_body.
Proof.
  induction l as [|c l IH]; intros H; [reflexivity|]. simpl in H. apply andb_prop in H. destruct H as [Hc Hl].
  unfold plainc in Hc. apply andb_prop in Hc. destruct Hc as [Hc N92]. apply andb_prop in Hc. destruct Hc as [Hc N34].
  apply andb_prop in Hc. destruct Hc as [L U]. apply N.leb_le in L. apply N.leb_le in U.
  apply negb_true_iff in N34, N92.
  change (lex_run S_body (c :: l)) with (match lex_step S_body c with Some st' => lex_run st' l | None => None end).
  assert (E : lex_step S_body c = Some S_body).
  { unfold lex_step. rewrite N34, N92.
    assert (c <? 32 = false) as -> by (apply N.ltb_ge; lia). assert (c <? 128 = true) as -> by (apply N.ltb_lt; lia). reflexivity. }
  rewrite E. apply IH, Hl.
Qed.
Lemma dec_aux_plain : forall fuel n acc, forallb plainc acc = true -> forallb plainc (dec_aux fuel n acc) = true.
Proof.
  induction fuel as [|f IH]; intros n acc H; [exact H|]. cbn [dec_aux].
  assert (P : plainc (48 + n mod 10) = true).
  { assert (Hm : n mod 10 < 10) by (apply N.mod_lt; discriminate). remember (n mod 10) as m eqn:Em. clear Em. unfold plainc.
    assert ((32 <=? 48 + m) = true) as -> by (apply N.leb_le; lia).
    assert ((48 + m <=? 126) = true) as -> by (apply N.leb_le; lia).
    assert ((48 + m =? 34) = false) as -> by (apply N.eqb_neq; lia).
    assert ((48 + m =? 92) = false) as -> by (apply N.eqb_neq; lia). reflexivity. }
  destruct (n / 10 =? 0); [cbn [forallb]; rewrite P; exact H|]. apply IH. cbn [forallb]. rewrite P. exact H.
Qed.
Lemma hex_digit_plain : forall d, d < 16 -> plainc (hex_digit d) = true.
Proof.
  intros d H. unfold hex_digit, plainc. destruct (d <? 10) eqn:E.
  - apply N.ltb_lt in E.
    assert ((32 <=? 48 + d) = true) as -> by (apply N.leb_le; lia). assert ((48 + d <=? 126) = true) as -> by (apply N.leb_le; lia).
    assert ((48 + d =? 34) = false) as -> by (apply N.eqb_neq; lia). assert ((48 + d =? 92) = false) as -> by (apply N.eqb_neq; lia). reflexivity.
  - apply N.ltb_ge in E.
    assert ((32 <=? 87 + d) = true) as -> by (apply N.leb_le; lia). assert ((87 + d <=? 126) = true) as -> by (apply N.leb_le; lia).
    assert ((87 + d =? 34) = false) as -> by (apply N.eqb_neq; lia). assert ((87 + d =? 92) = false) as -> by (apply N.eqb_neq; lia). reflexivity.
Qed.
Lemma hex_aux_plain : forall fuel n acc, forallb plainc acc = true -> forallb plainc (hex_aux fuel n acc) = true.
Proof.
  induction fuel as [|f IH]; intros n acc H; [exact H|]. cbn [hex_aux].
  assert (P : plainc (hex_digit (n mod 16)) = true) by (apply hex_digit_plain, N.mod_lt; discriminate).
  destruct (n / 16 =? 0); [cbn [forallb]; rewrite P; exact H|]. apply IH. cbn [forallb]. rewrite P. exact H.
Qed.

Lemma oct_aux_plain : forall fuel n acc, forallb plainc acc = true -> forallb plainc (oct_aux fuel n acc) = true.
Proof.
  induction fuel as [|f IH]; intros n acc H; [exact H|]. cbn [oct_aux].
  assert (P : plainc (48 + n mod 8) = true).
  { assert (Hm : n mod 8 < 8) by (apply N.mod_lt; discriminate). remember (n mod 8) as m eqn:Em. clear Em. unfold plainc.
    assert ((32 <=? 48 + m) = true) as -> by (apply N.leb_le; lia).
    assert ((48 + m <=? 126) = true) as -> by (apply N.leb_le; lia).
    assert ((48 + m =? 34) = false) as -> by (apply N.eqb_neq; lia).
    assert ((48 + m =? 92) = false) as -> by (apply N.eqb_neq; lia). reflexivity. }
  destruct (n / 8 =? 0); [cbn [forallb]; rewrite P; exact H|]. apply IH. cbn [forallb]. rewrite P. exact H.
Qed.
Lemma digit_plain : forall n, plainc (48 + n mod 10) = true.
Proof.
  intros n. assert (Hm : n mod 10 < 10) by (apply N.mod_lt; discriminate). remember (n mod 10) as m eqn:Em. clear Em. unfold plainc.
  assert ((32 <=? 48 + m) = true) as -> by (apply N.leb_le; lia).
  assert ((48 + m <=? 126) = true) as -> by (apply N.leb_le; lia).
  assert ((48 + m =? 34) = false) as -> by (apply N.eqb_neq; lia).
  assert ((48 + m =? 92) = false) as -> by (apply N.eqb_neq; lia). reflexivity.
Qed.
Lemma dec_plain : forall n, forallb plainc (dec n) = true.
Proof. intros n. apply dec_aux_plain. reflexivity. Qed.
Lemma hex_plain : forall n, forallb plainc (hex n) = true.
Proof. intros n. apply hex_aux_plain. reflexivity. Qed.
Lemma sdec_plain : forall v, forallb plainc (sdec v) = true.
Proof. intros v. unfold sdec. destruct (v <? _); [apply dec_plain|]. cbn [forallb]. rewrite dec_plain. reflexivity. Qed.
Lemma d6_plain : forall n, forallb plainc (d6 n) = true.
Proof. intros n. unfold d6. cbn [forallb]. rewrite !digit_plain. reflexivity. Qed.
Lemma plain_unit : forall l, forallb plainc l = true -> unit_ok l.
Proof. intros l H. unfold unit_ok. apply plainc_body, H. Qed.
Lemma esc_pieces_ok : forall l, Forall unit_ok (map json_escape_char l).
Proof. intros l. apply Forall_forall. intros x Hx. apply in_map_iff in Hx. destruct Hx as [c [<- _]]. apply esc_char_body. Qed.

Lemma arg_pieces_ok : forall a, Forall unit_ok (arg_pieces a).
Proof.
  intros [raw|c|[nm|] v|v|tn size|neg k|v|v|v|v]; cbn [arg_pieces].
  - destruct (is_null_str raw); [repeat constructor|]. constructor; [reflexivity|].
    apply Forall_app. split; [apply esc_pieces_ok|repeat constructor].
  - constructor; [reflexivity|]. constructor; [apply esc_char_body|]. repeat constructor.
  - constructor; [reflexivity|apply esc_pieces_ok].
  - destruct (v =? 0); repeat constructor. apply plain_unit. cbn [app forallb]. rewrite hex_plain. reflexivity.
  - destruct (100000 <? v); repeat constructor; apply plain_unit; [cbn [app forallb]; rewrite hex_plain; reflexivity|apply dec_plain].
  - apply Forall_app. split.
    + destruct tn as [nm|]; [|constructor]. destruct (name_eqb (cstr nm) lambda_name); [constructor|apply esc_pieces_ok].
    + repeat constructor. unfold struct_tail. destruct (size =? 0); reflexivity.
  - repeat constructor. apply plain_unit. rewrite !forallb_app. cbn [forallb]. rewrite dec_plain, d6_plain.
    destruct neg; reflexivity.
  - destruct ((v <=? 100000) || (W64 - 100000 <=? v)); [repeat constructor; apply plain_unit, sdec_plain|].
    destruct ((4294901760 <? v) && (v <=? 4294967295)); repeat constructor; apply plain_unit.
    + cbn [forallb]. rewrite dec_plain. reflexivity.
    + cbn [app forallb]. rewrite hex_plain. reflexivity.
  - repeat constructor. apply plain_unit, sdec_plain.
  - destruct (v =? 0); repeat constructor. apply plain_unit. cbn [app forallb]. rewrite hex_plain. reflexivity.
  - destruct (v =? 0); repeat constructor. apply plain_unit. cbn [forallb]. unfold oct. rewrite oct_aux_plain; reflexivity.
Qed.
Lemma args_loop_ok : forall args first st, unit_ok (fst st) -> unit_ok (fst (args_loop first args st)).
Proof.
  induction args as [|a r IH]; intros first st Ho; [exact Ho|]. simpl.
  assert (H1 : unit_ok (fst (if first then st else put st [44; 32]))) by (destruct first; [exact Ho|apply put_ok; [exact Ho|reflexivity]]).
  pose proof (put_all_ok (arg_pieces a) _ H1 (arg_pieces_ok a)) as H2.
  destruct (snd (put_all (if first then st else put st [44; 32]) (arg_pieces a)) <=? 2); [exact H2|apply IH, H2].
Qed.
Lemma args_text_lex : forall entry args, lex_run S_body (args_text entry args) = Some S_body.
Proof.
  intros entry args. unfold args_text. destruct entry.
  - apply put_ok; [|reflexivity]. apply args_loop_ok. apply put_ok; reflexivity.
  - destruct args as [|a r]; [reflexivity|]. apply put_all_ok; [reflexivity|apply arg_pieces_ok].
Qed.
(* whatever the arguments are and wherever the buffer ends, the text is the inside of one JSON string:
   in particular it never ends in half an escape sequence *)
Theorem json_args_text_valid : forall entry args, json_string_ok (quoted (args_text entry args)) = true.
Proof.
  intros entry args. unfold quoted, json_string_ok. rewrite lex_run_app, args_text_lex. reflexivity.
Qed.
(* it never outgrows the buffer *)
Lemma put_room : forall st piece, N.of_nat (length (fst st)) + snd st <= SPEC_BUF -> 1 <= snd st ->
  N.of_nat (length (fst (put st piece))) + snd (put st piece) <= SPEC_BUF /\ 1 <= snd (put st piece).
Proof.
  intros [out room] piece H H1. unfold put. simpl in *.
  destruct (room <=? 1) eqn:E1; [simpl; split; assumption|].
  destruct (room <=? N.of_nat (length piece)) eqn:E2; simpl.
  - apply N.leb_gt in E1. split; lia.
  - apply N.leb_gt in E1. apply N.leb_gt in E2. rewrite app_length, Nat2N.inj_add. split; lia.
Qed.

(* the code as found (before 767f11d) put the symbol name of a pointer argument raw into the JSON string *)
Theorem json_ptr_legacy_refuted :
  json_string_ok (quoted ([40] ++ ptr_text_legacy [102; 34; 103] ++ [41])) = false
  /\ json_string_ok (quoted (args_text true [APtr (Some [102; 34; 103]) 4198912])) = true.
Proof. vm_compute. split; reflexivity. Qed.

(* the code as found (before the struct-name fix) put the type name of a struct argument raw into the JSON string *)
Theorem json_struct_legacy_refuted :
  json_string_ok (quoted ([40] ++ struct_text_legacy [110; 34; 109] 8 ++ [41])) = false
  /\ json_string_ok (quoted (args_text true [AStruct (Some [110; 34; 109]) 8])) = true.
Proof. vm_compute. split; reflexivity. Qed.
(* the formats of the integer and floating-point arguments at their boundaries *)
Example arg_formats :
  args_text true [AAuto 100000; AAuto 100001; AAuto (W64 - 5); AAuto (W64 - 100001); AAuto 4294901761; AAuto 4294901760;
                  ASint (W64 - 100001); AHex 0; AHex 255; AOct 0; AOct 8; AFlt true 129; AFlt false 1; AStruct None 0;
                  AStruct (Some lambda_name) 4]
  = (* (100000, 0x186a1, -5, 0xfffffffffffe795f, -65535, 0xffff0000, -100001, 0, 0xff, 0, 010, -2.015625, 0.015625, {}, {...}) *)
    [40] ++ [49;48;48;48;48;48] ++ [44;32] ++ [48;120;49;56;54;97;49] ++ [44;32] ++ [45;53] ++ [44;32]
    ++ [48;120;102;102;102;102;102;102;102;102;102;102;102;101;55;57;53;102] ++ [44;32] ++ [45;54;53;53;51;53] ++ [44;32]
    ++ [48;120;102;102;102;102;48;48;48;48] ++ [44;32] ++ [45;49;48;48;48;48;49] ++ [44;32] ++ [48] ++ [44;32] ++ [48;120;102;102]
    ++ [44;32] ++ [48] ++ [44;32] ++ [48;49;48] ++ [44;32] ++ [45;50;46;48;49;53;54;50;53] ++ [44;32] ++ [48;46;48;49;53;54;50;53]
    ++ [44;32] ++ [123;125] ++ [44;32] ++ [123;46;46;46;125] ++ [41].
Proof. vm_compute. reflexivity. Qed.
