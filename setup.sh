#!/bin/sh
# Build the framework from files on disk only (offline): regenerate Gen/*.v from /repo,
# full .vo build of the Coq development, hygiene grep.
set -e
cd "$(dirname "$0")"
for g in gen/gen_*.py; do python3 "$g"; done
python3 - <<'PY'
import sys
sys.path.insert(0, '.')
from vf import coq
rc, log = coq.make([], timeout=3000, keep_going=False)
print(log[-2000:])
bad = coq.hygiene()
if bad:
    print("forbidden constructs:", bad)
    sys.exit(1)
sys.exit(rc)
PY
