"""C09 - Captured arguments and return values are the values actually passed.

Theorems: coq/theories/Properties_C09.v over coq/theories/C09/Model.v (save_to_argbuf & the
x86_64 fetch, the payload framing of record_ret_stack, read_task_args, get_argspec_string).

Tie, on every run and against the object code of /repo's current tree:
  writer  the real libmcount (mcount_entry/mcount_exit -> save_argument/save_retval ->
          record_ret_stack) is driven in-process (harness/c/mc_harness.c) with synthetic register
          frames, stack words, strings, NULL and unmapped pointers; the bytes of the per-frame
          argument buffer (2 KiB window, pre-filled, so stores past the 1 KiB frame are seen) and
          the raw record stream are captured;
  reader  the very byte stream the writer produced becomes <tid>.dat of a synthetic data directory
          whose info file carries the argspec; the real `uftrace replay` (read_task_args +
          get_argspec_string) prints it, the real `uftrace dump` prints the raw values;
  parser  the spec strings go through the real parse_argspec (harness/c/c09_harness.c);
  trigger  "T" groups of a case are trigger actions (UFTRACE_TRIGGER; libmcount applies -T, -A, -R in this order);
          the argspec / retspec lines of the synthetic info file are then produced by the real
          extract_trigger_args (c09_harness, "X" lines), as `uftrace record` does;
  abandoned  calls marked "abandoned" are closed without a return value: the same harness with
          UFTRACE_ESTIMATE_RETURN (libmcount closes the open call at the next entry through
          mcount_exit_filter_record(.., NULL), the path of exception unwinding and pthread_exit);
          the EXIT record must not carry a payload, no reader may show a return value;
  Coq     computes the model's buffer image, stream and replay text for the same inputs and compares
          (mismatch), and applies the executable property checker ok_call to the implementation's
          text (violations).
"""
import itertools
import json
import os
import re
import shutil
import struct
import subprocess

from vf import build, coq, datadir, mch
from vf.core import VERIF

HERE = os.path.dirname(os.path.abspath(__file__))
FMTS = ["FAuto", "FSint", "FUint", "FHex", "FOct", "FStr", "FChar", "FFloat", "FStdStr", "FPtr", "FEnum", "FStruct"]
TYPES = ["TIndex", "TFloat", "TReg", "TStack"]
FL_ARGUMENT, FL_RETVAL = 2048, 512
ARG_STR_MAX = 98
MAX_SIZE = 1020
FILL = 0xA5
WINDOW = 2048
SENTINEL_RET = 0xdead0001          # what the driver's nested sentinel call leaves in frames[1][0]
T_BASE = 0x00C0FFEE00000000        # distinctive record times: record starts can be found in the raw stream
REGNAMES = ["rdi", "rsi", "rdx", "rcx", "r8", "r9"]
M64 = (1 << 64) - 1


# ================================================================== case description
# A case is a JSON-able dict:
#   specs   [spec string, ...]             argument specs in list order (as given to -A)
#   rspecs  [spec string, ...]             return value specs (-R)
#   regs    [6 tokens]  stack [tokens]  ret [rax, rdx] tokens: int | "@S<i>" | "@BAD" | "@F<k>"
#   strings {i: hex}    objs {i: [tokens]}
#   actual  [aval per spec]   ractual [aval per rspec]
#       aval = ["int", token] | ["str", i] | ["null"] | ["bad"] | ["sym", k] | ["flt", bits] | ["struct"]
#   tags    [boundary names]
#   abandoned  true: the call is closed without a return value (see the module text)
def ALIGN(x, a):
    return (x + a - 1) // a * a


def spec_loc(sp):
    """where a spec string of the generator fetches its word (the caller's view: SysV x86_64)"""
    m = re.search(r"%stack\+(\d+)", sp)
    if m:
        return ("stack", int(m.group(1)))
    m = re.search(r"%([a-z0-9]+)$", sp)
    if m and m.group(1) in REGNAMES:
        return ("reg", REGNAMES.index(m.group(1)))
    if sp.startswith("retval"):
        return ("ret", 0)
    m = re.match(r"arg(\d+)", sp)
    if m:
        n = int(m.group(1))
        return ("reg", n - 1) if n <= 6 else ("stack", n - 6)
    return None


def word_token(c, loc):
    if loc[0] == "reg":
        return c["regs"][loc[1]]
    if loc[0] == "ret":
        return c["ret"][loc[1]]
    return c["stack"][loc[1] - 1] if loc[1] - 1 < len(c["stack"]) else (SENTINEL_RET if loc[1] == 24 else 0)


def finish_slots(c):
    """what the caller put into each word a spec names: c["slots"]["reg:0"] = ["str", i] | ["int", w] | ["null"] |
    ["bad"] | ["sym", k] | ["obj", inner] | ["struct"]"""
    slots = {}
    for sp, a in list(zip(c["specs"], c["actual"])) + list(zip(c["rspecs"], c["ractual"])):
        loc = spec_loc(sp)
        if loc is None or "/t" in sp:
            continue
        if re.search(r"/S", sp) and word_token(c, loc) not in ("@BAD", "@BRK", "@EDGE"):
            a = ["obj", a]
        slots["%s:%d" % loc] = a[:2] if a[0] == "int" else a
    c["slots"] = slots
    c.setdefault("xmm0", 0)
    return c


def str_bytes(c, a):
    """the bytes of the C string a string-valued actual denotes: ["str", i] | ["at", "@S<i>+<off>" | "@EDGE-<k>"]"""
    if a[0] == "str":
        return bytes.fromhex(c["strings"].get(a[1], c["strings"].get(str(a[1]))))
    t = a[1]
    if t.startswith("@EDGE"):
        return b"E" * (int(t[6:]) - 1)
    i, off = t[2:].split("+")
    return bytes.fromhex(c["strings"].get(int(i), c["strings"].get(i)))[int(off):]


def groups_of(c):
    """the -A / -R / -T options of a case in the order they are given: [{"opt": "A"|"R"|"T", "regex": bool, "specs": [...]}]
    (a "T" group is one trigger action: it may carry argument and return value specs, in any order)"""
    if "groups" in c:
        return c["groups"]
    g = []
    if c["specs"]:
        g.append({"opt": "A", "regex": False, "specs": c["specs"]})
    if c["rspecs"]:
        g.append({"opt": "R", "regex": False, "specs": c["rspecs"]})
    c["groups"] = g
    return g


def loc_of_mspec(m):
    """where the merged spec m (fields of struct uftrace_arg_spec) must fetch from, by the ABI"""
    f = FMTS[m["fmt"]]
    if m["idx"] == 0:
        return ("xmm", 0) if f == "FFloat" else ("ret", 0)
    t = TYPES[m["type"]]
    if t == "TIndex":
        n = m["idx"]
        return ("reg", n - 1) if 1 <= n <= 6 else ("stack", n - 6) if 7 <= n <= 100 else None
    if t == "TReg":
        return ("reg", m["u"] - 1) if 1 <= m["u"] <= 6 else None
    if t == "TStack":
        return ("stack", m["u"]) if 1 <= m["u"] <= 100 else None
    return None


def derive_actual(c, m):
    """the value a merged spec must show: what the caller put where the ABI says the spec looks"""
    f = FMTS[m["fmt"]]
    if f == "FStruct":
        return ["struct"]
    if f == "FFloat":
        if m["idx"] != 0 and TYPES[m["type"]] == "TStack":
            k = m["u"]
            lo, hi = resolve(c, word_token(c, ("stack", k))), resolve(c, word_token(c, ("stack", k + 1)))
            return ["flt", (lo | (hi << 64)) & ((1 << (8 * m["size"])) - 1)]
        return ["flt", c.get("xmm0", 0)]
    loc = loc_of_mspec(m)
    if loc is None:
        raise RuntimeError("generated spec names no modelled location: %r" % (m,))
    content = c["slots"].get("%s:%d" % loc)
    if f in ("FStr", "FStdStr"):
        if content is None:
            raise RuntimeError("string spec on a word the generator did not fill with a pointer: %r" % (m,))
        if content[0] == "obj":
            if f != "FStdStr":
                raise RuntimeError("plain string spec on a std::string object")
            return content[1]
        return content
    if f == "FPtr" and content is not None and content[0] == "sym":
        return content
    return ["int", word_token(c, loc), list(loc)]


class Gen:
    """random calls aimed at the boundaries of DESIGN.md appendix B"""

    def __init__(self, rng):
        self.rng = rng

    # ---- values
    def word(self):
        r = self.rng
        return r.choice([r.getrandbits(64), r.getrandbits(32), r.getrandbits(16), r.getrandbits(8), 0, M64])

    def boundary_int(self, bits):
        r = self.rng
        b = r.choice([0, 1, -1, 2, (1 << (bits - 1)) - 1, -(1 << (bits - 1)), (1 << bits) - 1, 100000, 100001, -100000,
                      -100001, 99999, 0xffff0000, 0xffff0001, 0xffffffff, 0x100000000, 0x7fffffff, 0x80000000, 7, 8, 9,
                      64, 255, 256, r.getrandbits(bits), r.getrandbits(bits)])
        low = b & ((1 << bits) - 1)
        high = r.choice([0, 0, r.getrandbits(64)]) if bits < 64 else 0
        return ((high << bits) | low) & M64, low

    def string(self, n=None, kind=None):
        r = self.rng
        if n is None:
            n = r.choice([0, 1, 2, 3, 4, 5, 6, 7, 8, 13, 30, 60, 94, 95, 96, 97, 98, 98, 99, 100, 101, 102, 150, 255, 300])
        kind = kind or r.choice(["ascii", "ascii", "ascii", "special", "high", "utf8", "any"])
        if kind == "ascii":
            s = bytes(r.choice(b"abcdefghijklmnopqrstuvwxyzABCDEFGHIJKLMNOPQRSTUVWXYZ0123456789 _-+/.:") for _ in range(n))
        elif kind == "special":
            s = bytes(r.choice(b"ab \\\"'\n\b\t,;(){}%<>=\x7f\x01\x1b") for _ in range(n))
        elif kind == "high":
            s = bytes(r.choice([r.randrange(0x80, 0x100), r.randrange(0x20, 0x7f), 10, 8]) for _ in range(n))
        elif kind == "utf8":
            t = "".join(r.choice("aé漢ü€z\n ") for _ in range(n)).encode()
            while len(t) > n:          # cut to n bytes (possibly in the middle of a sequence: still a byte string)
                t = t[:n]
            s = t + b"x" * (n - len(t))
        else:
            s = bytes(r.randrange(1, 256) for _ in range(n))
        assert len(s) == n and 0 not in s
        return s

    # ---- one call
    def blank(self, profile):
        r = self.rng
        c = {"specs": [], "rspecs": [], "regs": [self.word() for _ in range(6)],
             "stack": [self.word() for _ in range(r.choice([0, 2, 6, 12, 23]))], "ret": [self.word(), self.word()],
             "strings": {}, "objs": {}, "actual": [], "ractual": [], "tags": ["profile=" + profile]}
        self._c, self._used, self._locs = c, set(), set()
        return c

    def call(self, profile=None):
        r = self.rng
        profile = profile or r.choice(["mix", "mix", "mix", "ints", "strings", "strlen", "total", "total", "struct",
                                       "addr", "ptr", "ret", "stdstr", "many", "multi", "multi", "multi", "long"])
        c = self.blank(profile)
        if profile == "ints":
            for _ in range(r.randrange(1, 9)):
                self.add_int()
        elif profile == "strings":
            for _ in range(r.randrange(1, 7)):
                self.add_str()
        elif profile == "strlen":
            # one string of a boundary length behind 0..3 ints/strings (every residue of the write pointer mod 8)
            for _ in range(r.randrange(0, 3)):
                r.choice([self.add_int, self.add_char, self.add_str])()
            n = r.choice([0, 1, 2, 3, 94, 95, 96, 97, 98, 99, 100, 101, 102, 200])
            self.add_str(n=n)
            c["tags"].append("strlen=%d" % n)
            for _ in range(r.randrange(0, 3)):
                r.choice([self.add_int, self.add_str])()
        elif profile == "total":
            self.total_boundary()
        elif profile == "struct":
            for _ in range(r.randrange(1, 5)):
                r.choice([self.add_struct, self.add_struct, self.add_int, self.add_str])()
        elif profile == "addr":
            for _ in range(r.randrange(1, 6)):
                self.add_int(addressing=r.choice(["reg", "stack", "index"]))
        elif profile == "ptr":
            for _ in range(r.randrange(1, 5)):
                r.choice([self.add_ptr, self.add_ptr, self.add_int])()
        elif profile == "ret":
            for _ in range(r.randrange(0, 3)):
                r.choice([self.add_int, self.add_str])()
        elif profile == "stdstr":
            for _ in range(r.randrange(1, 4)):
                r.choice([self.add_stdstr, self.add_stdstr, self.add_int, self.add_str])()
        elif profile == "long":
            # a display around the 1024 characters of replay's buffer: strings of 40..98 characters, some with escapes
            for _ in range(r.randrange(9, 14)):
                if r.random() < 0.75:
                    self.add_str(n=r.choice([40, 60, 80, 90, 97, 98, 120]))
                else:
                    self.add_int()
        elif profile == "many":
            for _ in range(r.randrange(8, 20)):
                r.choice([self.add_int, self.add_int, self.add_char, self.add_str])()
        else:
            for _ in range(r.randrange(1, 9)):
                r.choice([self.add_int, self.add_int, self.add_int, self.add_str, self.add_str, self.add_str, self.add_char,
                          self.add_char, self.add_ptr, self.add_ptr, self.add_struct, self.add_struct, self.add_ldbl])()
        if profile == "ret" or profile == "multi" or r.random() < 0.5:
            self.add_ret()
        if not c["specs"] and not c["rspecs"]:
            self.add_int()
        # keep the display inside replay's 1 KiB text buffers (their overflow is a separate witness)
        # mostly inside replay's 1 KiB text buffer; one call in ten may exceed it (the text then stops early)
        cap = 2600 if (profile == "long" or r.random() < 0.05) else 880
        while self.display_len(c) > cap and c["specs"]:
            self.drop_last()
        if self.display_len(c) > 900:
            c["tags"].append("display>900")
        x = r.choice([0, 0x3ff8000000000000, 0x400921fb54442d18, 0x8000000000000000, 1, r.getrandbits(64), r.getrandbits(64)])
        if (x >> 52) & 0x7ff == 0x7ff:
            x &= ~(1 << 62)              # no NaN / infinity: the logging scripts print numbers, not bits
        if (x >> 23) & 0xff == 0xff:
            x &= ~(1 << 30)              # ... nor in the low half, which is what retval/f32 takes
        c["xmm0"] = x
        finish_slots(c)
        if profile == "multi" or r.random() < 0.15:
            self.multi()
        if r.random() < (0.45 if profile == "multi" else 0.25):
            self.trigger_split()
        return c

    def trigger_split(self):
        """some of the specs reach the function through -T (trigger actions) instead of -A / -R: a whole option, its
        first or last specs, or single specs; an action may carry argument and return value specs side by side.
        libmcount applies -T first, then -A, then -R (so the merged list, which SPECS reads back, changes its order);
        the readers get the specs through extract_trigger_args and the argspec / retspec lines of the info file"""
        r = self.rng
        c = self._c
        out = []
        for g in [dict(g_) for g_ in groups_of(c)]:
            sp = list(g["specs"])
            how = r.choice(["keep", "all", "head", "tail", "some"])
            if how == "keep" or not sp:
                out.append(g)
                continue
            if how == "all" or len(sp) == 1:
                t, rest = sp, []
            elif how == "head":
                k = r.randrange(1, len(sp))
                t, rest = sp[:k], sp[k:]
            elif how == "tail":
                k = r.randrange(1, len(sp))
                t, rest = sp[k:], sp[:k]
            else:
                pick = [r.random() < 0.5 for _ in sp]
                t, rest = [x for x, b in zip(sp, pick) if b], [x for x, b in zip(sp, pick) if not b]
            if t:
                out.append({"opt": "T", "regex": g.get("regex", False), "specs": t})
                c["tags"].append("trigger=%s-of-%s" % (how if rest else "all", g["opt"]))
            if rest:
                out.append(dict(g, specs=rest))
        # two actions of the same kind of pattern become one action with argument and return value specs mixed
        ts = [g for g in out if g["opt"] == "T"]
        if len(ts) >= 2 and r.random() < 0.5:
            a, b = r.sample(ts, 2)
            if bool(a.get("regex")) == bool(b.get("regex")):
                merged = a["specs"] + b["specs"]
                if r.random() < 0.5:
                    r.shuffle(merged)
                a["specs"] = merged
                out = [g for g in out if g is not b]
                c["tags"].append("trigger=mixed-action")
        if not any(g["opt"] == "T" for g in out):
            return
        r.shuffle(out) if r.random() < 0.3 else None
        c["groups"] = out
        c["tags"].append("trigger")
        # informational: the specs per direction in the order libmcount applies the options
        flat = [x for o in "TAR" for g in out if g["opt"] == o for x in g["specs"]]
        c["specs"] = [x for x in flat if not x.startswith("retval")]
        c["rspecs"] = [x for x in flat if x.startswith("retval")]

    def multi(self):
        """several specs on one function: more than one -A / -R option (exact name and regex) matching it, specs that
        name the same argument again (merged by add_arg_spec: the later one wins), the same word named through
        another class (argN and %reg / %stack: both stay), several return value specs of different class (all are
        recorded, the first is shown)"""
        r = self.rng
        c = self._c
        ga = [{"opt": "A", "regex": False, "specs": list(c["specs"])}] if c["specs"] else []
        gr = [{"opt": "R", "regex": False, "specs": list(c["rspecs"])}] if c["rspecs"] else []
        extra = []
        def int_fmt(tok, allow_d64=True):
            f = r.choice("diuxocp")
            bits = r.choice(["", "", "8", "16", "32", "64"]) if f != "p" else ""
            v = tok if isinstance(tok, int) else 1 << 40
            if f == "d" and bits in ("", "64") and 0xffff0000 < v <= 0xffffffff:
                f = "x"                       # listed defect auto-neg32: witness only
            return f + bits
        # the same argument named again / through another class
        for sp in list(c["specs"]):
            if r.random() > 0.6 or "/t" in sp:
                continue
            loc = spec_loc(sp)
            content = c["slots"].get("%s:%d" % loc) if loc else None
            if content is None:
                continue
            tok = word_token(c, loc)
            fam = content[0]
            how = r.choice(["again", "again", "class"])
            name = sp.split("/")[0].split("%")[0]
            sfx = ("%" + sp.split("%", 1)[1]) if "%" in sp else ""
            if how == "class":
                if loc[0] == "reg" and ("R", loc[1]) not in self._used and not sfx:
                    self._used.add(("R", loc[1]))
                    name, sfx = "arg%d" % r.randrange(1, 19), "%" + REGNAMES[loc[1]]
                elif loc[0] == "stack" and ("S", loc[1]) not in self._used and not sfx:
                    self._used.add(("S", loc[1]))
                    name, sfx = "arg%d" % r.randrange(1, 19), "%%stack+%d" % loc[1]
                else:
                    how = "again"
            if fam in ("str", "at", "null", "bad"):
                f = r.choice(["s", "s", "p", "x"])
            elif fam == "obj":
                f = r.choice(["S", "p", "x"])
            else:
                f = int_fmt(tok)
            extra.append({"opt": "A", "regex": r.random() < 0.5, "specs": ["%s/%s%s" % (name, f, sfx)]})
            c["tags"].append("multi=same-arg-" + how)
        # several return value specs
        rc = c["slots"].get("ret:0")
        rtok = c["ret"][0]
        n = r.randrange(1, 4)
        for _ in range(n):
            cls = r.choice(["index", "float", "float", "reg", "stack"])
            if rc is not None and rc[0] in ("str", "at", "null", "bad"):
                f = r.choice(["s", "p", "x"])
            elif rc is not None and rc[0] == "struct":
                f = "x"
            else:
                f = int_fmt(rtok)
            if cls == "float":
                spec = "retval/f" + r.choice(["", "32", "64"])
            elif cls == "reg":
                i = r.randrange(6)
                if ("R", i) in self._used:
                    continue
                self._used.add(("R", i))
                spec = "retval/%s%%%s" % (f, REGNAMES[i])
            elif cls == "stack":
                k = r.randrange(1, 24)
                if ("S", k) in self._used:
                    continue
                self._used.add(("S", k))
                spec = "retval/%s%%stack+%d" % (f, k)
            else:
                spec = "retval/" + f
            extra.append({"opt": "R", "regex": r.random() < 0.5, "specs": [spec]})
            c["tags"].append("multi=retval-" + cls)
        r.shuffle(extra)
        # extra options before or behind the function's own ones
        pre = [g for g in extra if r.random() < 0.4]
        post = [g for g in extra if g not in pre]
        c["groups"] = pre + ga + gr + post
        c["specs"] = [s_ for g in c["groups"] if g["opt"] == "A" for s_ in g["specs"]]
        c["rspecs"] = [s_ for g in c["groups"] if g["opt"] == "R" for s_ in g["specs"]]
        c["tags"].append("multi")

    # ---- slots
    def slot(self, addressing=None):
        """pick a free way to address a free 64-bit word; returns (argN, suffix, location)"""
        r = self.rng
        used, locs = self._used, self._locs
        addressing = addressing or r.choice(["index"] * 8 + ["reg", "stack"])
        for _ in range(60):
            n = r.randrange(1, 19)
            if addressing == "reg":
                i = r.randrange(6)
                key, loc, sfx = ("R", i), ("reg", i), "%%%s" % REGNAMES[i]
            elif addressing == "stack":
                k = r.randrange(1, 24)
                key, loc, sfx = ("S", k), ("stack", k), "%%stack+%d" % k
            else:
                key, loc, sfx = ("I", n), (("reg", n - 1) if n <= 6 else ("stack", n - 6)), ""
            if key in used or loc in locs:
                continue
            used.add(key)
            locs.add(loc)
            return "arg%d" % n, sfx, loc
        return None

    def put(self, where, tok):
        c = self._c
        if where[0] == "reg":
            c["regs"][where[1]] = tok
        else:
            k = where[1]
            while len(c["stack"]) < k:
                c["stack"].append(self.word())
            c["stack"][k - 1] = tok

    def get(self, where):
        c = self._c
        if where[0] == "reg":
            return c["regs"][where[1]]
        k = where[1]
        while len(c["stack"]) < k:
            c["stack"].append(self.word())
        return c["stack"][k - 1]

    def new_string(self, s):
        c = self._c
        i = len(c["strings"]) + len(c["objs"])
        c["strings"][i] = s.hex()
        return i

    # ---- items
    def add_int(self, addressing=None):
        r = self.rng
        sl = self.slot(addressing)
        if not sl:
            return
        name, sfx, where = sl
        f = r.choice("diuxo")
        bits = r.choice([None, 8, 16, 32, 64])
        w, low = self.boundary_int(bits or 64)
        if f == "d" and (bits or 64) == 64 and 0xffff0000 < w <= 0xffffffff:
            w = low = 0xffff0000          # known-defect class (shown as a negative 32-bit number): witness only
        self.put(where, w)
        if bits is None and f == "d" and not sfx and r.random() < 0.5:
            spec = name                                   # plain "argN": 64-bit, automatic format
        else:
            spec = "%s/%s%s%s" % (name, f, bits or "", sfx)
        self._c["specs"].append(spec)
        self._c["actual"].append(["int", w, list(where)])
        self._c["tags"] += ["fmt=" + f, "bits=%s" % (bits or "dflt")]
        if low in (100000, 100001, (1 << (bits or 64)) - 100000, (1 << (bits or 64)) - 100001):
            self._c["tags"].append("int=+-100000")
        if 0xffff0000 <= low <= 0xffffffff:
            self._c["tags"].append("int=0xffff0000..0xffffffff")

    def add_char(self, **kw):
        r = self.rng
        sl = self.slot()
        if not sl:
            return
        name, sfx, where = sl
        ch = r.choice([0, 8, 10, 39, 34, 92, 65, 0x7f, 0x80, 0xff, r.randrange(256)])
        w = (r.getrandbits(56) << 8 | ch) if r.random() < 0.5 else ch
        self.put(where, w)
        bits = r.choice(["", "", "8", "16", "32", "64"])
        self._c["specs"].append(name + "/c" + bits + sfx)
        self._c["actual"].append(["int", w, list(where)])
        self._c["tags"].append("fmt=c")

    def add_str(self, n=None, addressing=None):
        r = self.rng
        sl = self.slot(addressing)
        if not sl:
            return
        name, sfx, where = sl
        k = r.random()
        if k < 0.08:
            self.put(where, 0)
            self._c["actual"].append(["null"])
            self._c["tags"].append("str=NULL")
        elif k < 0.16:
            # inside a PROT_NONE page / the gap behind the heap (repaired: 9eb50dd) / exactly the end of a readable mapping
            tok = r.choice(["@BAD", "@BRK", "@EDGE"])
            self.put(where, tok)
            self._c["actual"].append(["bad", tok])
            self._c["tags"].append("str=unreadable")
        else:
            q = r.random()
            if q < 0.08 and n is None:
                # a pointer into the readable page in front of the PROT_NONE page: its last byte (the NUL), a few
                # characters in front of it, its first byte
                k = r.choice([1, 1, 2, 4, 50, 99, 100, 4096])
                self.put(where, "@EDGE-%d" % k)
                self._c["actual"].append(["at", "@EDGE-%d" % k])
                self._c["tags"].append("str=edge-%s" % (k if k in (1, 2, 4096) else "k"))
                self._c["specs"].append(name + "/s" + sfx)
                return
            s = self.string(n)
            i = self.new_string(s)
            if q < 0.16 and n is None and len(s) > 0:
                off = r.choice([1, len(s), len(s) - 1, r.randrange(len(s) + 1)])     # inside the string, up to its NUL
                self.put(where, "@S%d+%d" % (i, off))
                self._c["actual"].append(["at", "@S%d+%d" % (i, off)])
                self._c["tags"].append("str=inner-pointer")
                self._c["specs"].append(name + "/s" + sfx)
                return
            self.put(where, "@S%d" % i)
            self._c["actual"].append(["str", i])
            self._c["tags"].append("strlen~%s" % (len(s) if len(s) < 4 or 94 <= len(s) <= 102 else "other"))
            if any(b >= 0x80 for b in s):
                self._c["tags"].append("str=non-ascii")
        self._c["specs"].append(name + "/s" + sfx)

    def add_stdstr(self):
        r = self.rng
        sl = self.slot("index")
        if not sl:
            return
        name, sfx, where = sl
        c = self._c
        k = r.random()
        if k < 0.1:
            self.put(where, "@BAD")                # unreadable object: shown as its address
            c["actual"].append(["bad", "@BAD"])
        else:
            inner = r.choice(["str", "str", "str", "null", "bad"])
            if inner == "str":
                s = self.string()
                i = self.new_string(s)
                tok, av = "@S%d" % i, ["str", i]
            elif inner == "null":
                s, tok, av = b"", 0, ["null"]
            else:
                s, tok, av = b"", "@BAD", ["bad", "@BAD"]
            j = len(c["strings"]) + len(c["objs"])
            c["objs"][j] = [tok, len(s), self.word()]
            self.put(where, "@S%d" % j)
            c["actual"].append(av)
        c["specs"].append(name + "/S" + sfx)
        c["tags"].append("fmt=S")

    def add_ldbl(self):
        """a long double argument (x87: passed in memory): fpargN/80%stack+K takes 10 of the 16 bytes at stack word K"""
        r = self.rng
        c, used, locs = self._c, self._used, self._locs
        for _ in range(20):
            k = r.randrange(1, 22)
            if ("S", k) in used or ("stack", k) in locs or ("stack", k + 1) in locs:
                continue
            n = r.randrange(1, 9)
            if ("F", n) in used:
                continue
            used.add(("S", k))
            used.add(("F", n))
            locs.add(("stack", k))
            locs.add(("stack", k + 1))
            lo, hi = r.choice([(0xa000000000000000, 0x3fff), (0x8000000000000000, 0xc000), (0, 0),
                               (r.getrandbits(64) | (1 << 63), r.randrange(1, 0x7ffe))])
            self.put(("stack", k + 1), hi | (r.getrandbits(48) << 16))
            self.put(("stack", k), lo)
            c["specs"].append("fparg%d/80%%stack+%d" % (n, k))
            c["actual"].append(["flt", lo | (hi << 64)])
            c["tags"].append("fmt=f80")
            return

    def add_ptr(self):
        r = self.rng
        sl = self.slot()
        if not sl:
            return
        name, sfx, where = sl
        k = r.random()
        if k < 0.3:
            fk = r.randrange(0, 32)
            self.put(where, "@F%d" % fk)
            self._c["actual"].append(["sym", fk])
            self._c["tags"].append("ptr=function")
        else:
            w = r.choice([0, 1, 0x1000, r.getrandbits(47), r.getrandbits(20)])
            self.put(where, w)
            self._c["actual"].append(["int", w, list(where)])
            self._c["tags"].append("ptr=0" if w == 0 else "ptr=number")
        self._c["specs"].append(name + "/p" + sfx)

    def add_struct(self, size=None):
        r = self.rng
        c, used = self._c, self._used
        n = r.randrange(1, 13)
        if ("I", n) in used:
            return
        kind = r.choice(["stack", "stack", "regs", "plain"])
        size = size if size is not None else r.choice([0, 1, 4, 8, 12, 16, 24, 40, 100])
        tname = r.choice(["", ":pair", ":my_t"])
        if kind == "stack" or size > 32:
            k = r.randrange(1, 12)
            if ("S", k) in used:
                return
            used.add(("S", k))
            spec = "arg%d/t%d%s%%stack+%d" % (n, size, tname, k)
        elif kind == "regs":
            rs = r.sample(range(6), r.randrange(1, 3))
            if ("R", rs[-1]) in used:
                return
            used.add(("R", rs[-1]))
            spec = "arg%d/t%d%s%%%s" % (n, size, tname, "+".join(REGNAMES[i].upper() for i in rs))
        else:
            n = r.randrange(1, 7)
            if ("I", n) in used:
                return
            spec = "arg%d/t%d%s" % (n, size, tname)
        used.add(("I", n))
        c["specs"].append(spec)
        c["actual"].append(["struct"])
        c["tags"].append("fmt=t")

    def add_ret(self):
        r = self.rng
        c = self._c
        k = r.choice(["int", "int", "str", "str", "char", "ptr", "struct"])
        if k == "int":
            f = r.choice("diuxo")
            bits = r.choice([None, 8, 16, 32, 64])
            w, _ = self.boundary_int(bits or 64)
            if f == "d" and (bits or 64) == 64 and 0xffff0000 < w <= 0xffffffff:
                w = 0xffff0000
            c["ret"][0] = w
            c["rspecs"].append("retval" + ("/%s%s" % (f, bits or "") if bits or f != "d" else ""))
            c["ractual"].append(["int", w, ["ret", 0]])
        elif k == "char":
            w = r.getrandbits(64)
            c["ret"][0] = w
            c["rspecs"].append("retval/c")
            c["ractual"].append(["int", w, ["ret", 0]])
        elif k == "ptr":
            fk = r.randrange(32)
            c["ret"][0] = "@F%d" % fk
            c["rspecs"].append("retval/p")
            c["ractual"].append(["sym", fk])
        elif k == "struct":
            c["rspecs"].append("retval/t%d" % r.choice([0, 8, 16]))
            c["ractual"].append(["struct"])
        else:
            q = r.random()
            if q < 0.1:
                c["ret"][0] = 0
                c["ractual"].append(["null"])
            elif q < 0.2:
                c["ret"][0] = r.choice(["@BAD", "@BRK", "@EDGE"])
                c["ractual"].append(["bad", c["ret"][0]])
            else:
                s = self.string()
                i = self.new_string(s)
                c["ret"][0] = "@S%d" % i
                c["ractual"].append(["str", i])
                c["tags"].append("ret-strlen~%s" % (len(s) if len(s) < 4 or 94 <= len(s) <= 102 else "other"))
            c["rspecs"].append("retval/s")
        c["tags"].append("retval=" + k)

    def total_boundary(self):
        """a filler struct brings total_size close to the 1020-byte limit; then strings / ints whose end
        falls on every value of 1008..1032"""
        r = self.rng
        c = self._c
        tail = []
        for _ in range(r.randrange(1, 4)):
            tail.append(r.choice(["int", "str", "str", "char"]))
        target = r.choice([1008, 1012, 1016, 1020, 1020, 1024, 1028, 1032])
        # build the tail first to know its size
        mark = len(c["specs"])
        for t in tail:
            if t == "int":
                self.add_int("index")
            elif t == "char":
                self.add_char()
            else:
                self.add_str(n=r.choice([0, 1, 2, 3, 5, 6, 7, 10, 17, 30]))
        need = sum(self.need(s, a, c) for s, a in zip(c["specs"][mark:], c["actual"][mark:]))
        fill = max(0, target - need)
        if fill > 3:
            fill -= r.choice([0, 0, 0, 1, 2, 3])             # sizes that are not multiples of 4 are rounded up
        k = r.randrange(1, 12)
        while ("S", k) in self._used:
            k += 1
        self._used.add(("S", k))
        n = 30 + r.randrange(5)
        spec = "arg%d/t%d%%stack+%d" % (n, fill, k)
        pos = r.choice([mark, mark, len(c["specs"])])          # filler first (usual) or last
        c["specs"].insert(pos, spec)
        c["actual"].insert(pos, ["struct"])
        c["tags"] += ["total=%d" % (need + ALIGN(fill, 4)), "near-limit"]

    def need(self, spec, a, c):
        if a[0] in ("str", "at"):
            return ALIGN(min(len(str_bytes(c, a)), ARG_STR_MAX) + 2, 4)
        if a[0] == "null":
            return 8
        if a[0] == "bad":
            return ALIGN(16 + 2, 4)
        m = re.search(r"/t(\d+)", spec)
        if m:
            return ALIGN(int(m.group(1)), 4)
        m = re.search(r"/[a-zA-Z](\d+)", spec)
        if m:
            return ALIGN(int(m.group(1)) // 8, 4)
        return 4 if "/c" in spec else 8

    def display_len(self, c):
        n = 2
        for s, a in zip(c["specs"], c["actual"]):
            if a[0] in ("str", "at"):
                n += 2 * min(len(str_bytes(c, a)), ARG_STR_MAX) + 6
            else:
                n += 24
        return n

    def drop_last(self):
        c = self._c
        c["specs"].pop()
        c["actual"].pop()


# ================================================================== regression cases of the repaired defects, witness of the listed one
def witness_len98():
    s = bytes(65 + i % 26 for i in range(ARG_STR_MAX))
    return {"specs": ["arg1/s"], "rspecs": [], "regs": ["@S0", 0, 0, 0, 0, 0], "stack": [], "ret": [0, 0],
            "strings": {0: s.hex()}, "objs": {}, "actual": [["str", 0]], "ractual": [], "tags": ["regression=len98"]}


def witness_c64():
    return {"specs": ["arg1/c64", "arg2/i32"], "rspecs": [], "regs": [0x1122334455667741, 7, 0, 0, 0, 0], "stack": [],
            "ret": [0, 0], "strings": {}, "objs": {}, "actual": [["int", 0x1122334455667741, ["reg", 0]], ["int", 7, ["reg", 1]]], "ractual": [],
            "tags": ["regression=c64"]}


def witness_overflow():
    # 1016 bytes of struct, then "ab": total 1020 (accepted) and the NUL lands at argbuf[1024]
    return {"specs": ["arg30/t1016%stack+1", "arg1/s"], "rspecs": [], "regs": ["@S0", 0, 0, 0, 0, 0], "stack": [1, 2, 3],
            "ret": [0, 0], "strings": {0: b"ab".hex()}, "objs": {}, "actual": [["struct"], ["str", 0]], "ractual": [],
            "tags": ["regression=overflow"]}


def witness_overflow_many():
    # 140 eight-byte arguments: each copy is done before the limit is looked at
    # (arg101..arg108 would alias the xmm register numbers in mcount_get_register_arg: not used)
    specs = ["arg%d" % i for i in range(1, 101)] + ["arg%d/x%%stack+%d" % (i, i) for i in range(1, 41)]
    return {"specs": specs, "rspecs": [], "regs": [1, 2, 3, 4, 5, 6],
            "stack": [0x0101010101010101 * (i % 200 + 1) for i in range(23)], "ret": [0, 0], "strings": {}, "objs": {},
            "actual": [["int", 0]] * len(specs), "ractual": [], "tags": ["regression=overflow-many"]}


def witness_neg32():
    # `arg1` (documented as 'long int'): the value 4294967295 is shown as -1
    return {"specs": ["arg1", "arg2/d64"], "rspecs": ["retval"], "regs": [0xffffffff, 0xffff0001, 0, 0, 0, 0], "stack": [],
            "ret": [0xfffffffb, 0], "strings": {}, "objs": {},
            "actual": [["int", 0xffffffff, ["reg", 0]], ["int", 0xffff0001, ["reg", 1]]],
            "ractual": [["int", 0xfffffffb, ["ret", 0]]], "tags": ["witness=auto-neg32"]}


# repaired by fix: commits (known-findings.txt `fixed:` lines): ordinary cases now, judged like every other case
def abandoned_check():
    # check(3, 100) throws: -A check@arg1/i64,arg2/i64 -R check@retval/i64; the call is closed without a return value
    return {"specs": ["arg1/i64", "arg2/i64"], "rspecs": ["retval/i64"], "regs": [3, 100, 0, 0, 0, 0], "stack": [],
            "ret": [0, 0], "strings": {}, "objs": {}, "actual": [["int", 3, ["reg", 0]], ["int", 100, ["reg", 1]]],
            "ractual": [["int", 0, ["ret", 0]]], "tags": ["abandoned", "regression=abandoned-check"], "abandoned": True}


def abandoned_str():
    # a string argument and a string return value: the buffer left by the entry is not a return value
    return {"specs": ["arg1/s", "arg2/x16"], "rspecs": ["retval/s"], "regs": ["@S0", 0xbeef, 0, 0, 0, 0], "stack": [],
            "ret": ["@S0", 0], "strings": {0: b"left behind by the entry".hex()}, "objs": {},
            "actual": [["str", 0], ["int", 0xbeef, ["reg", 1]]], "ractual": [["str", 0]],
            "tags": ["abandoned", "regression=abandoned-str"], "abandoned": True}


def abandoned_retonly():
    # only a return value spec: the argument buffer of the frame holds whatever an earlier call left there
    return {"specs": [], "rspecs": ["retval/x64"], "regs": [1, 2, 3, 4, 5, 6], "stack": [], "ret": [7, 0],
            "strings": {}, "objs": {}, "actual": [], "ractual": [["int", 7, ["ret", 0]]],
            "tags": ["abandoned", "regression=abandoned-retonly"], "abandoned": True}


def trigger_lookup():
    # seed C09-8: -T 'lookup@arg1/i32' -A 'lookup@arg2/s,arg3/i64' for lookup(7, "seven", -3)
    return {"specs": ["arg1/i32", "arg2/s", "arg3/i64"], "rspecs": [], "regs": [7, "@S0", M64 - 2, 0, 0, 0], "stack": [],
            "ret": [0, 0], "strings": {0: b"seven".hex()}, "objs": {},
            "groups": [{"opt": "T", "regex": False, "specs": ["arg1/i32"]},
                       {"opt": "A", "regex": False, "specs": ["arg2/s", "arg3/i64"]}],
            "actual": [["int", 7, ["reg", 0]], ["str", 0], ["int", M64 - 2, ["reg", 2]]], "ractual": [],
            "tags": ["trigger", "regression=trigger-lookup"]}


def trigger_override():
    # -A first on the command line, its arg2/x64 replaces the format of the trigger's arg2/s (the trigger is applied first)
    return {"specs": ["arg2/s", "arg1/i32", "arg2/x64"], "rspecs": ["retval/i64"], "regs": [300, "@S0", 5, 0, 0, 0], "stack": [],
            "ret": [123456789, 0], "strings": {0: b"three-hundred".hex()}, "objs": {},
            "groups": [{"opt": "A", "regex": False, "specs": ["arg1/i32", "arg2/x64"]},
                       {"opt": "T", "regex": False, "specs": ["retval/i64", "arg2/s"]}],
            "actual": [["int", "@S0", ["reg", 1]], ["int", 300, ["reg", 0]]], "ractual": [["int", 123456789, ["ret", 0]]],
            "tags": ["trigger", "regression=trigger-override"]}


def trigger_retval_str():
    # repaired (fix: trigger-retval-format): -T 'f@retval/s' with a string whose payload is not 8 bytes
    return {"specs": ["arg1/i32"], "rspecs": ["retval/s"], "regs": [7, 0, 0, 0, 0, 0], "stack": [],
            "ret": ["@S0", 0], "strings": {0: b"a return value of twenty-nine".hex()}, "objs": {},
            "groups": [{"opt": "T", "regex": False, "specs": ["retval/s", "arg1/i32"]}],
            "actual": [["int", 7, ["reg", 0]]], "ractual": [["str", 0]],
            "tags": ["trigger", "regression=trigger-retval-format"]}


def trigger_retval_f64():
    return {"specs": [], "rspecs": ["retval/f64"], "regs": [7, 0, 0, 0, 0, 0], "stack": [], "ret": [5, 0],
            "xmm0": 0x4004000000000000, "strings": {}, "objs": {},
            "groups": [{"opt": "T", "regex": True, "specs": ["retval/f64"]}],
            "actual": [], "ractual": [["flt", 0x4004000000000000]],
            "tags": ["trigger", "regression=trigger-retval-format"]}


def empty_payload():
    # repaired (fix: empty-payload-memcpy): the only return value spec is a struct of size 0 - `more` with no bytes;
    # the readers of the ASan/UBSan build run on the batch of this case (thorough tier)
    return {"specs": [], "rspecs": ["retval/t0"], "regs": [1, 2, 3, 4, 5, 6], "stack": [], "ret": [7, 0], "strings": {},
            "objs": {}, "actual": [], "ractual": [["struct"]], "tags": ["asan", "regression=empty-payload-memcpy"]}


REGRESSIONS = [empty_payload, witness_len98, witness_c64, witness_overflow, witness_overflow_many, abandoned_check, abandoned_str,
               abandoned_retonly, trigger_lookup, trigger_override, trigger_retval_str, trigger_retval_f64]
# still present, listed in known-findings.txt: the generators stay out of the class, this is the witness
WITNESSES = [("auto-neg32", witness_neg32)]


def sanitizer_report(stderr):
    """ASan error, or a UBSan report located in the code that reads / formats argument payloads"""
    if b"ERROR: AddressSanitizer" in stderr:
        return True
    return any(b"runtime error" in l and any(f in l for f in (b"cmds/replay.c", b"cmds/dump.c", b"cmds/script.c",
                                                              b"utils/script", b"utils/fstack.c", b"utils/argspec.c"))
               for l in stderr.split(b"\n"))


# ================================================================== logging scripts (what a script receives, with its type)
LOG_PY = r'''
def fmt(v):
    if v is None: return "N"
    if isinstance(v, bool): return "B%d" % v
    if isinstance(v, int): return "I%d" % v
    if isinstance(v, float): return "F" + v.hex()
    if isinstance(v, str): return "S" + v.encode("utf-8", "surrogateescape").hex()
    return "?" + type(v).__name__
def uftrace_entry(ctx):
    a = ctx.get("args")
    print("E %s %d %s" % (ctx["name"], ctx["depth"], "-" if a is None else " ".join([type(a).__name__] + [fmt(x) for x in a])), flush=True)
def uftrace_exit(ctx):
    print("X %s %d %s" % (ctx["name"], ctx["depth"], "value " + fmt(ctx["retval"]) if "retval" in ctx else "-"), flush=True)
'''
LOG_LUA = r'''
local function fmt(v)
  local t = type(v)
  if t == "nil" then return "N" end
  if t == "number" then return "D" .. string.format("%.17g", v) end
  if t == "string" then return "S" .. (v:gsub(".", function(c) return string.format("%02x", string.byte(c)) end)) end
  return "?" .. t
end
function uftrace_entry(ctx)
  local a = ctx["args"]
  local s = "-"
  if a ~= nil then
    s = type(a)
    local n = 0
    for k, _ in pairs(a) do if k > n then n = k end end
    for i = 1, n do s = s .. " " .. fmt(a[i]) end
  end
  print(string.format("E %s %d %s", ctx["name"], ctx["depth"], s))
end
function uftrace_exit(ctx)
  local r = ctx["retval"]
  if r == nil then print(string.format("X %s %d -", ctx["name"], ctx["depth"]))
  else print(string.format("X %s %d value %s", ctx["name"], ctx["depth"], fmt(r))) end
end
'''


def script_token(tok, spec):
    """one logged value -> observed item ("int", z) | ("flt", size, bits) | ("str", bytes) | ("invalid",) | ("none",)"""
    k, body = tok[:1], tok[1:]
    if k == "N":
        return ("none",)
    if k in ("I", "B"):
        return ("int", int(body))
    if k == "S":
        b = bytes.fromhex(body)
        return ("invalid",) if b == b"<invalid value>" else ("str", b)
    if k in ("F", "D"):
        d = float.fromhex(body) if k == "F" else float(body)
        isflt = spec is not None and FMTS[spec["fmt"]] == "FFloat"
        if not isflt and k == "D" and d == int(d):
            return ("int", int(d))                      # a Lua number that holds an integer
        if isflt and spec["size"] == 10:
            return ("flt", 10, 0)                           # (double)long double: the bits are not compared
        size = 4 if isflt and spec["size"] == 4 else 8
        try:
            bits = int.from_bytes(struct.pack("<f", d), "little") if size == 4 else \
                int.from_bytes(struct.pack("<d", d), "little")
        except OverflowError:
            bits = 0x7f800000
        return ("flt", size, bits)
    return ("none",)


def coq_oitem(o):
    if o[0] == "int":
        return "OInt (%d)%%Z" % o[1]
    if o[0] == "flt":
        return "OFlt %d %s" % (o[1], num(o[2]))
    if o[0] == "str":
        return "OStr %s" % blist(o[1])
    return "OInvalid" if o[0] == "invalid" else "ONone"


def coq_sobs(so):
    if so is None:
        return "None"
    def opt(x):
        return "None" if x is None else "Some [%s]" % "; ".join(coq_oitem(o) for o in x)
    return "Some {| so_args := %s; so_ret := %s |}" % (opt(so["args"]), opt(so["ret"]))


# ================================================================== running the implementation
class Impl:
    def __init__(self, ctx):
        self.ctx = ctx
        self.h = mch.Harness(ctx)
        self.objdir = self.h.objdir
        self.parse_exe = os.path.join(ctx.scratch, "c09_harness")
        if not os.path.exists(self.parse_exe):
            build.cc([os.path.join(HERE, "../harness/c/c09_harness.c"), build.uf_archive(self.objdir)],
                     self.parse_exe, self.objdir, extra=build.UF_LIBS)
        self.nrun = 0
        self.spec_cache = {}

    # ---- parse_argspec
    def parse_specs(self, strings):
        todo = [s for s in dict.fromkeys(strings) if s not in self.spec_cache]
        if todo:
            p = subprocess.run([self.parse_exe], input="\n".join(todo) + "\n", capture_output=True, text=True, timeout=60)
            lines = [l for l in p.stdout.splitlines() if l.startswith("S ")]
            if p.returncode != 0 or len(lines) != len(todo):
                raise RuntimeError("c09_harness failed: rc=%s %s" % (p.returncode, p.stderr[-500:]))
            for s, l in zip(todo, lines):
                k = l.split()
                if k[1] == "-":
                    self.spec_cache[s] = None
                else:
                    cnt = int(k[6])
                    self.spec_cache[s] = {"idx": int(k[1]), "fmt": int(k[2]), "size": int(k[3]), "type": int(k[4]),
                                          "u": int(k[5]), "regs": [int(x) for x in k[7:7 + cnt]],
                                          "name": "" if k[11] == "-" else k[11]}
        return [self.spec_cache[s] for s in strings]

    def info_lines(self, astr, rstr, tstr):
        """the argspec / retspec lines `uftrace record` writes for these -A / -R / -T option strings: the real
        extract_trigger_args (cmds/info.c fill_arg_spec)"""
        p = subprocess.run([self.parse_exe], input="X\t%s\t%s\t%s\n" % (astr, rstr, tstr), capture_output=True, text=True,
                           timeout=60)
        k = p.stdout.rstrip("\n").split("\t")
        if p.returncode != 0 or len(k) != 3 or k[0] != "X":
            raise RuntimeError("c09_harness (extract_trigger_args) failed: rc=%s %r %s" % (p.returncode, p.stdout[-300:], p.stderr[-300:]))
        return k[1], k[2]

    # ---- one harness run + one synthetic data directory for up to 31 cases
    def run_batch(self, cases):
        """fills case["obs"] (implementation's observations) and case["env"] (resolved addresses)"""
        assert len(cases) <= 31
        self.nrun += 1
        # abandoned calls (closed without a return value): libmcount in --estimate-return mode closes every open
        # call at the next entry through mcount_exit_filter_record(.., NULL) - the path exception unwinding and
        # pthread_exit take as well.  No exit hook runs; the sentinel call follows as a sibling.
        ab = bool(cases[0].get("abandoned"))
        assert all(bool(c.get("abandoned")) == ab for c in cases)
        self.abandoned = ab
        if ab:
            lines = ["E 0 1000", "E 0 1002", "E 0 1004", "ADDR"]
            expect = ["E", "E", "E", "ADDR"]
        else:
            lines = ["E 0 1000", "E 0 1002", "X 1004", "X 1010", "ADDR"]
            expect = ["E", "E", "X", "X", "ADDR"]
        nent = 3                                # entries so far in the abandoned script (= index of the next fake frame)
        sbase = 0
        argenv, retenv, trigenv = [], [], []
        for ci, c in enumerate(cases):
            k = ci + 1
            c["k"] = k
            c["sbase"] = sbase
            nobj = len(c["strings"]) + len(c["objs"])

            def tok(t, sbase=sbase):
                if isinstance(t, str) and t.startswith("@S"):
                    i, _, off = t[2:].partition("+")
                    return "@S%d%s" % (sbase + int(i), "+" + off if off else "")
                return str(t)
            c["tok"] = tok
            for i in range(nobj):
                if str(i) in c["strings"] or i in c["strings"]:
                    hx = c["strings"].get(i, c["strings"].get(str(i)))
                    lines.append("STR %d %s" % (sbase + i, hx))
                    expect.append("STR")
                else:
                    ws = c["objs"].get(i, c["objs"].get(str(i)))
                    lines.append("OBJ %d %s" % (sbase + i, " ".join(tok(w) for w in ws)))
                    expect.append("OBJ")
                lines.append("SADDR %d" % (sbase + i))
                expect.append("SADDR")
            sbase += nobj
            for g in groups_of(c):
                {"A": argenv, "R": retenv, "T": trigenv}[g["opt"]].append(
                    ("^(f%d)$@%s" if g.get("regex") else "f%d@%s") % (k, ",".join(g["specs"])))
            lines.append("SPECS %d" % k)
            expect.append("SPECS")
            t0 = T_BASE + 1000 * (ci + 1)
            if ab:
                # exit of the call = middle of its entry and the next entry; the sentinel's exit likewise
                tn = T_BASE + 1000 * (ci + 2)
                c["times"] = [t0, (t0 + t0 + 10) // 2, t0 + 10, (t0 + 10 + tn) // 2]
                lines += ["FRAMESET %d 0 %d" % (nent + 1, SENTINEL_RET),
                          "ARGFILL -1 %d %d" % (FILL, WINDOW),
                          "EA %d %d %s" % (k, t0, " ".join(tok(w) for w in c["regs"] + c["stack"])),
                          "ARGDUMP -1 %d" % WINDOW,
                          "E 0 %d" % (t0 + 10)]
                expect += ["FRAMESET", "ARGFILL", "E", "ARGDUMP", "E"]
                nent += 2
                continue
            c["times"] = [t0, t0 + 10, t0 + 20, t0 + 30]
            lines += ["FRAMESET 1 0 %d" % SENTINEL_RET,     # the word behind the 23 stack words of frame 0
                      "ARGFILL 0 %d %d" % (FILL, WINDOW),
                      "EA %d %d %s" % (k, t0, " ".join(tok(w) for w in c["regs"] + c["stack"])),
                      "E 0 %d" % (t0 + 10), "X %d" % (t0 + 20),
                      "ARGDUMP -1 %d" % WINDOW,
                      "ARGFILL -1 %d %d" % (FILL, WINDOW),
                      "XRF %d %s %d" % (t0 + 30, " ".join(tok(w) for w in c["ret"][:2]), c.get("xmm0", 0)),
                      "ARGDUMP 0 %d" % WINDOW]
            expect += ["FRAMESET", "ARGFILL", "E", "E", "X", "ARGDUMP", "ARGFILL", "X", "ARGDUMP"]
        tend = T_BASE + 1000 * (len(cases) + 2)
        if ab:
            assert tend == T_BASE + 1000 * (len(cases) + 1) + 1000
            lines += ["E 0 %d" % (T_BASE + 1000 * (len(cases) + 1)), "E 0 %d" % tend, "DUMPRAW"]
            expect += ["E", "E", "DUMPRAW"]
        else:
            lines += ["E 0 %d" % tend, "X %d" % (tend + 10), "DUMPRAW"]
            expect += ["E", "X", "DUMPRAW"]
        env = {"UFTRACE_PATTERN": "regex"}      # a plain name stays an exact match, "^(f3)$" is a regex match
        if ab:
            env["UFTRACE_ESTIMATE_RETURN"] = "1"
        if argenv:
            env["UFTRACE_ARGUMENT"] = ";".join(argenv)
        if retenv:
            env["UFTRACE_RETVAL"] = ";".join(retenv)
        if trigenv:
            env["UFTRACE_TRIGGER"] = ";".join(trigenv)
        out, err = self.h.run(lines, env, timeout=120)
        if len(out) != len(expect) or any(not o.startswith(e) for o, e in zip(out, expect)):
            raise RuntimeError("mc_harness output out of step: %r ... stderr=%s" % (out[:8], err[-400:]))
        it = iter(out)
        for _ in range(3 if ab else 4):
            next(it)
        a = next(it).split()
        f0, bad, brk, edge = int(a[1]), int(a[2]), int(a[3]), int(a[4])
        for c in cases:
            nobj = len(c["strings"]) + len(c["objs"])
            saddr = {}
            for i in range(nobj):
                next(it)
                saddr[i] = int(next(it).split()[1])
            c["env"] = {"f0": f0, "bad": bad, "brk": brk, "edge": edge, "saddr": saddr}
            sp = next(it)[6:].split(" | ")
            c["tflags"] = int(sp[0].split()[0])
            c["mspecs"] = []
            for item in sp[1:]:
                k = item.split()
                cnt = int(k[5])
                c["mspecs"].append({"idx": int(k[0]), "fmt": int(k[1]), "size": int(k[2]), "type": int(k[3]),
                                    "u": int(k[4]), "regs": [int(x) for x in k[6:6 + cnt]],
                                    "name": "" if k[10] == "-" else k[10]})
            # what each merged spec has to show (the caller's view)
            c["pspecs"] = [m for m in c["mspecs"] if m["idx"] != 0]
            c["prspecs"] = [m for m in c["mspecs"] if m["idx"] == 0]
            c["actual"] = [derive_actual(c, m) for m in c["pspecs"]]
            c["ractual"] = [derive_actual(c, m) for m in c["prspecs"]]
            if ab:
                next(it), next(it)
                e = next(it).split()
                d1 = next(it).split()
                next(it)
                if e[1] != "0":
                    raise RuntimeError("entry of f%d was not hooked: %r" % (c["k"], e))
                c["obs"] = {"flags_entry": int(d1[1]), "img_entry": bytes.fromhex(d1[2]).rstrip(bytes([FILL])),
                            "flags_exit": 0, "img_exit": b""}
                continue
            next(it), next(it)
            e = next(it).split()
            next(it), next(it)
            d1 = next(it).split()
            next(it)
            x = next(it).split()
            d2 = next(it).split()
            if e[1] != "0":
                raise RuntimeError("entry of f%d was not hooked: %r" % (c["k"], e))
            c["obs"] = {"flags_entry": int(d1[1]), "img_entry": bytes.fromhex(d1[2]).rstrip(bytes([FILL])),
                        "flags_exit": int(d2[1]), "img_exit": bytes.fromhex(d2[2]).rstrip(bytes([FILL]))}
        for _ in range(2):
            next(it)
        raw = bytes.fromhex((next(it).split() + [""])[1])
        if ab:
            tend = T_BASE + 1000 * (len(cases) + 1)     # the entry that closes the last sentinel
        # split the stream at the (unique) entry times of the calls
        pos = []
        for c in cases:
            p = raw.find(struct.pack("<Q", c["times"][0]))
            pos.append(p)
        endp = raw.find(struct.pack("<Q", tend))
        for i, c in enumerate(cases):
            nxt = pos[i + 1] if i + 1 < len(cases) else endp
            c["obs"]["stream"] = raw[pos[i]:nxt] if pos[i] >= 0 and nxt >= pos[i] else b""
        self.read_back(cases, raw, f0)
        return cases

    # ---- the real reader on the real writer's bytes
    def read_back(self, cases, raw, f0):
        base = (f0 & ~0xfff) - 0x1000
        syms = [(f0 - base + 256 * k, mch.SIZES[k], "T", "fn%02d" % k) for k in range(32)]
        d = os.path.join(self.ctx.scratch, "dd%d" % (self.nrun % 4))
        shutil.rmtree(d, ignore_errors=True)
        desc = {"syms": syms, "base": base, "tasks": [{"tid": 100, "pid": 100, "raw": raw}], "args": True,
                "cpuinfo": "Intel(R) Xeon(R) Processor @ 2.10GHz"}
        def optstr(o):
            return ";".join(("^(fn%02d)$@%s" if g.get("regex") else "fn%02d@%s") % (c["k"], ",".join(g["specs"]))
                            for c in cases for g in groups_of(c) if g["opt"] == o)
        aspec, rspec = optstr("A"), optstr("R")
        if optstr("T"):
            # the lines of the info file as `uftrace record -A .. -R .. -T ..` writes them
            aspec, rspec = self.info_lines(aspec, rspec, optstr("T"))
        self.last_info = (aspec, rspec)
        desc["pattern_type"] = "regex"
        datadir.write(desc, d, argspec={"argspec": aspec, "retspec": rspec})
        exe = os.path.join(self.objdir, "uftrace")
        p = subprocess.run(["timeout", "60", exe, "replay", "--no-pager", "-f", "none", "--no-comment", "-d", d],
                           capture_output=True, timeout=90)
        out = p.stdout
        self.last_replay = (p.returncode, out, p.stderr)
        # skeleton: "fn00() {\n  fn00();\n}\n" then per call  NAME ARGS " {\n  fn00();\n}" RET "\n", then "fn00();\n"
        head = b"fn00() {\n  fn00();\n}\n"
        mark = b" {\n  fn00();\n}"
        ab = getattr(self, "abandoned", False)
        if ab:
            # abandoned calls:  "fn00();" x 3, then per call  NAME ARGS ";\nfn00();\n", then "fn00();\n".
            # Whatever stands between the name and the ";" is taken as the argument text: there must be no " = value"
            head = b"fn00();\nfn00();\nfn00();\n"
        ok = p.returncode == 0 and out.startswith(head)
        cur = len(head)
        for i, c in enumerate(cases):
            c["obs"]["args_text"] = c["obs"]["ret_text"] = None
            if not ok:
                continue
            if ab:
                name = b"fn%02d" % c["k"]
                nxt = b";\nfn00();\n" + ((b"fn%02d(" % cases[i + 1]["k"]) if i + 1 < len(cases) else b"fn00();\n")
                e = out.find(nxt, cur)
                if not out.startswith(name, cur) or e < 0:
                    ok = False
                    continue
                c["obs"]["args_text"] = out[cur + len(name):e]
                c["obs"]["ret_text"] = b""
                cur = e + len(b";\nfn00();\n")
                continue
            name = b"fn%02d" % c["k"]
            if not out.startswith(name, cur):
                ok = False
                continue
            m = out.find(mark, cur)
            nxt = (b"\nfn%02d(" % cases[i + 1]["k"]) if i + 1 < len(cases) else b"\nfn00();\n"
            e = out.find(nxt, m + len(mark)) if m >= 0 else -1
            if m < 0 or e < 0:
                ok = False
                continue
            c["obs"]["args_text"] = out[cur + len(name):m]
            c["obs"]["ret_text"] = out[m + len(mark):e]
            cur = e + 1
        if ok and out[cur:] != b"fn00();\n":
            ok = False
        self.replay_ok = ok
        # dump: raw values per call
        p = subprocess.run(["timeout", "60", exe, "dump", "--no-pager", "-d", d], capture_output=True, timeout=90)
        self.parse_dump(cases, p.stdout)
        # the script readers on the same stream
        self.script_ok = {}
        for lang, text in (("py", LOG_PY), ("lua", LOG_LUA)):
            sc = os.path.join(self.ctx.scratch, "c09log." + lang)
            if not os.path.exists(sc):
                open(sc, "w").write(text)
            p = subprocess.run(["timeout", "60", exe, "script", "--no-pager", "-S", sc, "-d", d], capture_output=True,
                               timeout=90)
            self.script_ok[lang] = self.parse_script(cases, lang, p)
        # memory safety of the readers (thorough tier, every 4th stream): ASan + UBSan build of the current tree
        self.asan_report = None
        if self.ctx.thorough() and (self.nrun % 6 == 0 or any("asan" in c["tags"] for c in cases)):
            asan = build.get_build("asan", self.ctx.log)
            for cmd in (["replay", "-f", "none"], ["dump"], ["script", "-S", os.path.join(self.ctx.scratch, "c09log.py")]):
                q = subprocess.run(["timeout", "120", os.path.join(asan, "uftrace")] + cmd + ["--no-pager", "-d", d],
                                   capture_output=True, timeout=150)
                if sanitizer_report(q.stderr):
                    self.asan_report = (cmd[0], q.stderr[:1500].decode("latin-1"))
                    break
        return ok

    def parse_script(self, cases, lang, p):
        """c["obs"][lang] = {"args": [items] | None, "ret": [item] | None} per call, or None where the callbacks of
        the call are missing / out of order (then self.last_script keeps the output)"""
        lines = [l for l in p.stdout.decode("latin-1").split("\n") if l[:2] in ("E ", "X ")]
        head = ["E fn00 0 -", "E fn00 1 -", "X fn00 1 -", "X fn00 0 -"]
        ab = getattr(self, "abandoned", False)
        if ab:
            head = ["E fn00 0 -", "X fn00 0 -"] * 3
        good = p.returncode == 0 and lines[:len(head)] == head
        cur = len(head)
        for c in cases:
            c["obs"][lang] = None
            if not good:
                continue
            name = "fn%02d" % c["k"]
            blk = lines[cur:cur + 4]
            if ab:
                # entry, exit, then the sentinel as a sibling
                blk = blk[:1] + blk[2:] + blk[1:2] if len(blk) == 4 and blk[2:] == ["E fn00 0 -", "X fn00 0 -"] else []
                blk = [b if i in (0, 3) else b.replace(" 0 -", " 1 -") for i, b in enumerate(blk)]
            if len(blk) < 4 or not blk[0].startswith("E %s 0 " % name) or blk[1:3] != ["E fn00 1 -", "X fn00 1 -"] \
                    or not blk[3].startswith("X %s 0 " % name):
                good = False
                continue
            a = blk[0].split(" ")[3:]
            r = blk[3].split(" ")[3:]
            args = None if a == ["-"] else [script_token(t, c["pspecs"][i] if i < len(c["pspecs"]) else None)
                                            for i, t in enumerate(a[1:])]
            ret = None if r == ["-"] else [script_token(t, c["prspecs"][0] if c["prspecs"] else None) for t in r[1:2]]
            c["obs"][lang] = {"args": args, "ret": ret}
            cur += 4
        if good and lines[cur:] != ["E fn00 0 -", "X fn00 0 -"]:
            good = False
        if not good:
            self.last_script = (lang, p.returncode, p.stdout[-1500:], p.stderr[-600:])
        return good

    def parse_dump(self, cases, out):
        """per call: list of (kind, bits, value) for the scalar args / retval as `uftrace dump` prints them"""
        cur = 0
        for c in cases:
            name = b"fn%02d(" % c["k"]
            a = out.find(b"[entry] " + name, cur)
            b = out.find(b"[exit ] " + name, a) if a >= 0 else -1
            e = out.find(b"[entry] ", b + 1) if b >= 0 else -1
            if a < 0 or b < 0:
                c["obs"]["dump_args"] = c["obs"]["dump_ret"] = None
                continue
            seg_a, seg_r = out[a:b], out[b:e if e >= 0 else len(out)]
            c["obs"]["dump_args"] = [(int(m.group(1)), m.group(2).decode(), int(m.group(3)), int(m.group(4), 16))
                                     for m in re.finditer(rb"\n  args\[(\d+)\] ([a-zA-Z])(\d+): 0x([0-9a-f]+)(?=\n)", seg_a)]
            # strings as dump prints them (raw bytes up to the next item of the same record)
            c["obs"]["dump_strs"] = {}
            for m in re.finditer(rb"\n  args\[(\d+)\] (?:str|std::string): (.*?)(?=\n  args\[\d+\] |\n\d+\.\d{9} +\d+: (?:\[|\Z)|\Z)", seg_a, re.S):
                c["obs"]["dump_strs"][int(m.group(1))] = m.group(2)
            c["obs"]["dump_ret"] = []
            for i, m in enumerate(re.finditer(rb"\n  retval ([^\n]*)", seg_r)):
                m2 = re.match(rb"([a-zA-Z])(\d+): 0x([0-9a-f]+)$", m.group(1))
                if m2:
                    c["obs"]["dump_ret"].append((i, m2.group(1).decode(), int(m2.group(2)), int(m2.group(3), 16)))
            cur = b


# ================================================================== Coq terms
def num(x):
    """Coq numeral (hex for big numbers: decimal literals are converted slowly)"""
    x = int(x)
    return str(x) if x < 1000 else hex(x)


def nlist(b):
    return "[" + "; ".join(num(x) for x in b) + "]"


def blist(b):
    """byte string as a Coq term, run-length coded (see Model.unrle)"""
    b = bytes(b)
    out, i, n = [], 0, len(b)
    while i < n:
        j = i
        while j < n and b[j] == b[i]:
            j += 1
        if j - i >= 3:
            out.append(str((j - i) * 256 + b[i]))
        else:
            out += [str(b[i])] * (j - i)
        i = j
    return "(unrle [" + "; ".join(out) + "])"


def coq_spec(sp):
    if not sp["regs"] and not sp["name"] and sp["u"] >= 0:
        return "(Sp %d %s %d %s %d)" % (sp["idx"], FMTS[sp["fmt"]], sp["size"], TYPES[sp["type"]], sp["u"])
    return ("{| s_idx := %d; s_fmt := %s; s_size := %d; s_type := %s; s_u := (%d)%%Z; s_regs := [%s]; s_name := %s |}"
            % (sp["idx"], FMTS[sp["fmt"]], sp["size"], TYPES[sp["type"]], sp["u"],
               "; ".join("(%d)%%Z" % x for x in sp["regs"]), nlist(sp["name"].encode())))


def resolve(c, t):
    """token -> the 64-bit number the harness put there"""
    if isinstance(t, str):
        if t == "@BAD":
            return c["env"]["bad"]
        if t == "@BRK":
            return c["env"]["brk"]
        if t.startswith("@EDGE"):
            return c["env"]["edge"] - (int(t[6:]) if t[5:6] == "-" else 0)
        if t.startswith("@S") and "+" in t:
            i, off = t[2:].split("+")
            return c["env"]["saddr"][int(i)] + int(off)
        if t.startswith("@S"):
            return c["env"]["saddr"][int(t[2:])]
        if t.startswith("@F"):
            return c["env"]["f0"] + 256 * (int(t[2:]) % 32)
        return int(t, 0)
    return int(t)


def cstrings(c):
    return {int(k): bytes.fromhex(v) for k, v in c["strings"].items()}


def cobjs(c):
    return {int(k): v for k, v in c["objs"].items()}


def coq_aval(c, a):
    if a[0] == "int":
        if len(a) > 2:                       # the word the caller placed in this register / stack slot / rax
            return "%s i %d" % ({"reg": "ARegAt", "stack": "AStkAt", "ret": "ARetAt"}[a[2][0]], a[2][1])
        return "AInt %s" % num(resolve(c, a[1]))
    if a[0] == "str":
        return "AStrAt i %s" % num(c["env"]["saddr"][a[1]])
    if a[0] == "null":
        return "ANull"
    if a[0] == "at":
        return "AStrAt i %s" % num(resolve(c, a[1]))
    if a[0] == "bad":
        return "ABad %s" % num(resolve(c, a[1] if len(a) > 1 else "@BAD"))
    if a[0] == "sym":
        return "ASym %s %s" % (num(c["env"]["f0"] + 256 * (a[1] % 32)), nlist(b"fn%02d" % (a[1] % 32)))
    if a[0] == "flt":
        return "AFlt %d" % a[1]
    return "AStruct"


def coq_case(c):
    """(call, observation) and judged terms of one executed case"""
    specs = c["pspecs"] + c["prspecs"]
    strs = cstrings(c)
    objs = cobjs(c)
    stk = [resolve(c, w) for w in c["stack"]]
    stk = stk + [0] * (23 - len(stk)) + [SENTINEL_RET]
    pages = ""
    if any(isinstance(w, str) and w.startswith("@EDGE") for w in c["regs"] + c["stack"] + c["ret"][:2]):
        pages = "(%s, %s)" % (num(c["env"]["edge"] - 4096), blist(b"E" * 4095))      # the readable page in front of @EDGE
    inp = ("{| regs := %s; xmm := [%s]; stk := %s; rets := %s; strs := [%s]; wrds := [%s] |}"
           % (nlist(resolve(c, w) for w in c["regs"]), num(c.get("xmm0", 0)), nlist(stk),
              nlist(resolve(c, w) for w in c["ret"][:2]),
              "; ".join(["(%s, %s)" % (num(c["env"]["saddr"][i]), blist(s)) for i, s in sorted(strs.items())]
                        + ([pages] if pages else [])),
              "; ".join("(%s, %s)" % (num(c["env"]["saddr"][i] + 8 * j), num(resolve(c, w)))
                        for i, ws in sorted(objs.items()) for j, w in enumerate(ws))))
    f0 = c["env"]["f0"]
    t = c["times"]
    call = ("{| c_specs := [%s]; c_inp := i; c_fill := %d; c_addr := %s; c_t0 := %s; c_t1 := %s; c_t2 := %s; "
            "c_t3 := %s; c_child := %s; c_has_args := %s; c_has_ret := %s; c_captured := %s |}"
            % ("; ".join(coq_spec(s) for s in specs), FILL, num(f0 + 256 * c["k"] + 4), num(t[0]), num(t[1]), num(t[2]),
               num(t[3]), num(f0 + 4),
               coq.coq_bool(bool(c["tflags"] & 64)), coq.coq_bool(bool(c["tflags"] & 256)),
               coq.coq_bool(not c.get("abandoned"))))
    o = c["obs"]
    imgs = []
    for img, flag, which in ((o["img_entry"], o["flags_entry"] & FL_ARGUMENT, "first"),
                             (o["img_exit"], o["flags_exit"] & FL_RETVAL, "last")):
        cut = None
        if flag and len(img) >= 4:
            n = int.from_bytes(img[:4], "little")
            st = o["stream"]
            pl = st[16:16 + n] if which == "first" else st[len(st) - ALIGN(n, 8):][:n]
            imgp = img.ljust(4 + n, bytes([FILL]))
            if n <= 4096 and len(pl) == n and imgp[4:4 + n] == pl:
                cut, img = n, imgp[:4] + imgp[4 + n:]
        imgs.append((img, cut))
    obs = ("{| o_img_entry := %s; o_img_exit := %s; o_cut_entry := %s; o_cut_exit := %s; o_hi_entry := %d; "
           "o_hi_exit := %d; o_stream := %s; o_args_text := %s; o_ret_text := %s |}"
           % (blist(imgs[0][0]), blist(imgs[1][0]),
              "None" if imgs[0][1] is None else "Some %d" % imgs[0][1],
              "None" if imgs[1][1] is None else "Some %d" % imgs[1][1],
              len(o["img_entry"]), len(o["img_exit"]), blist(o["stream"]),
              blist(o["args_text"] if o["args_text"] is not None else b"\0?"),
              blist(o["ret_text"] if o["ret_text"] is not None else b"\0?")))
    return ("(let i := %s in {| t_call := %s; t_obs := %s; t_aargs := [%s]; t_aret := [%s]; t_py := %s; t_lua := %s |})"
            % (inp, call, obs, "; ".join(coq_aval(c, a) for a in c["actual"]),
               "; ".join(coq_aval(c, a) for a in c["ractual"]), coq_sobs(o.get("py")), coq_sobs(o.get("lua"))))


PRE = """From Coq Require Import NArith ZArith List Bool.
Import ListNotations.
Require Import UV.C09.Model.
Local Open Scope N_scope.
"""


def evaluate(ctx, batches, name="cases"):
    """batches: list of lists of executed cases (one symbol table per batch).
    returns {"mismatch": [(b, i)], "violations": [(b, i)]} or None"""
    defs, evals = [], []
    for bi, cases in enumerate(batches):
        f0 = cases[0]["env"]["f0"]
        syms = "; ".join("(%s, %d, %s)" % (num(f0 + 256 * k), mch.SIZES[k], nlist(b"fn%02d" % k)) for k in range(32))
        defs.append("Definition syms%d : symtab := [%s]." % (bi, syms))
        defs.append("Definition cases%d : list tcase := [\n%s\n]." % (bi, ";\n".join(coq_case(c) for c in cases)))
        evals.append(("mismatch%d" % bi, "bad_indices (t_agrees syms%d) cases%d 0" % (bi, bi)))
        evals.append(("violations%d" % bi, "bad_indices t_ok cases%d 0" % bi))
        evals.append(("sviolations%d" % bi, "bad_indices t_ok_script cases%d 0" % bi))
        # the spec list libmcount holds (SPECS) against the model of add_arg_spec applied to the options as given
        tabs = []
        for c in cases:
            gs = groups_of(c)
            # libmcount: uftrace_setup_trigger, then _argument, then _retval
            opts = [g for o in "TAR" for g in gs if g["opt"] == o]
            tabs.append("([%s], [%s])" % (
                "; ".join("(%s, [%s])" % (coq.coq_bool(not g.get("regex")), "; ".join(coq_spec(x) for x in c["gparsed"][id(g)]))
                          for g in opts),
                "; ".join(coq_spec(m) for m in c["mspecs"])))
        defs.append("Definition tabs%d : list (list (bool * list spec) * list spec) := [\n%s\n]." % (bi, ";\n".join(tabs)))
        evals.append(("tmismatch%d" % bi, "bad_indices (fun p => specs_eqb (merge_opts (fst p)) (snd p)) tabs%d 0" % bi))
    res = coq.run_cases(ctx, name, PRE, "\n".join(defs), evals)
    if res is None:
        return None
    out = {"mismatch": [], "violations": [], "script": set()}
    for bi in range(len(batches)):
        out["mismatch"] += [(bi, i) for i in coq.parse_nat_list(res["mismatch%d" % bi])]
        out["violations"] += [(bi, i) for i in coq.parse_nat_list(res["violations%d" % bi])]
        out["script"] |= set((bi, i) for i in coq.parse_nat_list(res["sviolations%d" % bi]))
        out.setdefault("table", []).extend((bi, i) for i in coq.parse_nat_list(res["tmismatch%d" % bi]))
    return out


def model_detail(ctx, c, name="detail"):
    """the model's observation for one case, for the replay file of a disagreement"""
    f0 = c["env"]["f0"]
    syms = "; ".join("(%s, %d, %s)" % (num(f0 + 256 * k), mch.SIZES[k], nlist(b"fn%02d" % k)) for k in range(32))
    defs = "Definition syms : symtab := [%s].\nDefinition cc := t_call %s.\n" % (syms, coq_case(c))
    res = coq.run_cases(ctx, name, PRE, defs, [("img_entry", "o_img_entry (model_call syms cc)"),
                                               ("img_exit", "o_img_exit (model_call syms cc)"),
                                               ("stream", "o_stream (model_call syms cc)"),
                                               ("args_text", "o_args_text (model_call syms cc)"),
                                               ("ret_text", "o_ret_text (model_call syms cc)")])
    if res is None:
        return None
    return {k: bytes(coq.parse_nat_list(v)) for k, v in res.items()}


# ================================================================== judging outside Coq: dump values
def judge_dump(c):
    """`uftrace dump` prints the low spec->size bytes of every scalar (all return value specs too): they must be
    the bytes passed.  returns None or a description of the first wrong value"""
    if c.get("abandoned") and c["obs"].get("dump_ret"):
        return "the call was closed without a return value, dump shows one: %r" % (c["obs"]["dump_ret"],)
    for pspecs, actual, got, what in ((c["pspecs"], c["actual"], c["obs"].get("dump_args"), "args"),
                                      (c["prspecs"], c["ractual"], c["obs"].get("dump_ret"), "retval")):
        if got is None or not pspecs or (what == "retval" and c.get("abandoned")):
            continue
        if not fits(c, pspecs, actual):
            continue
        byidx = {g[0]: g for g in got}
        for i, (sp, a) in enumerate(zip(pspecs, actual)):
            if what == "args" and FMTS[sp["fmt"]] in ("FStr", "FStdStr") and a[0] in ("str", "at", "null", "bad"):
                want = (b"NULL" if a[0] == "null" else ("<%#x>" % resolve(c, a[1] if len(a) > 1 else "@BAD")).encode()
                        if a[0] == "bad" else str_bytes(c, a))
                if len(want) > ARG_STR_MAX:
                    want = want[:ARG_STR_MAX - 3] + b"..."
                gs = c["obs"].get("dump_strs", {}).get(i)
                if b"\n  args[" in want or b"\n" in want:
                    continue                      # the line format of dump cannot be split safely
                if gs != want:
                    return "args[%d] (string): dump shows %r, the string passed is %r" % (i, gs, want)
                continue
            if a[0] not in ("int", "flt") or FMTS[sp["fmt"]] in ("FStr", "FStdStr", "FStruct", "FPtr", "FEnum"):
                continue
            g = byidx.get(i)
            want = (resolve(c, a[1]) if a[0] == "int" else a[1]) & ((1 << (8 * sp["size"])) - 1)
            if g is None or g[3] != want or g[2] != 8 * sp["size"]:
                return "%s[%d] (%s, %d bytes): dump shows %s, the value passed is %#x" % (
                    what, i, FMTS[sp["fmt"]], sp["size"], g, want)
    return None


def fits(c, pspecs, actual):
    n = 0
    strs = cstrings(c)
    for sp, a in zip(pspecs, actual):
        if a[0] in ("str", "at"):
            n += ALIGN(min(len(str_bytes(c, a)), ARG_STR_MAX) + 2, 4)
        elif a[0] == "null":
            n += 8
        elif a[0] == "bad":
            n += ALIGN(len("<%#x>" % resolve(c, a[1] if len(a) > 1 else "@BAD")) + 2, 4)
        else:
            n += ALIGN(sp["size"], 4)
    return n <= MAX_SIZE


# ================================================================== end to end: compiled programs, --auto-args
E2E_HEAD = """#include <complex.h>
#include <stdlib.h>
#include <string.h>
struct big { long a, b, c; };
struct pair { int x, y; };
struct dd { double a, b; };
enum color { RED, GREEN, BLUE = 5, MAUVE = 100001 };
enum flags { FA = 1, FB = 2, FC = 4, FD = 0x100 };
"""
E2E_ENUM = {"enum color": {"RED": 0, "GREEN": 1, "BLUE": 5, "MAUVE": 100001},
            "enum flags": {"FA": 1, "FB": 2, "FC": 4, "FD": 0x100}}
# calls of libc functions at the end of main: their specs come from the built-in auto-args table (utils/auto-args.h)
E2E_LIBC_CALLS = '  sink += atoi("4217");\n  sink += strcmp(zz, "zebra");\n  sink += getenv("C09_NOT_SET") != 0;\n'
E2E_LIBC_LINES = [b'  atoi("4217") = 4217;', b'  strcmp("zebra", "zebra") = 0;', b'  getenv("C09_NOT_SET") = "NULL";']
# (C type, kind, bits, signed)
E2E_TYPES = [("int", "int", 32, True), ("unsigned int", "int", 32, False), ("long", "int", 64, True),
             ("unsigned long", "int", 64, False), ("short", "int", 16, True), ("unsigned short", "int", 16, False),
             ("signed char", "int", 8, True), ("unsigned char", "int", 8, False), ("long long", "int", 64, True),
             ("char", "char", 8, True), ("const char *", "str", 64, False), ("double", "flt", 64, True),
             ("float", "flt", 32, True), ("long double", "flt", 80, True), ("struct big", "struct", 192, False),
             ("struct pair", "struct", 64, False), ("int *", "nullptr", 64, False), ("void (*%s)(void)", "fnptr", 64, False),
             ("enum color", "enum", 32, False), ("enum flags", "enum", 32, False), ("struct dd", "structdd", 128, False)]


def int_cands(v, bits):
    """renderings that denote the C value v of an integer type of this width"""
    out = set()
    for b in sorted({bits, 32, 64}):
        if b < bits:
            continue
        u = v % (1 << b)
        sgn = u - (1 << b) if u >= (1 << (b - 1)) else u
        out |= {str(u), str(sgn), "0" if u == 0 else hex(u), "0" if u == 0 else "0" + oct(u)[2:]}
        if b < 64:
            # a narrower value in a 64-bit stack slot: the bits above it are not defined by the ABI, compilers
            # sign-extend an immediate (pushq) - the same value at its own width
            x = sgn % (1 << 64)
            out |= {str(x), hex(x), "0" + oct(x)[2:]} if x else set()
    return sorted(out)


class E2EGen:
    def __init__(self, rng):
        self.rng = rng

    def value(self, t):
        r = self.rng
        ct, kind, bits, signed = t
        if kind == "int":
            lo, hi = (-(1 << (bits - 1)), (1 << (bits - 1)) - 1) if signed else (0, (1 << bits) - 1)
            v = r.choice([0, 1, lo, hi, 100000, 100001, -100000, -100001, 7, -5, 0xffff0000, 0xffff0001, 0xffffffff,
                          0x100000000, r.randrange(lo, hi + 1), r.randrange(lo, hi + 1)])
            v = min(max(v, lo), hi)
            if bits == 64 and 0xffff0000 < v <= 0xffffffff:
                v = 0xffff0000              # known-defect class (64-bit value shown as negative 32-bit number)
            sfx = {("long", True): "L", ("long", False): "UL", ("long long", True): "LL"}.get((ct.replace("unsigned ", ""), signed), "")
            lit = "(%s)%d%s" % (ct, v, "ULL" if not signed and bits == 64 else ("LL" if bits == 64 else ""))
            if v == lo and signed and bits >= 32:
                lit = "(%s)(%d%s - 1)" % (ct, v + 1, "LL" if bits == 64 else "")
            return lit, ["txt", int_cands(v, bits), ["ints", sorted(set(int(x, 0) if not x.startswith("0") or x == "0" or
                                                                       x.startswith("0x") else int(x, 8)
                                                                       for x in int_cands(v, bits)))]]
        if kind == "enum":
            defs = E2E_ENUM[ct]
            if ct == "enum color" or r.random() < 0.3:
                nm = r.choice(sorted(defs))
                return nm, ["txt", [nm], ["ints", [defs[nm]]]]
            names = r.sample(sorted(defs), r.randrange(2, 4))          # an OR of distinct flag bits
            v = sum(defs[n] for n in names)
            return "(enum flags)(%s)" % "|".join(names), ["txt", ["|".join(p) for p in itertools.permutations(names)],
                                                          ["ints", [v]]]
        if kind == "char":
            ch = r.choice("xyzAZ09 _-+")
            return "'%s'" % ch, ["txt", ["'%s'" % ch], ["str", ch]]
        if kind == "str":
            if r.random() < 0.1:
                return "(const char *)0", ["null"]
            n = r.choice([0, 1, 2, 3, 5, 13, 30, 95, 97, 98, 99, 110])
            sv = "".join(r.choice("abcdefghijklmnopqrstuvwxyzABCDEFGHIJKLMNOPQRSTUVWXYZ0123456789 _") for _ in range(n))
            return '"%s"' % sv, ["strv", sv]
        if kind == "flt":
            v = r.choice([0.0, 1.5, -2.25, 1024.125, -0.5, 3.25, 100000.0, r.randrange(-4000, 4000) / 8.0])
            sfx = {32: "f", 64: "", 80: "L"}[bits]
            fb = int.from_bytes(struct.pack("<f", v), "little") if bits == 32 else int.from_bytes(struct.pack("<d", v), "little")
            return "%r%s" % (v, sfx), ["txt", ["%f" % v], ["flt", 4 if bits == 32 else 8, fb, bits, v]]
        if kind == "structdd":
            a, b = r.choice([1.5, -2.25, 1024.125, 0.1, 3.0]), r.choice([2.25, 1e10, -0.5, 7.0])
            return "(struct dd){%r, %r}" % (a, b), ["structv", struct.pack("<dd", a, b).hex()]
        if kind == "struct":
            return ("(struct big){1, 2, 3}" if "big" in ct else "(struct pair){7, 8}"), ["struct"]
        if kind == "nullptr":
            return "(int *)0", ["txt", ["0"], ["ints", [0]]]
        return "g0", ["txt", ["&g0"], ["anyint"]]

    def function(self, k, types=None):
        r = self.rng
        types = types or [r.choice(E2E_TYPES) for _ in range(r.randrange(1, 8))]
        rett = r.choice([E2E_TYPES[0], E2E_TYPES[2], E2E_TYPES[10], E2E_TYPES[11], None, E2E_TYPES[1], E2E_TYPES[12],
                         E2E_TYPES[13], E2E_TYPES[18]])
        params, vals, acts = [], [], []
        for i, t in enumerate(types):
            ct = t[0]
            params.append((ct % ("p%d" % i)) if "%s" in ct else "%s p%d" % (ct, i))
            lit, act = self.value(t)
            vals.append(lit)
            acts.append(act)
        if rett is None:
            rtype, body, ract = "void", "", None
        else:
            lit, ract = self.value(rett)
            rtype, body = rett[0], "return %s;" % lit
        src = "__attribute__((noinline)) %s g%d(%s) { sink++; %s }\n" % (rtype, k, ", ".join(params) or "void", body)
        call = "  g%d(%s);\n" % (k, ", ".join(vals))
        return {"name": "g%d" % k, "src": src, "call": call, "actual": acts, "ractual": ract,
                "types": [t[0] for t in types], "rtype": rtype}


def e2e_program(funcs):
    return (E2E_HEAD + "volatile int sink;\n__attribute__((noinline)) void g0(void) { sink++; }\n"
            + "".join(f["src"] for f in funcs) + "int main(void) {\n  char zz[8];\n  strcpy(zz, \"zebra\");\n  g0();\n"
            + "".join(f["call"] for f in funcs) + E2E_LIBC_CALLS + "  return 0;\n}\n")


def e2e_aval(a):
    if a[0] == "txt":
        return "ATxt [%s]" % "; ".join(blist(t.encode()) for t in a[1])
    if a[0] == "strv":
        return "AStr %s" % blist(a[1].encode())
    if a[0] == "null":
        return "ANull"
    return "AStruct"


def e2e_saval(a, record_time):
    """what a script must receive for the C-level value a"""
    if a[0] == "txt":
        k = a[2]
        if k[0] == "ints":
            return "AScr [%s] [] []" % "; ".join("(%d)%%Z" % x for x in k[1])
        if k[0] == "str":
            return "AScr [] [%s] []" % blist(k[1].encode())
        if k[0] == "flt":
            # libmcount cannot touch floating-point values: listed finding script-record-float
            if record_time:
                return "AScr [] [%s] []" % blist(b"<float>")
            return "AScr [] [] [(10, 0)]" if k[3] == 80 else "AScr [] [] [(%d, %s)]" % (k[1], num(k[2]))
        return "AAnyInt"
    return e2e_aval(a)


def parse_e2e_script(out, funcs, specs_of):
    """lines of the logging script -> {name: {"args": [...] | None, "ret": [...] | None}} for the calls of depth 1"""
    res = {}
    for line in out.decode("latin-1").split("\n"):
        k = line.split(" ")
        if len(k) < 4 or k[0] not in ("E", "X") or k[2] != "1" or k[1] not in specs_of:
            continue
        pa, pr = specs_of[k[1]]
        d = res.setdefault(k[1], {"args": None, "ret": None, "n": 0})
        if k[0] == "E":
            d["n"] += 1
            d["args"] = None if k[3] == "-" else [script_token(t, pa[i] if i < len(pa) else None) for i, t in enumerate(k[4:])]
        else:
            d["ret"] = None if k[3] == "-" else [script_token(t, pr[0] if pr else None) for t in k[4:5]]
    return res


def x87_bits(v):
    """the 80-bit extended encoding of the double v (exact)"""
    import math
    if v == 0:
        return 0
    m, e = math.frexp(abs(v))
    return int(m * (1 << 64)) | (((e - 1 + 16383) | (0x8000 if v < 0 else 0)) << 64)


def e2e_dump(ctx, impl, funcs, items, data, asan_dir=None):
    """`uftrace dump` on the data of a traced program: the raw values must be the values passed (third reader)"""
    out = []
    objdir = asan_dir or impl.objdir
    p = subprocess.run(["timeout", "120", os.path.join(objdir, "uftrace"), "dump", "--no-pager", "-d", data],
                       capture_output=True, timeout=150)
    if (p.returncode != 0 and not asan_dir) or sanitizer_report(p.stderr):
        return [(items[0][0], "uftrace dump%s fails: rc=%d %s" % (" (ASan build)" if asan_dir else "", p.returncode,
                                                              p.stderr[:600].decode("latin-1")))]
    text = p.stdout
    for f, pa, pr in items:
        a = text.find(b"[entry] %s(" % f["name"].encode())
        b = text.find(b"[exit ] %s(" % f["name"].encode(), a) if a >= 0 else -1
        e = text.find(b"\n", text.find(b"[entry] ", b + 1)) if b >= 0 else -1
        if a < 0 or b < 0:
            out.append((f, "uftrace dump has no entry/exit record of %s" % f["name"]))
            continue
        for seg, truths, kind in ((text[a:b], f["actual"], "args"),
                                  (text[b:text.find(b"[entry] ", b + 1) if text.find(b"[entry] ", b + 1) > 0 else len(text)],
                                   [f["ractual"]] if f["ractual"] is not None else [], "retval")):
            for i, t in enumerate(truths):
                key = (b"args[%d] " % i) if kind == "args" else b"retval "
                m = re.search(rb"\n  " + re.escape(key) + rb"([^\n]*)", seg)
                line = m.group(1) if m else None
                bad = None
                if t[0] == "strv":
                    want = t[1].encode()
                    want = want if len(want) <= ARG_STR_MAX else want[:ARG_STR_MAX - 3] + b"..."
                    if line != b"str: " + want:
                        bad = want
                elif t[0] == "null":
                    if line != b"str: NULL":
                        bad = b"NULL"
                elif t[0] == "structv":
                    m4 = re.search(rb"\n  " + re.escape(key) + rb"struct [^\n]*:((?:\n\t[0-9a-f ]+)+)", seg)
                    got = bytes.fromhex(m4.group(1).decode().replace("\n", "").replace("\t", "").replace(" ", "")) if m4 else None
                    if got != bytes.fromhex(t[1]):
                        line, bad = got.hex() if got is not None else line, t[1]
                elif t[0] == "txt" and len(t) > 2 and t[2][0] in ("ints", "flt", "str"):
                    m2 = re.match(rb"[a-zA-Z](\d+): 0x([0-9a-f]+)$", line or b"")
                    m3 = re.match(rb"enum \S+: .* \((-?\d+)\)$", line or b"")
                    k = t[2]
                    if re.match(rb"p: ", line or b""):
                        if k[0] == "ints" and line != b"p: " + (b"0" if k[1] == [0] else b"?"):
                            bad = k[1]
                    elif m3 and k[0] == "ints":
                        if int(m3.group(1)) not in k[1]:
                            bad = k[1]
                    elif not m2:
                        bad = "a raw value"
                    else:
                        bits, val = int(m2.group(1)), int(m2.group(2), 16)
                        if k[0] == "ints" and val not in [c % (1 << bits) for c in k[1]]:
                            bad = k[1]
                        elif k[0] == "str" and val != ord(k[1]):
                            bad = k[1]
                        elif k[0] == "flt" and val != (x87_bits(k[4]) if k[3] == 80 else k[2]):
                            bad = hex(x87_bits(k[4]) if k[3] == 80 else k[2])
                if bad is not None:
                    out.append((f, "uftrace dump shows %s %r for %s[%d], the value passed is %r"
                                % (kind, line, kind, i, bad)))
    return out


def e2e_scripts(ctx, impl, funcs, items, d, data, exe, tag):
    """what scripts receive for the calls of a traced program: at analysis time (uftrace script, python and lua, on
    the recorded data) and at record time (uftrace record -S, python and lua).  returns [(func, problem)]"""
    uft = os.path.join(impl.objdir, "uftrace")
    specs_of = {f["name"]: (pa, pr) for f, pa, pr in items}
    runs = []
    for lang, text in (("py", LOG_PY), ("lua", LOG_LUA)):
        sc = os.path.join(d, "log." + lang)
        open(sc, "w").write(text)
        p = subprocess.run(["timeout", "60", uft, "script", "--no-pager", "-S", sc, "-d", data], capture_output=True, timeout=90)
        runs.append((lang, False, p))
        p = subprocess.run(["timeout", "60", uft, "record", "--no-pager", "--no-event", "--libmcount-path=" + impl.objdir,
                            "-a", "-S", sc, "-d", data + "-" + lang, exe], capture_output=True, timeout=90, cwd=d)
        runs.append((lang, True, p))
    # ... and with a time filter that keeps every record out of the data: the script still gets every call, and the
    # return value it sees must be the function's, not what was left in the buffer
    p = subprocess.run(["timeout", "60", uft, "record", "--no-pager", "--no-event", "--libmcount-path=" + impl.objdir,
                        "-a", "-t", "1s", "-S", os.path.join(d, "log.py"), "-d", data + "-t", exe],
                       capture_output=True, timeout=90, cwd=d)
    runs.append(("py", True, p))
    out, terms, index = [], [], []
    for lang, rec, p in runs:
        if p.returncode != 0:
            out.append((items[0][0], "uftrace %s -S log.%s fails: rc=%d %s" % ("record" if rec else "script", lang, p.returncode,
                                                                         p.stderr[-300:].decode("latin-1"))))
            continue
        seen = parse_e2e_script(p.stdout, funcs, specs_of)
        for f, pa, pr in items:
            o = seen.get(f["name"])
            if o is None or o["n"] != 1:
                out.append((f, "%s-time %s script: no (or repeated) entry callback for %s" % ("record" if rec else "analysis", lang, f["name"])))
                continue
            def opt(x):
                return "None" if x is None else "Some [%s]" % "; ".join(coq_oitem(i) for i in x)
            terms.append("(%s, [%s], [%s], %s, %s)" % (
                "Py" if lang == "py" else "Lua",
                "; ".join("(%s, %s)" % (coq_spec(sp), e2e_saval(a, rec)) for sp, a in zip(pa, f["actual"])),
                "; ".join("(%s, %s)" % (coq_spec(sp), e2e_saval(f["ractual"], rec)) for sp in pr[:1]),
                opt(o["args"]), opt(o["ret"])))
            index.append((f, lang, rec, o))
            if rec and any(i == ("str", b"<float>") for i in (o["args"] or []) + (o["ret"] or [])):
                impl.record_float_placeholder = {"function": f["src"], "call": f["call"].strip(), "lang": lang,
                                                 "args": repr(o["args"]), "retval": repr(o["ret"])}
    if terms:
        defs = ("Definition items : list (lang * list (spec * aval) * list (spec * aval) * option (list oitem) * "
                "option (list oitem)) := [\n%s\n].\n" % ";\n".join(terms))
        res = coq.run_cases(ctx, "e2es_" + re.sub(r"\W", "_", tag), PRE, defs, [
            ("bad", "bad_indices (fun x => match x with (l, a, r, oa, or) => ok_script_args l a oa && ok_script_ret l r or end) items 0")])
        for i in (coq.parse_nat_list(res["bad"]) if res else []):
            f, lang, rec, o = index[i]
            out.append((f, "%s-time %s script receives args=%r retval=%r" % ("record" if rec else "analysis", lang, o["args"], o["ret"])))
    return out


def e2e_run(ctx, impl, funcs, tag, extra_opts=(), judge_ret=True, scripts=False, nonleaf=False, explicit=None,
            libc_lines=None):
    """compile, record with --auto-args (+ extra -A/-R options), replay; returns list of (func, problem or None).
    judge_ret=False: the extra options put further return value specs in front, only the arguments and the
    completeness of the call sequence are judged"""
    d = os.path.join(ctx.scratch, "e2e-" + tag)
    shutil.rmtree(d, ignore_errors=True)
    os.makedirs(d)
    src = os.path.join(d, "prog.c")
    open(src, "w").write(e2e_program(funcs))
    exe = os.path.join(d, "prog")
    p = subprocess.run(["gcc", "-pg", "-g", "-O0", "-o", exe, src, "-lm"], capture_output=True, text=True, timeout=120)
    if p.returncode != 0:
        raise RuntimeError("e2e program does not compile: " + p.stderr[-1500:])
    uft = os.path.join(impl.objdir, "uftrace")
    data = os.path.join(d, "data")
    p = subprocess.run(["timeout", "60", uft, "record", "--no-pager", "--no-event", "--libmcount-path=" + impl.objdir,
                        "-a"] + list(extra_opts) + ["-d", data, exe], capture_output=True, timeout=90, cwd=d)
    if p.returncode != 0:
        return [(None, "uftrace record -a failed rc=%d: %s" % (p.returncode, p.stderr[-400:].decode("latin-1")))]
    specs = {}
    cur = None
    for line in open(os.path.join(data, "prog.dbg"), errors="replace"):
        if line.startswith("F: "):
            cur = line.split()[2]
            specs[cur] = {"A": [], "R": []}
        elif line[:3] in ("A: ", "R: ") and cur:
            specs[cur][line[0]] = [x for x in line[3:].strip().lstrip("@").split(",") if x]
    p = subprocess.run(["timeout", "60", uft, "replay", "--no-pager", "-f", "none", "--no-comment"]
                       + (["--no-event"] if nonleaf else []) + ["-d", data], capture_output=True, timeout=90)
    shown = {}
    order = []
    if nonleaf:
        # the functions carry event records (hidden by --no-event): "  gK(args) {\n  } = ret;"
        for m in re.finditer(rb"(?m)^  (g\d+)(\(.*?\)) \{\n  \}( = .*;)?$", p.stdout):
            shown[m.group(1).decode()] = (m.group(2), m.group(3) or b"")
            order.append(m.group(1).decode())
    else:
        for m in re.finditer(rb"(?m)^  (g\d+)(\(.*?\))( = .*)?;$", p.stdout):
            shown[m.group(1).decode()] = (m.group(2), (m.group(3) + b";") if m.group(3) else b"")
            order.append(m.group(1).decode())
    items, out = [], []
    # every call of main, in order, and main's own exit: nothing behind a payload may be lost
    want = ([] if nonleaf else ["g0"]) + [f["name"] for f in funcs] if len(funcs) > 1 else None
    if p.returncode != 0 or b"invalid rstack" in p.stderr or not re.search(rb"(?m)^\}", p.stdout) \
            or (want is not None and order != want):
        lost = next((f for f in funcs if f["name"] not in shown), funcs[-1])
        out.append((lost, "replay lost or garbled records behind a payload: calls shown %s, stderr %r"
                    % (order, p.stderr[-200:].decode("latin-1"))))
        funcs = [f for f in funcs if f is not lost]
    elif want is not None:
        # library calls whose specs come from the built-in auto-args table
        for line in (libc_lines or E2E_LIBC_LINES):
            if not re.search(rb"(?m)^" + re.escape(line) + rb"$", p.stdout):
                out.append((funcs[-1], "--auto-args on a library call: replay has no line %r (it shows %r)"
                            % (line.decode(), [l for l in p.stdout.split(b"\n") if l.startswith(line[:6])])))
    for f in funcs:
        sp = specs.get(f["name"])
        if sp is None or f["name"] not in shown:
            out.append((f, "no debug info / no replay line for %s" % f["name"]))
            continue
        if explicit and f["name"] in explicit:
            # an explicit -A / -R spec for a function --auto-args knows too: libmcount keeps the explicit spec of that
            # direction only (update_filter: "ignore auto-args if it already has argspec"), the readers must do the same
            ex = explicit[f["name"]]
            if ex.get("A"):
                sp = dict(sp, A=[ex["A"]])
                f = dict(f, actual=[f["actual"][ex["j"]]])
            if ex.get("R"):
                sp = dict(sp, R=[ex["R"]])
        if len(sp["A"]) != len(f["actual"]) or (f["ractual"] is not None and len(sp["R"]) != 1):
            out.append((f, "--auto-args produced %d argument specs (%s) for %d parameters, %d return specs"
                        % (len(sp["A"]), ",".join(sp["A"]), len(f["actual"]), len(sp["R"]))))
            continue
        pa = impl.parse_specs(sp["A"])
        pr = impl.parse_specs(sp["R"]) if f["ractual"] is not None and judge_ret else []
        if any(x is None for x in pa + pr):
            out.append((f, "spec of --auto-args rejected by parse_argspec: %s %s" % (sp["A"], sp["R"])))
            continue
        f["specs"], f["rspecs"] = sp["A"], sp["R"]
        f["shown"] = (shown[f["name"]][0].decode("latin-1"), shown[f["name"]][1].decode("latin-1"))
        items.append((f, pa, pr))
    if items:
        defs = "Definition items : list (list (spec * aval) * list (spec * aval) * list N * list N) := [\n%s\n].\n" % ";\n".join(
            "([%s], [%s], %s, %s)" % ("; ".join("(%s, %s)" % (coq_spec(s), e2e_aval(a)) for s, a in zip(pa, f["actual"])),
                                      "; ".join("(%s, %s)" % (coq_spec(s), e2e_aval(f["ractual"])) for s in pr),
                                      blist(shown[f["name"]][0]),
                                      blist(shown[f["name"]][1] if f["ractual"] is not None and judge_ret else b""))
            for f, pa, pr in items)
        res = coq.run_cases(ctx, "e2e_" + re.sub(r"\W", "_", tag), PRE, defs, [
            ("bad", "bad_indices (fun x => match x with (a, r, ta, tr) => ok_args a ta && ok_ret r tr end) items 0")])
        bad = set(coq.parse_nat_list(res["bad"])) if res else set()
        if bad and os.environ.get("C09_DEBUG"):
            open("/var/tmp/C09-exp/bad-%s.v" % re.sub(r"\W", "_", tag), "w").write(defs + "\n(* bad: %r *)\n" % sorted(bad))
        for i, (f, pa, pr) in enumerate(items):
            out.append((f, ("replay shows %s%s" % f["shown"]) if i in bad else None))
        if explicit:
            out += e2e_dump(ctx, impl, funcs, items, data)
        if scripts:
            out += e2e_scripts(ctx, impl, funcs, items, d, data, exe, tag)
            out += e2e_dump(ctx, impl, funcs, items, data)
            if ctx.thorough():
                # memory safety of the readers on the same data (ASan + UBSan build of the current tree)
                asan = build.get_build("asan", ctx.log)
                out += e2e_dump(ctx, impl, funcs, items, data, asan_dir=asan)
                for cmd in (["replay", "-f", "none"], ["script", "-S", os.path.join(d, "log.py")],
                            ["script", "-S", os.path.join(d, "log.lua")]):
                    q = subprocess.run(["timeout", "120", os.path.join(asan, "uftrace")] + cmd + ["--no-pager", "-d", data],
                                       capture_output=True, timeout=150)
                    if sanitizer_report(q.stderr):
                        out.append((items[0][0], "ASan/UBSan report in `uftrace %s`: %s"
                                    % (" ".join(cmd[:1]), q.stderr[:800].decode("latin-1"))))
    return out


E2E_PTR_PROG = r'''
#include <stdio.h>
#include <string.h>
#include <sys/mman.h>
volatile int sink;
__attribute__((noinline)) int p1(const char *s) { sink++; return 1; }
__attribute__((noinline)) int p2(const char *s) { sink++; return 2; }
__attribute__((noinline)) int p3(const char *s) { sink++; return 3; }
__attribute__((noinline)) int p4(const char *s) { sink++; return 4; }
__attribute__((noinline)) int p5(const char *s) { sink++; return 5; }
__attribute__((noinline)) int p6(const char *s) { sink++; return 6; }
__attribute__((noinline)) const char *p7(int x) { sink++; return (const char *)mark; }
char *mark;
int main(void) {
  char *two = mmap(NULL, 8192, PROT_READ | PROT_WRITE, MAP_PRIVATE | MAP_ANONYMOUS, -1, 0);
  memset(two, 'E', 4095);
  two[4095] = 0;
  mprotect(two + 4096, 4096, PROT_NONE);
  mark = two + 4096;
  printf("EDGE=%lx\n", (unsigned long)(two + 4096));
  fflush(stdout);
  p1(two);            /* first byte of the mapping */
  p2(two + 4095);     /* its last byte: the NUL */
  p3(two + 4096);     /* one past the end: PROT_NONE behind */
  p4(two + 4092);
  p5((const char *)0);
  p6((const char *)16);  /* wild */
  p7(7);              /* returns the one-past-the-end pointer */
  puts("DONE");
  return 0;
}
'''


def e2e_pointers(ctx, impl):
    """string pointers at the boundaries of a readable mapping, end to end: the traced program must run to its end
    with its own output unchanged, and replay must show the strings / the raw address"""
    d = os.path.join(ctx.scratch, "e2e-ptr")
    shutil.rmtree(d, ignore_errors=True)
    os.makedirs(d)
    open(os.path.join(d, "p.c"), "w").write("char *mark;\n" + E2E_PTR_PROG.replace("char *mark;\n", "", 1))
    exe = os.path.join(d, "p")
    q = subprocess.run(["gcc", "-pg", "-g", "-O0", "-o", exe, os.path.join(d, "p.c")], capture_output=True, text=True, timeout=120)
    if q.returncode != 0:
        raise RuntimeError("pointer program does not compile: " + q.stderr[-800:])
    plain = subprocess.run([exe], capture_output=True, timeout=30, cwd=d)
    uft = os.path.join(impl.objdir, "uftrace")
    for variant, opts in (("explicit", ["-A", "^p[1-6]$@arg1/s", "-R", "p7@retval/s"]), ("auto-args", ["-a"])):
        data = os.path.join(d, "data-" + variant)
        p = subprocess.run(["timeout", "60", uft, "record", "--no-pager", "--no-event", "--libmcount-path=" + impl.objdir]
                           + opts + ["-d", data, exe], capture_output=True, timeout=90, cwd=d)
        ctx.case(key=("e2e-pointers", variant), tags=["e2e:pointers:" + variant])
        m = re.search(rb"EDGE=([0-9a-f]+)", p.stdout)
        ok = p.returncode == 0 and m and b"DONE" in p.stdout and b"terminated by signal" not in p.stderr \
            and re.sub(rb"EDGE=[0-9a-f]+", b"", p.stdout) == re.sub(rb"EDGE=[0-9a-f]+", b"", plain.stdout)
        problem = None
        if not ok:
            problem = "the traced program does not run to its end with its own output: rc=%d stdout=%r stderr=%r" % (
                p.returncode, p.stdout[-200:], p.stderr[-300:])
        else:
            edge = int(m.group(1), 16)
            r = subprocess.run(["timeout", "60", uft, "replay", "--no-pager", "-f", "none", "--no-comment", "-F", "^p[1-7]$",
                                "-d", data], capture_output=True, timeout=90)
            want = [b'p1("' + b"E" * 95 + b'...")', b'p2("")', b'p3("<%#x>")' % edge, b'p4("EEE")', b'p5("NULL")',
                    b'p6("<0x10>")', b'p7(7) = "<%#x>";' % edge]
            got = [l.strip() for l in r.stdout.split(b"\n") if re.match(rb"\s*p[1-7]\(", l)]
            got = [re.sub(rb"^(p[1-6]\(.*\))( = \d+)?;$", rb"\1", l) for l in got]
            got = [re.sub(rb"^p7\(7?\)", b"p7(7)", l) for l in got]
            if got != want:
                problem = "replay shows %r, expected %r" % (got, want)
        if problem:
            ctx.violation("C09 violated end to end (string pointers at the boundaries of a readable mapping, %s): %s"
                          % (variant, problem), {"mode": "e2e-pointers", "variant": variant, "program": E2E_PTR_PROG,
                                                 "record_options": opts}, True)


E2E_THROW_PROG = r"""// check(n, bias, why) returns twice(n) + bias, but throws for n == %(bad)d: that call never returns a value
#include <cstdio>
#include <stdexcept>
extern "C" {
__attribute__((noinline)) long twice(long n) { asm volatile("" ::: "memory"); return n * 2; }
__attribute__((noinline)) long check(long n, long bias, const char *why)
{
	if (n == %(bad)d)
		throw std::runtime_error(why);
	return twice(n) + bias;
}
}
int main()
{
	long sum = 0;
	for (long i = 1; i <= 5; i++) {
		try { sum += check(i, %(bias)d, "round"); }
		catch (std::exception &e) { sum -= 1; }
	}
	printf("sum %%ld\n", sum);
	return 0;
}
"""
E2E_EST_PROG = r"""// --estimate-return: no exit hook runs, every call is closed by libmcount at the next entry
#include <stdio.h>
__attribute__((noinline)) long value(long n, long k, const char *s) { asm volatile("" ::: "memory"); return n * k; }
int main(void)
{
	long sum = 0;
	for (long i = 1; i <= 3; i++)
		sum += value(i, %(k)d, "est");
	printf("sum %%ld\n", sum);
	return 0;
}
"""
E2E_PEXIT_PROG = r"""// a thread that ends in pthread_exit() inside nested traced calls: none of them returns a value
#include <pthread.h>
#include <stdio.h>
__attribute__((noinline)) long leave(long code, const char *why) { asm volatile("" ::: "memory"); pthread_exit((void *)code); return code; }
__attribute__((noinline)) long work(long id, long arg) { return leave(id + arg, "bye") + 1; }
static void *thr(void *p) { return (void *)work((long)p, %(arg)d); }
__attribute__((noinline)) long after(long v) { asm volatile("" ::: "memory"); return v + 1; }
int main(void)
{
	pthread_t t;
	void *r;
	pthread_create(&t, NULL, thr, (void *)5L);
	pthread_join(t, &r);
	printf("r %%ld\n", after((long)r));
	return 0;
}
"""


def e2e_abandoned(ctx, impl):
    """calls that are closed without a return value, end to end: a C++ function that throws, --estimate-return, and a
    thread that ends in pthread_exit() - under -A/-R.  The call shows its arguments and no return value, and every
    record behind it is still decoded (replay and dump to the end, no "invalid rstack")"""
    r = ctx.rng
    bad, bias, k, arg = r.randrange(2, 5), r.choice([100, -7, 1 << 33, 0xffff]), r.choice([7, -3, 1000001]), r.choice([11, 200, -6])
    d = os.path.join(ctx.scratch, "e2e-abandoned")
    shutil.rmtree(d, ignore_errors=True)
    os.makedirs(d)
    uft = os.path.join(impl.objdir, "uftrace")
    want_throw = ["main() {"]
    for i in range(1, 6):
        want_throw += ['  check(%d, %d, "round");' % (i, bias)] if i == bad else \
            ['  check(%d, %d, "round") {' % (i, bias), "    twice() = %d;" % (2 * i), "  } = %d;" % (2 * i + bias)]
    want_throw.append("}")
    progs = [
        ("throw", "t.cpp", ["g++"], E2E_THROW_PROG % {"bad": bad, "bias": bias}, [],
         ["-A", "check@arg1/i64,arg2/i64,arg3/s", "-R", "check@retval/i64", "-R", "twice@retval/i64"], ["-F", "main"],
         want_throw),
        ("estimate-return", "e.c", ["gcc"], E2E_EST_PROG % {"k": k}, ["--estimate-return"],
         ["-A", "value@arg1/i64,arg2/i64,arg3/s", "-R", "value@retval/i64"], ["-F", "main"],
         ["main() {"] + ['  value(%d, %d, "est");' % (i, k) for i in (1, 2, 3)] + ["}"]),
        ("pthread_exit", "x.c", ["gcc", "-pthread"], E2E_PEXIT_PROG % {"arg": arg}, [],
         ["-A", "work@arg1/i64,arg2/i64", "-A", "leave@arg1/i64,arg2/s", "-R", "work@retval/i64", "-R", "leave@retval/i64",
          "-A", "after@arg1/i64", "-R", "after@retval/i64"], ["-F", "work", "-F", "after"],
         # (libmcount writes the entries of the thread's open calls and no exit record: replay leaves them open)
         ["work(5, %d) {" % arg, '  leave(%d, "bye") {' % (5 + arg), "after(%d) = %d;" % (5 + arg, 6 + arg)]),
    ]
    for variant, src, cc, text, ropts, specs, fopts, want in progs:
        open(os.path.join(d, src), "w").write(text)
        exe = os.path.join(d, variant)
        q = subprocess.run(cc + ["-pg", "-g", "-O0", "-o", exe, os.path.join(d, src)], capture_output=True, text=True, timeout=180)
        if q.returncode != 0:
            raise RuntimeError("program for the abandoned calls (%s) does not compile: %s" % (variant, q.stderr[-800:]))
        plain = subprocess.run([exe], capture_output=True, timeout=30, cwd=d)
        data = os.path.join(d, "data-" + variant)
        opts = ["--no-libcall"] + ropts + specs
        p = subprocess.run(["timeout", "60", uft, "record", "--no-pager", "--no-event", "--libmcount-path=" + impl.objdir]
                           + opts + ["-d", data, exe], capture_output=True, timeout=90, cwd=d)
        ctx.case(key=("e2e-abandoned", variant), tags=["e2e:abandoned:" + variant])
        problem = None
        if p.returncode != 0 or p.stdout != plain.stdout or b"terminated by signal" in p.stderr:
            problem = "the traced program does not run to its end with its own output: rc=%d stdout=%r stderr=%r" % (
                p.returncode, p.stdout[-200:], p.stderr[-300:])
        else:
            rp = subprocess.run(["timeout", "60", uft, "replay", "--no-pager", "-f", "none", "--no-comment"] + fopts
                                + ["-d", data], capture_output=True, timeout=90)
            got = rp.stdout.decode("latin-1").split("\n\nuftrace stopped tracing with remaining functions")[0]
            got = got.rstrip("\n").split("\n")
            dp = subprocess.run(["timeout", "60", uft, "dump", "--no-pager", "-d", data], capture_output=True, timeout=90)
            if got != want:
                problem = "replay shows %r, expected %r (stderr %r)" % (got, want, rp.stderr[-200:])
            elif rp.returncode != 0 or b"invalid rstack" in rp.stderr + dp.stderr or dp.returncode != 0:
                problem = "the records behind the call are not decoded: replay rc=%d %r, dump rc=%d %r" % (
                    rp.returncode, rp.stderr[-200:], dp.returncode, dp.stderr[-200:])
        if problem:
            ctx.violation("C09 violated end to end (a call that is closed without a return value, %s): %s"
                          % (variant, problem), {"mode": "e2e-abandoned", "variant": variant, "program": text,
                                                 "record_options": opts}, True)


E2E_TRIG_PROG = r"""// specs of one function given partly by -T (trigger actions) and partly by -A / -R
#include <stdio.h>
static const char *const names[] = { "seven", "three-hundred", "a name of twenty-six bytes" };
__attribute__((noinline)) long lookup(int id, const char *name, long delta) { asm volatile("" ::: "memory"); return id + delta; }
__attribute__((noinline)) const char *name_of(int k) { asm volatile("" ::: "memory"); return names[k]; }
__attribute__((noinline)) double half(int n) { asm volatile("" ::: "memory"); return n / 2.0; }
__attribute__((noinline)) long after(long a, long b) { asm volatile("" ::: "memory"); return a + b; }
int main(void)
{
	long sum = 0;
	printf("PTR %p %p %p\n", (void *)names[0], (void *)names[1], (void *)names[2]);
	sum += lookup(7, names[0], -3);
	sum += after(11, 13);
	sum += lookup(300, names[1], 123456789);
	sum += name_of(2)[0];
	sum += (long)half(5);
	sum += after(17, 19);
	sum += name_of(0)[0];
	sum += (long)half(-9);
	printf("sum %ld\n", sum);
	return 0;
}
"""
E2E_TRIG_NAMES = ["seven", "three-hundred", "a name of twenty-six bytes"]
# (function, argument values, return value) in call order; a string argument is an index into the names
E2E_TRIG_CALLS = [("lookup", [7, ("s", 0), -3], 4), ("after", [11, 13], 24), ("lookup", [300, ("s", 1), 123456789], 123457089),
                  ("name_of", [2], ("s", 2)), ("half", [5], ("f", "2.500000")), ("after", [17, 19], 36),
                  ("name_of", [0], ("s", 0)), ("half", [-9], ("f", "-4.500000"))]
# the formats each parameter / return value may be given (the first is the natural one)
E2E_TRIG_FMTS = {"lookup": [["i32", "x32"], ["s", "x64"], ["i64", "x64"], ["i64", "x64"]], "after": [["i64"], ["i64", "x64"], ["i64"]],
                 "name_of": [["i32"], ["s", "x64"]], "half": [["i32", "x32"], ["f64"]]}


def e2e_trigger_split(ctx, impl):
    """the specs of a function split at random between -T actions and -A / -R options (also the same argument
    twice, the later option replacing the format), on a compiled program: replay must show every call with the values
    passed, in the order libmcount laid them out (-T, then -A, then -R; first mention fixes the position, last
    mention the format), and dump must read to the end"""
    r = ctx.rng
    d = os.path.join(ctx.scratch, "e2e-trigger")
    shutil.rmtree(d, ignore_errors=True)
    os.makedirs(d)
    open(os.path.join(d, "t.c"), "w").write(E2E_TRIG_PROG)
    exe = os.path.join(d, "t")
    q = subprocess.run(["gcc", "-pg", "-g", "-O0", "-o", exe, os.path.join(d, "t.c")], capture_output=True, text=True, timeout=120)
    if q.returncode != 0:
        raise RuntimeError("trigger-split program does not compile: " + q.stderr[-800:])
    uft = os.path.join(impl.objdir, "uftrace")

    def fmt_val(v, f, ptrs):
        if isinstance(v, tuple) and v[0] == "s":
            return '"%s"' % E2E_TRIG_NAMES[v[1]] if f == "s" else "%#x" % ptrs[v[1]]
        if isinstance(v, tuple):
            return v[1]
        bits = 64 if f.endswith("64") else 32
        return str(v) if f[0] == "i" else ("%#x" % (v % (1 << bits)) if v else "0")

    for rnd in range(ctx.n(4, 14)):
        opts, order, last = [], {}, {}
        for fn, fmts in E2E_TRIG_FMTS.items():
            specs = [("arg%d" % (i + 1), i) for i in range(len(fmts) - 1)] + [("retval", len(fmts) - 1)]
            r.shuffle(specs)
            specs = [x for x in specs if r.random() < 0.9]
            # once more, with another format, for some
            again = [x for x in specs if len(fmts[x[1]]) > 1 and r.random() < 0.3]
            items = [(x, fmts[x[1]][0]) for x in specs] + [(x, r.choice(fmts[x[1]])) for x in again]
            if rnd == 0 and fn == "lookup":
                items = [(("arg1", 0), "i32"), (("arg2", 1), "s"), (("arg3", 2), "i64")]       # the split of seed C09-8
            t_items = [it for n_, it in enumerate(items) if (r.random() < 0.5 if not (rnd == 0 and fn == "lookup") else n_ == 0)]
            o_items = [it for it in items if it not in t_items]
            if t_items:
                # one action, or one action per spec
                if r.random() < 0.5:
                    opts.append(("T", fn, t_items))
                else:
                    opts += [("T", fn, [it]) for it in t_items]
            a_items = [it for it in o_items if it[0][0] != "retval"]
            r_items = [it for it in o_items if it[0][0] == "retval"]
            if a_items:
                opts.append(("A", fn, a_items))
            if r_items:
                opts.append(("R", fn, r_items))
        if rnd != 0:
            r.shuffle(opts)
        cmd = []
        for o, fn, items in opts:
            cmd += ["-" + o, "%s@%s" % (fn, ",".join("%s/%s" % (x[0], f) for x, f in items))]
        # libmcount's list per function: options in the order -T, -A, -R
        for o_ in "TAR":
            for o, fn, items in opts:
                if o != o_:
                    continue
                for x, f in items:
                    order.setdefault(fn, [])
                    if x not in order[fn]:
                        order[fn].append(x)
                    last[(fn, x)] = f
        data = os.path.join(d, "data%d" % rnd)
        p = subprocess.run(["timeout", "60", uft, "record", "--no-pager", "--no-event", "--no-libcall",
                            "--libmcount-path=" + impl.objdir] + cmd + ["-d", data, exe], capture_output=True, timeout=90, cwd=d)
        ctx.case(key=("e2e-trigger", tuple(cmd)), tags=["e2e:trigger-split"])
        m = re.search(rb"PTR (\S+) (\S+) (\S+)", p.stdout)
        problem = None
        if p.returncode != 0 or not m or b"sum " not in p.stdout:
            problem = "the traced program does not run to its end: rc=%d stdout=%r stderr=%r" % (
                p.returncode, p.stdout[-200:], p.stderr[-300:])
        else:
            ptrs = [int(x, 16) for x in m.groups()]
            want = []
            for fn, args, ret in E2E_TRIG_CALLS:
                xs = order.get(fn, [])
                a = ", ".join(fmt_val(args[x[1]], last[(fn, x)], ptrs) for x in xs if x[0] != "retval")
                rv = [x for x in xs if x[0] == "retval"]
                want.append("%s(%s)%s;" % (fn, a, " = " + fmt_val(ret, last[(fn, rv[0])], ptrs) if rv else ""))
            rp = subprocess.run(["timeout", "60", uft, "replay", "--no-pager", "-f", "none", "--no-comment", "-d", data],
                                capture_output=True, timeout=90)
            got = [l.strip() for l in rp.stdout.decode("latin-1").split("\n")
                   if re.match(r"\s*(lookup|after|name_of|half)\(", l)]
            dp = subprocess.run(["timeout", "60", uft, "dump", "--no-pager", "-d", data], capture_output=True, timeout=90)
            if got != want:
                problem = "replay shows %r, the calls were %r (info file: %s)" % (
                    got, want, [l for l in open(os.path.join(data, "info"), errors="replace").read().split("\n") if "spec:" in l])
            elif rp.returncode != 0 or dp.returncode != 0 or b"invalid rstack" in rp.stderr + dp.stderr:
                problem = "the records behind a payload are not decoded: replay rc=%d %r, dump rc=%d %r" % (
                    rp.returncode, rp.stderr[-200:], dp.returncode, dp.stderr[-200:])
        if problem:
            ctx.violation("C09 violated end to end (specs of one function split between -T and -A/-R): " + problem,
                          {"mode": "e2e-trigger", "program": E2E_TRIG_PROG, "record_options": cmd}, True)
            break


# ---- format e:<enum> end to end: real DWARF (--auto-args), enumerators and values around 2^31, 2^32, 2^63, negative ones
E2E_ENUMS = {
    # name: (bits the compiler gives the type, enumerators)
    "mode": (32, [("M_READ", 1), ("M_WRITE", 2), ("M_EXEC", 4), ("M_SYNC", 0x80000000)]),
    "span": (64, [("SPAN_NONE", 0), ("SPAN_1", 1), ("SPAN_MAX31", 0x7fffffff), ("SPAN_U32", 0xffffffff),
                  ("SPAN_4G", 0x100000000), ("SPAN_TOP", 0x8000000000000000)]),
    "sgn": (32, [("NEG_BIG", -0x80000000), ("NEG", -3), ("ZERO", 0), ("POS", 5), ("POS_MAX", 0x7fffffff)]),
    "lsgn": (64, [("LNEG", -5000000000), ("LONE", 1), ("LPOS", 5000000000)]),
}


def c_lit(v):
    return "(-0x%xL - 1)" % (-v - 1) if v < 0 else "0x%x%s" % (v, "UL" if v >= 1 << 63 else "L" if v >= 1 << 31 else "")


def e2e_enum_values(r, name):
    bits, ens = E2E_ENUMS[name]
    vals = [v for _, v in ens]
    flags = [v for v in vals if v > 0]
    out = list(vals)
    out += [a | b for a in flags for b in flags if a < b and a & b == 0][:4]
    lo, hi = (-(1 << (bits - 1)), (1 << bits) - 1)
    extra = [8, 0x40000000, 0x7ffffffe, 0x80000001, 0xfffffffe, -7, 1 << 32, (1 << 32) + 1, (1 << 63) - 1, (1 << 63) + 2,
             -(1 << 40), r.getrandbits(bits), r.getrandbits(bits)]
    out += [v for v in extra if lo <= v <= hi and (min(vals) < 0 or v >= 0) and (bits == 64 or min(vals) >= 0 or v < (1 << 31))]
    return out


def e2e_enum(ctx, impl):
    """enum arguments and return values (format e:<enum>, specs and tables from DWARF through --auto-args): the text
    replay and dump show must be the model's text for the recorded value and stand for the value passed"""
    r = ctx.rng
    d = os.path.join(ctx.scratch, "e2e-enum")
    shutil.rmtree(d, ignore_errors=True)
    os.makedirs(d)
    src = ["#include <stdio.h>"]
    calls, exp = [], []                       # exp: (function, enum, value passed, is return value)
    for name, (bits, ens) in E2E_ENUMS.items():
        src.append("enum %s { %s };" % (name, ", ".join("%s = %s" % (n, c_lit(v)) for n, v in ens)))
        vals = e2e_enum_values(r, name)
        src.append("static const enum %s tab_%s[] = { %s };" % (name, name, ", ".join("(enum %s)%s" % (name, c_lit(v)) for v in vals)))
        src.append("static int idx_%s;" % name)
        src.append("__attribute__((noinline)) long set_%s(enum %s v) { asm volatile(\"\" ::: \"memory\"); return (long)v != 77; }" % (name, name))
        src.append("__attribute__((noinline)) enum %s get_%s(void) { asm volatile(\"\" ::: \"memory\"); return tab_%s[idx_%s++]; }"
                   % (name, name, name, name))
        for v in vals:
            calls.append("  sum += set_%s((enum %s)%s);" % (name, name, c_lit(v)))
            exp.append(("set_" + name, name, v, False))
        for v in vals:
            calls.append("  sum += (long)get_%s() != 77;" % name)
            exp.append(("get_" + name, name, v, True))
    src += ["int main(void)", "{", "  long sum = 0;"] + calls + ['  printf("sum %ld\\n", sum);', "  return 0;", "}"]
    text = "\n".join(src) + "\n"
    open(os.path.join(d, "e.c"), "w").write(text)
    exe = os.path.join(d, "e")
    q = subprocess.run(["gcc", "-pg", "-g", "-O0", "-o", exe, os.path.join(d, "e.c")], capture_output=True, text=True, timeout=120)
    if q.returncode != 0:
        raise RuntimeError("enum program does not compile: " + q.stderr[-800:])
    uft = os.path.join(impl.objdir, "uftrace")
    data = os.path.join(d, "data")
    p = subprocess.run(["timeout", "60", uft, "record", "--no-pager", "--no-event", "--no-libcall", "-a",
                        "--libmcount-path=" + impl.objdir, "-d", data, exe], capture_output=True, timeout=90, cwd=d)
    rp = subprocess.run(["timeout", "60", uft, "replay", "--no-pager", "-f", "none", "--no-comment", "-d", data],
                        capture_output=True, timeout=90)
    dp = subprocess.run(["timeout", "60", uft, "dump", "--no-pager", "-d", data], capture_output=True, timeout=90)
    lines = [l.strip() for l in rp.stdout.decode("latin-1").split("\n") if re.match(r"\s*[sg]et_(mode|span|sgn|lsgn)\(", l)]
    dl = re.findall(r"\n  args\[0\] enum (\w+): (.*) \((-?\d+)\)\n", dp.stdout.decode("latin-1"))
    problems, cases, soft = [], [], []
    if p.returncode != 0 or b"sum " not in p.stdout or rp.returncode != 0 or dp.returncode != 0 or len(lines) != len(exp):
        problems.append("record / replay / dump failed or replay shows %d of the %d calls (record rc=%d %r)"
                        % (len(lines), len(exp), p.returncode, p.stderr[-200:]))
    else:
        sets = [e for e in exp if not e[3]]
        if len(dl) != len(sets):
            problems.append("dump shows %d enum arguments for %d calls" % (len(dl), len(sets)))
        for i, (fn, en, v, isret) in enumerate(exp):
            bits, ens = E2E_ENUMS[en]
            rec = v % (1 << bits)             # what the register holds: the value at the width of the type, zero-extended
            m = re.match(r"%s\((.*)\) = (.*);$" % fn, lines[i])
            if not m:
                problems.append("replay line %r is not a call of %s with a return value" % (lines[i], fn))
                break
            cases.append((en, rec, m.group(2) if isret else m.group(1), "replay: " + lines[i], v))
        for (fn, en, v, _), (den, dtxt, dnum) in zip(sets, dl):
            bits, ens = E2E_ENUMS[en]
            rec = v % (1 << bits)
            srec = rec - (1 << 64) if rec >= 1 << 63 else rec
            if den != en or int(dnum) != srec:
                if not soft:
                    soft.append("dump shows enum %s %s (%s) for %s(%s = %d)" % (den, dtxt, dnum, fn, en, v))
                continue
            cases.append((en, rec, dtxt, "dump: enum %s: %s (%s)" % (den, dtxt, dnum), v))
    bad = []
    if cases and not problems:
        def table(en):
            # as parse_enum_string keeps it: values as C long, largest first
            sl = [(n, v - (1 << 64) if v >= 1 << 63 else v) for n, v in E2E_ENUMS[en][1]]
            return "[%s]" % "; ".join("(%s, (%d)%%Z)" % (nlist(n.encode()), v) for n, v in sorted(sl, key=lambda x: -x[1]))
        defs = "\n".join("Definition tab_%s : etable := %s." % (en, table(en)) for en in E2E_ENUMS)
        defs += "\nDefinition ecases : list (etable * N * list N) := [\n%s\n].\n" % ";\n".join(
            "(tab_%s, %s, %s)" % (en, num(rec), nlist(txt.encode("latin-1"))) for en, rec, txt, _, _ in cases)
        res = coq.run_cases(ctx, "e2e_enum", PRE.replace("NArith ZArith", "NArith ZArith") , defs, [
            ("mismatch", "bad_indices enum_agrees ecases 0"), ("bad", "bad_indices enum_ok ecases 0")])
        if res:
            bad = sorted(set(coq.parse_nat_list(res["bad"])) | set(coq.parse_nat_list(res["mismatch"])))
    for en, (bits, ens) in E2E_ENUMS.items():
        ctx.case(key=("e2e-enum", en), tags=["e2e:enum:" + en] + (["enum:negative"] if min(v for _, v in ens) < 0 else [])
                 + (["enum:64-bit"] if bits == 64 else []))
    return text, problems + soft, [(cases[i][3], cases[i][4], cases[i][0]) for i in bad]


def e2e_enum_judge(ctx, impl):
    text, problems, bad = e2e_enum(ctx, impl)
    for pr in problems[:1]:
        ctx.violation("C09 violated end to end (enum arguments / return values): " + pr,
                      {"mode": "e2e-enum", "program": text}, True)
    if bad:
        ctx.violation("C09 violated end to end (enum arguments / return values): the text shown for an enum value is not "
                      "the enumerators / number that stand for the value passed: %s" % "; ".join(
                          "%s for (enum %s)%d" % (shown, en, v) for shown, v, en in bad[:4]),
                      {"mode": "e2e-enum", "program": text, "wrong": [list(b) for b in bad[:20]]}, True)


E2E_WITNESSES = [
    ("autoargs-complex",
     {"name": "g1", "types": ["double _Complex", "const char *", "signed char"], "rtype": "void",
      "src": "__attribute__((noinline)) void g1(double _Complex z, const char *s, signed char c) { sink++; }\n",
      "call": "  g1(1.0 + 2.0 * I, \"str4\", -70);\n",
      "actual": [["txt", ["1.000000+2.000000i", "1.000000", "{...}"]], ["strv", "str4"], ["txt", int_cands(-70, 8)]],
      "ractual": None},
     "--auto-args takes a `double _Complex` parameter (passed in xmm0/xmm1) for an integer argument: it and every "
     "parameter behind it are shown from the wrong registers (g1(1+2i, \"str4\", -70) shows %s)"),
]


def e2e(ctx, impl):
    """real `uftrace record -a` (specs from DWARF) + replay on compiled programs with known argument values.
    returns the (key, text, still_fails, replay) tuples of the dedicated witnesses"""
    g = E2EGen(ctx.rng)
    found = []
    still = {}
    for key, w, text in E2E_WITNESSES:
        w = json.loads(json.dumps(w))
        res = e2e_run(ctx, impl, [w], key)
        problem = res[0][1] if res else "not run"
        ctx.case(key=("e2e", "witness", key), tags=["witness=" + key])
        still[key] = problem is not None
        found.append((key, text % (w.get("shown", ("?", ""))[0],), still[key],
                      {"mode": "e2e-witness", "program": e2e_program([w]), "shown": w.get("shown"),
                       "specs": w.get("specs"), "problem": problem}))
    fixed = [[E2E_TYPES[0], E2E_TYPES[10], E2E_TYPES[2], E2E_TYPES[9]],
             [E2E_TYPES[7], E2E_TYPES[4], E2E_TYPES[1], E2E_TYPES[8], E2E_TYPES[3], E2E_TYPES[0], E2E_TYPES[0], E2E_TYPES[10]],
             [E2E_TYPES[11], E2E_TYPES[12], E2E_TYPES[0], E2E_TYPES[10]],
             [E2E_TYPES[14], E2E_TYPES[10], E2E_TYPES[0]], [E2E_TYPES[15], E2E_TYPES[10], E2E_TYPES[0]],
             [E2E_TYPES[13], E2E_TYPES[10], E2E_TYPES[0]], [E2E_TYPES[10], E2E_TYPES[16], E2E_TYPES[17]],
             # repaired (fix: auto-args long double): a double behind a long double
             [E2E_TYPES[13], E2E_TYPES[0], E2E_TYPES[11]], [E2E_TYPES[11], E2E_TYPES[13], E2E_TYPES[12], E2E_TYPES[11]]]

    for rnd in range(ctx.n(1, 8)):
        funcs = [g.function(k + 1, t) for k, t in enumerate(fixed)] if rnd == 0 else []
        while len(funcs) < ctx.n(19, 26):
            r = ctx.rng
            types = [r.choice(E2E_TYPES) for _ in range(r.randrange(1, 8))]
            funcs.append(g.function(len(funcs) + 1, types))
        # (a) --auto-args alone; (b) --auto-args plus explicit catch-all return value specs of both classes, so that
        # every function is matched by several -R options (an integer-class and a float-class value are recorded)
        # (c) --auto-args plus an exit-time read trigger on every function: libc code runs inside the exit hook
        # before the (floating-point) return value is captured
        both = ["-R", "^g[0-9]+$@retval/f", "-R", "^g[1-9][0-9]*$@retval/x"]
        rdtr = ["-T", "^g[1-9][0-9]*$@read=proc/statm"]
        # (d) --auto-args plus an explicit -A / -R for functions auto-args knows too (DWARF functions and libc functions
        # of the built-in table), naming another set of arguments: writer and readers must build the same spec list
        explicit, mixed = {}, []
        for f in funcs:
            simple = 0
            while simple < min(len(f["actual"]), 6) and f["actual"][simple][0] in ("txt", "strv", "null") and \
                    (f["actual"][simple][0] != "txt" or f["actual"][simple][2][0] in ("ints", "str", "anyint")):
                simple += 1
            def numeric(a):
                # a plain integer (its text candidates are numbers; an enum is shown by name only with its own spec)
                return a[0] == "txt" and a[2][0] == "ints" and all(re.match(r"^-?\d|^0x", t) for t in a[1])
            cand = [j for j in range(simple) if f["actual"][j][0] in ("strv", "null") or numeric(f["actual"][j])]
            if cand and ctx.rng.random() < 0.6:
                j = ctx.rng.choice(cand)
                spec = "arg%d/%s" % (j + 1, "s" if f["actual"][j][0] in ("strv", "null") else ctx.rng.choice(["x", "d", "u"]))
                explicit[f["name"]] = {"A": spec, "j": j}
                mixed += ["-A", "%s@%s" % (f["name"], spec)]
            if f["ractual"] is not None and numeric(f["ractual"]) and ctx.rng.random() < 0.4:
                explicit.setdefault(f["name"], {})["R"] = "retval/x"
                mixed += ["-R", "%s@retval/x" % f["name"]]
        mixed += ["-A", "strcmp@arg2/s", "-R", "getenv@retval/p"]
        mixed_libc = [b'  atoi("4217") = 4217;', b'  strcmp("zebra") = 0;', b'  getenv("C09_NOT_SET") = 0;']
        for variant, opts, judge_ret in (("auto-args", [], True), ("auto-args+explicit-retvals", both, False),
                                         ("auto-args+read-trigger", rdtr, True), ("auto-args+explicit-specs", mixed, True)):
            nbad = 0
            for f, problem in e2e_run(ctx, impl, funcs, "p%d%s" % (rnd, "x" if opts is both else "r" if opts is rdtr
                                                                   else "m" if opts is mixed else ""),
                                      opts, judge_ret, scripts=not opts, nonleaf=opts is rdtr,
                                      explicit=explicit if opts is mixed else None,
                                      libc_lines=mixed_libc if opts is mixed else None):
                if f is None:
                    ctx.broken("end-to-end run failed: " + problem)
                    continue
                ctx.case(key=("e2e", variant, f["src"], f["call"]),
                         tags=["e2e:" + variant] + ["e2e:type=" + t for t in f["types"]])
                if problem:
                    nbad += 1
                    if nbad <= 2:
                        ctx.violation("C09 violated end to end (%s): %s(%s) called as %s: %s"
                                      % (variant, f["name"], ", ".join(f["types"]), f["call"].strip(), problem),
                                      {"mode": "e2e", "program": e2e_program(funcs), "function": f["name"],
                                       "record_options": ["-a"] + opts, "specs": f.get("specs"),
                                       "rspecs": f.get("rspecs"), "shown": f.get("shown")}, True)
    ph = getattr(impl, "record_float_placeholder", None)
    found.append(("script-record-float",
                  "at record time (uftrace record -S) a floating-point argument or return value is not available to the "
                  "script: ctx[\"args\"] carries the placeholder \"<float>\" instead of the value",
                  ph is not None, {"mode": "e2e-witness", "witness": "script-record-float", "observed": ph}))
    return found


# ================================================================== entry points
def common_meta(ctx):
    ctx.rule = ("a case is one traced call: an argument/return spec list (real parse_argspec) plus register, stack, "
                "string and pointer values; it is executed by the real libmcount entry/exit hooks in-process and the "
                "bytes they wrote are read back by the real `uftrace replay` and `uftrace dump`; profiles: boundary "
                "integers x formats x sizes (incl. /c64), string lengths 0..3 / 94..102 / long, NULL, unreadable and "
                "non-ASCII strings, std::string, pointers to functions, structs by register/stack, %reg and %stack "
                "addressing, payload totals 1008..1032 around the 1020-byte limit; plus regression cases of the repaired "
                "defects; plus end-to-end cases: one function of a generated, compiled C program traced with "
                "`record -a` (specs from DWARF); every in-process stream is also read by `uftrace script -S` with a "
                "python and a lua logging script (typed ctx[\"args\"] / ctx[\"retval\"]), every end-to-end program "
                "also by `uftrace script` and `uftrace record -S` in both languages; distinct = distinct (specs, "
                "values); non-trivial = at least one value is captured")
    ctx.trusted = [
        "Coq 8.16.1 kernel incl. vm_compute (no native_compute); axioms: see print_assumptions",
        "hand-written model coq/theories/C09/Model.v (save_to_argbuf, x86_64 mcount_arch_get_arg/retval, payload part "
        "of record_ret_stack, read_task_arg(s), get_argspec_string) and its executable checker ok_call",
        "generated constants coq/theories/Gen/Consts.v (ARGBUF_SIZE, ARG_STR_MAX, RECORD_MAGIC, record bit layout)",
        "harness/c/mc_harness.c (+ ops ARGFILL/ARGDUMP/ADDR/SADDR/OBJ/DUMPRAW/SPECS/XRF), harness/c/c09_harness.c, vf/mch.py, "
        "the python/lua logging scripts of props/c09.py and their line parser, "
        "vf/datadir.py (info/task/map/sym files of the synthetic directory), props/c09.py (generator, text splitting "
        "of the replay output at the nested sentinel call)",
    ]
    ctx.assume = [
        "x86_64 SysV, little endian, 64-bit data (lp64); -pg style entry (mcount_entry/mcount_exit); one thread",
        "the memory-region cache is an oracle: strings start at readable addresses and are NUL-terminated inside "
        "readable memory; the stack words of the caller are readable",
        "floating point text (\"%#f\"), x87 long double return values, enum names and --auto-args/DWARF specs are not "
        "modelled; replay's 1 KiB text buffer is not exceeded (display < 900 characters)",
        "scripts: 'matching' = integer-class values congruent modulo 2^(8*size) (signedness is not judged; a Lua number "
        "above 2^53 is the nearest double), floats bit-identical at the spec's size, strings byte-identical (Python: "
        "\"<invalid value>\" exactly when the bytes are not UTF-8), char a one-byte string, struct the text "
        "\"struct: NAME{}\"; retval = the first return value spec; at record time floats are the placeholder \"<float>\"",
    ]


def prepare(impl, cases):
    """the spec lists themselves come from libmcount (SPECS op: the list after add_arg_spec merged all options);
    here only the caller's view is completed"""
    for c in cases:
        if "slots" not in c:
            finish_slots(c)
        c["gparsed"] = {}
        for g in groups_of(c):
            ps = impl.parse_specs(g["specs"])
            if any(x is None for x in ps):
                raise RuntimeError("generated spec rejected by parse_argspec: %r" % (g["specs"],))
            c["gparsed"][id(g)] = ps


def public(c):
    """JSON-able replay form of a case"""
    keep = ("specs", "rspecs", "groups", "regs", "stack", "ret", "xmm0", "strings", "objs", "slots", "actual", "ractual",
            "tags", "skip_judge", "abandoned")
    return {k: c[k] for k in keep if k in c}


def observed(c):
    o = c["obs"]
    return {"argbuf_after_entry": o["img_entry"].hex(), "argbuf_after_exit": o["img_exit"].hex(),
            "stream": o["stream"].hex(),
            "replay_args": None if o["args_text"] is None else o["args_text"].decode("latin-1"),
            "replay_ret": None if o["ret_text"] is None else o["ret_text"].decode("latin-1"),
            "dump_args": o.get("dump_args"), "dump_ret": o.get("dump_ret"),
            "script_py": repr(o.get("py")), "script_lua": repr(o.get("lua"))}


def run_batch_checked(ctx, impl, b):
    """run one batch; a crash of the traced process inside the hooks is a violation of its own"""
    try:
        impl.run_batch(b)
        return True
    except (RuntimeError, subprocess.TimeoutExpired) as e:
        if len(b) == 1:
            ctx.extra["crashes"] = ctx.extra.get("crashes", 0) + 1
            if ctx.extra["crashes"] <= 3:
                ctx.violation("C09: capturing the arguments of this call faults (or hangs) the traced process",
                              {"mode": "crash", "case": public(b[0]), "error": str(e)[-600:]}, True)
            return False
        ctx.log("harness run failed for a batch of %d cases (%s); running them one by one" % (len(b), str(e)[:120]))
        return False


def run_cases_through(ctx, impl, cases, name):
    """execute, evaluate; returns (batches, res)"""
    prepare(impl, cases)
    todo = []
    for part in ([c for c in cases if not c.get("abandoned")], [c for c in cases if c.get("abandoned")]):
        todo += [part[i:i + 31] for i in range(0, len(part), 31)]
    batches = []
    while todo:
        b = todo.pop(0)
        if not run_batch_checked(ctx, impl, b):
            if len(b) > 1:
                todo = [[c] for c in b] + todo
            continue
        batches.append(b)
        if not impl.replay_ok:
            # the reader lost its footing: find the first call whose text is missing
            bad = next((c for c in b if c["obs"]["args_text"] is None), b[0])
            rc, out, err = impl.last_replay
            ctx.extra["resync_failures"] = ctx.extra.get("resync_failures", 0) + 1
            if ctx.extra["resync_failures"] <= 3:
                ctx.violation("C09: `uftrace replay` no longer decodes the records that follow a payload "
                              "(output does not have the expected call sequence)",
                              {"mode": "resync", "case": public(bad), "batch": [public(c) for c in b],
                               "replay_rc": rc, "replay_output_tail": out[-1500:].decode("latin-1"),
                               "replay_stderr": err[-500:].decode("latin-1")}, True)
        if getattr(impl, "asan_report", None):
            ctx.extra["asan_reports"] = ctx.extra.get("asan_reports", 0) + 1
            if ctx.extra["asan_reports"] <= 2:
                ctx.violation("C09: `uftrace %s` (ASan/UBSan build) reports a memory error while reading the recorded "
                              "arguments" % impl.asan_report[0],
                              {"mode": "asan", "batch": [public(c) for c in b], "report": impl.asan_report[1]}, True)
        if not impl.replay_ok:
            pass
        elif not all(impl.script_ok.values()):
            lang, rc, out, err = impl.last_script
            bad = next((c for c in b if c["obs"].get(lang) is None), b[0])
            if len(b) > 1:
                # find the call that upsets the script reader: run the calls of the batch one by one
                for c1 in b:
                    c2 = json.loads(json.dumps(public(c1)))
                    c2["strings"] = {int(k): v for k, v in c2["strings"].items()}
                    c2["objs"] = {int(k): v for k, v in c2["objs"].items()}
                    try:
                        impl.run_batch([c2])
                    except (RuntimeError, subprocess.TimeoutExpired):
                        continue
                    if not all(impl.script_ok.values()):
                        bad = c1
                        lang, rc, out, err = impl.last_script
                        break
            ctx.extra["script_failures"] = ctx.extra.get("script_failures", 0) + 1
            if ctx.extra["script_failures"] <= 3:
                ctx.violation("C09: `uftrace script` (%s) %s on the recorded arguments"
                              % (lang, "crashes (rc=%d)" % rc if rc not in (0, 1) else
                                 "does not deliver the callbacks of every call in order"),
                              {"mode": "script", "lang": lang, "case": public(bad), "script_rc": rc,
                               "script_output_tail": out.decode("latin-1"), "script_stderr": err.decode("latin-1")}, True)
    res = evaluate(ctx, batches, name) if batches else {"mismatch": [], "violations": [], "script": set()}
    return batches, res


def verdict(ctx, batches, res, what="generated"):
    if res is None:
        return
    seen = 0
    for bi, i in res["violations"]:
        c = batches[bi][i]
        if c.get("skip_judge") or c["obs"]["args_text"] is None:
            continue
        seen += 1
        if seen <= 3:
            hi = max(len(c["obs"]["img_entry"]), len(c["obs"]["img_exit"]))
            ctx.violation("C09 violated (%s case): %s" % (what,
                          ("libmcount stored %d bytes past the frame's 1024-byte argument buffer" % (hi - 1024))
                          if hi > 1024 else
                          "a script (uftrace script -S, python / lua) does not receive the values that were passed in "
                          "ctx[\"args\"] / ctx[\"retval\"]" if (bi, i) in res.get("script", ()) else
                          "replay does not show the values that were passed"),
                          {"mode": "values", "case": public(c), "observed": observed(c), "argbuf_extent": hi}, True)
    for b in batches:
        for c in b:
            if c.get("skip_judge"):
                continue
            bad = judge_dump(c)
            if bad:
                seen += 1
                if seen <= 3:
                    ctx.violation("C09 violated (%s case): %s" % (what, bad),
                                  {"mode": "dump", "case": public(c), "observed": observed(c)}, True)
    for bi, i in res.get("table", [])[:2]:
        c = batches[bi][i]
        ctx.violation("the spec list libmcount builds from the -A/-R options differs from the model of add_arg_spec / "
                      "update_trigger (the readers rebuild their list with the same routines)",
                      {"mode": "spec-table", "case": public(c), "libmcount_list": c["mspecs"],
                       "options": [[g["opt"], bool(g.get("regex")), g["specs"]] for g in groups_of(c)]}, False)
    mism = [(bi, i) for bi, i in res["mismatch"] if batches[bi][i]["obs"]["args_text"] is not None]
    if mism and not seen:
        bi, i = mism[0]
        c = batches[bi][i]
        ctx.violation("model and implementation of argument capture/display disagree (%d cases); the property "
                      "checker accepts the implementation's output on every explored case" % len(mism),
                      {"correspondence": "C09.Model.model_call vs libmcount save_argument/save_retval/record_ret_stack "
                                         "+ uftrace replay",
                       "mode": "mismatch", "case": public(c), "observed": observed(c),
                       "model": {k: v.hex() if "text" not in k else v.decode("latin-1")
                                 for k, v in (model_detail(ctx, c) or {}).items()}}, False)
    ctx.extra["disagreements_checked"] = ctx.extra.get("disagreements_checked", 0) + len(mism)


def count_cases(ctx, cases):
    for c in cases:
        size = sum(len(x) for x in (c["obs"]["img_entry"], c["obs"]["img_exit"]))
        tags = list(c["tags"])
        st = c["obs"]["stream"]
        if len(st) >= 16:
            tags.append("entry-payload%%8=%d" % ((len(c["obs"]["img_entry"]) - 4) % 8 if c["specs"] else 0))
        nontriv = bool(c["specs"] or c["rspecs"])
        sample = None
        if len(ctx.samples) < 4 and nontriv and len(c["specs"]) <= 4:
            sample = {"specs": c["specs"], "rspecs": c["rspecs"], "replay_args": observed(c)["replay_args"],
                      "replay_ret": observed(c)["replay_ret"]}
        ctx.case(key=(tuple(c["specs"]), tuple(c["rspecs"]), tuple(map(str, c["regs"])), tuple(map(str, c["stack"])),
                      tuple(map(str, c["ret"])), tuple(sorted((str(k), v) for k, v in c["strings"].items()))),
                 nontrivial=nontriv, tags=tags, sample=sample, size=size)


NEG32_TEXT = ("an argument or return value without a format (argN, documented as 'long int'; also what --auto-args emits "
              "for long/unsigned long) whose value lies in 0xffff0001..0xffffffff is shown as a negative 32-bit number "
              "(4294967295 -> -1)")


def defect_witnesses(ctx, impl, extra=()):
    """dedicated witnesses of the listed defect classes (the generators stay out of them); everything goes
    through ctx.known_finding: KNOWN-FINDING if listed, VIOLATION if not, silent once it stops reproducing"""
    cases = [f() for _, f in WITNESSES]
    batches, res = run_cases_through(ctx, impl, cases, "witness")
    if res is None:
        return
    pos = {id(c): (bi, i) for bi, b in enumerate(batches) for i, c in enumerate(b)}
    for n, (key, _) in enumerate(WITNESSES):
        c = cases[n]
        if id(c) not in pos:
            continue                          # it crashed the traced process: reported by run_cases_through
        i = pos[id(c)]
        ctx.case(key=("witness", key), tags=c["tags"])
        if i in set(res["mismatch"]):
            ctx.violation("model and implementation disagree on the witness of known defect %s" % key,
                          {"mode": "mismatch", "case": public(c), "observed": observed(c),
                           "model": {k: v.hex() if "text" not in k else v.decode("latin-1")
                                     for k, v in (model_detail(ctx, c) or {}).items()}}, False)
        ctx.known_finding(key, NEG32_TEXT, i in set(res["violations"]),
                          {"mode": "witness", "witness": key, "case": public(c), "observed": observed(c)})
    for key, text, still, replay in extra:
        ctx.known_finding(key, text, still, replay)


def corpus_cases():
    d = os.path.join(VERIF, "corpus", "C09")
    out = []
    if os.path.isdir(d):
        for f in sorted(os.listdir(d)):
            if f.endswith(".json"):
                out.append(json.load(open(os.path.join(d, f)))["case"])
    return out


def run(ctx):
    common_meta(ctx)
    coq.prove(ctx, "C09")
    impl = Impl(ctx)
    g = Gen(ctx.rng)
    cases = corpus_cases() + [f() for f in REGRESSIONS]
    # every boundary string length behind 0 / 4 bytes (both residues of the write pointer mod 8), deterministically
    for n in (0, 1, 2, 3, 94, 95, 96, 97, 98, 99, 100, 101, 102):
        for lead in (0, 1):
            c = g.blank("strlen-grid")
            c["tags"].append("strlen=%d" % n)
            if lead:
                c["specs"].append("arg1/x32")
                c["actual"].append(["int", c["regs"][0]])
            c["strings"][0] = g.string(n).hex()
            c["regs"][1] = "@S0"
            c["specs"] += ["arg2/s", "arg3/i16"]
            c["actual"] += [["str", 0], ["int", c["regs"][2]]]
            cases.append(c)
    for _ in range(ctx.n(290, 4200)):
        c = g.call()
        # one call in twelve is closed without a return value (as by exception unwinding / pthread_exit / an estimated
        # return): its arguments are shown, a return value is not, and the records behind it decode
        if ctx.rng.randrange(12) == 0:
            c["abandoned"] = True
            c["tags"].append("abandoned")
        cases.append(c)
    batches, res = run_cases_through(ctx, impl, cases, "cases")
    count_cases(ctx, [c for b in batches for c in b])
    verdict(ctx, batches, res)
    e2e_pointers(ctx, impl)
    e2e_abandoned(ctx, impl)
    e2e_trigger_split(ctx, impl)
    e2e_enum_judge(ctx, impl)
    found = e2e(ctx, impl)
    defect_witnesses(ctx, impl, found)


def replay(ctx, obj):
    common_meta(ctx)
    coq.prove(ctx, "C09")
    impl = Impl(ctx)
    c = obj.get("case")
    if not c:
        ctx.log("replay file has no case; nothing to re-execute")
        return
    c = json.loads(json.dumps(c))
    c["strings"] = {int(k): v for k, v in c["strings"].items()}
    c["objs"] = {int(k): v for k, v in c["objs"].items()}
    batches, res = run_cases_through(ctx, impl, [c], "replay")
    if not batches:
        return
    count_cases(ctx, [c])
    ctx.log("replayed:", json.dumps(observed(c))[:1500])
    if obj.get("mode") == "witness":
        c["skip_judge"] = False
    verdict(ctx, batches, res, "replayed")
