"""C16 - Recording over the network stores the same data as recording locally.

Theorems: coq/theories/Properties_C16.v (model of utils/utils.c read_all/write_all/writev_all and of
the framing / receiver of cmds/recv.c, the local-vs-socket switch of cmds/record.c).

Tie, on every run, against /repo's current tree:
  1. in-process (harness/c/c16_*.c): the real write_buffer()/send_*_file()/send_trace_*() of
     record.c/recv.c send generated recordings over socketpairs to the real handle_client_sock();
     write()/writev() are interposed to return short counts / EINTR, read() to deliver at most k bytes
     per call / EINTR.  Every buffer is given to write_buffer() twice (host == NULL: local file;
     host set: socket).  Inside Coq: model sender == captured wire bytes, model receiver == received
     directory, model local recorder == local directory (mismatch), and the property checker
     same_dir(local, received) on the implementation's outputs (violations).
  2. big payloads (64 KiB .. several shmem buffers): same harness, digests, checker only.
  3. malformed / truncated streams: model and implementation must die on the same streams.
  4. end-to-end: `uftrace recv` + `uftrace record --host` through a re-segmenting TCP relay,
     1-4 concurrent clients, compared with local recordings of the same programs (normalised files,
     replay and report output) by the same checker.
"""
import hashlib
import json
import os
import re
import shutil
import signal
import socket
import struct
import subprocess
import threading
import time

from vf import build, coq
from vf.core import REPO, VERIF, sh

MAGIC = b"Ftrace!\0"
HERE = os.path.dirname(os.path.abspath(__file__))
HC = os.path.join(HERE, "../harness/c")
NOCAP = 5000          # "no cap" in small cases (every small message is shorter)

KEY_RACE = "writer-threads-share-socket"
KEY_SAMEDIR = "same-dirname-concurrent-clients"


# ---------------------------------------------------------------- Coq literals
class Blobs:
    """byte strings of a generated .v file, each defined once as packed uint63 words (fast to check)"""

    def __init__(self):
        self.names = {}
        self.defs = []

    def ref(self, b):
        b = bytes(b)
        if not b:
            return "[]"
        if b not in self.names:
            pad = b + b"\0" * ((-len(b)) % 6)
            ws = "; ".join(str(int.from_bytes(pad[i:i + 6], "big")) for i in range(0, len(pad), 6))
            self.names[b] = "b%d" % len(self.names)
            self.defs.append("Definition %s := ub %d [%s]%%uint63." % (self.names[b], len(b), ws))
        return self.names[b]

    def text(self):
        return "\n".join(self.defs) + "\n"


BL = Blobs()


def cb(b):
    return BL.ref(b)


def fresh_blobs():
    global BL
    BL = Blobs()


def cdir(d):
    """d: dict name(bytes) -> content(bytes)"""
    return "[" + "; ".join("(%s, %s)" % (cb(n), cb(c)) for n, c in sorted(d.items())) + "]"


def codir(d):
    return "None" if d is None else "Some (%s)" % cdir(d)


def cmsg(m):
    k = m[0]
    if k == "data":
        return "MData %d %s" % (m[1] & 0xffffffff, cb(m[2]))
    if k == "kernel":
        return "MKernel %d %s" % (m[1] & 0xffffffff, cb(m[2]))
    if k == "perf":
        return "MPerf %d %s" % (m[1] & 0xffffffff, cb(m[2]))
    if k == "meta":
        return "MMeta %s %s" % (cb(m[1]), cb(m[2]))
    if k == "info":
        return "MInfo %s %s" % (cb(m[1]), cb(m[2]))
    raise ValueError(m)


# ---------------------------------------------------------------- case generation (in-process)
# module base names (the .sym/.dbg files are named after them): any valid single path component - leading dots (a
# wrapped executable `.prog-wrapped`, a hidden library `.libx.so`), several dots, "..x", blanks, long names
NAMES = [b"a", b"bb", b"prog", b"libc.so.6", b"x-1", b"t_2", b".prog-wrapped", b".libx.so", b"..x", b"...", b"a.b.c.d",
         b"has space", b"-dash", b"%s", b".", b"n" * 200, b".h" * 120, b"UTF-\xc3\xa9"]


def rbytes(rng, n):
    return bytes(rng.randrange(256) for _ in range(n))


def gen_files(rng):
    """metadata files of a local recording directory"""
    f = {}
    f[b"task.txt"] = b"SESS timestamp=1.%d pid=%d sid=abc exename=\"/p\"\nTASK timestamp=1.2 tid=7 pid=7\n" % (
        rng.randrange(10 ** 6), rng.randrange(1, 30000))
    if rng.random() < 0.3:
        f[b"task.txt"] = rbytes(rng, rng.choice([0, 1, 7, 8, 9, 40]))
    for _ in range(rng.randrange(0, 3)):
        f[b"sid-%x.map" % rng.randrange(1 << 32)] = rbytes(rng, rng.choice([0, 1, 12, 33]))
    for _ in range(rng.randrange(0, 4)):
        f[rng.choice(NAMES) + b".sym"] = rbytes(rng, rng.choice([0, 3, 8, 60]))
    for _ in range(rng.randrange(0, 2)):
        f[rng.choice(NAMES) + b".dbg"] = rbytes(rng, rng.choice([0, 5, 17]))
    # info = 40-byte header (valid magic; all swapped fields random) + text
    hdr = MAGIC + rbytes(rng, 32)
    f[b"info"] = hdr + rbytes(rng, rng.choice([0, 1, 8, 50]))
    return f


def gen_client(rng, idx, dirname, big=False):
    files = gen_files(rng)
    ops = []
    tids = [rng.choice([1, 7, 100, 32767, 4194304, 2147483647]) for _ in range(rng.randrange(1, 4))]
    if rng.random() < 0.1:
        tids.append(-1)
    nbuf = rng.randrange(0, 6)
    for _ in range(nbuf):
        tid = rng.choice(tids)
        if big:
            ln = rng.choice([65536, 131072 - 16, 131072, 131072 + 1, 3 * 131072, 1 << 20])
            ops.append(("bigdata", tid, ln, rng.randrange(1 << 30)))
        else:
            ln = rng.choice([0, 0, 1, 4, 7, 8, 9, 15, 16, 17, 32, 48, 100])
            ops.append(("data", tid, rbytes(rng, ln)))
        if rng.random() < 0.15:
            ops.append(("sleep", rng.randrange(0, 3000)))
    if rng.random() < 0.3:
        ops.append(("kernel", rng.randrange(0, 64), rbytes(rng, rng.choice([0, 8, 24]))))
    if rng.random() < 0.3:
        ops.append(("perf", rng.randrange(0, 64), rbytes(rng, rng.choice([0, 8, 24]))))
    rng.shuffle(ops)
    # the finish_writers() sequence of cmds/record.c
    ops += [("taskfile",), ("mapfiles",), ("symfiles",), ("dbgfiles",), ("info",)]
    if rng.random() < 0.2:
        files[b"events.txt"] = rbytes(rng, 9)
        ops.append(("meta", b"events.txt"))
    if rng.random() < 0.2:          # a log file (--logfile NAME): any name the user chose, e.g. a dot file
        lname = rng.choice([b".uftrace.log", b"rec.log", b"..log", b".x", b"l" * 240])
        files[lname] = rbytes(rng, rng.choice([0, 5, 30]))
        ops.append(("meta", lname))
    wpat = rng.choice([[NOCAP], [8, NOCAP], [8, 4, NOCAP], [12, NOCAP], [1], [7, 9], [3, 0, -1, 8, 1, 100],
                       [4, -1, 4, -1, 20], None, None])
    if wpat is None:
        wpat = [rng.choice([1, 2, 3, 4, 5, 7, 8, 9, 11, 12, 13, 16, 20, 44, 48, NOCAP, -1, 0])
                for _ in range(rng.randrange(1, 9))]
        if all(v <= 0 for v in wpat):
            wpat.append(6)
    if big:
        wpat = rng.choice([[NOCAP * 100], [65536], [8, 4, 1 << 20], [131072, 1], [4096, -1, 100000]])
    lpat = rng.choice([[NOCAP], [1, NOCAP], [7, -1, 9]]) if not big else [1 << 20]
    return {"idx": idx, "dir": dirname, "where": dirname, "files": files, "ops": ops, "wsched": wpat, "lsched": lpat}


def gen_rsched(rng, big=False):
    if big:
        return rng.choice([[65536], [1 << 20], [4096, 0, 65536], [8, 4, 65536], [1, 1, 1, 1, 1, 1, 1, 1, 1, 131072]])
    pat = rng.choice([[1], [7], [8], [9], [5, 11], [3, 5], [12], [13], [8, 4, NOCAP], [NOCAP], [1, 0], None, None, None])
    if pat is None:
        pat = [rng.choice([0, 1, 2, 3, 4, 5, 7, 8, 9, 11, 12, 13, 40, 41, 65536]) for _ in range(rng.randrange(1, 8))]
        if all(v == 0 for v in pat):
            pat.append(8)
    return pat


def gen_reset_case(rng, n):
    """a client whose connection is RESET after its directory name (and possibly some data) - no SEND_END -
    followed by an ordinary client that the server accepts on the SAME descriptor number; optionally a third,
    ordinary client connected all the time"""
    names = rng.sample([b"aborted.data", b"b.data", b"uftrace.data", b"x", b"n1", b"n2"], 3)
    c0 = gen_client(rng, 0, names[0])
    cut = rng.choice([0, 0, 1, 2, len(c0["ops"])])
    c0["ops"] = [op for op in c0["ops"][:cut] if op[0] != "sleep"]
    c0["abort"] = True
    sent = set(m[1] for m in body_msgs(c0) if m[0] == "meta") | ({b"info"} if ("info",) in c0["ops"] else set())
    c0["files"] = {n: v for n, v in c0["files"].items() if n in sent}      # only what it sends exists locally
    c1 = gen_client(rng, 1, names[1])
    c1["after"] = 0
    phase = [c0, c1]
    if rng.random() < 0.4:
        phase.append(gen_client(rng, 2, names[2]))
    return {"n": n, "big": False, "phases": [phase], "rsched": gen_rsched(rng),
            "fsched": rng.choice([[NOCAP * 1000], [1, NOCAP * 1000]])}


def srv_norm(name):
    """cmds/recv.c normalize_dirname (prediction of the directory a client's data ends up in)"""
    absolute = name.startswith(b"/")
    stack = []
    for c in name.split(b"/"):
        if c in (b"", b"."):
            continue
        if c == b".." and stack and stack[-1] != b"..":
            stack.pop()
        else:
            stack.append(c)
    body = b"/".join(stack)
    return b"/" + body if absolute else (body or b".")


def spell(rng, name):
    """another spelling of the same directory"""
    return rng.choice([b"./" + name, name + b"/", name + b"//", b"./" + name + b"/", b"x/../" + name,
                       b"./x/./../" + name, b".//" + name, b"a/b/../../" + name])


def srv_in_use(cand, live):
    return any(d == cand or d == cand + b".old" for d in live)


def srv_pick(name, live):
    """recv_trace_dir_name: NAME, NAME.1, NAME.2, ... - the first one no connected client is using"""
    name = srv_norm(name)
    i, cand = 0, name
    while srv_in_use(cand, live):
        i += 1
        cand = name + b".%d" % i
    return cand


def gen_overlap_case(rng, n):
    """two clients that are connected AT THE SAME TIME and announce clashing directory names (the same name - e.g.
    the default uftrace.data from two machines -, or one is the other's NAME.old), a third one with another name
    now and then.  Order enforced through the harness: A's name and first buffers are handled, then B connects
    and sends everything, then A sends the rest."""
    base = rng.choice([b"uftrace.data", b"x", b"trace.dir"])
    kind = rng.choice(["same", "alias", "alias", "A.old", "B.old", "alias+old"])
    na, nb = {"same": (base, base), "A.old": (base + b".old", base), "B.old": (base, base + b".old"),
              "alias": (base, spell(rng, base)), "alias+old": (rng.choice([b"./", b"x/../", b".//"]) + base + b".old", spell(rng, base))}[kind]
    if kind == "alias" and rng.random() < 0.5:
        na, nb = nb, na
    a = gen_client(rng, 0, na)
    a["where"] = srv_norm(na)
    b = gen_client(rng, 1, nb)
    a["ops"] = [op for op in a["ops"] if op[0] != "sleep"]
    cut = rng.randrange(0, len([op for op in a["ops"] if op[0] in ("data", "kernel", "perf")]) + 1)
    a["ops"] = a["ops"][:cut] + [("post", "fa"), ("wait", "fb")] + a["ops"][cut:]
    a["split"] = 1 + len(body_msgs({"ops": a["ops"][:cut], "files": a["files"]}))
    b["pre_ops"] = [("wait", "fa")]
    b["ops"] = b["ops"] + [("post", "fb")]
    b["where"] = srv_pick(nb, [srv_norm(na)])
    phase = [a, b]
    if rng.random() < 0.3:
        phase.append(gen_client(rng, 2, b"other.data"))
    return {"n": n, "big": False, "overlap": kind, "phases": [phase], "rsched": gen_rsched(rng),
            "fsched": rng.choice([[NOCAP * 1000], [1, NOCAP * 1000]])}


# sizes of metadata files at and around the sizes a sender may cut at (page, 64 KiB pieces, shmem buffer)
META_SIZES = [0, 1, 4095, 4096, 4097, 8192, 65535, 65536, 65537, 131071, 131072, 131073, 196608, 262144, 1048576]


def mkbytes(name, size, seed):
    import random
    b = random.Random(seed).randbytes(size)
    return (MAGIC + bytes(32) + b)[:max(size, 40)] if name == b"info" else b


def add_sized_files(rng, c, sizes):
    """metadata files of exactly the given sizes (content from a seed: replays stay small)"""
    spec = c.setdefault("filespec", {})
    kinds = rng.sample(range(5 if len(sizes) > 1 else 4), len(sizes))      # (info is not sent by send_trace_metadata)
    for sz, kd in zip(sizes, kinds):
        name = [b"big%d.sym" % sz, b"lib%d.so.dbg" % sz, b"sid-%x.map" % sz, b"task.txt", b"info"][kd]
        seed = rng.randrange(1 << 30)
        spec[name.hex()] = [sz, seed]
        c["files"][name] = mkbytes(name, sz, seed)
    if any(op == ("meta", b"events.txt") for op in c["ops"]):
        pass
    c["wsched"] = rng.choice([[65536], [NOCAP * 100], [4096, -1, 100000], [8, 4, 1 << 20], [65536 + 12, 1 << 20]])
    c["lsched"] = [1 << 20]


def gen_vanish_case(rng, n):
    """a client V that goes away WITHOUT SEND_END (its connection is closed cleanly after its directory name and
    some data: the server reads end-of-file where the next message should start) while an ordinary client A is in
    the middle of its recording: A's directory must still equal its local recording, V's holds what V sent"""
    a = gen_client(rng, 0, rng.choice([b"a.data", b"uftrace.data"]))
    v = gen_client(rng, 1, rng.choice([b"gone.data", b"v"]))
    a["ops"] = [op for op in a["ops"] if op[0] != "sleep"]
    cut = rng.randrange(0, len([op for op in a["ops"] if op[0] in ("data", "kernel", "perf")]) + 1)
    a["ops"] = a["ops"][:cut] + [("post", "fa"), ("wait", "fv"), ("sleep", 30000)] + a["ops"][cut:]
    a["split"] = 1 + len(body_msgs({"ops": a["ops"][:cut], "files": a["files"]}))
    vcut = rng.choice([0, 0, 1, 2, len(v["ops"])])
    v["ops"] = [op for op in v["ops"][:vcut] if op[0] != "sleep"] + [("post", "fv")]
    sent = set(m[1] for m in body_msgs(v) if m[0] == "meta") | ({b"info"} if ("info",) in v["ops"] else set())
    v["files"] = {nm: val for nm, val in v["files"].items() if nm in sent}
    v["pre_ops"] = [("wait", "fa")]
    v["no_end"] = True
    return {"n": n, "big": False, "vanish": True, "phases": [[a, v]], "rsched": gen_rsched(rng), "fsched": [NOCAP * 1000]}


def gen_threads_case(rng, n):
    """one recorder whose 2-4 WRITER THREADS send the buffers of different tasks through the one socket at the same
    time (cmds/record.c writer_thread): short write counts make a thread pause in the middle of a message, the
    server reads slowly; a second ordinary client now and then"""
    c = gen_client(rng, 0, rng.choice([b"mt.data", b"uftrace.data"]))
    fin = [op for op in c["ops"] if op[0] in ("taskfile", "mapfiles", "symfiles", "dbgfiles", "info", "meta")]
    nth = rng.choice([2, 3, 4])
    blocks = []
    for t in range(nth):
        tids = [1000 * (t + 1) + j for j in range(rng.choice([1, 2]))]
        for _ in range(rng.randrange(2, 5)):
            blocks.append(("tdata", rng.choice(tids), rbytes(rng, rng.choice([0, 8, 16, 40, 100])), t))
    rng.shuffle(blocks)          # (order within a thread = order in this list)
    c["ops"] = blocks + fin
    c["wsched"] = rng.choice([[8, NOCAP], [8, 4, NOCAP], [12, NOCAP], [7, 9], [3, 0, -1, 8, 1, 100], [1, 20, NOCAP], [5, 5, 5, NOCAP]])
    c["lsched"] = [NOCAP]
    c["rdelay"] = rng.choice([0, 100, 300])
    phase = [c]
    if rng.random() < 0.3:
        phase.append(gen_client(rng, 1, b"other.data"))
    return {"n": n, "big": False, "threads": nth, "phases": [phase], "rsched": gen_rsched(rng),
            "fsched": [NOCAP * 1000]}


def gen_case(rng, n, big=False, reuse=False, metasizes=None):
    """a case: phases (harness runs over the same server directory), each with 1-4 concurrent clients"""
    k = 1 if big else rng.choice([1, 1, 2, 2, 3, 4])
    names = rng.sample([b"a.data", b"b.data", b"uftrace.data", b"x", b"trace.dir", b"n1", b"n2"], k)
    phase = [gen_client(rng, i, names[i], big) for i in range(k)]
    for c in phase:
        if rng.random() < 0.25:          # another spelling of the directory name: same directory on the server
            c["dir"] = spell(rng, c["dir"])
    phases = [phase]
    if reuse:       # a later client re-uses a directory name after the first one finished: rotation
        c2 = gen_client(rng, 0, names[0])
        phases.append([c2])
        phase[0]["where"] = names[0] + b".old"
    if metasizes:
        add_sized_files(rng, phase[0], metasizes)
    return {"n": n, "big": big, "phases": phases, "rsched": gen_rsched(rng, big or bool(metasizes)),
            "fsched": rng.choice([[NOCAP * 1000], [1, NOCAP * 1000], [-1, 7, 100000]]) if not metasizes else [NOCAP * 1000]}


# ---------------------------------------------------------------- running the harness
def hx(b):
    return bytes(b).hex() if b else "-"


def write_casefile(path, srv, clients, rsched, fsched, root):
    L = ["srvdir %s" % srv, "rsched %s" % " ".join(map(str, rsched)), "fsched %s" % " ".join(map(str, fsched))]
    if any(c.get("rdelay") for c in clients):
        L.append("rdelay %d" % max(c.get("rdelay", 0) for c in clients))
    for c in clients:
        loc = os.path.join(root, "loc%d" % c["idx"])
        cap = os.path.join(root, "cap%d" % c["idx"])
        c["_loc"], c["_cap"] = loc, cap
        os.makedirs(loc)
        for n, data in c["files"].items():
            with open(os.path.join(loc, n.decode()), "wb") as f:
                f.write(data)
        L.append("client %s %s" % (loc, cap) + (" after %d" % c["after"] if "after" in c else ""))
        L.append("wsched %s" % " ".join(map(str, c["wsched"])))
        L.append("lsched %s" % " ".join(map(str, c["lsched"])))
        if "raw" in c:
            for r in c["raw"]:
                L.append("op raw %s" % hx(r))
            continue
        if c.get("pre_sleep"):
            L.append("op sleep %d" % c["pre_sleep"])
        for op in c.get("pre_ops", []):
            L.append("op %s %s" % (op[0], os.path.join(root, op[1])))
        L.append("op dir %s" % hx(c["dir"]))
        for op in c["ops"]:
            if op[0] in ("data", "kernel", "perf"):
                L.append("op %s %d %s" % (op[0], op[1], hx(op[2])))
            elif op[0] == "tdata":
                L.append("op tdata %d %d %s" % (op[3], op[1], hx(op[2])))
            elif op[0] == "bigdata":
                L.append("op bigdata %d %d %d" % (op[1], op[2], op[3]))
            elif op[0] == "meta":
                L.append("op meta %s" % hx(op[1]))
            elif op[0] == "sleep":
                L.append("op sleep %d" % op[1])
            elif op[0] in ("post", "wait"):
                L.append("op %s %s" % (op[0], os.path.join(root, op[1])))
            else:
                L.append("op %s" % op[0])
        if c.get("abort"):
            L.append("op abort")
        elif not c.get("no_end"):
            L.append("op end")
    with open(path, "w") as f:
        f.write("\n".join(L) + "\n")


def snap(path, digest=False):
    if not os.path.isdir(path):
        return None
    d = {}
    for n in os.listdir(path):
        p = os.path.join(path, n)
        if os.path.isfile(p):
            b = open(p, "rb").read()
            d[n.encode()] = (len(b), hashlib.sha1(b).digest()[:8]) if digest else b
    return d


def body_msgs(c):
    """the messages (after MDir, before MEnd) the ops stand for, from the local files"""
    f = c["files"]
    ms = []
    for op in c["ops"]:
        k = op[0]
        if k in ("data", "kernel", "perf"):
            ms.append((k, op[1], op[2]))
        elif k == "tdata":
            ms.append(("data", op[1], op[2]))
        elif k == "meta":
            ms.append(("meta", op[1], f[op[1]]))
        elif k == "taskfile":
            ms.append(("meta", b"task.txt", f[b"task.txt"]))
        elif k in ("mapfiles", "symfiles", "dbgfiles"):
            for n in sorted(f):
                if (k == "mapfiles" and n.startswith(b"sid-") and n.endswith(b".map")) or \
                   (k == "symfiles" and n.endswith(b".sym")) or (k == "dbgfiles" and n.endswith(b".dbg")):
                    ms.append(("meta", n, f[n]))
        elif k == "info":
            ms.append(("info", f[b"info"][:40], f[b"info"][40:]))
    return ms


def run_case(exe, case, root):
    """executes all phases; fills the implementation's observations into the clients"""
    if os.path.exists(root):
        shutil.rmtree(root)
    srv = os.path.join(root, "srv")
    os.makedirs(srv)
    ok = True
    notes = []
    for pi, phase in enumerate(case["phases"]):
        proot = os.path.join(root, "p%d" % pi)
        os.makedirs(proot)
        cf = os.path.join(proot, "case")
        write_casefile(cf, srv, phase, case["rsched"], case["fsched"], proot)
        p = subprocess.run([exe, cf], capture_output=True, text=True, timeout=120)
        st = dict(re.findall(r"(server|client \d+) exit=(-?\d+)", p.stdout))
        for c in phase:
            c["exit"] = int(st.get("client %d" % c["idx"], "-9"))
        case.setdefault("server_exit", []).append(int(st.get("server", "-9")))
        if p.returncode != 0 or "server" not in st:
            notes.append("harness failed rc=%s %s" % (p.returncode, p.stderr[-300:]))
            ok = False
        case.setdefault("stderr", []).append(p.stderr[-400:])
    for phase in case["phases"]:
        for c in phase:
            c["local"] = snap(c["_loc"], case["big"])
            c["recv"] = snap(os.path.join(srv, c["where"].decode()), case["big"])
            if not case["big"]:
                c["wire"] = open(c["_cap"], "rb").read() if os.path.exists(c["_cap"]) else b""
            try:
                c["wcalls"] = int(re.search(r"wcalls (\d+)", open(c["_cap"] + ".stat").read()).group(1))
            except (OSError, AttributeError):
                c["wcalls"] = 0
    case["notes"] = notes
    shutil.rmtree(root, ignore_errors=True)
    return ok


def expand(sched, n):
    return [sched[i % len(sched)] for i in range(n)] if sched else []


def client_term(c, rsched, sock):
    ops = c["ops"]
    finish = [("taskfile",), ("mapfiles",), ("symfiles",), ("dbgfiles",), ("info",)]
    ndata = len([op for op in ops if op[0] in ("data", "kernel", "perf", "tdata")])
    if not c.get("abort") and not c.get("no_end") and [op for op in ops if op[0] not in ("data", "kernel", "perf", "tdata", "sleep", "post", "wait")] == finish:
        files = "Some (%s)" % cdir({n: v for n, v in c["files"].items() if n != b"events.txt"})
    else:
        files = "None"
    return ("{| cc_sock := %d; cc_dir := %s; cc_where := %s; cc_body := [%s]; cc_ndata := %d; cc_files := %s; "
            "cc_abort := %s; cc_eof := %s; cc_threads := %s; cc_split := %d; cc_wsched := [%s]%%Z; "
            "cc_rsched := [%s]%%nat; cc_wire := %s; cc_local := %s; cc_recv := %s |}" % (
                sock, cb(c["dir"]), cb(c["where"]), "; ".join(cmsg(m) for m in body_msgs(c)), ndata, files,
                coq.coq_bool(bool(c.get("abort"))), coq.coq_bool(bool(c.get("no_end"))),
                coq.coq_bool(any(op[0] == "tdata" for op in ops)), c.get("split", 1000000),
                "; ".join(coq.zlit(v) for v in expand(c["wsched"], c["wcalls"])),
                "; ".join(str(v) for v in rsched), cb(c["wire"]), cdir(c["local"] or {}), codir(c["recv"])))


PRE = """From Coq Require Import String Uint63.
From Coq Require Import NArith ZArith List Bool.
Import ListNotations.
Require Import UV.C16.Model UV.C16.Lit.
Local Open Scope N_scope.
"""


def evaluate_small(ctx, cases, name):
    fresh_blobs()
    terms = []
    for case in cases:
        cl, sock = [], 3
        for phase in case["phases"]:
            socks = {}
            for c in phase:
                if "after" in c:          # accepted on the descriptor number of the reset connection
                    socks[c["idx"]] = socks[c["after"]]
                else:
                    socks[c["idx"]] = sock
                    sock += 1
            # the model serves the clients one after the other: a reset connection before its successor
            for c in sorted(phase, key=lambda c: (socks[c["idx"]], "after" in c)):
                cl.append(client_term(c, case["rsched"], socks[c["idx"]]))
        terms.append("[" + ";\n  ".join(cl) + "]")
    defs = "Definition cases : list (list client_case) := [\n%s\n].\n" % ";\n".join(terms)
    defs = BL.text() + defs
    res = coq.run_cases(ctx, name, PRE, defs, [
        ("mismatch", "bad_indices agrees cases 0"),
        ("violations", "bad_indices ok_case cases 0"),
        ("send", "bad_indices (forallb agree_send) cases 0"),
        ("local", "bad_indices (forallb agree_local) cases 0"),
        ("meta", "bad_indices (forallb agree_meta) cases 0"),
        ("recv", "bad_indices agree_recv cases 0"),
    ])
    if res is None:
        return None
    return {k: coq.parse_nat_list(v) for k, v in res.items()}


def cdig(d):
    return "[" + "; ".join("(%s, (%d, %s))" % (cb(n), v[0], cb(v[1])) for n, v in sorted(d.items())) + "]"


def evaluate_dig(ctx, pairs, name):
    """pairs: list of (local digest dir, received digest dir or None)"""
    fresh_blobs()
    defs = "Definition pairs : list (list (bytes * (N * bytes)) * list (bytes * (N * bytes))) := [\n%s\n].\n" % ";\n".join(
        "(%s, %s)" % (cdig(a), cdig(b if b is not None else {b"<missing directory>": (0, b"")})) for a, b in pairs)
    defs = BL.text() + defs
    res = coq.run_cases(ctx, name, PRE, defs, [
        ("violations", "bad_indices (fun p => same_dig (fst p) (snd p)) pairs 0")])
    if res is None:
        return None
    return coq.parse_nat_list(res["violations"])


def evaluate_sub(ctx, pairs, name):
    """pairs: (digest dir of the recorder's own files, digest dir received): every file of the first must be in the
    second with the same length and digest (sub_dig)"""
    if not pairs:
        return []
    fresh_blobs()
    defs = "Definition pairs : list (list (bytes * (N * bytes)) * list (bytes * (N * bytes))) := [\n%s\n].\n" % ";\n".join(
        "(%s, %s)" % (cdig(a), cdig(b)) for a, b in pairs)
    defs = BL.text() + defs
    res = coq.run_cases(ctx, name, PRE, defs, [
        ("violations", "bad_indices (fun p => sub_dig (fst p) (snd p)) pairs 0")])
    return None if res is None else coq.parse_nat_list(res["violations"])


# ---------------------------------------------------------------- JSON for replays / samples
def jcase(case):
    def jc(c):
        o = {"dir": c["dir"].hex(), "where": c["where"].hex(), "wsched": c["wsched"], "lsched": c["lsched"],
             "files": {n.hex(): v.hex() for n, v in c["files"].items() if n.hex() not in c.get("filespec", {})},
             "filespec": c.get("filespec", {}),
             "ops": [[(x.hex() if isinstance(x, (bytes, bytearray)) else x) for x in op] for op in c["ops"]],
             "idx": c["idx"]}
        for k in ("raw", "no_end", "abort", "after", "split", "pre_ops", "rdelay"):
            if k in c:
                o[k] = [r.hex() for r in c[k]] if k == "raw" else c[k]
        return o
    return {"big": case["big"], "rsched": case["rsched"], "fsched": case["fsched"], "overlap": case.get("overlap"),
            "threads": case.get("threads"), "vanish": case.get("vanish"),
            "phases": [[jc(c) for c in ph] for ph in case["phases"]]}


def unjcase(j):
    def uc(o):
        ops = []
        for op in o["ops"]:
            k = op[0]
            if k in ("data", "kernel", "perf"):
                ops.append((k, op[1], bytes.fromhex(op[2])))
            elif k == "tdata":
                ops.append((k, op[1], bytes.fromhex(op[2]), op[3]))
            elif k == "meta":
                ops.append((k, bytes.fromhex(op[1])))
            else:
                ops.append(tuple(op))
        c = {"idx": o["idx"], "dir": bytes.fromhex(o["dir"]), "where": bytes.fromhex(o["where"]),
             "wsched": o["wsched"], "lsched": o["lsched"],
             "files": {bytes.fromhex(n): bytes.fromhex(v) for n, v in o["files"].items()}, "ops": ops}
        for n, (sz, seed) in o.get("filespec", {}).items():
            c["files"][bytes.fromhex(n)] = mkbytes(bytes.fromhex(n), sz, seed)
        c["filespec"] = o.get("filespec", {})
        if "raw" in o:
            c["raw"] = [bytes.fromhex(r) for r in o["raw"]]
        for k in ("no_end", "abort", "after", "split", "rdelay"):
            if k in o:
                c[k] = o[k]
        if "pre_ops" in o:
            c["pre_ops"] = [tuple(x) for x in o["pre_ops"]]
        return c
    return {"n": 0, "big": j["big"], "rsched": j["rsched"], "fsched": j["fsched"], "overlap": j.get("overlap"),
            "threads": j.get("threads"), "vanish": j.get("vanish"),
            "phases": [[uc(c) for c in ph] for ph in j["phases"]]}


def observed(case):
    out = []
    for ph in case["phases"]:
        for c in ph:
            def show(d):
                if d is None:
                    return None
                return {n.decode(errors="replace"): ((v.hex() if len(v) <= 256 else "%d bytes, sha1 %s" % (len(v), hashlib.sha1(v).hexdigest()[:16]))
                                                     if isinstance(v, bytes) else [v[0], v[1].hex()])
                        for n, v in sorted(d.items())}
            out.append({"dir": c["dir"].decode(), "client_exit": c.get("exit"), "local": show(c.get("local")),
                        "received": show(c.get("recv"))})
    return {"server_exit": case.get("server_exit"), "clients": out, "stderr": case.get("stderr")}


def case_tags(case):
    t = ["clients=%d" % max(len(p) for p in case["phases"])]
    for v in case["rsched"]:
        t.append({0: "read:EINTR", 1: "chunk=1", 7: "chunk=7", 8: "chunk=8", 9: "chunk=9", 65536: "chunk=64K"}.get(
            v, "chunk=hdr-straddle" if v in (3, 5, 11, 13) else "chunk=other"))
    for ph in case["phases"]:
        for c in ph:
            w = c["wsched"]
            if w[:2] == [8, NOCAP] or w[:3] == [8, 4, NOCAP] or w[:2] == [12, NOCAP] or w[:2] == [8, 4]:
                t.append("short=iov-boundary")
            if -1 in w:
                t.append("write:EINTR")
            if 0 in w:
                t.append("writev=0")
            for op in c["ops"]:
                if op[0] == "data" and len(op[2]) == 0:
                    t.append("payload=empty")
                if op[0] == "bigdata" and op[2] == 131072 - 16:
                    t.append("payload=one-shmem-buffer")
                if op[0] == "bigdata" and op[2] > 131072:
                    t.append("payload>buffer")
            ntid = len(set(op[1] for op in c["ops"] if op[0] in ("data", "bigdata")))
            if ntid >= 2:
                t.append("tasks>=2")
    if len(case["phases"]) > 1:
        t.append("dirname-reused-sequentially")
    if case.get("overlap"):
        t.append("concurrent-clashing-names:" + case["overlap"])
    if case.get("threads"):
        t.append("writer-threads=%d" % case["threads"])
    if case.get("vanish"):
        t.append("client-vanishes-without-END")
    for ph in case["phases"]:
        for c in ph:
            if c["dir"] != srv_norm(c["dir"]):
                t.append("directory-name-alias")
    for ph in case["phases"]:
        for c in ph:
            for n, (sz, seed) in c.get("filespec", {}).items():
                t.append("metadata-file-size=%s" % ("k*64K" if sz and sz % 65536 == 0 else "k*64K-1" if (sz + 1) % 65536 == 0 else
                                                    "k*64K+1" if sz > 1 and (sz - 1) % 65536 == 0 else "k*4K" if sz and sz % 4096 == 0 else
                                                    "0" if sz == 0 else "other"))
    for ph in case["phases"]:
        for c in ph:
            if c.get("abort"):
                t.append("connection-reset" + (":after-dirname-only" if not c["ops"] else ""))
            if "after" in c:
                t.append("descriptor-reused-after-reset")
    return sorted(set(t))


def case_size(case):
    return sum(len(op[2]) if op[0] in ("data", "kernel", "perf", "tdata") else (op[2] if op[0] == "bigdata" else 0)
               for ph in case["phases"] for c in ph for op in c["ops"])


# ---------------------------------------------------------------- malformed streams
def be16(n):
    return struct.pack(">H", n)


def be32(n):
    return struct.pack(">I", n & 0xffffffff)


def hdr(ty, ln, magic=0xface):
    return be16(magic) + be16(ty) + be32(ln)


def gen_raw(rng):
    d = b"r.data"
    good_dir = hdr(101, len(d)) + d
    end = hdr(107, 0)
    data = lambda tid, b: hdr(102, 4 + len(b)) + be32(tid) + b
    c = [
        ("well-formed", [good_dir, data(5, b"abc"), end]),
        ("no-end", [good_dir, data(5, b"abc")]),
        ("bad-magic", [good_dir, hdr(102, 7, 0xfacf) + be32(5) + b"abc", end]),
        ("unknown-type-len0", [good_dir, hdr(150, 0), data(5, b"xy"), end]),
        ("unknown-type-payload", [good_dir, hdr(150, 3) + b"zzz", end]),
        ("data-len<4", [good_dir, hdr(102, 2) + b"ab", end]),
        ("data-len>=2^31", [good_dir, hdr(102, 0x80000004) + be32(5) + b"abc", end]),
        ("meta-len>=2^31", [good_dir, hdr(106, 0x80000010) + be32(3) + b"abcdefgh", end]),
        ("info-len>=2^31", [good_dir, hdr(105, 0x80000040) + bytes(40) + b"xyz", end]),
        ("truncated-payload", [good_dir, hdr(102, 4 + 10) + be32(5) + b"abc"]),
        ("truncated-header", [good_dir, hdr(102, 7)[:5]]),
        ("data-before-dir", [data(5, b"abc"), end]),
        ("meta-namelen>len", [good_dir, hdr(106, 6) + be32(9) + b"ab", end]),
        ("meta-len<4+namelen", [good_dir, hdr(106, 5) + be32(3) + b"abcd", end]),
        ("meta-ok", [good_dir, hdr(106, 4 + 3 + 2) + be32(3) + b"f.x" + b"hi", end]),
        ("meta-name-dotfile", [good_dir, hdr(106, 4 + 10 + 2) + be32(10) + b".hid.x.sym" + b"hi", end]),
        ("meta-name-../x", [good_dir, hdr(106, 4 + 11 + 2) + be32(11) + b"../evil.txt" + b"hi", data(5, b"ok"), end]),
        ("meta-name-sub/x", [good_dir, hdr(106, 4 + 9 + 2) + be32(9) + b"sub/x.sym" + b"hi", data(5, b"ok"), end]),
        ("meta-name-dot", [good_dir, hdr(106, 4 + 1 + 2) + be32(1) + b"." + b"hi", data(5, b"ok"), end]),
        ("meta-name-dotdot", [good_dir, hdr(106, 4 + 2 + 2) + be32(2) + b".." + b"hi", data(5, b"ok"), end]),
        ("meta-name-empty", [good_dir, hdr(106, 4 + 0 + 2) + be32(0) + b"hi", data(5, b"ok"), end]),
        ("meta-name-abs", [good_dir, hdr(106, 4 + 12 + 2) + be32(12) + b"/nonexist/xx" + b"hi", data(5, b"ok"), end]),
        ("info-len<40", [good_dir, hdr(105, 12) + b"0123456789ab", end]),
        ("end-only", [end]),
        ("empty-stream", []),
        ("two-dirs", [good_dir, hdr(101, 2) + b"r2", data(1, b"q"), end]),
        ("garbage-after-end", [good_dir, end, b"garbage!!"]),
    ]
    out = []
    for tag, chunks in c:
        out.append({"tag": tag, "raw": chunks, "rsched": gen_rsched(rng), "dir": d})
    return out


def run_raw(exe, r, root):
    if os.path.exists(root):
        shutil.rmtree(root)
    srv = os.path.join(root, "srv")
    os.makedirs(srv)
    c = {"idx": 0, "files": {}, "wsched": [NOCAP], "lsched": [NOCAP], "raw": r["raw"], "dir": r["dir"]}
    write_casefile(os.path.join(root, "case"), srv, [c], r["rsched"], [NOCAP * 1000], root)
    p = subprocess.run([exe, os.path.join(root, "case")], capture_output=True, text=True, timeout=60)
    m = re.search(r"server exit=(-?\d+) sig=(\d+)", p.stdout)
    r["server_exit"] = int(m.group(1)) if m else -9
    r["died"] = (r["server_exit"] != 0)
    r["got"] = snap(os.path.join(srv, r["dir"].decode()))
    r["outside"] = sorted(x for x in os.listdir(srv) if x != r["dir"].decode())
    r["wire"] = b"".join(r["raw"])
    shutil.rmtree(root, ignore_errors=True)


def evaluate_raw(ctx, raws):
    fresh_blobs()
    defs = "Definition raws : list (bytes * list nat * bytes * (bool * option dirent)) := [\n%s\n].\n" % ";\n".join(
        "(%s, [%s]%%nat, %s, (%s, %s))" % (cb(r["wire"]), "; ".join(map(str, r["rsched"])), cb(r["dir"]),
                                            coq.coq_bool(r["died"]), codir(r["got"])) for r in raws)
    defs = BL.text() + defs
    res = coq.run_cases(ctx, "raw", PRE, defs, [("mismatch", "bad_indices agree_raw raws 0")])
    return None if res is None else coq.parse_nat_list(res["mismatch"])


# ---------------------------------------------------------------- end-to-end
PROG_SINGLE = """
int foo(int x){return x+1;} int bar(int x){return foo(x)+foo(x+1);}
int main(int argc,char**argv){int i,s=0,n=argc>1?atoi(argv[1]):3; for(i=0;i<n;i++) s+=bar(i); return s<0;}
"""
PROG_MT = """
#include <pthread.h>
#include <stdlib.h>
static int __attribute__((noinline)) leaf(int x){ asm volatile("" ::: "memory"); return x+1;}
static void *work(void *a){ long n=(long)a; int s=0; for(long i=0;i<n;i++) s=leaf(s); return (void*)(long)s; }
int main(int argc,char**argv){ int nt=atoi(argv[1]); long n=atol(argv[2]); pthread_t t[64];
 for(int i=0;i<nt;i++) pthread_create(&t[i],0,work,(void*)n);
 for(int i=0;i<nt;i++) pthread_join(t[i],0); return 0;}
"""


PROG_SLOW = """
#include <unistd.h>
int foo(int x){return x+1;}
int main(void){int s=foo(1); usleep(1200000); return foo(s)<0;}
"""


def free_port():
    s = socket.socket()
    s.bind(("127.0.0.1", 0))
    p = s.getsockname()[1]
    s.close()
    return p


class Relay:
    """TCP relay that re-segments every connection's byte stream (chunk sizes from a seeded rng)"""

    def __init__(self, seed, dport, slow=0.0, small_first=3000, rcvbuf=0, pieces=None):
        """slow: seconds to sleep after every piece; rcvbuf: SO_RCVBUF of the accepted connections (a small one makes
        the sender's socket buffer fill up: back-pressure); pieces: sizes to forward in (default: 1 B .. 64 KiB)"""
        import random
        self.rng = random.Random(seed)
        self.dport = dport
        self.slow = slow
        self.small_first = small_first
        self.pieces = pieces or [1, 7, 8, 9, 12, 100, 1460, 4096, 65536, 65536, 65536]
        self.ls = socket.socket()
        self.ls.setsockopt(socket.SOL_SOCKET, socket.SO_REUSEADDR, 1)
        if rcvbuf:
            self.ls.setsockopt(socket.SOL_SOCKET, socket.SO_RCVBUF, rcvbuf)
        self.ls.bind(("127.0.0.1", 0))
        self.ls.listen(16)
        self.port = self.ls.getsockname()[1]
        self.stop = False
        self.chunks = {}
        self.nconn = 0
        self.handlers = []
        self.th = threading.Thread(target=self.loop, daemon=True)
        self.th.start()

    def loop(self):
        self.ls.settimeout(0.2)
        while not self.stop:
            try:
                c, _ = self.ls.accept()
            except socket.timeout:
                continue
            except OSError:
                return
            self.nconn += 1
            import random
            t = threading.Thread(target=self.handle, args=(c, random.Random(self.rng.randrange(1 << 30))), daemon=True)
            self.handlers.append(t)
            t.start()

    def handle(self, c, rng):
        try:
            d = socket.create_connection(("127.0.0.1", self.dport))
            d.setsockopt(socket.IPPROTO_TCP, socket.TCP_NODELAY, 1)
            sent = 0
            while True:
                if sent < self.small_first:
                    n = rng.choice([1, 1, 2, 3, 4, 5, 7, 8, 9, 11, 12, 13])
                else:
                    n = rng.choice(self.pieces)
                self.chunks[n] = self.chunks.get(n, 0) + 1
                b = c.recv(n)
                if not b:
                    break
                d.sendall(b)
                sent += len(b)
                if self.slow:
                    time.sleep(self.slow)
                elif sent < self.small_first and rng.random() < 0.05:
                    time.sleep(0.0005)
            d.close()
        except OSError:
            pass
        finally:
            c.close()

    def drain(self, timeout=60):
        """wait until everything the clients sent has been forwarded (a slow relay is still busy when record exits)"""
        t0 = time.time()
        for t in list(self.handlers):
            t.join(max(0.1, timeout - (time.time() - t0)))

    def close(self):
        self.stop = True
        try:
            self.ls.close()
        except OSError:
            pass


class LocalCapture(threading.Thread):
    """`record --host` writes task.txt, the maps, *.sym, *.dbg and info into its own directory, sends them and
    removes the directory.  This thread hard-links every file it sees there (per inode: map files are replaced by
    rename) so that the files OF THE SAME RUN can be compared byte for byte with what the receiver stored."""

    def __init__(self, path, capdir):
        super().__init__(daemon=True)
        self.path, self.capdir, self.stop, self.seen, self.count = path, capdir, False, {}, 0
        os.makedirs(capdir, exist_ok=True)

    def run(self):
        while not self.stop:
            try:
                with os.scandir(self.path) as it:
                    for e in it:
                        try:
                            if not e.is_file(follow_symlinks=False):      # .channel is a FIFO
                                continue
                            # the inode number comes from lstat(), not from the directory entry (readdir's d_ino is not
                            # reliable on every file system: on this sandbox's overlay two files were seen with one
                            # d_ino), and an existing link is trusted only if it IS the same file
                            st = os.lstat(e.path)
                            key = (e.name, st.st_dev, st.st_ino)
                            old = self.seen.get(key)
                            if old is None or not os.path.samestat(os.lstat(old), st):
                                self.count += 1
                                dst = os.path.join(self.capdir, "%d" % self.count)
                                os.link(e.path, dst)
                                if os.path.samestat(os.lstat(dst), st):
                                    self.seen[key if old is None else key + (self.count,)] = dst
                                else:
                                    os.unlink(dst)      # the name was replaced in between: next poll
                        except OSError:
                            pass
            except OSError:
                pass
            time.sleep(0.0003)

    def versions(self):
        """file name -> list of contents seen under that name (or under NAME.tmp, which rename() makes NAME)"""
        out = {}
        for key, dst in self.seen.items():
            name = key[0]
            n = name[:-4] if name.endswith(".tmp") else name
            try:
                out.setdefault(n, []).append(open(dst, "rb").read())
            except OSError:
                pass
        return out


def norm_dir(uft, objdir, path, analysis=True, sort_replay=False, variant="plain", aslr=False):
    """normalised view of a recorded directory: EVERY file of the directory, name -> bytes, with only the
    documented run-to-run differences removed (pids, timestamps, session ids, addresses of ASLR'd modules,
    pointer-valued arguments); <tid>.dat files are reduced to the sequence of second words (type/depth/addr),
    or - when records carry argument payloads - to their size plus the replay output"""
    out = {}
    aopts, with_args = VARIANTS[variant][1], VARIANTS[variant][2] or aslr    # aslr: records of a shared library's functions
                                                                             # carry addresses that change from run to run
    perf_recs = []
    if not os.path.isdir(path):
        return None
    dats = []
    for n in sorted(os.listdir(path)):
        p = os.path.join(path, n)
        if not os.path.isfile(p):
            continue
        b = open(p, "rb").read()
        if n == "default.opts" or (variant == "logfile" and n == "rec.log"):
            continue
        if re.fullmatch(r"\d+\.dat", n):
            words = b"" if with_args else b"".join(b[i + 8:i + 16] for i in range(0, len(b) - 15, 16))
            dats.append(struct.pack("<I", len(b)) + words)
        elif re.fullmatch(r"perf-cpu\d+\.dat", n):
            # local recording opens one file per cpu, the receiver creates a file when data arrives: empty files
            # are no data.  Which cpu sees a task event and how often the tracee is switched out (PERF_RECORD_
            # SWITCH = 14) differs from run to run: compared is the multiset of (type, size) of the other
            # records (COMM, FORK, EXIT)
            off = 0
            while off + 8 <= len(b):
                ty, misc, sz = struct.unpack_from("<IHH", b, off)
                if sz < 8:
                    perf_recs.append((-1, len(b) - off))
                    break
                if ty != 14:
                    perf_recs.append((ty, sz))
                off += sz
            if off != len(b) and (not perf_recs or perf_recs[-1][0] != -1):
                perf_recs.append((-2, len(b) - off))
        elif n.startswith("sid-") and n.endswith(".map"):
            paths = sorted(set(l.split()[-1] for l in b.decode(errors="replace").splitlines()
                               if l.strip() and "/" in l.split()[-1]))
            out[b"sid.map"] = "\n".join(paths).encode()
        elif n == "task.txt":
            t = re.sub(rb"timestamp=[0-9.]+", b"timestamp=T", b)
            t = re.sub(rb"(pid|tid|ppid)=\d+", rb"\1=P", t)
            t = re.sub(rb"sid=[0-9a-f]+", b"sid=S", t)
            out[b"task.txt"] = b"\n".join(sorted(t.splitlines()))
        elif n == "info":
            keep = [l for l in b[40:].split(b"\n") if l.startswith((
                b"exename:", b"build_id:", b"exit_status:", b"pattern_type:", b"uftrace_version:", b"taskinfo:lines",
                b"taskinfo:nr_tid", b"argspec:", b"retspec:", b"argauto:", b"retauto:", b"enumauto:", b"auto-args:",
                b"cpuinfo:", b"osinfo:"))]
            out[b"info"] = b[:40] + b"\n".join(keep)
        else:
            out[n.encode()] = b
    for i, w in enumerate(sorted(dats)):
        out[b"T%d.dat" % i] = w
    if perf_recs or VARIANTS[variant][3]:
        out[b"perf-cpu*.dat"] = repr(sorted(perf_recs)).encode()
    if analysis:
        for cmd, args in (("replay", ["-f", "none"] + aopts), ("report", ["-f", "call"] + aopts)):
            if cmd == "replay" and (sort_replay or VARIANTS[variant][3]):
                continue     # several threads / context-switch events: the folding of leaf calls (`f();` vs `f() {` `}`)
                             # in replay depends on the timing of the run
            rc, o, e = sh(["timeout", "30", uft, cmd, "--no-pager", "-d", path] + args, timeout=40)
            o = re.sub(r"0x[0-9a-f]{6,}", "PTR", o)       # pointer-valued arguments (stack addresses)
            if cmd == "report":      # ordered by total time
                o = "\n".join(sorted(o.splitlines()))
            out[cmd.encode() + b".out"] = ("rc=%d\n" % rc).encode() + o.encode() + \
                (b"" if rc == 0 else e.encode()[-200:])
    return out


def digest_dir(d):
    return None if d is None else {n: (len(v), hashlib.sha1(v).digest()[:8]) for n, v in d.items()}


# option variants of `uftrace record`: together they produce every kind of file a data directory can hold in this
# sandbox (<tid>.dat with and without argument payloads, task.txt, sid-*.map, *.sym, *.dbg, info with the
# matching feature bits / argspec lines, perf-cpuN.dat); kernel tracing (-k: kernel_header, kallsyms,
# kernel-cpuN.dat) and SDT events (events.txt) are not available offline - they are covered in-process only.
#   name -> (record options, options of replay/report, "args" = .dat records carry payloads, perf events on)
VARIANTS = {
    "plain": ([], [], False, False),
    "srcline": (["--srcline"], ["--srcline"], False, False),
    "auto-args": (["-a"], [], True, False),
    "args": (["-A", "foo@arg1", "-R", "bar@retval", "-A", "leaf@arg1"], [], True, False),
    "trigger-args": (["-T", "foo@arg1,retval", "-T", "leaf@retval"], [], True, False),
    "with-syms": (["--with-syms", "@SYMDIR@"], ["--srcline"], False, False),
    "perf-events": ([], ["--no-event"], False, True),
    # the log file is kept outside the data directory locally and stored in it by the receiver: `rec.log` is left
    # out of the comparison, but `uftrace recv` must survive it (the path contains slashes)
    "logfile": (["-v", "--logfile", "@CWD@/rec.log"], [], False, False),
}


def record_cmd(uft, objdir, extra, d, prog, events=False):
    return ["timeout", "-s", "KILL", "40", uft, "record", "--no-pager"] + ([] if events else ["--no-event"]) + \
        ["--libmcount-path=" + objdir] + extra + ["-d", d] + prog


def start_recv(uft, srvroot):
    port = free_port()
    os.makedirs(srvroot, exist_ok=True)
    p = subprocess.Popen(["timeout", "-s", "KILL", "120", uft, "recv", "--no-pager", "--port", str(port), "-d", srvroot],
                         stdout=subprocess.PIPE, stderr=subprocess.STDOUT, cwd=os.path.dirname(srvroot))
    # wait until the port is bound WITHOUT connecting: a connection that is closed without SEND_END makes
    # `uftrace recv` exit ("message recv failed")
    for _ in range(200):
        probe = socket.socket()
        try:
            probe.bind(("127.0.0.1", port))
        except OSError:
            probe.close()
            break
        probe.close()
        time.sleep(0.02)
    time.sleep(0.05)
    return p, port


def stop_proc(p):
    if p.poll() is None:
        p.send_signal(signal.SIGTERM)
        try:
            p.wait(timeout=3)
        except subprocess.TimeoutExpired:
            p.kill()
            p.wait()
    try:
        return p.stdout.read().decode(errors="replace")
    except Exception:
        return ""


def build_progs(ctx):
    root = os.path.join(ctx.scratch, "prog")
    os.makedirs(root, exist_ok=True)
    open(os.path.join(root, "ps.c"), "w").write("#include <stdlib.h>\n" + PROG_SINGLE)
    open(os.path.join(root, "pm.c"), "w").write(PROG_MT)
    sh(["gcc", "-pg", "-g", "-no-pie", "-O0", "-o", os.path.join(root, "ps"), os.path.join(root, "ps.c")], check=True)
    sh(["gcc", "-pg", "-g", "-no-pie", "-O1", "-o", os.path.join(root, "pm"), os.path.join(root, "pm.c"), "-lpthread"], check=True)
    open(os.path.join(root, "pw.c"), "w").write(PROG_SLOW)
    sh(["gcc", "-pg", "-g", "-no-pie", "-O0", "-o", os.path.join(root, "pw"), os.path.join(root, "pw.c")], check=True)
    return os.path.join(root, "ps"), os.path.join(root, "pm")


def e2e_round(ctx, objdir, progs, rnd, spec):
    """spec = {"relay_seed": n, "runs": [[kind, extra-args, prog-args], ...]}: local recordings, then all
    clients at once through the relay; returns [(local digest dir, received digest dir or None, meta)]"""
    uft = os.path.join(objdir, "uftrace")
    root = os.path.join(ctx.scratch, "e2e%d" % rnd)
    os.makedirs(root)
    runs = []
    for r in spec["runs"]:
        kind, extra, args = r[0], r[1], r[2]
        variant = r[3] if len(r) > 3 else "plain"
        vopts = [progs["symdir"] if x == "@SYMDIR@" else x.replace("@CWD@", os.path.join(root, "cwd%d" % len(runs)))
                 for x in VARIANTS[variant][0]]
        runs.append((extra + vopts, [progs[kind]] + [str(a) for a in args], kind, variant))
    k = len(runs)
    srv, port = start_recv(uft, os.path.join(root, "srv"))
    relay = Relay(spec["relay_seed"], port)
    procs, out = [], []
    try:
        for i, (extra, prog, kind, variant) in enumerate(runs):
            cwd = os.path.join(root, "cwd%d" % i)
            os.makedirs(cwd)
            rc, o, e = sh(record_cmd(uft, objdir, extra, "local.data", prog, VARIANTS[variant][3]), cwd=cwd, timeout=60)
            if rc != 0:
                ctx.broken("e2e: local uftrace record failed rc=%d: %s" % (rc, (o + e)[-300:]))
        caps = []
        for i, (extra, prog, kind, variant) in enumerate(runs):
            cwd = os.path.join(root, "cwd%d" % i)
            caps.append(LocalCapture(os.path.join(cwd, "net%d.data" % i), os.path.join(root, "cap%d" % i)))
            caps[-1].start()
            procs.append(subprocess.Popen(
                record_cmd(uft, objdir, extra + ["--host", "127.0.0.1", "--port", str(relay.port)],
                           "net%d.data" % i, prog, VARIANTS[variant][3]), cwd=cwd, stdout=subprocess.PIPE, stderr=subprocess.STDOUT))
            time.sleep(spec.get("stagger", 0.0))
        rcs = []
        for p in procs:
            try:
                o, _ = p.communicate(timeout=60)
            except subprocess.TimeoutExpired:
                p.kill()
                o, _ = p.communicate()
            rcs.append((p.returncode, o.decode(errors="replace")[-300:]))
        relay.drain()
        time.sleep(0.3)
        recv_died = srv.poll() is not None
    finally:
        for c in caps if "caps" in dir() else []:
            c.stop = True
        relay.close()
        srvout = stop_proc(srv)
    # SAME RUN: every metadata file the recorder had in its directory == the file the receiver stored (byte for byte)
    same_run = []
    for i, c in enumerate(caps):
        c.join(timeout=2)
        rdir = os.path.join(root, "srv", "net%d.data" % i)
        cap, rcv, details = {}, {}, {}
        for n, vers in c.versions().items():
            if n == "default.opts" or n == ".channel" or n.endswith(".dat"):
                continue
            got = open(os.path.join(rdir, n), "rb").read() if os.path.isfile(os.path.join(rdir, n)) else None
            if n.endswith(".map") and len(vers) < 2:
                continue      # maps are rewritten through NAME.tmp + rename(): with one version seen we may hold the old one
            pick = got if got in vers else vers[-1]
            if got is not None and got not in vers:
                k = next((j for j in range(min(len(pick), len(got))) if pick[j] != got[j]), min(len(pick), len(got)))
                details[n] = {"versions_seen": [len(v) for v in vers], "received_len": len(got), "first_difference_at": k,
                              "captured_there": pick[max(0, k - 40):k + 80].decode(errors="replace"),
                              "received_there": got[max(0, k - 40):k + 80].decode(errors="replace")}
            cap[n.encode()] = pick
            if got is not None:
                rcv[n.encode()] = got
        ctx.tag("e2e:same-run-metadata-files-captured", len(cap))
        same_run.append((digest_dir(cap), digest_dir(rcv), {"round": rnd, "client": i, "spec": spec, "variant": runs[i][3],
                                                            "captured": sorted(x.decode() for x in cap), "details": details,
                                                            "received": sorted(x.decode() for x in rcv)}))
    bad = evaluate_sub(ctx, [(a, b) for a, b, _ in same_run], "e2e_same_run%d" % rnd)
    for i in (bad or [])[:2]:
        a, b, meta = same_run[i]
        diff = sorted(n.decode() for n in a if b.get(n) != a[n])
        ctx.violation("C16 violated end-to-end (same run): files the recorder had in its own directory were not stored "
                      "identically by `uftrace recv`: %s" % ", ".join(diff), {"mode": "e2e", "case": meta, "differing": diff}, True)
    if recv_died:
        ctx.violation("C16 violated end-to-end: `uftrace recv` exited while serving well-behaved `record --host` clients "
                      "(%s): %s" % (", ".join(r[3] for r in runs), srvout[-200:]),
                      {"mode": "e2e", "case": {"spec": spec, "recv_output": srvout[-400:], "variant": [r[3] for r in runs]}}, True)
    for i, (extra, prog, kind, variant) in enumerate(runs):
        loc = norm_dir(uft, objdir, os.path.join(root, "cwd%d" % i, "local.data"), sort_replay=(kind == "mt"), variant=variant,
                       aslr=(kind == "dotname"))
        net = norm_dir(uft, objdir, os.path.join(root, "srv", "net%d.data" % i), sort_replay=(kind == "mt"), variant=variant,
                       aslr=(kind == "dotname"))
        meta = {"round": rnd, "clients": k, "client": i, "kind": kind, "variant": variant, "prog": prog[1:], "record_rc": rcs[i][0],
                "record_out": rcs[i][1], "recv_output": srvout[-300:], "spec": spec,
                "local_files": sorted(x.decode() for x in (loc or {})),
                "net_files": sorted(x.decode() for x in (net or {})) if net is not None else None,
                "relay_chunk_sizes": dict(sorted(relay.chunks.items()))}
        out.append((digest_dir(loc) or {}, digest_dir(net), meta))
        tags = ["e2e:clients=%d" % k, "e2e:" + kind, "e2e:variant=" + variant] + \
            (["e2e:metadata-file-size=" + ("k*64K" if int(kind[3:]) % 65536 == 0 else "k*64K-1")] if kind.startswith("sym") else []) + \
            (["e2e:module-names-with-leading-dot"] if kind == "dotname" else []) + \
            ["e2e:chunk=%d" % c for c in relay.chunks if c in (1, 7, 8, 9, 65536)] + \
            ["e2e:file-kind=" + x for x in sorted(set(
                "dbg" if n.endswith(b".dbg") else "sym" if n.endswith(b".sym") else "perf" if n.startswith(b"perf-") else
                "dat" if n.endswith(b".dat") else n.decode() for n in (loc or {}) if not n.endswith(b".out")))]
        ctx.case(key=("e2e", json.dumps(spec, sort_keys=True), i), tags=tags,
                 sample=meta if rnd == 0 and i == 0 else None,
                 size=sum(v[0] for v in (digest_dir(net) or {}).values()))
        if rcs[i][0] != 0 and ctx.extra.setdefault("e2e_failures", 0) < 3:
            ctx.extra["e2e_failures"] += 1
            ctx.violation("C16 e2e: `uftrace record --host` failed (rc=%s) through the re-segmenting relay" % rcs[i][0],
                          {"mode": "e2e", "case": meta}, True)
    shutil.rmtree(root, ignore_errors=True)
    return out


def e2e_reset(ctx, objdir, progs, spec):
    """a client that sends its directory name and some data and is then RESET (SO_LINGER 0: RST instead of
    FIN, no SEND_END), followed by an ordinary `uftrace record --host`: `uftrace recv` accepts the new
    connection on the descriptor number it has just closed.  The ordinary client's directory must equal the
    local recording and the aborted client's directory must hold (a prefix of) its own data only."""
    uft = os.path.join(objdir, "uftrace")
    root = os.path.join(ctx.scratch, "e2e-reset")
    shutil.rmtree(root, ignore_errors=True)
    os.makedirs(root)
    adir, tid, payload, task = b"aborted.data", spec["tid"], bytes.fromhex(spec["payload"]), b"ABORTED-TASK\n"
    own = {b"%d.dat" % tid: payload, b"task.txt": task}
    prog = [progs["single"], str(spec["n"])]
    rc, o, e = sh(record_cmd(uft, objdir, [], "local.data", prog), cwd=root, timeout=60)
    if rc != 0:
        ctx.broken("e2e-reset: local uftrace record failed rc=%d: %s" % (rc, (o + e)[-300:]))
    srv, port = start_recv(uft, os.path.join(root, "srv"))
    relay = Relay(spec["relay_seed"], port)
    try:
        c = socket.create_connection(("127.0.0.1", port))
        msgs = hdr(101, len(adir)) + adir + hdr(102, 4 + len(payload)) + be32(tid) + payload
        if spec.get("with_meta"):
            msgs += hdr(106, 4 + 8 + len(task)) + be32(8) + b"task.txt" + task
        else:
            own.pop(b"task.txt")
        c.sendall(msgs)
        import fcntl
        for _ in range(0 if spec.get("immediate") else 200):          # until the server's kernel has everything ...
            if struct.unpack("i", fcntl.ioctl(c.fileno(), 0x5411, b"\0\0\0\0"))[0] == 0:      # SIOCOUTQ
                break
            time.sleep(0.01)
        if not spec.get("immediate"):     # (immediate: the RST may overtake unread data - EPOLLIN|EPOLLHUP together)
            time.sleep(0.3)               # ... and `uftrace recv` has handled it
        c.setsockopt(socket.SOL_SOCKET, socket.SO_LINGER, struct.pack("ii", 1, 0))
        c.close()                     # RST
        time.sleep(0.3)
        rc2, o2, e2 = sh(record_cmd(uft, objdir, ["--host", "127.0.0.1", "--port", str(relay.port)], "net.data", prog),
                         cwd=root, timeout=60)
        time.sleep(0.3)
    finally:
        relay.close()
        srvout = stop_proc(srv)
    loc = norm_dir(uft, objdir, os.path.join(root, "local.data"))
    net = norm_dir(uft, objdir, os.path.join(root, "srv", "net.data"))
    got = snap(os.path.join(root, "srv", adir.decode()))
    meta = {"spec": spec, "record_rc": rc2, "record_out": (o2 + e2)[-300:], "recv_output": srvout[-300:],
            "net_files": sorted(x.decode() for x in (net or {})) if net is not None else None,
            "aborted_dir_files": {n.decode(): len(v) for n, v in (got or {}).items()} if got is not None else None}
    shutil.rmtree(root, ignore_errors=True)
    ctx.case(key=("e2e-reset", json.dumps(spec, sort_keys=True)), tags=["e2e:connection-reset(RST)" + (":with-unread-data" if spec.get("immediate") else ""),
                   "e2e:descriptor-reused-after-reset"],
             sample=None, size=len(payload))
    bad = evaluate_dig(ctx, [(digest_dir(loc) or {}, digest_dir(net))], "e2e_reset")
    fresh_blobs()
    # (files that are not the aborted client's fail the check by their name: their content is not shipped to Coq)
    small = {n: (v[:len(own[n]) + 1] if n in own else b"") for n, v in (got or {}).items()}
    term = "prefix_dir %s %s" % (cdir(small), cdir(own))
    res = coq.run_cases(ctx, "e2e_reset_own", PRE, BL.text(), [("own_only", term)])
    if bad:
        ctx.violation("C16 violated end-to-end: after another client's connection was reset, the directory stored by `uftrace recv` "
                      "for an ordinary `record --host` differs from the local recording (received files: %s)" % meta["net_files"],
                      {"mode": "e2e-reset", "case": meta}, True)
    if res is not None and "true" not in res["own_only"]:
        ctx.violation("C16 violated end-to-end: the directory of a client whose connection was reset holds data that is not its own: %s"
                      % meta["aborted_dir_files"], {"mode": "e2e-reset", "case": meta}, True)
    if rc2 != 0:
        ctx.violation("C16 e2e: `uftrace record --host` failed (rc=%s) after another client's connection was reset" % rc2,
                      {"mode": "e2e-reset", "case": meta}, True)
    return meta


def e2e_same_name(ctx, objdir, progs, spec):
    """two `uftrace record --host` running AT THE SAME TIME from different working directories with the default
    directory name: the receiver must keep them apart (uftrace.data and uftrace.data.1), each equal to the local
    recording of its program"""
    uft = os.path.join(objdir, "uftrace")
    root = os.path.join(ctx.scratch, "e2e-same")
    shutil.rmtree(root, ignore_errors=True)
    os.makedirs(root)
    pw = os.path.join(os.path.dirname(progs["single"]), "pw")
    runs = [("A", [pw]), ("B", [progs["single"], str(spec["n"])])]
    srv, port = start_recv(uft, os.path.join(root, "srv"))
    relay = Relay(spec["relay_seed"], port)
    procs = []
    try:
        for name, prog in runs:
            cwd = os.path.join(root, name)
            os.makedirs(cwd)
            rc, o, e = sh(record_cmd(uft, objdir, [], "local.data", prog), cwd=cwd, timeout=60)
            if rc != 0:
                ctx.broken("e2e-same-name: local uftrace record failed rc=%d: %s" % (rc, (o + e)[-300:]))
        for name, prog in runs:
            dname = "uftrace.data" if name == "A" or not spec.get("alias") else spec["alias"]
            procs.append(subprocess.Popen(
                record_cmd(uft, objdir, ["--host", "127.0.0.1", "--port", str(relay.port)], dname, prog),
                cwd=os.path.join(root, name), stdout=subprocess.PIPE, stderr=subprocess.STDOUT))
            time.sleep(0.5)         # A (1.2 s) is still running when B starts and finishes
        rcs = []
        for p in procs:
            try:
                o, _ = p.communicate(timeout=60)
            except subprocess.TimeoutExpired:
                p.kill()
                o, _ = p.communicate()
            rcs.append((p.returncode, o.decode(errors="replace")[-300:]))
        relay.drain()
        time.sleep(0.3)
        recv_died = srv.poll() is not None
    finally:
        relay.close()
        srvout = stop_proc(srv)
    results = []
    for (name, prog), where, rc in zip(runs, ("uftrace.data", "uftrace.data.1"), rcs):
        loc = norm_dir(uft, objdir, os.path.join(root, name, "local.data"))
        net = norm_dir(uft, objdir, os.path.join(root, "srv", where))
        meta = {"scenario": "two clients at the same time, both with the directory name uftrace.data", "client": name,
                "expected_directory": where, "record_rc": rc[0], "record_out": rc[1], "recv_output": srvout[-300:],
                "spec": spec, "server_directories": sorted(os.listdir(os.path.join(root, "srv"))),
                "local_files": sorted(x.decode() for x in (loc or {})),
                "net_files": sorted(x.decode() for x in (net or {})) if net is not None else None}
        results.append((digest_dir(loc) or {}, digest_dir(net), meta))
        ctx.case(key=("e2e-same-name", name, json.dumps(spec, sort_keys=True)),
                 tags=["e2e:concurrent-clients-same-default-dirname" + (":alias-spelling" if spec.get("alias") else "")], size=sum(v[0] for v in (digest_dir(net) or {}).values()))
        if rc[0] != 0 or recv_died:
            ctx.violation("C16 e2e: two concurrent `record --host` with the same directory name: record rc=%s, recv %s"
                          % (rc[0], "exited" if recv_died else "alive"), {"mode": "e2e-same-name", "case": meta}, True)
    shutil.rmtree(root, ignore_errors=True)
    bad = evaluate_dig(ctx, [(a, b) for a, b, _ in results], "e2e_same")
    for i in (bad or []):
        a, b, meta = results[i]
        diff = sorted(n.decode() for n in set(a) | set(b or {}) if (b or {}).get(n) != a.get(n))
        ctx.violation("C16 violated end-to-end: two clients sending at once with the same directory name: directory %s "
                      "differs from the local recording of client %s (files: %s; directories on the server: %s)"
                      % (meta["expected_directory"], meta["client"], ", ".join(diff), meta["server_directories"]),
                      {"mode": "e2e-same-name", "case": meta, "differing": diff}, True)


def e2e_backpressure(ctx, objdir, progs, spec):
    """SEVERAL WRITER THREADS, ONE SOCKET: a multi-threaded program (8 threads filling buffers at the same time) recorded
    with the DEFAULT number of writer threads (ncpu/4, computed by record after the socket is set up) - or an explicit
    one - through a throttling relay (small receive buffer, pieces of 1-8 KiB, a delay after each): the writers block
    in the middle of messages.  The messages must still arrive whole: received directory == local recording and
    `uftrace recv` survives."""
    uft = os.path.join(objdir, "uftrace")
    root = os.path.join(ctx.scratch, "e2e-bp")
    shutil.rmtree(root, ignore_errors=True)
    os.makedirs(root)
    prog = [progs["mt"], str(spec["threads"]), str(spec["calls"])]
    extra = ["--num-thread=%d" % spec["num_thread"]] if spec.get("num_thread") else []
    rc, o, e = sh(record_cmd(uft, objdir, extra, "local.data", prog), cwd=root, timeout=90)
    if rc != 0:
        ctx.broken("e2e-backpressure: local uftrace record failed rc=%d: %s" % (rc, (o + e)[-300:]))
    srv, port = start_recv(uft, os.path.join(root, "srv"))
    relay = Relay(spec["relay_seed"], port, slow=spec["delay"], small_first=0, rcvbuf=8192, pieces=[1024, 2048, 4096, 8192])
    try:
        rc2, o2, e2 = sh(record_cmd(uft, objdir, extra + ["--host", "127.0.0.1", "--port", str(relay.port)], "net.data", prog),
                         cwd=root, timeout=90)
        relay.drain()
        time.sleep(0.5)
        recv_died = srv.poll() is not None
    finally:
        relay.close()
        srvout = stop_proc(srv)
    loc = norm_dir(uft, objdir, os.path.join(root, "local.data"), sort_replay=True)
    net = norm_dir(uft, objdir, os.path.join(root, "srv", "net.data"), sort_replay=True)
    meta = {"scenario": "multi-threaded program, %s writer threads, throttling relay (SO_RCVBUF 8 KiB, 1-8 KiB pieces, %g s delay)"
                        % (spec.get("num_thread") or "DEFAULT number of", spec["delay"]),
            "spec": spec, "record_rc": rc2, "record_out": (o2 + e2)[-300:], "recv_died": recv_died, "recv_output": srvout[-300:],
            "local_files": sorted(x.decode() for x in (loc or {})),
            "net_files": sorted(x.decode() for x in (net or {})) if net is not None else None}
    shutil.rmtree(root, ignore_errors=True)
    ctx.case(key=("e2e-backpressure", json.dumps(spec, sort_keys=True)),
             tags=["e2e:writer-threads=%s" % (spec.get("num_thread") or "default"), "e2e:back-pressure(relay rcvbuf 8K, 1-8K pieces)"],
             size=sum(v[0] for v in (digest_dir(net) or {}).values()))
    bad = evaluate_dig(ctx, [(digest_dir(loc) or {}, digest_dir(net))], "e2e_bp")
    if bad or recv_died or rc2 != 0:
        a, b = digest_dir(loc) or {}, digest_dir(net) or {}
        diff = sorted(n.decode() for n in set(a) | set(b) if b.get(n) != a.get(n))
        ctx.violation("C16 violated end-to-end: several writer threads on one socket under back-pressure: record rc=%s, `uftrace "
                      "recv` %s, received directory %s (files: %s)" % (
                          rc2, "EXITED: " + srvout[-120:].strip() if recv_died else "alive",
                          "differs from the local recording" if bad else "equal", ", ".join(diff)),
                      {"mode": "e2e-backpressure", "case": meta, "differing": diff}, True)
    return meta


def e2e_vanish(ctx, objdir, progs, spec):
    """clients that DISAPPEAR while others record: a `uftrace record --host` is killed (SIGKILL) in the middle of its
    run and a connection is opened and closed without a byte (a port scan) while client B records; client C records
    afterwards.  `uftrace recv` must keep running and the directories of B and C must equal their local recordings."""
    uft = os.path.join(objdir, "uftrace")
    root = os.path.join(ctx.scratch, "e2e-vanish")
    shutil.rmtree(root, ignore_errors=True)
    os.makedirs(root)
    pw = os.path.join(os.path.dirname(progs["single"]), "pw")
    good = [("B", [progs["single"], str(spec["n"])]), ("C", [progs["single"], "3"])]
    for name, prog in good:
        os.makedirs(os.path.join(root, name))
        rc, o, e = sh(record_cmd(uft, objdir, [], "local.data", prog), cwd=os.path.join(root, name), timeout=60)
        if rc != 0:
            ctx.broken("e2e-vanish: local uftrace record failed rc=%d: %s" % (rc, (o + e)[-300:]))
    os.makedirs(os.path.join(root, "K"))
    srv, port = start_recv(uft, os.path.join(root, "srv"))
    relay = Relay(spec["relay_seed"], port)
    rcs = {}
    try:
        net = ["--host", "127.0.0.1", "--port", str(relay.port)]
        victim = subprocess.Popen(record_cmd(uft, objdir, net, "killed.data", [pw]), cwd=os.path.join(root, "K"),
                                  stdout=subprocess.PIPE, stderr=subprocess.STDOUT, start_new_session=True)
        time.sleep(0.4)
        b = subprocess.Popen(record_cmd(uft, objdir, net, "netB.data", good[0][1]), cwd=os.path.join(root, "B"),
                             stdout=subprocess.PIPE, stderr=subprocess.STDOUT)
        os.killpg(victim.pid, signal.SIGKILL)            # record (and its tracee) die without SEND_END
        victim.wait()
        c = socket.create_connection(("127.0.0.1", port))   # connect, say nothing, go away
        c.close()
        ob, _ = b.communicate(timeout=60)
        rcs["B"] = (b.returncode, ob.decode(errors="replace")[-300:])
        rc, o, e = sh(record_cmd(uft, objdir, net, "netC.data", good[1][1]), cwd=os.path.join(root, "C"), timeout=60)
        rcs["C"] = (rc, (o + e)[-300:])
        relay.drain()
        time.sleep(0.3)
        recv_died = srv.poll() is not None
    finally:
        relay.close()
        srvout = stop_proc(srv)
    results = []
    for name, prog in good:
        loc = norm_dir(uft, objdir, os.path.join(root, name, "local.data"))
        netd = norm_dir(uft, objdir, os.path.join(root, "srv", "net%s.data" % name))
        meta = {"scenario": "a record --host is killed and a connection is closed without a byte while B records; C records afterwards",
                "client": name, "record_rc": rcs[name][0], "record_out": rcs[name][1], "recv_died": recv_died,
                "recv_output": srvout[-300:], "spec": spec,
                "net_files": sorted(x.decode() for x in (netd or {})) if netd is not None else None}
        results.append((digest_dir(loc) or {}, digest_dir(netd), meta))
        ctx.case(key=("e2e-vanish", name, json.dumps(spec, sort_keys=True)), tags=["e2e:client-killed-without-END", "e2e:connect-and-close"],
                 size=sum(v[0] for v in (digest_dir(netd) or {}).values()))
    shutil.rmtree(root, ignore_errors=True)
    bad = evaluate_dig(ctx, [(a, b2) for a, b2, _ in results], "e2e_vanish")
    for i, (a, b2, meta) in enumerate(results):
        if i in (bad or []) or meta["record_rc"] != 0 or recv_died:
            diff = sorted(n.decode() for n in set(a) | set(b2 or {}) if (b2 or {}).get(n) != a.get(n))
            ctx.violation("C16 violated end-to-end: another client disappeared without SEND_END: client %s: record rc=%s, `uftrace "
                          "recv` %s, received directory %s (files: %s)" % (
                              meta["client"], meta["record_rc"], "EXITED: " + srvout[-100:].strip() if recv_died else "alive",
                              "differs from the local recording" if i in (bad or []) else "equal", ", ".join(diff)),
                          {"mode": "e2e-vanish", "case": meta, "differing": diff}, True)


def e2e_verdict(ctx, results):
    pairs = [(a, b) for a, b, _ in results]
    bad = evaluate_dig(ctx, pairs, "e2e")
    for i in (bad or [])[:3]:
        a, b, meta = results[i]
        diff = sorted(n.decode() for n in set(a) | set(b or {}) if (b or {}).get(n) != a.get(n))
        ctx.violation("C16 violated end-to-end: directory stored by `uftrace recv` differs from the local recording "
                      "of the same program (files: %s)" % ", ".join(diff),
                      {"mode": "e2e", "case": meta, "differing": diff}, True)


def sized_prog_source(extra):
    """a C program whose functions add `extra` bytes to its .sym file: every function is one line
    "<addr:16> <size:8> T <name>\\n" = 29 + len(name) bytes (after /tmp/seedout/C16-5/demo/gen.py)"""
    LINE, BIG = 29, 60
    lens = []
    while extra >= 3 * (LINE + BIG):
        lens.append(BIG)
        extra -= LINE + BIG
    rest = extra - 2 * LINE
    lens += [rest // 2, rest - rest // 2]
    names = [("fn%05d_" % i) + "x" * (l - 8) for i, l in enumerate(lens)]
    out = ["int %s(int x) { return x + 1; }" % n for n in names]
    picks = [names[0], names[len(names) // 2], names[-2], names[-1]]
    out += ["int main(void)", "{", "\tint v = 0;"] + ["\tv = %s(v);" % n for n in picks] + ["\treturn v == %d ? 0 : 1;" % len(picks), "}"]
    return "\n".join(out) + "\n"


def build_sized_prog(ctx, objdir, target):
    """a -pg program whose symbol file <prog>.sym is EXACTLY `target` bytes (a metadata file at a size where a sender
    that cuts files into pieces may slip); returns the path or None"""
    uft = os.path.join(objdir, "uftrace")
    root = os.path.join(ctx.scratch, "prog")
    os.makedirs(root, exist_ok=True)
    exe = os.path.join(root, "pz%d" % target)
    extra = target - 2000
    for _ in range(6):
        open(exe + ".c", "w").write(sized_prog_source(extra))
        sh(["gcc", "-pg", "-no-pie", "-O0", "-o", exe, exe + ".c"], check=True)
        tmp = exe + ".data"
        shutil.rmtree(tmp, ignore_errors=True)
        rc, o, e = sh(record_cmd(uft, objdir, [], tmp, [exe]), timeout=60)
        symf = os.path.join(tmp, os.path.basename(exe) + ".sym")
        if rc != 0 or not os.path.exists(symf):
            return None
        size = os.path.getsize(symf)
        shutil.rmtree(tmp, ignore_errors=True)
        if size == target:
            return exe
        extra += target - size
    return None


def build_dot_prog(ctx):
    """a traced executable `.t-wrapped` linked with a shared library `.libx.so` (wrapper scripts and hidden libraries
    are named like that): their symbol files are `.t-wrapped.sym` and `.libx.so.sym`"""
    root = os.path.join(ctx.scratch, "prog", "dot")
    os.makedirs(root, exist_ok=True)
    open(os.path.join(root, "libx.c"), "w").write("int libx_twice(int x) { return 2 * x; }\nint libx_inc(int x) { return libx_twice(x) + 1; }\n")
    open(os.path.join(root, "t.c"), "w").write("int libx_inc(int);\nint foo(int x) { return libx_inc(x); }\n"
                                                "int main(void) { return foo(1) + foo(2) < 0; }\n")
    sh(["gcc", "-pg", "-g", "-fPIC", "-shared", "-o", os.path.join(root, ".libx.so"), os.path.join(root, "libx.c")], check=True)
    sh(["gcc", "-pg", "-g", "-no-pie", "-O0", "-o", os.path.join(root, ".t-wrapped"), os.path.join(root, "t.c"),
        "-L" + root, "-l:.libx.so", "-Wl,-rpath," + root], check=True)
    return os.path.join(root, ".t-wrapped")


def e2e_progs(ctx, objdir):
    """the traced programs and a symbol directory for --with-syms (the .sym/.dbg files of a --srcline recording)"""
    ps, pm = build_progs(ctx)
    symdir = os.path.join(ctx.scratch, "prog", "symdir")
    if not os.path.isdir(symdir):
        uft = os.path.join(objdir, "uftrace")
        tmp = os.path.join(ctx.scratch, "prog", "sym.data")
        rc, o, e = sh(record_cmd(uft, objdir, ["--srcline"], tmp, [ps, "1"]), timeout=60)
        os.makedirs(symdir)
        for n in os.listdir(tmp) if rc == 0 else []:
            if n.endswith((".sym", ".dbg")):
                shutil.copy(os.path.join(tmp, n), os.path.join(symdir, n))
    progs = {"single": ps, "mt": pm, "symdir": symdir, "dotname": build_dot_prog(ctx)}
    for target in ctx.n([65536], [65536, 131072, 65535]):
        exe = build_sized_prog(ctx, objdir, target)
        if exe is None:
            ctx.broken("e2e: could not build a program whose .sym file has exactly %d bytes" % target)
        else:
            progs["sym%d" % target] = exe
    return progs


def e2e(ctx, objdir):
    progs = e2e_progs(ctx, objdir)
    results = []
    todo = []          # every option variant at least once per run, in a seed-dependent order
    for rnd in range(ctx.n(3, 12)):
        k = [2, 3, 4, 1, 4, 2, 3, 1][rnd % 8]
        runs = []
        for i in range(k):
            if not todo:
                todo = sorted(VARIANTS)
                ctx.rng.shuffle(todo)
            variant = todo.pop()
            if variant in ("plain", "args", "trigger-args") and ctx.rng.random() < 0.4:
                # many tasks, many buffers, several writer threads on the one socket
                runs.append(["mt", ctx.rng.choice([[], ["--num-thread=1"], ["--num-thread=4"]]),
                             [ctx.rng.choice([2, 4]), ctx.rng.choice([3000, 9000])], variant])
            else:
                runs.append(["single", [], [ctx.rng.choice([0, 1, 3, 50, 3000])], variant])
        sized = sorted(k for k in progs if k.startswith("sym") and k != "symdir")
        if sized and rnd < max(1, len(sized)):
            # a symbol file of exactly k * 64 KiB (+-1): a metadata file at a size where a chunking sender may slip
            runs.append([sized[rnd % len(sized)], [], [], ctx.rng.choice(["plain", "srcline"])])
        if rnd == 1 or (rnd > 2 and rnd % 4 == 1):
            # modules whose base names start with a dot: .t-wrapped.sym, .libx.so.sym (and .dbg with --srcline)
            runs.append(["dotname", [], [], ctx.rng.choice(["plain", "srcline", "auto-args"])])
        spec = {"relay_seed": ctx.rng.randrange(1 << 30), "runs": runs, "stagger": ctx.rng.choice([0.0, 0.0, 0.02])}
        results += e2e_round(ctx, objdir, progs, rnd, spec)
    e2e_verdict(ctx, results)
    for i in range(ctx.n(1, 4)):
        e2e_backpressure(ctx, objdir, progs, {"relay_seed": ctx.rng.randrange(1 << 30), "threads": 8,
                                               "calls": ctx.rng.choice([15000, 30000]), "delay": ctx.rng.choice([0.0002, 0.0005]),
                                               "num_thread": [0, 0, 2, 4][i % 4]})
    for _ in range(ctx.n(1, 3)):
        e2e_same_name(ctx, objdir, progs, {"relay_seed": ctx.rng.randrange(1 << 30), "n": ctx.rng.choice([1, 3, 50]),
                                            "alias": ctx.rng.choice([None, "./uftrace.data", "uftrace.data/", "./uftrace.data//"])})
    for _ in range(ctx.n(1, 3)):
        e2e_vanish(ctx, objdir, progs, {"relay_seed": ctx.rng.randrange(1 << 30), "n": ctx.rng.choice([1, 3, 50])})
    for _ in range(ctx.n(1, 4)):
        e2e_reset(ctx, objdir, progs, {"relay_seed": ctx.rng.randrange(1 << 30), "n": ctx.rng.choice([1, 3, 50]),
                                        "tid": ctx.rng.choice([7, 4242]), "with_meta": ctx.rng.random() < 0.5,
                                        "immediate": ctx.rng.random() < 0.4,
                                        "payload": rbytes(ctx.rng, ctx.rng.choice([0, 16, 48])).hex()})


# ---------------------------------------------------------------- witnesses of the two defects found
def witness_same_dirname(ctx, exe):
    """two clients that are connected at the same time and use the same directory name (the default
    `uftrace.data` on two machines): the second SEND_DIR_NAME rotates the first client's directory away
    and both write into the new one"""
    f1 = {b"task.txt": b"A-task\n", b"info": MAGIC + bytes(32) + b"A-info\n"}
    f2 = {b"task.txt": b"B-task\n", b"info": MAGIC + bytes(32) + b"B-info\n"}
    fin = [("taskfile",), ("info",)]
    a = {"idx": 0, "dir": b"uftrace.data", "where": b"uftrace.data", "files": f1, "wsched": [NOCAP], "lsched": [NOCAP],
         "ops": [("data", 11, b"A1"), ("sleep", 300000), ("data", 11, b"A2")] + fin}
    b = {"idx": 1, "dir": b"uftrace.data", "where": b"uftrace.data", "files": f2, "wsched": [NOCAP], "lsched": [NOCAP],
         "ops": [("sleep", 100000), ("data", 22, b"B1"), ("sleep", 400000)] + fin}
    b["pre_sleep"] = 100000      # b connects at once but sends its directory name after 100 ms
    case = {"n": -1, "big": False, "phases": [[a, b]], "rsched": [NOCAP], "fsched": [NOCAP * 1000]}
    run_case(exe, case, os.path.join(ctx.scratch, "w2"))
    d = a["recv"] or {}          # the server's "uftrace.data" when both are done
    mixed = (b"11.dat" in d and b"22.dat" in d) or d.get(b"task.txt") not in (f1[b"task.txt"], f2[b"task.txt"])
    return mixed, observed(case)


def witness_shared_socket(ctx, objdir):
    """multi-threaded tracee, default number of writer threads (> 1), slow receiver: the writer threads'
    send_trace_data() calls interleave on the one socket"""
    uft = os.path.join(objdir, "uftrace")
    ps, pm = build_progs(ctx)
    root = os.path.join(ctx.scratch, "w1")
    os.makedirs(root)
    srv, port = start_recv(uft, os.path.join(root, "srv"))
    relay = Relay(1, port, slow=0.0002, small_first=0)
    try:
        rc, o, e = sh(record_cmd(uft, objdir, ["--num-thread=4", "--host", "127.0.0.1", "--port", str(relay.port)],
                                 "net.data", [pm, "8", "30000"]), cwd=root, timeout=60)
        time.sleep(0.5)
        died = srv.poll() is not None
    finally:
        relay.close()
        out = stop_proc(srv)
    ndat = len([n for n in os.listdir(os.path.join(root, "srv", "net.data")) if n.endswith(".dat")]) \
        if os.path.isdir(os.path.join(root, "srv", "net.data")) else 0
    has_info = os.path.exists(os.path.join(root, "srv", "net.data", "info"))
    shutil.rmtree(root, ignore_errors=True)
    fails = died or not has_info
    return fails, {"record_rc": rc, "recv_died": died, "recv_output": out[-300:], "dat_files": ndat, "info_received": has_info,
                   "cmd": "uftrace record --num-thread=4 --host H ./pm 8 30000  (8 threads x 30000 calls; relay delays 0.2 ms per 16 KiB)"}


def witnesses(ctx, objdir, exe):
    obs = {}
    try:
        mixed, o2 = witness_same_dirname(ctx, exe)
    except Exception as ex:          # a witness must never break the check
        mixed, o2 = False, {"error": repr(ex)}
    obs[KEY_SAMEDIR] = {"reproduced": mixed, "observation": o2}
    # (the shared-socket witness became the regular scenario e2e_backpressure)
    texts = {
        KEY_SAMEDIR: "two clients connected at once that use the same directory name (e.g. the default uftrace.data) "
                     "have their files mixed in one directory (cmds/recv.c recv_trace_dir_name)",
        KEY_RACE: "writer threads of `uftrace record --host` share one socket without a lock; under back-pressure their "
                  "messages interleave and `uftrace recv` exits with 'invalid message', losing the recording",
    }
    for key, o in obs.items():
        ctx.tag("witness:" + key + (":reproduced" if o["reproduced"] else ":not-reproduced"))
        # listed -> KNOWN-FINDING; unlisted (e.g. the shared-socket race, fixed in /repo) and reproduced -> VIOLATION
        ctx.known_finding(key, texts[key], o["reproduced"], {"key": key, "observation": o["observation"]})
    ctx.extra["defect_witnesses"] = obs


# ---------------------------------------------------------------- entry points
def setup(ctx):
    coq.prove(ctx, "C16", extra_files=["C16/Lit"])
    objdir = build.get_build("plain", ctx.log)
    exe = os.path.join(ctx.scratch, "c16_harness")
    build.cc([os.path.join(HC, "c16_send.c"), os.path.join(HC, "c16_recv.c"), "-I" + HC, build.uf_archive(objdir)],
             exe, objdir, extra=build.UF_LIBS)
    return objdir, exe


def common_meta(ctx):
    ctx.rule = ("in-process cases: 1-4 concurrent clients (distinct directory names; a name re-used only after the "
                "first client finished), each a random recording (0-5 buffers over 1-4 tids, kernel/perf data, "
                "task/map/sym/dbg/info files) sent by the real write_buffer()/send_*() under a random short-write "
                "schedule and read by the real handle_client_sock() under a random read-size schedule; a case is "
                "distinct by (ops, files, schedules); non-trivial = at least one data buffer or metadata file is "
                "sent.  big cases: payloads of 64 KiB .. 1 MiB (digests).  raw cases: fixed table of malformed "
                "streams x random read schedules.  e2e: uftrace recv + 1-4 concurrent `record --host` through a "
                "re-segmenting TCP relay vs local recordings, over the option variants plain / --srcline / -a / -A -R / -T arg specs "
                "/ --with-syms / perf events / --logfile (each at least once per run), comparing the complete file sets; every 10th in-process case and one e2e scenario: a client whose "
                "connection is reset after its directory name / some data, followed by a client on the re-used descriptor; every "
                "10th: two clients connected at the same time with clashing directory names (same, NAME/NAME.old); e2e also: "
                "two `record --host` at once with the default name, and a byte-for-byte comparison of the metadata files "
                "the recorder had in its own directory (hard-linked while it runs) with what the receiver stored; metadata "
                "files of 0 / k*4 KiB / k*64 KiB / k*64 KiB+-1 bytes (in-process, all of META_SIZES per run) and a program "
                "whose .sym file has exactly 64 KiB (e2e); every 10th in-process case: 2-4 writer threads on the one socket; "
                "e2e: an 8-thread program with the default --num-thread through a throttling relay")
    ctx.trusted = [
        "Coq 8.16.1 kernel incl. vm_compute; no axioms (Print Assumptions: closed under the global context)",
        "hand-written model coq/theories/C16/Model.v of utils/utils.c read_all/write_all/writev_all, cmds/recv.c "
        "send_trace_*/handle_client_sock/recv_trace_*/write_client_file/client list, cmds/record.c write_buffer & "
        "send_*_file order; create_directory on a flat directory of server-made directories",
        "generated constants coq/theories/Gen/Consts.v (message types, magic, sizeof/offsetof of uftrace_file_header)",
        "harness harness/c/c16_send.c + c16_recv.c (#include cmds/record.c / cmds/recv.c; interposed read/write/"
        "writev; socketpair instead of TCP) and props/c16.py (snapshots, normalisation of e2e directories, relay)",
        "Linux stream-socket semantics: bytes arrive in order, read() returns any non-empty prefix",
    ]
    ctx.assume = [
        "messages of one connection are sent one after the other (the recorder's writer threads serialise on the send "
        "mutex since fix c9aa763; the unlocked code is C16_shared_socket_refuted)",
        "the server's create_directory works on directories made by recv itself; a directory that cannot be rotated "
        "(foreign content, bad info magic) is appended to as it is (the 'base' of C16_no_mixing)",
        "a client that disconnects inside or between messages is dropped alone (fix c26107f; the code as found exited: "
        "lost false = Died); protocol violations (bad magic, data before a directory name, impossible lengths) still make "
        "`uftrace recv` exit - modelled as death; a connection that is RESET "
        "(EPOLLERR/EPOLLHUP branch of handle_client_sock) is modelled as removal of the client entry (WHup) and "
        "exercised in-process (peer close of the socketpair, successor accepted on the same descriptor number) and "
        "end-to-end (SO_LINGER 0 / RST); the in-process reset happens after the server has read all that was sent",
        "message length fields < 2^31 (receiver passes them as int); file names without NUL and '/', directory names "
        "that normalise (fix 8baf9e8: lexically - symbolic links inside the receive directory are not considered) to a "
        "single component, all shorter than PATH_MAX; the receiver's directory contains only directories made by recv itself",
        "default.opts is not part of the comparison (the receiver creates its own, the property lists trace, task, "
        "map, symbol and info contents)",
        "e2e comparison is between two runs of a deterministic program: timestamps, pids, session ids and the info "
        "lines that depend on them are normalised away; .dat files are compared as sequences of (type, depth, addr)",
    ]


def verdict_small(ctx, cases, res, what):
    if res is None:
        return
    for i in res["violations"][:3]:
        ctx.violation("C16 violated (%s): the directory written by the receiver differs from the directory the "
                      "recorder wrote locally for the same buffers/files" % what,
                      {"mode": "inproc", "case": jcase(cases[i]), "observed": observed(cases[i])}, True)
    if res["mismatch"] and not res["violations"]:
        i = res["mismatch"][0]
        which = [k for k in ("send", "local", "meta", "recv") if i in res[k]]
        ctx.violation("model and implementation disagree on %d %s case(s) (first: %s side); the property checker accepts "
                      "the implementation's output on every explored case" % (len(res["mismatch"]), what, "/".join(which)),
                      {"mode": "inproc", "correspondence": "C16.Model " + "/".join(which) + " vs cmds/recv.c, utils/utils.c, "
                       "cmds/record.c", "case": jcase(cases[i]), "observed": observed(cases[i])}, False)
    ctx.extra["disagreements_checked"] = ctx.extra.get("disagreements_checked", 0) + len(cases)


def run_small(ctx, exe, cases, name):
    for case in cases:
        run_case(exe, case, os.path.join(ctx.scratch, "ip"))
        nontriv = any(op[0] in ("data", "kernel", "perf", "tdata") and len(op[2]) > 0 for ph in case["phases"] for c in ph for op in c["ops"]) \
            or any(len(v) > 0 for ph in case["phases"] for c in ph for v in c["files"].values())
        j = jcase(case)
        ctx.case(key=json.dumps(j, sort_keys=True), nontrivial=nontriv, tags=case_tags(case), size=case_size(case),
                 sample={"inproc_case": j, "observed": observed(case)} if len(ctx.samples) < 2 and len(case["phases"][0]) > 1 else None)
        bad_exit = [c["exit"] for ph in case["phases"] for c in ph if c["exit"] != 0] + [e for e in case["server_exit"] if e != 0]
        if (bad_exit or case["notes"]) and ctx.extra.setdefault("exit_failures", 0) < 3:
            ctx.extra["exit_failures"] += 1
            ctx.violation("C16 violated (in-process): sender or receiver failed on a well-formed recording "
                          "(exit codes %s %s)" % (bad_exit, case["notes"]),
                          {"mode": "inproc", "case": j, "observed": observed(case)}, True)
    ctx.log("%s: %d cases executed" % (name, len(cases)))
    res = evaluate_small(ctx, cases, name)
    ctx.log("%s: evaluated in Coq" % name)
    verdict_small(ctx, cases, res, "in-process")
    return res


def run_big(ctx, exe, cases):
    pairs, owner = [], []
    for case in cases:
        run_case(exe, case, os.path.join(ctx.scratch, "ip"))
        ctx.case(key=json.dumps(jcase(case), sort_keys=True), tags=case_tags(case) + ["big"], size=case_size(case))
        for ph in case["phases"]:
            for c in ph:
                pairs.append((c["local"] or {}, c["recv"]))
                owner.append(case)
        bad_exit = [c["exit"] for ph in case["phases"] for c in ph if c["exit"] != 0] + [e for e in case["server_exit"] if e != 0]
        if (bad_exit or case["notes"]) and ctx.extra.setdefault("exit_failures_big", 0) < 3:
            ctx.extra["exit_failures_big"] += 1
            ctx.violation("C16 violated (in-process, big payload): sender or receiver failed (exit codes %s %s)" % (bad_exit, case["notes"]),
                          {"mode": "inproc", "case": jcase(case), "observed": observed(case)}, True)
    bad = evaluate_dig(ctx, pairs, "big")
    for i in (bad or [])[:3]:
        ctx.violation("C16 violated (in-process, big payload): received directory differs from the local one",
                      {"mode": "inproc", "case": jcase(owner[i]), "observed": observed(owner[i])}, True)


def run(ctx):
    common_meta(ctx)
    objdir, exe = setup(ctx)
    rng = ctx.rng
    # 1. small in-process cases, full model comparison
    nsmall = ctx.n(90, 1600)
    cases = [gen_reset_case(rng, i) if i % 10 == 7 else gen_overlap_case(rng, i) if i % 10 == 3 else
             gen_threads_case(rng, i) if i % 10 == 1 else gen_vanish_case(rng, i) if i % 10 == 9 else
             gen_case(rng, i, reuse=(i % 9 == 4)) for i in range(nsmall)]
    # metadata files of exactly 64 KiB (thorough: also the neighbours) with the full model comparison
    for i, sz in enumerate(ctx.n([65536], [65536, 65535, 65537, 131072, 4096, 196608])):
        cases[5 + 20 * i] = gen_case(rng, 5 + 20 * i, metasizes=[sz])
    per = 200
    for off in range(0, len(cases), per):
        run_small(ctx, exe, cases[off:off + per], "small%d" % (off // per))
    # 2. big payloads
    sizes = list(META_SIZES)
    rng.shuffle(sizes)
    run_big(ctx, exe, [gen_case(rng, i, big=True, metasizes=[sizes[(3 * i + j) % len(sizes)] for j in range(3)])
                       for i in range(ctx.n(6, 50))])
    # 3. malformed streams (model and implementation die on the same streams)
    raws = []
    for _ in range(ctx.n(1, 6)):
        raws += gen_raw(rng)
    for r in raws:
        run_raw(exe, r, os.path.join(ctx.scratch, "raw"))
        ctx.case(key=("raw", r["tag"], tuple(r["rsched"])), nontrivial=len(r["raw"]) > 0, tags=["raw:" + r["tag"]])
    for r in raws:
        if r.get("outside") and r["tag"].startswith("meta-name"):
            ctx.violation("C16 violated: a client made `uftrace recv` write outside that client's directory: %s (stream: %s)"
                          % (r["outside"], r["tag"]),
                          {"mode": "raw", "raw": {"tag": r["tag"], "chunks": [x.hex() for x in r["raw"]], "rsched": r["rsched"],
                                                  "dir": r["dir"].hex()}, "outside": r["outside"]}, True)
            break
    bad = evaluate_raw(ctx, raws)
    if bad:
        r = raws[bad[0]]
        ctx.violation("model and implementation of the receiver disagree on %d malformed stream(s) (first: %s)" % (len(bad), r["tag"]),
                      {"mode": "raw", "correspondence": "C16.Model.handle_client_sock/serve_stream vs cmds/recv.c",
                       "raw": {"tag": r["tag"], "chunks": [x.hex() for x in r["raw"]], "rsched": r["rsched"], "dir": r["dir"].hex()},
                       "impl": {"server_exit": r["server_exit"], "dir": observed({"phases": [[{"dir": r["dir"], "recv": r["got"]}]]})}},
                      False)
    # 4. end-to-end
    e2e(ctx, objdir)
    # 5. witnesses of the defects found (stay outside the generators above)
    witnesses(ctx, objdir, exe)


def replay(ctx, obj):
    common_meta(ctx)
    objdir, exe = setup(ctx)
    mode = obj.get("mode")
    if mode == "inproc":
        case = unjcase(obj["case"])
        if case["big"]:
            run_big(ctx, exe, [case])
        else:
            res = run_small(ctx, exe, [case], "replay")
            ctx.log("replayed in-process case:", res, json.dumps(observed(case))[:1500])
    elif mode == "raw":
        r = {"tag": obj["raw"]["tag"], "raw": [bytes.fromhex(x) for x in obj["raw"]["chunks"]], "rsched": obj["raw"]["rsched"],
             "dir": bytes.fromhex(obj["raw"]["dir"])}
        run_raw(exe, r, os.path.join(ctx.scratch, "raw"))
        ctx.case(key=("raw", r["tag"]))
        bad = evaluate_raw(ctx, [r])
        ctx.log("replayed raw stream %s: server exit %s, model agrees: %s" % (r["tag"], r["server_exit"], not bad))
        if bad:
            ctx.violation("model and implementation of the receiver disagree on a malformed stream (%s)" % r["tag"],
                          {"mode": "raw", "raw": obj["raw"]}, False)
    elif mode == "e2e":
        res = e2e_round(ctx, objdir, e2e_progs(ctx, objdir), 0, obj["case"]["spec"])
        e2e_verdict(ctx, res)
        ctx.log("replayed e2e round:", json.dumps([m for _, _, m in res])[:1500])
    elif mode == "e2e-backpressure":
        e2e_backpressure(ctx, objdir, e2e_progs(ctx, objdir), obj["case"]["spec"])
    elif mode == "e2e-vanish":
        e2e_vanish(ctx, objdir, e2e_progs(ctx, objdir), obj["case"]["spec"])
    elif mode == "e2e-same-name":
        e2e_same_name(ctx, objdir, e2e_progs(ctx, objdir), obj["case"]["spec"])
    elif mode == "e2e-reset":
        ps, pm = build_progs(ctx)
        m = e2e_reset(ctx, objdir, {"single": ps, "mt": pm}, obj["case"]["spec"])
        ctx.log("replayed e2e reset scenario:", json.dumps(m)[:1200])
    elif obj.get("key") in (KEY_RACE, KEY_SAMEDIR):
        witnesses(ctx, objdir, exe)
    else:
        ctx.log("replay file has no re-executable case")
