def run(ctx, objdir, fixed):
    pass
def replay(ctx, objdir, fixed, obj):
    pass
